#!/bin/bash
# seed_eval.sh <ID> [srcdir]  -- verify a seeded change (patch.diff + demo + meta.json) and run ./check <ID> against it.
# Everything happens in a scratch worktree under /tmp/sv/<ID>, removed afterwards.
ID=$1; SRC=${2:-/tmp/seed_out/$ID}
export GOFLAGS=-mod=mod GOPROXY=off; unset GOSUMDB
WT=/tmp/sv/$ID
mkdir -p /tmp/sv; git -C /repo worktree remove --force $WT 2>/dev/null; rm -rf $WT
git -C /repo worktree add -q --detach $WT || exit 9
meta=$SRC/meta.json
dest=$(python3 -c "import json;print(json.load(open('$meta')).get('demo_dest',''))")
cmd=$(python3 -c "import json;print(json.load(open('$meta')).get('demo_cmd',''))")
echo "== $ID  demo_dest=$dest  demo_cmd=$cmd"
# overlay for tun/client
echo '<!doctype html>' > /tmp/sv/ui_index.html
echo "{\"Replace\":{\"$WT/tun/client/ui/build/index.html\":\"/tmp/sv/ui_index.html\"}}" > /tmp/sv/$ID.overlay.json
cmd=$(python3 -c "import sys,re; c=sys.argv[1]; c=re.split(r'\s{3}\(', c)[0]; c=re.sub(r'/tmp/seed\d*/'+sys.argv[2]+r'\.overlay\.json', '/tmp/sv/'+sys.argv[2]+'.overlay.json', c); c=re.sub(r'/tmp/seed\d*/'+sys.argv[2]+r'(?![\w.])', sys.argv[3], c); c=re.sub(r'/tmp/seed\d*/ui_index.html', '/tmp/sv/ui_index.html', c); print(c)" "$cmd" "$ID" "$WT")
demo_files=$(ls $SRC | grep -v "patch.diff\|meta.json")
place() { for f in $demo_files; do if [ -n "$dest" ] && [ $(echo $demo_files | wc -w) = 1 ]; then mkdir -p $WT/$(dirname $dest); cp $SRC/$f $WT/$dest; else mkdir -p $WT/$(dirname $dest); cp $SRC/$f $WT/$(dirname $dest)/$f; fi; done; }
place
( cd $WT && timeout 600 bash -c "$cmd" > /tmp/sv/$ID.demo_clean.log 2>&1 ); rc_clean=$?
( cd $WT && git apply $SRC/patch.diff ) || { echo "PATCH-DOES-NOT-APPLY"; }
( cd $WT && timeout 600 bash -c "$cmd" > /tmp/sv/$ID.demo_mut.log 2>&1 ); rc_mut=$?
echo "demo: clean rc=$rc_clean  mutated rc=$rc_mut"
# remove demo files, keep patch; build + touched package tests
for f in $demo_files; do rm -f $WT/$dest $WT/$(dirname $dest)/$f; done
pkgs=$(cd $WT && git diff --name-only | grep '\.go$' | xargs -n1 dirname | sort -u | sed 's#^#./#')
( cd $WT && go build $(go list ./... | grep -v 'tun/client\|/cmd/client\|/cmd/specter\|integrations\|util/migrator\|^go.miragespace.co/specter$') > /tmp/sv/$ID.build.log 2>&1 ); rc_build=$?
tpk=""; for p in $pkgs; do case $p in ./tun/client*) ;; *) tpk="$tpk $p";; esac; done
rc_test=0
if [ -n "$tpk" ]; then ( cd $WT && go test -vet=off -count=1 $tpk > /tmp/sv/$ID.test.log 2>&1 ); rc_test=$?; fi
( cd $WT && git checkout -q go.sum go.mod 2>/dev/null )
echo "build rc=$rc_build  existing tests ($tpk) rc=$rc_test"
cd /verif && VERIF_EVIDENCE_DIR=/tmp/sv/evidence VERIF_REPO=$WT VERIF_BUILD=/verif/.build/sv_$ID ./check $ID > /tmp/sv/$ID.check.log 2>&1; rc_check=$?
echo "check rc=$rc_check :: $(grep -v KNOWN-FINDING /tmp/sv/$ID.check.log | grep 'VIOLATION\|OK property\|INCONCLUSIVE\|MACHINERY' | head -2 | cut -c1-220)"
rm -rf /verif/.build/sv_$ID
git -C /repo worktree remove --force $WT
echo "RESULT $ID demo_clean=$rc_clean demo_mut=$rc_mut build=$rc_build tests=$rc_test check=$rc_check"
