#!/bin/bash
# seed_recheck.sh [dir ...]  -- re-run the quick check of every recorded seeded change
# (seeded/<dir>/patch.diff) against the CURRENT checks and the CURRENT /repo HEAD, and write
# seeded/RECHECK.last-pass.md (seeded/RECHECK.md is the merged table of all passes, kept by hand). Every patch is applied in a scratch worktree under /tmp/sv, removed afterwards.
export GOFLAGS=-mod=mod GOPROXY=off; unset GOSUMDB
cd "$(dirname "$0")" || exit 2
dirs="$@"; [ -z "$dirs" ] && dirs=$(ls seeded | grep -E '^C[0-9]+(-r[0-9]+)?$')
mkdir -p /tmp/sv
out=/tmp/sv/recheck.tsv; : > $out
for d in $dirs; do
  id=${d%%-*}
  wt=/tmp/sv/rc_$d
  git -C /repo worktree remove --force $wt 2>/dev/null; rm -rf $wt
  git -C /repo worktree add -q --detach $wt || { echo -e "$d\tworktree-failed\t" >> $out; continue; }
  if ! git -C $wt apply seeded/$d/patch.diff 2>/dev/null && ! git -C $wt apply "$(pwd)/seeded/$d/patch.diff" 2>/tmp/sv/rc_$d.apply; then
    echo -e "$d\tpatch-does-not-apply-to-HEAD\t$(head -1 /tmp/sv/rc_$d.apply | cut -c1-120)" >> $out
    git -C /repo worktree remove --force $wt; continue
  fi
  VERIF_EVIDENCE_DIR=/tmp/sv/evidence VERIF_REPO=$wt VERIF_BUILD=/verif/.build/rc_$d ./check $id > /tmp/sv/rc_$d.log 2>&1; rc=$?
  sig=$(grep -v KNOWN-FINDING /tmp/sv/rc_$d.log | grep -o 'signature=[^ ]*' | head -1)
  case $rc in 1) res=caught;; 0) res=MISSED;; *) res="inconclusive(rc=$rc)";; esac
  echo -e "$d\t$res\t$sig" >> $out
  echo "$d $res $sig"
  rm -rf /verif/.build/rc_$d; git -C /repo worktree remove --force $wt
done
git clean -fdq replays/ 2>/dev/null
{
  echo "# Re-check of all recorded seeded changes against the current checks"
  echo
  echo "Produced by \`./seed_recheck.sh\` on $(date -u +%Y-%m-%dT%H:%MZ), /repo HEAD $(git -C /repo rev-parse --short HEAD), /verif $(git rev-parse --short HEAD). Quick tier, VERIF_SEED=${VERIF_SEED:-1}."
  echo
  echo "| seeded change | result | signature reported |"
  echo "|---|---|---|"
  sort $out | awk -F'\t' '{printf "| %s | %s | %s |\n", $1, $2, $3}'
  echo
  echo "caught: $(grep -c $'\tcaught\t' $out)  missed: $(grep -c $'\tMISSED\t' $out)  other: $(grep -vc $'\tcaught\t\|\tMISSED\t' $out)"
} > ${RECHECK_OUT:-seeded/RECHECK.last-pass.md}
tail -1 ${RECHECK_OUT:-seeded/RECHECK.last-pass.md}
