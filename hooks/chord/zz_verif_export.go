// Injected into package chord by /verif/check through `go test -overlay`.
// This file is NOT part of the repository; it only adds accessors and
// synchronous drivers for the verification harness. No logic a property
// depends on lives here.
package chord

import (
	"go.miragespace.co/specter/spec/chord"
)

func (n *LocalNode) VerifPredecessor() chord.VNode { return n.getPredecessor() }

func (n *LocalNode) VerifSuccessors() []chord.VNode { return n.getSuccessors() }

func (n *LocalNode) VerifSurrogate() chord.VNode {
	n.surrogateMu.RLock()
	defer n.surrogateMu.RUnlock()
	return n.surrogate
}

func (n *LocalNode) VerifFinger(k int) chord.VNode {
	var out chord.VNode
	n.fingers[k].computeView(func(node chord.VNode) { out = node })
	return out
}

func (n *LocalNode) VerifState() chord.State          { return n.state.Get() }
func (n *LocalNode) VerifStateHistory() []chord.State { return n.state.History() }

func (n *LocalNode) VerifStabilize() error        { return n.stabilize() }
func (n *LocalNode) VerifFixFinger() error        { return n.fixFinger() }
func (n *LocalNode) VerifCheckPredecessor() error { return n.checkPredecessor() }
func (n *LocalNode) VerifKV() chord.KVProvider    { return n.kv }

// VerifStop force-stops the background tasks of a node that did not leave
// gracefully (teardown only). Safe to call more than once.
func (n *LocalNode) VerifStop() {
	func() {
		defer func() { recover() }()
		close(n.stopCh)
	}()
	n.stopWg.Wait()
}

// VerifNodeState exposes the unexported lifecycle cell for C13.
type VerifNodeState struct{ s *nodeState }

func VerifNewNodeState(initial chord.State) *VerifNodeState {
	return &VerifNodeState{s: newNodeState(initial)}
}
func (v *VerifNodeState) Transition(exp, nxt chord.State) (chord.State, bool) {
	return v.s.Transition(exp, nxt)
}
func (v *VerifNodeState) Set(val chord.State)    { v.s.Set(val) }
func (v *VerifNodeState) Get() chord.State       { return v.s.Get() }
func (v *VerifNodeState) History() []chord.State { return v.s.History() }
