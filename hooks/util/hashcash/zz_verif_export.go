// Injected into package hashcash by /verif/check through `go test -overlay`.
// This file is NOT part of the repository; it only exposes the unexported
// bit test to the verification harness (C31). No logic lives here.
package hashcash

// VerifVerifyBits calls the unexported verifyBits exactly as Verify/Solve do.
func VerifVerifyBits(hash []byte, bits, n int) bool { return verifyBits(hash, bits, n) }
