// Injected into package overlay by /verif/check through `go test -overlay`.
// This file is NOT part of the repository; it only adds read accessors for
// the verification harness (C41). No logic a property depends on lives here.
package overlay

import (
	"net"

	"go.miragespace.co/specter/spec/protocol"

	"github.com/quic-go/quic-go"
)

// VerifCacheEntry is a snapshot of one entry of the cached-connection table.
type VerifCacheEntry struct {
	Key      string
	Peer     *protocol.Node
	Conn     *quic.Conn
	Incoming bool
}

// VerifCached returns the entries of the connection cache (lock-free read of
// the concurrent map, exactly like ListConnected does).
func (t *QUIC) VerifCached() []VerifCacheEntry {
	out := make([]VerifCacheEntry, 0, 2)
	t.cachedConnections.Range(func(key string, value *nodeConnection) bool {
		out = append(out, VerifCacheEntry{Key: key, Peer: value.peer, Conn: value.quic, Incoming: value.direction == directionIncoming})
		return true
	})
	return out
}

// VerifCacheKey exposes the cache key derivation for a peer identity.
func (t *QUIC) VerifCacheKey(peer *protocol.Node) string { return t.makeCachedKey(peer) }

// VerifConnOf returns the QUIC connection behind a stream returned by
// DialStream / delivered by AcceptStream (nil for anything else).
func VerifConnOf(c net.Conn) *quic.Conn {
	if qc, ok := c.(*quicConn); ok {
		return qc.q
	}
	return nil
}
