// Injected into package rtt by /verif/check through `go test -overlay`.
// Not part of the repository: accessors/setters for the verification harness
// (C50). No logic a property depends on lives here.
package rtt

import "time"

// VerifShiftTimes moves the timestamps of every retained sample of key by d
// (negative = older), so staleness can be produced without sleeping.
func (i *Instrumentation) VerifShiftTimes(key string, d time.Duration) {
	c, ok := i.measurement.Load(key)
	if !ok {
		return
	}
	c.mu.Lock()
	for k := range c.data {
		c.data[k].time = c.data[k].time.Add(d)
	}
	c.mu.Unlock()
}

// VerifRetained returns the retained sample values of key, oldest first.
func (i *Instrumentation) VerifRetained(key string) []float64 {
	c, ok := i.measurement.Load(key)
	if !ok {
		return nil
	}
	c.mu.RLock()
	defer c.mu.RUnlock()
	out := make([]float64, len(c.data))
	for k, p := range c.data {
		out[k] = p.value
	}
	return out
}
