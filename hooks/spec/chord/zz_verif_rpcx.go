// Injected into package chord (spec/chord) by /verif/check through
// `go test -overlay`. NOT part of the repository. Read-only accessors for the
// error registry so that the C14 check enumerates whatever errorDef registered
// at init time (an error added later is covered automatically).
package chord

// VerifErrorDefs returns a copy of the message -> sentinel registry.
func VerifErrorDefs() map[string]error {
	out := make(map[string]error, len(errorStrMap))
	for k, v := range errorStrMap {
		out[k] = v
	}
	return out
}

// VerifRetryableErrs returns a copy of the retryable list (includes
// context.DeadlineExceeded).
func VerifRetryableErrs() []error {
	return append([]error(nil), retryableErrs...)
}
