// Injected into package server (tun/server) by /verif/check through
// `go test -overlay`. This file is NOT part of the repository; it only adds
// exported accessors / thin synchronous wrappers around unexported functions
// for the verification harness. No logic a property depends on lives here.
package server

import (
	"context"
	"crypto/tls"
	"time"

	"go.miragespace.co/specter/spec/protocol"
	"go.miragespace.co/specter/spec/transport"
)

// VerifRouteLoad is the flattened result of routeCacheLoader.
type VerifRouteLoad struct {
	Routes  []*protocol.TunnelRoute
	Err     error // the classified result (routesResult.err)
	TTL     time.Duration
	Cost    int64
	LoadErr error // the loader's own error return
}

func (s *Server) VerifRouteCacheLoader(ctx context.Context, hostname string) VerifRouteLoad {
	ret, err := s.routeCacheLoader(ctx, hostname)
	return VerifRouteLoad{Routes: ret.Value.routes, Err: ret.Value.err, TTL: ret.TTL, Cost: ret.Cost, LoadErr: err}
}

// VerifKeylessLoad is the flattened result of keylessCertLoader.
type VerifKeylessLoad struct {
	Cert    *tls.Certificate
	Err     error
	TTL     time.Duration
	Cost    int64
	LoadErr error
}

func (s *Server) VerifKeylessCertLoader(ctx context.Context, hostname string) VerifKeylessLoad {
	ret, err := s.keylessCertLoader(ctx, hostname)
	return VerifKeylessLoad{Cert: ret.Value.cert, Err: ret.Value.err, TTL: ret.TTL, Cost: ret.Cost, LoadErr: err}
}

func VerifComputeKeylessTTL(cert *tls.Certificate, now time.Time) time.Duration {
	return computeKeylessTTL(cert, now)
}

const (
	VerifKeylessExpirySkew  = keylessExpirySkew
	VerifKeylessPositiveTTL = keylessPositiveTTL
)

// VerifVerifyClientIdentity is the twirp RequestRouted hook.
func (s *Server) VerifVerifyClientIdentity(ctx context.Context) (context.Context, error) {
	return s.verifyClientIdentity(ctx)
}

func (s *Server) VerifHandleProxyConn(ctx context.Context, delegation *transport.StreamDelegate) {
	s.handleProxyConn(ctx, delegation)
}

func (s *Server) VerifPublishDestinations(ctx context.Context) error {
	return s.publishDestinations(ctx)
}
