// Injected into package client (tun/client) by /verif/check through
// `go test -overlay`. This file is NOT part of the repository; it only adds
// accessors, setters and thin synchronous wrappers for the verification
// harness (C43, C44, C45, C50). No logic a property depends on lives here.
package client

import (
	"context"
	"net"
	"time"

	"go.miragespace.co/specter/spec/protocol"
	"go.miragespace.co/specter/spec/rpc"
	"go.miragespace.co/specter/util/acceptor"

	"github.com/zhangyunhao116/skipmap"
	"go.uber.org/atomic"
)

// VerifNewClient builds a Client with the same field initialisation as
// NewClient, minus the dial to the apex (bootstrap), the transport
// certificate and the keyless cache. The RPC stub is the one given.
func VerifNewClient(ctx context.Context, cfg ClientConfig, tc rpc.TunnelClient) *Client {
	return &Client{
		ClientConfig: cfg,
		parentCtx:    ctx,
		rootDomain:   atomic.NewString(""),
		proxies:      skipmap.NewString[*httpProxy](),
		connections:  skipmap.NewString[*protocol.Node](),
		tunnelClient: tc,
		rpcAcceptor:  acceptor.NewH2Acceptor(nil),
		closeCh:      make(chan struct{}),
	}
}

// VerifSetConnections replaces the connection table (keyed by address, as
// openRPC does).
func (c *Client) VerifSetConnections(nodes []*protocol.Node) {
	c.connections.Range(func(k string, _ *protocol.Node) bool {
		c.connections.Delete(k)
		return true
	})
	for _, n := range nodes {
		c.connections.Store(n.GetAddress(), n)
	}
}

func (c *Client) VerifSetRootDomain(s string) { c.rootDomain.Store(s) }

// VerifHandleIncoming is the handler Start() registers for Stream_DIRECT,
// after the link header has been received.
func (c *Client) VerifHandleIncoming(ctx context.Context, link *protocol.Link, conn net.Conn) error {
	return c.handleIncomingDelegation(ctx, link, conn)
}

// VerifDoReload is what SIGHUP / POST /api/reload run.
func (c *Client) VerifDoReload(ctx context.Context) { c.doReload(ctx) }

// VerifProxyInfo reports the cached proxy of a hostname: an identity token
// (the pointer) and the header timeout it was built with.
func (c *Client) VerifProxyInfo(hostname string) (id any, headerTimeout time.Duration, ok bool) {
	p, ok := c.proxies.Load(hostname)
	if !ok {
		return nil, 0, false
	}
	return p, p.forwarder.ReadHeaderTimeout, true
}

func (c *Client) VerifCachedProxies() (hostnames []string) {
	c.proxies.Range(func(k string, _ *httpProxy) bool {
		hostnames = append(hostnames, k)
		return true
	})
	return
}

// VerifShutdownProxies is teardown only: closes every cached proxy including
// its forwarder (Client.Close leaves forwarders' live connections open).
func (c *Client) VerifShutdownProxies() {
	c.proxies.Range(func(k string, p *httpProxy) bool {
		p.acceptor.Close()
		p.forwarder.Close()
		return true
	})
}

// VerifRouteTarget reads the router the way handleIncomingDelegation does.
func (c *Client) VerifRouteTarget(hostname string) (string, bool) {
	r, ok := c.Configuration.router.Load(hostname)
	if !ok || r.parsed == nil {
		return "", ok
	}
	return r.parsed.String(), true
}

// VerifNewConfigAt is an in-memory configuration bound to path (NewConfig
// requires the file to exist already).
func VerifNewConfigAt(path string) *Config {
	return &Config{path: path, router: skipmap.NewString[route](), Version: 2}
}

func (c *Config) VerifWriteFile() error { return c.writeFile() }
func (c *Config) VerifValidate() error  { return c.validate() }
func (c *Config) VerifPath() string     { return c.path }
func (c *Config) VerifBuildRouter()     { c.buildRouter() }

func VerifDiffTunnels(old, new []Tunnel) []Tunnel { return diffTunnels(old, new) }

// VerifStartLocalServer starts the local HTTP API (POST /api/unpublish/{hostname},
// /api/release/{hostname}, /api/reload, ...) on the given listener, as Start() does when a
// ServerListener is configured.
func (c *Client) VerifStartLocalServer(ctx context.Context, l net.Listener) {
	c.ServerListener = l
	c.startLocalServer(ctx)
}
