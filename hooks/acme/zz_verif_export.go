// Injected into package acme by /verif/check through `go test -overlay`.
// This file is NOT part of the repository; it only adds accessors for the
// verification harness (C48, C49). No logic a property depends on lives here.
package acme

// VerifDNSKeyName is the KV key under which challenge values of a label live.
func VerifDNSKeyName(label string) string { return dnsKeyName(label) }

// VerifKVKeyName is the KV key of a certificate-storage key.
func VerifKVKeyName(key string) string { return kvKeyName(key) }
