// Injected into package gateway by /verif/check through `go test -overlay`.
// This file is NOT part of the repository; it only adds accessors / thin
// synchronous wrappers for the verification harness (C34-C37). No logic a
// property depends on lives here.
package gateway

import (
	"context"
	"net/http"
)

// VerifExtractHostname exposes the host -> tunnel name mapping (C34).
func (g *Gateway) VerifExtractHostname(host string) (string, error) {
	return g.extractHostname(host)
}

// VerifProxyHandler is the handler served on tunnel (non-apex) HTTP/1.1,
// HTTP/2 and HTTP/3 connections (C35, C36).
func (g *Gateway) VerifProxyHandler() http.Handler { return g.h2TunnelServer.Handler }

// VerifH3ProxyHandler is the handler of the HTTP/3 tunnel server (the same
// router instance as VerifProxyHandler in the current code).
func (g *Gateway) VerifH3ProxyHandler() http.Handler { return g.h3TunnelServer.Handler }

// VerifApexHandler is the handler served on apex (root domain) connections,
// nil when no root domain is configured (C37).
func (g *Gateway) VerifApexHandler() http.Handler {
	if g.tcpApexServer == nil {
		return nil
	}
	return g.tcpApexServer.Handler
}

// VerifHTTPHandler is the handler of the plain HTTP listener (CONNECT and
// HTTPS redirect) (C36).
func (g *Gateway) VerifHTTPHandler() http.Handler { return g.httpServer.Handler }

// VerifForwardTCP runs the raw TCP forwarding path for one accepted stream
// exactly as handleH2Multiplex / handleH3Multiplex do (C36).
func (g *Gateway) VerifForwardTCP(ctx context.Context, host, remote string, conn DeadlineReadWriteCloser) error {
	return g.forwardTCP(ctx, host, remote, conn)
}
