// Package verifexport exists only in verification builds: /verif/check injects
// it as /repo/cmd/verifexport through `go test -overlay`. It re-exports the
// internal package cmd/internal/listen (unreachable from another module) and
// contains no logic of its own.
package verifexport

import (
	"go.miragespace.co/specter/cmd/internal/listen"
)

type (
	ListenAddress   = listen.Address
	ListenIPVersion = listen.IPVersion
)

const (
	ListenIPAny                 = listen.IPAny
	ListenIPV4                  = listen.IPV4
	ListenIPV6                  = listen.IPV6
	ListenFlyGlobalServicesHost = listen.FlyGlobalServicesHost
)

func ListenParseAddresses(proto string, baseAddrs []string, overrides []string) ([]listen.Address, error) {
	return listen.ParseAddresses(proto, baseAddrs, overrides)
}
