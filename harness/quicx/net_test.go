package quicx

// Real overlay.QUIC transports on 127.0.0.1 wired exactly like cmd/server
// wires the chord transport (one UDP socket per node shared by the ALPN mux
// listener and the dialer, mutual TLS from one CA, VirtualTransport).
// The harness wraps the two public seams (QuicDialer and q.Listener) so that
// it sees every connection end that exists, and reads the cache through the
// overlay-injected accessor.

import (
	"context"
	"crypto/ecdsa"
	"crypto/elliptic"
	"crypto/rand"
	"crypto/tls"
	"crypto/x509"
	"crypto/x509/pkix"
	"encoding/hex"
	"errors"
	"fmt"
	"io"
	"math/big"
	"net"
	"os"
	"sync"
	"time"

	"go.miragespace.co/specter/overlay"
	"go.miragespace.co/specter/spec/cipher"
	"go.miragespace.co/specter/spec/protocol"
	"go.miragespace.co/specter/spec/transport/q"
	"go.miragespace.co/specter/spec/tun"

	"github.com/quic-go/quic-go"
	"go.uber.org/zap"
)

// ---- throw-away CA ---------------------------------------------------------

var (
	pkiOnce sync.Once
	pkiCA   *x509.CertPool
	pkiNode tls.Certificate
	pkiErr  error
)

func testPKI() (*x509.CertPool, tls.Certificate, error) {
	pkiOnce.Do(func() {
		caKey, err := ecdsa.GenerateKey(elliptic.P256(), rand.Reader)
		if err != nil {
			pkiErr = err
			return
		}
		caTpl := &x509.Certificate{
			SerialNumber:          big.NewInt(1),
			Subject:               pkix.Name{CommonName: "verif throw-away CA"},
			NotBefore:             time.Now().Add(-time.Hour),
			NotAfter:              time.Now().Add(24 * time.Hour),
			IsCA:                  true,
			BasicConstraintsValid: true,
			KeyUsage:              x509.KeyUsageCertSign | x509.KeyUsageDigitalSignature,
		}
		caDER, err := x509.CreateCertificate(rand.Reader, caTpl, caTpl, &caKey.PublicKey, caKey)
		if err != nil {
			pkiErr = err
			return
		}
		caCert, _ := x509.ParseCertificate(caDER)
		pkiCA = x509.NewCertPool()
		pkiCA.AddCert(caCert)

		nodeKey, err := ecdsa.GenerateKey(elliptic.P256(), rand.Reader)
		if err != nil {
			pkiErr = err
			return
		}
		nodeTpl := &x509.Certificate{
			SerialNumber: big.NewInt(2),
			Subject:      pkix.Name{CommonName: "verif node"},
			NotBefore:    time.Now().Add(-time.Hour),
			NotAfter:     time.Now().Add(24 * time.Hour),
			KeyUsage:     x509.KeyUsageDigitalSignature,
			ExtKeyUsage:  []x509.ExtKeyUsage{x509.ExtKeyUsageServerAuth, x509.ExtKeyUsageClientAuth},
			IPAddresses:  []net.IP{net.IPv4(127, 0, 0, 1)},
			DNSNames:     []string{"localhost"},
		}
		nodeDER, err := x509.CreateCertificate(rand.Reader, nodeTpl, caCert, &nodeKey.PublicKey, caKey)
		if err != nil {
			pkiErr = err
			return
		}
		pkiNode = tls.Certificate{Certificate: [][]byte{nodeDER}, PrivateKey: nodeKey}
	})
	return pkiCA, pkiNode, pkiErr
}

// ---- connection-end bookkeeping -------------------------------------------

type endInfo struct {
	node  int
	role  string // "out" (dialled by node) | "in" (accepted by node)
	seq   int
	conn  *quic.Conn
	km    string // TLS exported keying material: equal on both ends of one connection
	cause string // close cause once closed
	code  int64  // application error code, -1 if not an application error / still open
	rem   bool   // closed by the remote end
}

type event struct {
	T    int64  `json:"t_us"`
	Node string `json:"node"`
	Kind string `json:"kind"`
	Conn string `json:"conn,omitempty"`
	Info string `json:"info,omitempty"`
}

type world struct {
	t0     time.Time
	mu     sync.Mutex
	ends   map[*quic.Conn]*endInfo
	seq    int
	events []event
	wg     sync.WaitGroup
}

func newWorld() *world {
	return &world{t0: time.Now(), ends: map[*quic.Conn]*endInfo{}}
}

func (w *world) now() int64 { return time.Since(w.t0).Microseconds() }

func nodeName(i int) string { return string(rune('A' + i)) }

func (w *world) log(node int, kind, conn, info string) {
	ts := w.now()
	w.mu.Lock()
	if len(w.events) < 1500 {
		w.events = append(w.events, event{T: ts, Node: nodeName(node), Kind: kind, Conn: conn, Info: info})
	}
	w.mu.Unlock()
}

func kmOf(c *quic.Conn) string {
	st := c.ConnectionState().TLS
	b, err := st.ExportKeyingMaterial("verif-c41", nil, 6)
	if err != nil {
		return ""
	}
	return hex.EncodeToString(b)
}

func classifyCause(err error) (string, int64, bool) {
	if err == nil {
		return "", -1, false
	}
	var ae *quic.ApplicationError
	if errors.As(err, &ae) {
		return fmt.Sprintf("app %d %s: %s", ae.ErrorCode, map[bool]string{true: "remote", false: "local"}[ae.Remote], ae.ErrorMessage), int64(ae.ErrorCode), ae.Remote
	}
	return err.Error(), -1, false
}

// track registers a connection end the first time the harness sees it.
func (w *world) track(node int, role string, c *quic.Conn) *endInfo {
	if c == nil {
		return nil
	}
	w.mu.Lock()
	e, ok := w.ends[c]
	if !ok {
		w.seq++
		e = &endInfo{node: node, role: role, seq: w.seq, conn: c, code: -1}
		w.ends[c] = e
	}
	w.mu.Unlock()
	if ok {
		return e
	}
	km := kmOf(c)
	w.mu.Lock()
	e.km = km
	w.mu.Unlock()
	w.log(node, "conn-"+role, km, "")
	w.wg.Add(1)
	go func() {
		defer w.wg.Done()
		<-c.Context().Done()
		cause, code, rem := classifyCause(context.Cause(c.Context()))
		w.mu.Lock()
		e.cause, e.code, e.rem = cause, code, rem
		if e.km == "" {
			e.km = kmOf(c)
		}
		km := e.km
		w.mu.Unlock()
		w.log(node, "conn-closed", km, cause)
	}()
	return e
}

func (w *world) end(c *quic.Conn) *endInfo {
	w.mu.Lock()
	defer w.mu.Unlock()
	return w.ends[c]
}

func (w *world) kmOfEnd(c *quic.Conn) string {
	if c == nil {
		return ""
	}
	w.mu.Lock()
	e := w.ends[c]
	var km string
	if e != nil {
		km = e.km
	}
	w.mu.Unlock()
	if km == "" {
		km = kmOf(c)
		if e != nil && km != "" {
			w.mu.Lock()
			e.km = km
			w.mu.Unlock()
		}
	}
	return km
}

// closedInfo reports the close cause of an end (ok=false while it is open).
func (w *world) closedInfo(c *quic.Conn) (cause string, code int64, remote bool, closed bool) {
	select {
	case <-c.Context().Done():
	default:
		return "", -1, false, false
	}
	cause, code, remote = classifyCause(context.Cause(c.Context()))
	return cause, code, remote, true
}

// ---- seams -----------------------------------------------------------------

type trackDialer struct {
	w    *world
	node int
	tr   *quic.Transport
}

func (d *trackDialer) DialEarly(ctx context.Context, addr net.Addr, tlsConf *tls.Config, cfg *quic.Config) (*quic.Conn, error) {
	c, err := d.tr.DialEarly(ctx, addr, tlsConf, cfg)
	if err == nil {
		d.w.track(d.node, "out", c)
	}
	return c, err
}

type trackListener struct {
	q.Listener
	w    *world
	node int
}

func (l *trackListener) Accept(ctx context.Context) (*quic.Conn, error) {
	c, err := l.Listener.Accept(ctx)
	if err == nil {
		l.w.track(l.node, "in", c)
	}
	return c, err
}

// ---- simulated one-way latency ----------------------------------------------

// delayConn delays every outgoing datagram by a fixed one-way latency (order
// preserving). On loopback the one-way delay is ~50 us, which makes orderings
// that are the norm on a real network (two handshakes completing within one
// one-way delay of each other) rare; the generated latency brings them back.
type delayConn struct {
	*net.UDPConn
	delay time.Duration
	q     chan delayedPkt
	done  chan struct{}
	once  sync.Once
}

type delayedPkt struct {
	b    []byte
	addr net.Addr
	due  time.Time
}

func newDelayConn(u *net.UDPConn, d time.Duration) *delayConn {
	c := &delayConn{UDPConn: u, delay: d, q: make(chan delayedPkt, 4096), done: make(chan struct{})}
	go func() {
		for {
			select {
			case <-c.done:
				return
			case p := <-c.q:
				if w := time.Until(p.due); w > 0 {
					time.Sleep(w)
				}
				c.UDPConn.WriteTo(p.b, p.addr)
			}
		}
	}()
	return c
}

func (c *delayConn) WriteTo(b []byte, addr net.Addr) (int, error) {
	p := delayedPkt{b: append([]byte(nil), b...), addr: addr, due: time.Now().Add(c.delay)}
	select {
	case c.q <- p:
	case <-c.done:
		return 0, net.ErrClosed
	default: // queue overflow = packet loss, QUIC retransmits
	}
	return len(b), nil
}

func (c *delayConn) Close() error {
	c.once.Do(func() { close(c.done) })
	return c.UDPConn.Close()
}

// plainPacketConn hides the UDP fast paths (WriteMsgUDP / SyscallConn) of the
// embedded *net.UDPConn so that quic-go sends through WriteTo.
type plainPacketConn struct{ c *delayConn }

func (p plainPacketConn) ReadFrom(b []byte) (int, net.Addr, error)  { return p.c.UDPConn.ReadFrom(b) }
func (p plainPacketConn) WriteTo(b []byte, a net.Addr) (int, error) { return p.c.WriteTo(b, a) }
func (p plainPacketConn) Close() error                              { return p.c.Close() }
func (p plainPacketConn) LocalAddr() net.Addr                       { return p.c.UDPConn.LocalAddr() }
func (p plainPacketConn) SetDeadline(t time.Time) error             { return p.c.UDPConn.SetDeadline(t) }
func (p plainPacketConn) SetReadDeadline(t time.Time) error         { return p.c.UDPConn.SetReadDeadline(t) }
func (p plainPacketConn) SetWriteDeadline(t time.Time) error        { return p.c.UDPConn.SetWriteDeadline(t) }
func (p plainPacketConn) SetReadBuffer(n int) error                 { return p.c.UDPConn.SetReadBuffer(n) }
func (p plainPacketConn) SetWriteBuffer(n int) error                { return p.c.UDPConn.SetWriteBuffer(n) }

// ---- node ------------------------------------------------------------------

type node struct {
	idx    int
	addr   string
	udp    *net.UDPConn
	pc     net.PacketConn
	qtr    *quic.Transport
	mux    *overlay.ALPNMux
	tr     *overlay.QUIC
	ctx    context.Context
	cancel context.CancelFunc
}

func (n *node) identity(unknown bool) *protocol.Node {
	if unknown {
		return &protocol.Node{Address: n.addr, Unknown: true}
	}
	return &protocol.Node{Address: n.addr, Id: uint64(1000 + n.idx)}
}

var debugLogger = sync.OnceValue(func() *zap.Logger {
	if os.Getenv("VERIF_C41_LOG") != "" {
		l, err := zap.NewDevelopment()
		if err == nil {
			return l
		}
	}
	return zap.NewNop()
})

func startNode(parent context.Context, w *world, idx int, latency time.Duration, onStream func(node int, c *quic.Conn)) (*node, error) {
	ca, cert, err := testPKI()
	if err != nil {
		return nil, err
	}
	udp, err := net.ListenUDP("udp4", &net.UDPAddr{IP: net.IPv4(127, 0, 0, 1)})
	if err != nil {
		return nil, err
	}
	n := &node{idx: idx, udp: udp, addr: udp.LocalAddr().String()}
	n.ctx, n.cancel = context.WithCancel(parent)
	if latency > 0 {
		n.pc = plainPacketConn{newDelayConn(udp, latency)}
	} else {
		n.pc = udp
	}
	n.qtr = &quic.Transport{Conn: n.pc}
	n.mux, err = overlay.NewMux(n.qtr)
	if err != nil {
		udp.Close()
		return nil, err
	}
	alpn := tun.ALPN(protocol.Link_SPECTER_CHORD)
	tlsCfg := cipher.GetPeerTLSConfig(ca, cert, []string{alpn})
	lis := &trackListener{Listener: n.mux.With(tlsCfg, alpn), w: w, node: idx}
	n.tr = overlay.NewQUIC(overlay.TransportConfig{
		Logger:           debugLogger().With(zap.String("node", nodeName(idx))),
		VirtualTransport: true,
		ClientTLS:        tlsCfg,
		QuicTransport:    &trackDialer{w: w, node: idx, tr: n.qtr},
		Endpoint:         &protocol.Node{Address: n.addr},
	})
	go n.mux.Accept(n.ctx)
	go n.tr.AcceptWithListener(n.ctx, lis)
	go func() { // echo service for every delivered stream
		for {
			select {
			case <-n.ctx.Done():
				return
			case d := <-n.tr.AcceptStream():
				if onStream != nil {
					onStream(idx, overlay.VerifConnOf(d.Conn))
				}
				go func(c net.Conn) {
					defer c.Close()
					io.Copy(c, c)
				}(d.Conn)
			}
		}
	}()
	return n, nil
}

func (n *node) stop() {
	n.cancel()
	n.tr.Stop()
	n.mux.Close()
	n.qtr.Close()
	n.pc.Close()
	n.udp.Close()
}

// cachedFor returns the cache entries of n whose peer is the node at addr.
func (n *node) cachedFor(addr string) []overlay.VerifCacheEntry {
	var out []overlay.VerifCacheEntry
	for _, e := range n.tr.VerifCached() {
		if e.Peer.GetAddress() == addr {
			out = append(out, e)
		}
	}
	return out
}
