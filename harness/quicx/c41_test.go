package quicx

// C41 - simultaneous peer connections converge on one shared connection.
//
// Randomised stress of the REAL transports (no model): generated programmes
// of concurrent DialStream calls between 2 (thorough: also 3) overlay.QUIC
// instances on loopback, with generated pre-existing cache state, start
// offsets (including barrier-synchronised simultaneous starts), identity
// flavours (a dial with an `Unknown` identity bypasses the cache fast path and
// therefore negotiates while a connection is already cached - this is what a
// bootstrap dial does in cmd/server), injected connection loss between/around
// rounds, a generated simulated one-way network latency (0 = raw loopback,
// 0.3-8 ms through a delaying PacketConn) and a generated number of rounds.
//
// Oracle (every clause is timing independent; anything that depends on
// waiting is a budget and ends as "inconclusive"):
//
//  E1  a connection end that a peer *chose* (observed in its cache, handed to a
//      DialStream caller, or delivering streams) whose FIRST close cause is one
//      of the negotiation's own close codes (508 loser, 406 rejected, 401 reap)
//      - the negotiation closed a connection that a peer cached / reused, i.e.
//      the peer cached a connection the other peer did not cache.
//  E2  after the caches stopped changing: each side caches at most one
//      connection per peer; if both cache one, both are alive and are the two
//      ends of the same connection (equal TLS exported keying material); a
//      side caching a live connection that the other side does not cache while
//      the other end is alive is a violation too.
//  E3  streams handed out before/during the negotiation still echo after the
//      settle when their connection is alive (evidence only) and their
//      connection was not closed by the negotiation (E1).
//
// Known finding (listed in known_findings.d/quicx.json, witnessed at the start
// of every run): concurrent all-fresh negotiations make the two peers cache
// different connections and close each other's choice. Evidence of exactly
// that class (a connection cached by ONE peer only and closed 508 by the other)
// is counted and skipped; every other class stays asserted.
//
// The implementation depends on two 1 s grace periods (stream reset 1 s after
// quicConn.Close, rejecting acceptor closes after 1 s); when this process was
// measurably starved (>= 300 ms oversleep of the poller) the two classes that a
// late delivery alone can produce are reported as inconclusive.

import (
	"context"
	"encoding/json"
	"errors"
	"fmt"
	"math/rand"
	"net"
	"os"
	"runtime"
	"sort"
	"strings"
	"sync"
	"sync/atomic"
	"testing"
	"time"

	"go.miragespace.co/specter/overlay"
	"go.miragespace.co/specter/spec/protocol"

	"github.com/quic-go/quic-go"

	"verifharness/internal/ev"
)

const (
	lossCode       = 999 // application error code used by the harness for injected connection loss
	dialBudget     = 25 * time.Second
	settleBudget   = 15 * time.Second
	settleQuiet    = 250 * time.Millisecond
	stableBadAfter = 4 * time.Second
	echoBudget     = 10 * time.Second
	stallLimitUS   = 300_000
)

// ---- programme -------------------------------------------------------------

type dialSpec struct {
	From    int  `json:"from"`
	To      int  `json:"to"`
	OffUS   int  `json:"off_us"`
	Unknown bool `json:"unknown,omitempty"`
}

type lossSpec struct {
	Node   int `json:"node"` // the side whose cached connection to Peer is closed by the harness
	Peer   int `json:"peer"`
	LeadUS int `json:"lead_us"` // how long before the start barrier of the round
}

type roundSpec struct {
	Loss  *lossSpec  `json:"loss,omitempty"`
	Dials []dialSpec `json:"dials"`
	GapUS int        `json:"gap_us"`
}

type preSpec struct {
	From int `json:"from"`
	To   int `json:"to"`
}

type program struct {
	Nodes     int         `json:"nodes"`
	LatencyUS int         `json:"latency_us"` // simulated one-way network latency (0 = raw loopback)
	Pre       []preSpec   `json:"pre,omitempty"`
	Rounds    []roundSpec `json:"rounds"`
}

func (p program) key() string {
	b, _ := json.Marshal(p)
	return string(b)
}

var offsetsUS = []int{0, 0, 100, 250, 500, 1000, 2000, 3000}
var leadsUS = []int{0, 100, 500, 2000, 20000, 100000}
var gapsUS = []int{0, 2000, 30000, 300000}
var latenciesUS = []int{0, 0, 300, 1000, 3000, 3000, 8000}

func genProgram(r *rand.Rand, thorough bool) program {
	p := program{Nodes: 2}
	if thorough && r.Intn(4) == 0 {
		p.Nodes = 3
	}
	p.LatencyUS = latenciesUS[r.Intn(len(latenciesUS))]
	type pair struct{ a, b int }
	var pairs []pair
	for a := 0; a < p.Nodes; a++ {
		for b := a + 1; b < p.Nodes; b++ {
			pairs = append(pairs, pair{a, b})
		}
	}
	cachedMaybe := map[pair]bool{}
	for _, pr := range pairs {
		switch r.Intn(10) {
		case 0, 1, 2, 3:
		case 4, 5, 6:
			p.Pre = append(p.Pre, preSpec{pr.a, pr.b})
			cachedMaybe[pr] = true
		default:
			p.Pre = append(p.Pre, preSpec{pr.b, pr.a})
			cachedMaybe[pr] = true
		}
	}
	rounds := 1 + r.Intn(3)
	for ri := 0; ri < rounds; ri++ {
		var rs roundSpec
		// connection loss: makes later rounds start from an empty or an asymmetric cache
		var candidates []pair
		for _, pr := range pairs {
			if cachedMaybe[pr] {
				candidates = append(candidates, pr)
			}
		}
		if len(candidates) > 0 && r.Intn(2) == 0 {
			pr := candidates[r.Intn(len(candidates))]
			ls := &lossSpec{Node: pr.a, Peer: pr.b, LeadUS: leadsUS[r.Intn(len(leadsUS))]}
			if r.Intn(2) == 0 {
				ls.Node, ls.Peer = pr.b, pr.a
			}
			rs.Loss = ls
		}
		barrier := r.Intn(5) < 2 // all dials released together
		active := pairs
		if len(pairs) > 1 && r.Intn(3) == 0 {
			active = []pair{pairs[r.Intn(len(pairs))]}
		}
		for _, pr := range active {
			ka, kb := r.Intn(5), r.Intn(5)
			switch r.Intn(6) {
			case 0:
				ka = 0
			case 1:
				kb = 0
			}
			if ka == 0 && kb == 0 {
				ka, kb = 1, 1
			}
			unknownP := 8
			if cachedMaybe[pr] {
				unknownP = 3
			}
			add := func(from, to, k int) {
				for i := 0; i < k; i++ {
					d := dialSpec{From: from, To: to}
					if !barrier {
						d.OffUS = offsetsUS[r.Intn(len(offsetsUS))]
					}
					d.Unknown = r.Intn(unknownP) == 0
					rs.Dials = append(rs.Dials, d)
				}
			}
			add(pr.a, pr.b, ka)
			add(pr.b, pr.a, kb)
			cachedMaybe[pr] = true
		}
		r.Shuffle(len(rs.Dials), func(i, j int) { rs.Dials[i], rs.Dials[j] = rs.Dials[j], rs.Dials[i] })
		rs.GapUS = gapsUS[r.Intn(len(gapsUS))]
		p.Rounds = append(p.Rounds, rs)
	}
	return p
}

// ---- trial -----------------------------------------------------------------

type dialResult struct {
	Round      int      `json:"round"`
	Spec       dialSpec `json:"spec"`
	StartUS    int64    `json:"start_us"`
	EndUS      int64    `json:"end_us"`
	Err        string   `json:"err,omitempty"`
	Conn       string   `json:"conn,omitempty"`
	Echo       string   `json:"echo,omitempty"`
	SelfCached bool     `json:"self_cached_at_start"`
	PeerCached bool     `json:"peer_cached_at_start"`

	stream net.Conn
	qc     *quic.Conn
}

type outcome struct {
	Program      program        `json:"program"`
	Verdict      string         `json:"verdict"` // ok | violation | inconclusive
	Sig          string         `json:"sig,omitempty"`
	Msg          string         `json:"msg,omitempty"`
	Dials        []*dialResult  `json:"dials"`
	Final        []string       `json:"final_cache"`
	Events       []event        `json:"events"`
	Addrs        []string       `json:"addrs"`
	Nontrivial   bool           `json:"nontrivial"`
	Labels       []string       `json:"labels"`
	MinGapUS     int64          `json:"min_opposite_start_gap_us"`
	DialErrors   int            `json:"dial_errors"`
	HeldChecked  int            `json:"held_streams_checked"`
	HeldEchoFail int            `json:"held_streams_echo_failed_conn_alive"`
	WallMS       int64          `json:"wall_ms"`
	MaxStallUS   int64          `json:"max_scheduler_stall_us"`
	KnownHits    map[string]int `json:"known_finding_hits,omitempty"`
	E1           []e1Hit        `json:"e1_evidence,omitempty"`
}

type trial struct {
	w     *world
	nodes []*node
	ctx   context.Context

	seenMu sync.Mutex
	seen   map[*quic.Conn]int // connection ends observed as *chosen* by a node -> node

	labels map[string]bool

	maxStallUS atomic.Int64 // worst observed oversleep of the poller: scheduler starvation of this process
}

func (tr *trial) markChosen(n int, c *quic.Conn) {
	if c == nil {
		return
	}
	tr.seenMu.Lock()
	if _, ok := tr.seen[c]; !ok {
		tr.seen[c] = n
	}
	tr.seenMu.Unlock()
}

func (tr *trial) label(l string) { tr.labels[l] = true }

// cacheView renders, for every ordered pair, what node i caches for node j.
func (tr *trial) cacheView(mark bool) (view string, lines []string) {
	var sb strings.Builder
	for i, n := range tr.nodes {
		for j, m := range tr.nodes {
			if i == j {
				continue
			}
			es := n.cachedFor(m.addr)
			var parts []string
			for _, e := range es {
				if mark {
					tr.markChosen(i, e.Conn)
				}
				alive := "live"
				if e.Conn.Context().Err() != nil {
					alive = "dead"
				}
				dir := "out"
				if e.Incoming {
					dir = "in"
				}
				parts = append(parts, fmt.Sprintf("%s/%s/%s", tr.w.kmOfEnd(e.Conn), dir, alive))
			}
			sort.Strings(parts)
			l := fmt.Sprintf("%s->%s:[%s]", nodeName(i), nodeName(j), strings.Join(parts, ","))
			lines = append(lines, l)
			sb.WriteString(l)
			sb.WriteByte(' ')
		}
	}
	return sb.String(), lines
}

// poller samples the caches and logs every change.
func (tr *trial) poller(stop <-chan struct{}, done chan<- struct{}) {
	defer close(done)
	last := make(map[string]string)
	for {
		select {
		case <-stop:
			return
		default:
		}
		_, lines := tr.cacheView(true)
		for _, l := range lines {
			k, v, _ := strings.Cut(l, ":")
			if last[k] != v {
				last[k] = v
				tr.w.log(int(k[0]-'A'), "cache", "", l)
			}
		}
		before := time.Now()
		time.Sleep(150 * time.Microsecond)
		if over := time.Since(before).Microseconds() - 150; over > tr.maxStallUS.Load() {
			tr.maxStallUS.Store(over)
		}
	}
}

func echoOnce(c net.Conn, tag string) error {
	c.SetDeadline(time.Now().Add(echoBudget))
	defer c.SetDeadline(time.Time{})
	msg := []byte(fmt.Sprintf("%-16s", tag))
	if _, err := c.Write(msg); err != nil {
		return fmt.Errorf("write: %w", err)
	}
	buf := make([]byte, len(msg))
	got := 0
	for got < len(buf) {
		n, err := c.Read(buf[got:])
		got += n
		if err != nil {
			return fmt.Errorf("read: %w", err)
		}
	}
	if string(buf) != string(msg) {
		return fmt.Errorf("echo mismatch %q != %q", buf, msg)
	}
	return nil
}

func errClass(err error) string {
	if err == nil {
		return ""
	}
	var ae *quic.ApplicationError
	if errors.As(err, &ae) {
		return fmt.Sprintf("app-%d-%s", ae.ErrorCode, map[bool]string{true: "remote", false: "local"}[ae.Remote])
	}
	s := err.Error()
	switch {
	case strings.Contains(s, "invalid state"):
		return "reuse-invalid-state"
	case errors.Is(err, context.DeadlineExceeded) || strings.Contains(s, "deadline exceeded") || strings.Contains(s, "timeout"):
		return "timeout"
	case errors.Is(err, context.Canceled):
		return "canceled"
	}
	return "other"
}

func spinUntil(t time.Time) {
	for {
		d := time.Until(t)
		if d <= 0 {
			return
		}
		if d > 300*time.Microsecond {
			time.Sleep(d - 200*time.Microsecond)
		} else {
			runtime.Gosched()
		}
	}
}

func (tr *trial) dial(res *dialResult) {
	from, to := tr.nodes[res.Spec.From], tr.nodes[res.Spec.To]
	res.SelfCached = len(from.cachedFor(to.addr)) > 0
	res.PeerCached = len(to.cachedFor(from.addr)) > 0
	res.StartUS = tr.w.now()
	tr.w.log(from.idx, "dial-start", "", fmt.Sprintf("to %s unknown=%v", nodeName(to.idx), res.Spec.Unknown))
	c, err := from.tr.DialStream(tr.ctx, to.identity(res.Spec.Unknown), protocol.Stream_RPC)
	res.EndUS = tr.w.now()
	if err != nil {
		res.Err = errClass(err) + ": " + err.Error()
		tr.w.log(from.idx, "dial-failed", "", res.Err)
		return
	}
	res.stream = c
	res.qc = overlay.VerifConnOf(c)
	tr.w.track(from.idx, "out?", res.qc)
	tr.markChosen(from.idx, res.qc)
	res.Conn = tr.w.kmOfEnd(res.qc)
	tr.w.log(from.idx, "dial-ok", res.Conn, "to "+nodeName(to.idx))
	if err := echoOnce(c, "first"); err != nil {
		res.Echo = "first: " + err.Error()
	} else {
		res.Echo = "ok"
	}
}

func waitTimeout(wg *sync.WaitGroup, d time.Duration) bool {
	ch := make(chan struct{})
	go func() { wg.Wait(); close(ch) }()
	select {
	case <-ch:
		return true
	case <-time.After(d):
		return false
	}
}

// pairState classifies what two nodes cache for each other.
// returns consistent, a description and (for inconsistent states) the class.
func (tr *trial) pairState(i, j int) (ok bool, class string, desc string) {
	a, b := tr.nodes[i], tr.nodes[j]
	ea, eb := a.cachedFor(b.addr), b.cachedFor(a.addr)
	desc = fmt.Sprintf("%s caches %d, %s caches %d", nodeName(i), len(ea), nodeName(j), len(eb))
	if len(ea) > 1 || len(eb) > 1 {
		return false, "multiple", desc
	}
	if len(ea) == 0 && len(eb) == 0 {
		return true, "empty", desc
	}
	alive := func(c *quic.Conn) bool { return c.Context().Err() == nil }
	if len(ea) == 1 && len(eb) == 1 {
		ka, kb := tr.w.kmOfEnd(ea[0].Conn), tr.w.kmOfEnd(eb[0].Conn)
		desc = fmt.Sprintf("%s caches %s(%v) %s caches %s(%v)", nodeName(i), ka, alive(ea[0].Conn), nodeName(j), kb, alive(eb[0].Conn))
		if !alive(ea[0].Conn) || !alive(eb[0].Conn) {
			return false, "dead-entry", desc
		}
		if ka == "" || kb == "" {
			return false, "no-keying-material", desc
		}
		if ka != kb {
			return false, "divergent", desc
		}
		if ea[0].Incoming == eb[0].Incoming {
			return false, "same-direction", desc
		}
		return true, "shared", desc
	}
	// one-sided
	var holder, other int
	var e overlay.VerifCacheEntry
	if len(ea) == 1 {
		holder, other, e = i, j, ea[0]
	} else {
		holder, other, e = j, i, eb[0]
	}
	km := tr.w.kmOfEnd(e.Conn)
	desc = fmt.Sprintf("%s caches %s(%v), %s caches nothing", nodeName(holder), km, alive(e.Conn), nodeName(other))
	if !alive(e.Conn) {
		return false, "dead-entry", desc
	}
	// is the other end of that connection alive on the other node?
	tr.w.mu.Lock()
	otherAlive, found := false, false
	for c, ei := range tr.w.ends {
		if ei.node == other && ei.km == km && km != "" {
			found = true
			otherAlive = c.Context().Err() == nil
		}
	}
	tr.w.mu.Unlock()
	if found && otherAlive {
		return false, "one-sided", desc
	}
	return false, "one-sided-close-in-flight", desc
}

type settleResult struct {
	ok     bool
	class  string // for !ok: the stable inconsistent class or "not-settled"
	desc   string
	stable bool
}

func (tr *trial) settle() settleResult {
	deadline := time.Now().Add(settleBudget)
	lastView, _ := tr.cacheView(false)
	since := time.Now()
	for {
		view, _ := tr.cacheView(false)
		if view != lastView {
			lastView, since = view, time.Now()
		}
		allOK := true
		var badClass, badDesc string
		for i := range tr.nodes {
			for j := i + 1; j < len(tr.nodes); j++ {
				ok, class, desc := tr.pairState(i, j)
				if !ok {
					allOK = false
					badClass, badDesc = class, desc
				}
			}
		}
		quiet := time.Since(since)
		if allOK && quiet >= settleQuiet {
			return settleResult{ok: true}
		}
		if !allOK && quiet >= stableBadAfter {
			return settleResult{class: badClass, desc: badDesc, stable: true}
		}
		if time.Now().After(deadline) {
			return settleResult{class: "not-settled:" + badClass, desc: badDesc}
		}
		time.Sleep(2 * time.Millisecond)
	}
}

// e1Hit is one piece of E1 evidence.
type e1Hit struct {
	Sig string `json:"sig"`
	Msg string `json:"msg"`
}

const sigOneSidedLoser = "connection-cached-by-one-peer-closed-as-loser-by-the-other"

// chosenClosedByNegotiation is oracle E1: every connection end that a node
// chose (cached / handed out / served streams on) and whose first close cause
// is one of the negotiation's own close codes.
func (tr *trial) chosenClosedByNegotiation() []e1Hit {
	tr.seenMu.Lock()
	defer tr.seenMu.Unlock()
	chosenKM := map[string]map[int]bool{} // km -> nodes that chose an end of it
	for c, n := range tr.seen {
		km := tr.w.kmOfEnd(c)
		if chosenKM[km] == nil {
			chosenKM[km] = map[int]bool{}
		}
		chosenKM[km][n] = true
	}
	var hits []e1Hit
	for c, n := range tr.seen {
		cause, code, remote, closed := tr.w.closedInfo(c)
		if !closed {
			continue
		}
		side := map[bool]string{true: "the peer", false: "itself"}[remote]
		km := tr.w.kmOfEnd(c)
		both := km != "" && len(chosenKM[km]) > 1
		switch code {
		case 508:
			var s string
			switch {
			case !remote:
				s = "cached-connection-closed-by-own-negotiation"
			case both:
				s = "shared-cached-connection-closed-as-negotiation-loser"
			default:
				s = sigOneSidedLoser
			}
			hits = append(hits, e1Hit{s, fmt.Sprintf("connection %s was cached/handed out by %s (also cached by the peer: %v) but closed by %s as the losing connection of a negotiation (%s)", km, nodeName(n), both, side, cause)})
		case 406:
			hits = append(hits, e1Hit{"cached-connection-closed-after-rejected-negotiation", fmt.Sprintf("connection %s was cached/handed out by %s but closed by %s after a rejected negotiation (%s)", km, nodeName(n), side, cause)})
		case 401:
			hits = append(hits, e1Hit{"live-cached-connection-closed-by-reap", fmt.Sprintf("connection %s was cached/handed out by %s and was closed while alive by the reaper of %s (%s)", km, nodeName(n), side, cause)})
		}
	}
	sort.Slice(hits, func(i, j int) bool { return hits[i].Sig+hits[i].Msg < hits[j].Sig+hits[j].Msg })
	return hits
}

var trialSeq atomic.Int64

type trialOpts struct {
	ignoreKnown bool // report evidence of listed known findings as violations (witness)
	short       bool // stop after the first settle + E1 (witness)
}

func runTrial(p program, opt trialOpts) (out *outcome) {
	ignoreKnown := opt.ignoreKnown
	t0 := time.Now()
	out = &outcome{Program: p, Verdict: "ok", MinGapUS: -1}
	w := newWorld()
	ctx, cancel := context.WithCancel(context.Background())
	tr := &trial{w: w, ctx: ctx, seen: map[*quic.Conn]int{}, labels: map[string]bool{}}
	inconclusive := func(reason, msg string) {
		if out.Verdict == "ok" {
			out.Verdict, out.Sig, out.Msg = "inconclusive", reason, msg
		}
	}
	violation := func(sig, msg string) {
		// The implementation relies on two 1 s grace periods (quicConn.Close resets the
		// negotiation stream 1 s after closing it; a rejecting acceptor closes after 1 s).
		// If this process was starved for a large part of such a period, the two classes
		// that a late delivery can produce are not evidence about the decision table.
		if stall := tr.maxStallUS.Load(); stall >= stallLimitUS && (sig == "cached-connection-closed-after-rejected-negotiation" || sig == "one-sided-cached-connection" || sig == "closed-connection-stays-cached") {
			inconclusive("scheduler-stall:"+sig, fmt.Sprintf("max stall %d us; %s", stall, msg))
			return
		}
		if out.Verdict != "violation" {
			out.Verdict, out.Sig, out.Msg = "violation", sig, msg
		}
	}
	// e1 evaluates oracle E1; evidence of a listed known finding is counted and skipped
	e1 := func() bool {
		hits := tr.chosenClosedByNegotiation()
		out.E1 = hits
		out.KnownHits = map[string]int{}
		bad := false
		for _, h := range hits {
			if ev.Known("C41", h.Sig) && !ignoreKnown {
				out.KnownHits[h.Sig]++
				tr.label("known-finding:" + h.Sig)
				continue
			}
			if !bad {
				violation(h.Sig, h.Msg)
				bad = true
			}
		}
		return bad
	}
	stopPoll := make(chan struct{})
	pollDone := make(chan struct{})
	pollStarted := false
	defer func() {
		if pollStarted {
			close(stopPoll)
			<-pollDone
		}
		_, out.Final = tr.cacheView(false)
		for _, d := range out.Dials {
			if d.stream != nil {
				d.stream.Close()
			}
		}
		cancel()
		for _, n := range tr.nodes {
			n.stop()
		}
		waitTimeout(&w.wg, time.Second)
		w.mu.Lock()
		out.Events = append([]event{}, w.events...)
		w.mu.Unlock()
		sort.SliceStable(out.Events, func(i, j int) bool { return out.Events[i].T < out.Events[j].T })
		for l := range tr.labels {
			out.Labels = append(out.Labels, l)
		}
		sort.Strings(out.Labels)
		out.WallMS = time.Since(t0).Milliseconds()
		out.MaxStallUS = tr.maxStallUS.Load()
	}()

	for i := 0; i < p.Nodes; i++ {
		n, err := startNode(ctx, w, i, time.Duration(p.LatencyUS)*time.Microsecond, tr.markChosen)
		if err != nil {
			inconclusive("setup-node", err.Error())
			return
		}
		tr.nodes = append(tr.nodes, n)
		out.Addrs = append(out.Addrs, n.addr)
	}
	pollStarted = true
	go tr.poller(stopPoll, pollDone)
	tr.label(fmt.Sprintf("nodes:%d", p.Nodes))
	tr.label(fmt.Sprintf("latency_us:%d", p.LatencyUS))

	// pre-existing cache state
	if len(p.Pre) == 0 {
		tr.label("pre:none")
	}
	for _, ps := range p.Pre {
		tr.label("pre:established")
		res := &dialResult{Round: -1, Spec: dialSpec{From: ps.From, To: ps.To}}
		out.Dials = append(out.Dials, res)
		var wg sync.WaitGroup
		wg.Add(1)
		go func() { defer wg.Done(); tr.dial(res) }()
		if !waitTimeout(&wg, dialBudget) || res.Err != "" {
			inconclusive("setup-pre-dial", res.Err)
			return
		}
		dl := time.Now().Add(10 * time.Second)
		for {
			ok, class, _ := tr.pairState(ps.From, ps.To)
			if ok && class == "shared" {
				break
			}
			if time.Now().After(dl) {
				inconclusive("setup-pre-not-shared", class)
				return
			}
			time.Sleep(time.Millisecond)
		}
	}

	// rounds
	for ri, rs := range p.Rounds {
		if rs.Loss != nil {
			n, peer := tr.nodes[rs.Loss.Node], tr.nodes[rs.Loss.Peer]
			if es := n.cachedFor(peer.addr); len(es) > 0 {
				tr.label("loss-injected")
				w.log(n.idx, "loss", w.kmOfEnd(es[0].Conn), fmt.Sprintf("lead %dus", rs.Loss.LeadUS))
				es[0].Conn.CloseWithError(lossCode, "verif: injected connection loss")
				spinUntil(time.Now().Add(time.Duration(rs.Loss.LeadUS) * time.Microsecond))
			}
		}
		results := make([]*dialResult, len(rs.Dials))
		var wg sync.WaitGroup
		var ready sync.WaitGroup
		release := make(chan struct{})
		var base atomic.Int64
		for di, d := range rs.Dials {
			res := &dialResult{Round: ri, Spec: d}
			results[di] = res
			out.Dials = append(out.Dials, res)
			wg.Add(1)
			ready.Add(1)
			go func() {
				defer wg.Done()
				ready.Done()
				<-release
				if res.Spec.OffUS > 0 {
					spinUntil(time.Unix(0, base.Load()).Add(time.Duration(res.Spec.OffUS) * time.Microsecond))
				}
				tr.dial(res)
			}()
		}
		ready.Wait()
		base.Store(time.Now().UnixNano())
		close(release)
		if !waitTimeout(&wg, dialBudget) {
			inconclusive("dial-not-returned", fmt.Sprintf("round %d", ri))
			e1() // E1 evidence is still definitive
			return
		}
		// measured non-triviality of this round
		for _, a := range results {
			if a.Err != "" {
				out.DialErrors++
				tr.label("dial-error:" + strings.SplitN(a.Err, ":", 2)[0])
			}
			negotiates := a.Spec.Unknown || !a.SelfCached
			if negotiates && (a.SelfCached || a.PeerCached) {
				out.Nontrivial = true
				tr.label("negotiation-with-cached-connection")
				if a.SelfCached != a.PeerCached {
					tr.label("negotiation-with-one-sided-cache")
				}
			}
			if a.Spec.Unknown {
				tr.label("unknown-identity-dial")
			}
			for _, b := range results {
				if a.Spec.From == b.Spec.To && a.Spec.To == b.Spec.From && (!a.SelfCached || a.Spec.Unknown) && (!b.SelfCached || b.Spec.Unknown) {
					gap := a.StartUS - b.StartUS
					if gap < 0 {
						gap = -gap
					}
					if out.MinGapUS < 0 || gap < out.MinGapUS {
						out.MinGapUS = gap
					}
				}
			}
		}
		time.Sleep(time.Duration(rs.GapUS) * time.Microsecond)
	}
	if out.MinGapUS >= 0 && out.MinGapUS <= 1000 {
		out.Nontrivial = true
		tr.label("opposite-dials-within-1ms")
	}

	// settle, then the oracles
	st := tr.settle()
	if e1() || opt.short {
		return
	}
	if !st.ok {
		switch {
		case st.class == "multiple":
			violation("multiple-cached-connections-for-peer", st.desc)
		case st.stable && st.class == "divergent":
			violation("divergent-live-cached-connections", st.desc)
		case st.stable && st.class == "same-direction":
			violation("shared-connection-cached-with-same-direction", st.desc)
		case st.stable && st.class == "one-sided":
			violation("one-sided-cached-connection", st.desc)
		case st.stable && st.class == "dead-entry":
			// a closed connection is evicted by the reaper as soon as it is closed; one that is
			// still cached after 4 s without any cache change will be handed to every later dial
			violation("closed-connection-stays-cached", st.desc)
		default:
			inconclusive("settle:"+st.class, st.desc)
		}
		return
	}
	for i := range tr.nodes {
		for j := i + 1; j < len(tr.nodes); j++ {
			_, class, _ := tr.pairState(i, j)
			tr.label("settled:" + class)
		}
	}

	// streams handed out earlier: their connection must not have been closed by the negotiation
	for _, d := range out.Dials {
		if d.stream == nil || d.Echo != "ok" {
			continue
		}
		out.HeldChecked++
		if _, code, _, closed := w.closedInfo(d.qc); closed {
			if code == lossCode {
				tr.label("held-stream:connection-lost-by-injection")
			} else {
				tr.label(fmt.Sprintf("held-stream:connection-closed-code-%d", code))
			}
			continue
		}
		if err := echoOnce(d.stream, "second"); err != nil {
			if _, _, _, closed := w.closedInfo(d.qc); !closed {
				out.HeldEchoFail++
				d.Echo = "second: " + err.Error()
			}
		} else {
			tr.label("held-stream:echo-after-settle")
		}
	}

	// streams open both ways afterwards (sequential, known identity), then re-check
	for i := range tr.nodes {
		for j := range tr.nodes {
			if i == j {
				continue
			}
			res := &dialResult{Round: len(p.Rounds), Spec: dialSpec{From: i, To: j}}
			out.Dials = append(out.Dials, res)
			var wg sync.WaitGroup
			wg.Add(1)
			go func() { defer wg.Done(); tr.dial(res) }()
			if !waitTimeout(&wg, dialBudget) {
				inconclusive("post-dial-not-returned", "")
				return
			}
			if res.Err != "" || res.Echo != "ok" {
				tr.label("post-settle-stream-failed")
				inconclusive("post-settle-stream-failed", res.Err+" "+res.Echo)
			} else {
				tr.label("post-settle-stream-ok")
			}
		}
	}
	st = tr.settle()
	if e1() {
		return
	}
	if !st.ok {
		switch {
		case st.class == "multiple":
			violation("multiple-cached-connections-for-peer", st.desc)
		case st.stable && st.class == "divergent":
			violation("divergent-live-cached-connections", st.desc)
		case st.stable && st.class == "same-direction":
			violation("shared-connection-cached-with-same-direction", st.desc)
		case st.stable && st.class == "one-sided":
			violation("one-sided-cached-connection", st.desc)
		case st.stable && st.class == "dead-entry":
			// a closed connection is evicted by the reaper as soon as it is closed; one that is
			// still cached after 4 s without any cache change will be handed to every later dial
			violation("closed-connection-stays-cached", st.desc)
		default:
			inconclusive("settle:"+st.class, st.desc)
		}
		return
	}
	for i := range tr.nodes {
		for j := i + 1; j < len(tr.nodes); j++ {
			_, class, _ := tr.pairState(i, j)
			tr.label("final:" + class)
		}
	}
	return
}

// ---- the test --------------------------------------------------------------

func TestC41(t *testing.T) {
	rec := ev.New(t, "C41")
	rec.Rule("PRNG-generated programmes (seeded from VERIF_SEED/shard) run against real overlay.QUIC transports on loopback: 2 (thorough: also 3) nodes; pre-existing cache state none / X->Y established / Y->X established; 1-3 rounds of 0-4 concurrent DialStream calls per side with start offsets 0-3 ms or a common barrier; identity flavour known/Unknown (Unknown bypasses the cache fast path, so it negotiates while a connection is cached); injected loss of the cached connection 0-100 ms before a round; simulated one-way latency 0/0.3/1/3/8 ms. Non-trivial (measured, not generated): two negotiating dials from opposite sides started within 1 ms of each other, or a negotiating dial started while at least one side held a cached connection. Distinct = distinct programmes.")
	rec.Assume("TLS exported keying material identifies the two ends of one QUIC connection",
		"the first close cause recorded by quic-go (context.Cause) is the close that actually terminated the connection end",
		"close codes 508/406/401 are only produced by overlay's negotiation/reaper code, 999 only by the harness",
		"interleavings are those the scheduler, the generated offsets and the machine load produce; no exhaustive schedule exploration")

	thorough := ev.Thorough()
	var programs []program
	reps := 1
	if p := ev.ReplayPath(); p != "" && strings.HasSuffix(p, ".json") {
		b, err := os.ReadFile(p)
		if err != nil {
			t.Fatalf("replay: %v", err)
		}
		var doc struct {
			Case struct {
				Program program `json:"program"`
			} `json:"case"`
		}
		if err := json.Unmarshal(b, &doc); err != nil || doc.Case.Program.Nodes == 0 {
			t.Fatalf("replay: cannot decode programme from %s: %v", p, err)
		}
		reps = 40 // schedule dependent: repeat the programme
		for i := 0; i < reps; i++ {
			programs = append(programs, doc.Case.Program)
		}
	} else {
		n := ev.N(32, 192)
		rng := rand.New(rand.NewSource(ev.ShardSeed()))
		for i := 0; i < n; i++ {
			programs = append(programs, genProgram(rng, thorough))
		}
		// all-FRESH negotiations on purpose: both caches empty (whatever is cached is dropped
		// 20 ms before the round) and several connections negotiate at once under a one-way
		// latency, so that every cache-status advertisement says FRESH - the corner of the
		// decision table in which the two peers decide independently. Two shapes: k+k opposite
		// dials released by one barrier (simultaneous open), and a burst of 2-4 dials from ONE
		// side only (one peer opens several connections at once, e.g. concurrent first
		// requests to the same node). The generated programmes reach them only by chance.
		for i, nSim := 0, ev.N(40, 120); i < nSim; i++ {
			sp := program{Nodes: 2, LatencyUS: []int{1000, 3000, 8000}[rng.Intn(3)]}
			oneSided := i%3 != 0
			k := 1 + rng.Intn(2)
			if oneSided {
				k = 3 + rng.Intn(3)
			}
			for ri := 0; ri < 4; ri++ {
				rs := roundSpec{Loss: &lossSpec{Node: (i + ri) % 2, Peer: 1 - (i+ri)%2, LeadUS: 20000}, GapUS: 30000}
				from := (i/2 + ri) % 2
				for d := 0; d < k; d++ {
					if oneSided {
						rs.Dials = append(rs.Dials, dialSpec{From: from, To: 1 - from, OffUS: []int{0, 0, 0, 100, 250}[rng.Intn(5)], Unknown: d > 0 || rng.Intn(2) == 0})
					} else {
						rs.Dials = append(rs.Dials, dialSpec{From: 0, To: 1}, dialSpec{From: 1, To: 0})
					}
				}
				sp.Rounds = append(sp.Rounds, rs)
			}
			programs = append(programs, sp)
		}
	}
	workers := ev.Pick(8, 4)
	if v := os.Getenv("VERIF_C41_WORKERS"); v != "" {
		fmt.Sscan(v, &workers)
	}

	// witness of the listed known finding: barrier-synchronised dials from both
	// sides with an empty cache; schedule dependent, so repeated until it shows.
	if ev.Known("C41", sigOneSidedLoser) && ev.ReplayPath() == "" {
		wp := program{Nodes: 2, LatencyUS: 3000}
		for i := 0; i < 3; i++ { // each round: drop whatever is cached, then 2+2 barrier-synchronised dials
			wp.Rounds = append(wp.Rounds, roundSpec{
				Loss:  &lossSpec{Node: i % 2, Peer: 1 - i%2, LeadUS: 20000},
				Dials: []dialSpec{{From: 0, To: 1}, {From: 1, To: 0}, {From: 0, To: 1}, {From: 1, To: 0}},
				GapUS: 30000,
			})
		}
		reproduced, attempts := false, 0
		for batch := 0; batch < 6 && !reproduced; batch++ {
			outs := make([]*outcome, 4)
			var wg sync.WaitGroup
			for i := range outs {
				wg.Add(1)
				go func() { defer wg.Done(); outs[i] = runTrial(wp, trialOpts{ignoreKnown: true, short: true}) }()
			}
			wg.Wait()
			for _, o := range outs {
				attempts++
				for _, h := range o.E1 {
					if h.Sig == sigOneSidedLoser {
						reproduced = true
					}
				}
			}
		}
		rec.Note("witness_attempts", attempts)
		rec.Witnessed(sigOneSidedLoser, reproduced)
	}

	type job struct {
		idx int
		p   program
	}
	jobs := make(chan job)
	results := make(chan *outcome, len(programs))
	var stop atomic.Bool
	var wg sync.WaitGroup
	for wi := 0; wi < workers; wi++ {
		wg.Add(1)
		go func() {
			defer wg.Done()
			for j := range jobs {
				if stop.Load() {
					continue
				}
				results <- runTrial(j.p, trialOpts{})
			}
		}()
	}
	go func() {
		for i, p := range programs {
			jobs <- job{i, p}
		}
		close(jobs)
		wg.Wait()
		close(results)
	}()

	var firstViolation *outcome
	var maxStall int64
	statsOnly := os.Getenv("VERIF_C41_STATS") != "" // diagnostics: do not stop at the first violation, print a histogram
	hist := map[string]int{}
	defer func() {
		if statsOnly {
			fmt.Printf("C41-STATS %v\n", hist)
		}
	}()
	for o := range results {
		o := o
		rec.Case(o.Nontrivial, o.Program.key(), func() any {
			return map[string]any{"program": o.Program, "labels": o.Labels, "final_cache": o.Final, "min_opposite_start_gap_us": o.MinGapUS, "verdict": o.Verdict}
		}, o.Labels...)
		rec.Add("dial_errors", int64(o.DialErrors))
		rec.Add("held_streams_checked", int64(o.HeldChecked))
		rec.Add("held_streams_echo_failed_conn_alive", int64(o.HeldEchoFail))
		rec.Add("trial_wall_ms_total", o.WallMS)
		if o.MaxStallUS > maxStall {
			maxStall = o.MaxStallUS
			rec.Note(fmt.Sprintf("max_scheduler_stall_us_shard%d", ev.Shard()), maxStall)
		}
		for sig := range o.KnownHits {
			rec.Excluded(sig)
			hist["known:"+sig]++
		}
		hist[o.Verdict+":"+o.Sig]++
		if statsOnly {
			for _, d := range o.Dials {
				if d.Err != "" {
					fmt.Printf("C41-DIALERR round=%d from=%d unknown=%v self=%v peer=%v dur=%dus :: %s\n", d.Round, d.Spec.From, d.Spec.Unknown, d.SelfCached, d.PeerCached, d.EndUS-d.StartUS, d.Err)
				}
			}
		}
		if os.Getenv("VERIF_C41_DUMP") == "all" {
			b, _ := json.Marshal(o)
			fmt.Printf("TRIAL-TRACE %s\n", b)
		}
		switch o.Verdict {
		case "inconclusive":
			rec.Inconclusive(o.Sig)
			if os.Getenv("VERIF_C41_DUMP") != "" {
				b, _ := json.MarshalIndent(o, "", " ")
				fmt.Printf("INCONCLUSIVE-TRACE %s\n", b)
			}
		case "violation":
			if firstViolation == nil {
				firstViolation = o
				if !statsOnly {
					stop.Store(true)
				}
			}
		}
	}
	if firstViolation != nil {
		o := firstViolation
		rec.Fail(t, o.Sig, o, "%s", o.Msg)
	}
}
