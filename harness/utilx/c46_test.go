package utilx

import (
	"context"
	"errors"
	"fmt"
	"path/filepath"
	"runtime"
	"strings"
	"sync"
	"sync/atomic"
	"testing"
	"time"

	"go.miragespace.co/specter/util/promise"
	"verifharness/internal/ev"

	"pgregory.net/rapid"
)

// ---- C46: promise.All -----------------------------------------------------------

type c46Task struct {
	DelayUS int  `json:"delay_us"` // work time before returning
	Yields  int  `json:"yields"`   // runtime.Gosched calls before the delay
	Fail    bool `json:"fail"`     // return an error instead of a value
	Respect bool `json:"respect"`  // give up early with ctx.Err() when the context is cancelled
	Both    bool `json:"both"`     // a failing task also returns a non-zero value
	// > 0: after its delay the task waits for the cancellation of the shared context and
	// then keeps working for this long before it returns (only in programmes that cancel)
	AfterCancelUS int `json:"after_cancel_us,omitempty"`
}

type c46Prog struct {
	Tasks    []c46Task `json:"tasks"`
	CancelUS int       `json:"cancel_us"` // -1 never, 0 cancelled before the call, >0 cancelled after that many microseconds
	Barrier  bool      `json:"barrier"`   // every task first waits until all tasks have started (needs real concurrency)
}

func (p c46Prog) key() string {
	var b strings.Builder
	fmt.Fprintf(&b, "c=%d b=%v", p.CancelUS, p.Barrier)
	for _, t := range p.Tasks {
		fmt.Fprintf(&b, "|%d,%d,%v,%v,%v,%d", t.DelayUS, t.Yields, t.Fail, t.Respect, t.Both, t.AfterCancelUS)
	}
	return b.String()
}

type c46Err struct{ i int }

func (e *c46Err) Error() string { return fmt.Sprintf("task %d failed", e.i) }

const (
	c46NotReturned = iota
	c46RetValue
	c46RetOwnErr
	c46RetCtxErr
)

type c46State struct {
	started  atomic.Bool
	finished atomic.Bool
	ret      atomic.Int32
}

type c46Result struct {
	violationSig string
	msg          string
	barrierStuck bool
	cancelHit    int // tasks unfinished at the moment of cancellation (-1: no cancellation happened before All returned)
	mixed        bool
}

func c46Value(i int) int { return 1000 + i }

const c46Watchdog = 30 * time.Second

// runC46 executes one programme against the real promise.All and judges it.
func runC46(p c46Prog) c46Result {
	n := len(p.Tasks)
	res := c46Result{cancelHit: -1}
	states := make([]*c46State, n)
	errs := make([]*c46Err, n)
	for i := range states {
		states[i] = &c46State{}
		errs[i] = &c46Err{i}
	}
	ctx, cancel := context.WithCancel(context.Background())
	defer cancel()

	var startedN atomic.Int32
	allStarted := make(chan struct{})
	var barrierStuck atomic.Bool

	fns := make([]func(context.Context) (int, error), n)
	for i := range fns {
		i := i
		tk := p.Tasks[i]
		st := states[i]
		fns[i] = func(fnCtx context.Context) (int, error) {
			st.started.Store(true)
			if int(startedN.Add(1)) == n {
				close(allStarted)
			}
			if p.Barrier && !barrierStuck.Load() {
				tm := time.NewTimer(c46Watchdog)
				select {
				case <-allStarted:
				case <-tm.C:
					barrierStuck.Store(true)
				}
				tm.Stop()
			}
			for y := 0; y < tk.Yields; y++ {
				runtime.Gosched()
			}
			cancelled := false
			if tk.DelayUS > 0 {
				d := time.Duration(tk.DelayUS) * time.Microsecond
				if tk.Respect {
					tm := time.NewTimer(d)
					select {
					case <-tm.C:
					case <-fnCtx.Done():
						cancelled = true
					}
					tm.Stop()
				} else {
					time.Sleep(d)
				}
			} else if tk.Respect && fnCtx.Err() != nil {
				cancelled = true
			}
			if tk.AfterCancelUS > 0 && !cancelled {
				<-fnCtx.Done()
				time.Sleep(time.Duration(tk.AfterCancelUS) * time.Microsecond)
			}
			switch {
			case cancelled:
				st.ret.Store(c46RetCtxErr)
				st.finished.Store(true)
				return 0, fnCtx.Err()
			case tk.Fail:
				st.ret.Store(c46RetOwnErr)
				st.finished.Store(true)
				if tk.Both {
					return c46Value(i), errs[i]
				}
				return 0, errs[i]
			default:
				st.ret.Store(c46RetValue)
				st.finished.Store(true)
				return c46Value(i), nil
			}
		}
	}

	var cancelHit atomic.Int32
	cancelHit.Store(-1)
	doCancel := func() {
		un := 0
		for _, st := range states {
			if !st.finished.Load() {
				un++
			}
		}
		cancelHit.CompareAndSwap(-1, int32(un))
		cancel()
	}
	var allReturned atomic.Bool
	var tmr *time.Timer
	switch {
	case p.CancelUS == 0:
		doCancel()
	case p.CancelUS > 0:
		tmr = time.AfterFunc(time.Duration(p.CancelUS)*time.Microsecond, func() {
			if !allReturned.Load() {
				doCancel()
			}
		})
	}

	var (
		values   []int
		errsOut  []error
		panicked any
	)
	// the slowest generated task takes 1.5 s: a call that has not returned after 20 s never will
	// (the calling goroutine is left behind; the case is over)
	returned := make(chan struct{})
	go func() {
		defer close(returned)
		defer func() { panicked = recover() }()
		values, errsOut = promise.All(ctx, fns...)
	}()
	select {
	case <-returned:
	case <-time.After(20 * time.Second):
		res.violationSig = "all-did-not-return"
		res.msg = fmt.Sprintf("promise.All with %d tasks had not returned 20 s after the call (every task had long finished)", n)
		return res
	}
	allReturned.Store(true)
	// snapshot the completion flags first: this is the moment All returned
	fin := make([]bool, n)
	for i, st := range states {
		fin[i] = st.finished.Load()
	}
	if tmr != nil {
		tmr.Stop()
	}
	res.cancelHit = int(cancelHit.Load())
	res.barrierStuck = barrierStuck.Load()

	hasErr, hasVal := false, false
	for _, st := range states {
		switch st.ret.Load() {
		case c46RetValue:
			hasVal = true
		case c46RetOwnErr, c46RetCtxErr:
			hasErr = true
		}
	}
	res.mixed = hasErr && hasVal

	fail := func(sig, f string, a ...any) c46Result {
		res.violationSig = sig
		res.msg = fmt.Sprintf(f, a...)
		return res
	}
	if panicked != nil {
		return fail("all-panicked", "promise.All panicked: %v", panicked)
	}
	if len(values) != n || len(errsOut) != n {
		return fail("result-length-mismatch", "%d tasks, got %d values and %d errors", n, len(values), len(errsOut))
	}
	for i := range fin {
		if !fin[i] {
			return fail("returned-before-task-finished", "All returned while task %d (started=%v) had not finished; cancel_us=%d", i, states[i].started.Load(), p.CancelUS)
		}
	}
	if res.barrierStuck {
		return fail("tasks-not-concurrent", "a task waited %v for the other tasks to start: tasks are not run concurrently", c46Watchdog)
	}
	for i, st := range states {
		switch st.ret.Load() {
		case c46RetValue:
			if errsOut[i] != nil {
				return fail("error-for-successful-task", "task %d returned value %d but errors[%d]=%v", i, c46Value(i), i, errsOut[i])
			}
			if values[i] != c46Value(i) {
				return fail("value-misaligned-or-lost", "task %d returned %d but results[%d]=%d (results=%v)", i, c46Value(i), i, values[i], values)
			}
		case c46RetOwnErr:
			if errsOut[i] != error(errs[i]) {
				return fail("error-misaligned-or-lost", "task %d returned its error but errors[%d]=%v (errors=%v)", i, i, errsOut[i], errsOut)
			}
		case c46RetCtxErr:
			if errsOut[i] == nil || !errors.Is(errsOut[i], context.Canceled) {
				return fail("error-misaligned-or-lost", "task %d returned ctx.Err() but errors[%d]=%v (errors=%v)", i, i, errsOut[i], errsOut)
			}
		}
	}
	return res
}

func genC46(t *rapid.T) c46Prog {
	n := rapid.OneOf(rapid.IntRange(0, 16), rapid.IntRange(2, 6)).Draw(t, "n")
	delay := rapid.OneOf(rapid.Just(0), rapid.IntRange(0, 60), rapid.IntRange(0, 600), rapid.IntRange(0, 3000))
	p := c46Prog{Tasks: make([]c46Task, n)}
	for i := range p.Tasks {
		p.Tasks[i] = c46Task{
			DelayUS: delay.Draw(t, "delay"),
			Yields:  rapid.IntRange(0, 3).Draw(t, "yields"),
			Fail:    rapid.IntRange(0, 2).Draw(t, "fail") == 0,
			Respect: rapid.Bool().Draw(t, "respect"),
		}
		if p.Tasks[i].Fail {
			p.Tasks[i].Both = rapid.IntRange(0, 3).Draw(t, "both") == 0
		}
	}
	switch rapid.IntRange(0, 5).Draw(t, "cancelMode") {
	case 0:
		p.CancelUS = -1
	case 1:
		p.CancelUS = 0
	default:
		p.CancelUS = rapid.OneOf(rapid.IntRange(1, 100), rapid.IntRange(1, 1000), rapid.IntRange(1, 3000)).Draw(t, "cancelUS")
	}
	p.Barrier = rapid.IntRange(0, 4).Draw(t, "barrier") == 0
	return p
}

// genC46Slow draws a programme whose context is always cancelled and in which
// some tasks keep running long after the cancel instant (orders of magnitude
// above the scheduling noise: 5 ms .. 400 ms, thorough up to 1.5 s), so that an
// All that gives up waiting some time after the cancellation is caught whatever
// that time is within the covered range.
func genC46Slow(t *rapid.T) c46Prog {
	n := rapid.IntRange(1, 8).Draw(t, "n")
	p := c46Prog{Tasks: make([]c46Task, n)}
	long := rapid.OneOf(rapid.IntRange(120000, 400000), rapid.IntRange(120000, 400000), rapid.IntRange(5000, 120000))
	if ev.Thorough() {
		long = rapid.OneOf(rapid.IntRange(120000, 400000), rapid.IntRange(5000, 120000), rapid.IntRange(400000, 1500000))
	}
	slow := 0
	for i := range p.Tasks {
		tk := c46Task{
			DelayUS: rapid.OneOf(rapid.Just(0), rapid.IntRange(0, 600)).Draw(t, "delay"),
			Yields:  rapid.IntRange(0, 3).Draw(t, "yields"),
			Fail:    rapid.IntRange(0, 2).Draw(t, "fail") == 0,
			Respect: rapid.Bool().Draw(t, "respect"),
		}
		if tk.Fail {
			tk.Both = rapid.IntRange(0, 3).Draw(t, "both") == 0
		}
		if rapid.IntRange(0, 2).Draw(t, "slow?") == 0 {
			tk.Respect = false
			tk.AfterCancelUS = long.Draw(t, "afterCancel")
			slow++
		}
		p.Tasks[i] = tk
	}
	if slow == 0 {
		i := rapid.IntRange(0, n-1).Draw(t, "slowIdx")
		p.Tasks[i].Respect = false
		p.Tasks[i].AfterCancelUS = long.Draw(t, "afterCancel")
	}
	p.CancelUS = rapid.OneOf(rapid.Just(0), rapid.IntRange(1, 2000)).Draw(t, "cancelUS")
	return p
}

func c46Labels(p c46Prog, r c46Result) (bool, []string) {
	n := len(p.Tasks)
	nt := n >= 2 && (r.mixed || r.cancelHit > 0)
	labels := []string{fmt.Sprintf("tasks:%s", bucket(n))}
	if r.mixed {
		labels = append(labels, "values-and-errors")
	}
	switch {
	case p.CancelUS < 0:
		labels = append(labels, "cancel:never")
	case p.CancelUS == 0:
		labels = append(labels, "cancel:before-call")
	case r.cancelHit < 0:
		labels = append(labels, "cancel:after-return")
	case r.cancelHit == 0:
		labels = append(labels, "cancel:all-tasks-already-finished")
	default:
		labels = append(labels, "cancel:while-tasks-running")
	}
	if p.Barrier {
		labels = append(labels, "barrier")
	}
	longest := 0
	for _, tk := range p.Tasks {
		longest = max(longest, tk.AfterCancelUS)
	}
	switch {
	case longest >= 400000:
		labels = append(labels, "works-after-cancel:400ms+")
	case longest >= 120000:
		labels = append(labels, "works-after-cancel:120-400ms")
	case longest > 0:
		labels = append(labels, "works-after-cancel:5-120ms")
	}
	return nt, labels
}

func TestC46(t *testing.T) {
	rec := ev.New(t, "C46")
	rec.Rule("rapid-generated programmes: 0..16 tasks, each with a delay 0..3000 us (Gosched bursts before it), value or error (optionally value+error), honouring or ignoring cancellation; the shared context is never cancelled, cancelled before the call, or cancelled after 1..3000 us; in 1/5 of the cases every task first waits until all tasks have started. A second phase runs batches of 8 programmes in parallel whose context is always cancelled and in which 1..8 tasks ignore the cancellation and keep working for a generated 5..400 ms (thorough: up to 1.5 s) after the cancel instant. Oracle: every task records what it returned and sets an atomic completion flag as its last action; when All returns every flag must be set, results/errors have one slot per task and slot i holds exactly what task i returned (value identity, error identity, context.Canceled for tasks that gave up). Non-trivial: >= 2 tasks and (values and errors both occurred, or the cancellation fired while at least one task was unfinished). Distinct = distinct programmes.")
	rec.Assume("result slot of a task that returned an error is not inspected (statement: value OR error)",
		"a task is 'finished' when it has set its completion flag immediately before its return statement",
		"the concurrency sub-check (barrier cases) uses a 30 s watchdog with a must-reproduce rule; a single unreproduced hit is inconclusive")
	// a rapid fail file replays only the phase that wrote it (the file name carries the subtest name)
	replayLong := strings.Contains(filepath.Base(ev.ReplayPath()), "long-after-cancel")
	if !replayLong {
		c46PhaseOne(t, rec)
	}
	if t.Failed() || (ev.ReplayPath() != "" && !replayLong) {
		return
	}
	// Second phase: programmes with tasks that keep working 5..400 ms (thorough: up to
	// 1.5 s) after the cancel instant. They are slow by nature, so each rapid case is a
	// batch of 8 programmes executed in parallel.
	t.Run("long-after-cancel", func(t *testing.T) { c46PhaseTwo(t, rec) })
}

func c46PhaseOne(t *testing.T, rec *ev.Recorder) {
	ev.RapidCheck(t, 2000, 100000, func(t *rapid.T) {
		p := genC46(t)
		r := runC46(p)
		if r.violationSig == "tasks-not-concurrent" {
			// watchdog rule: must reproduce immediately
			r2 := runC46(p)
			if r2.violationSig != "tasks-not-concurrent" {
				rec.Inconclusive("barrier-watchdog-hit-not-reproduced")
				r = r2
			}
		}
		nt, labels := c46Labels(p, r)
		rec.Case(nt, p.key(), func() any { return p }, labels...)
		if r.violationSig != "" {
			rec.Fail(t, r.violationSig, p, "%s", r.msg)
		}
	})
}

func c46PhaseTwo(t *testing.T, rec *ev.Recorder) {
	ev.RapidCheck(t, 6, 240, func(t *rapid.T) {
		const batch = 8
		progs := make([]c46Prog, batch)
		for i := range progs {
			progs[i] = genC46Slow(t)
		}
		results := make([]c46Result, batch)
		var wg sync.WaitGroup
		for i := range progs {
			wg.Add(1)
			go func(i int) {
				defer wg.Done()
				results[i] = runC46(progs[i])
			}(i)
		}
		wg.Wait()
		for i, p := range progs {
			nt, labels := c46Labels(p, results[i])
			rec.Case(nt, p.key(), func() any { return p }, append(labels, "phase:long-after-cancel")...)
		}
		for i, p := range progs {
			if r := results[i]; r.violationSig != "" {
				rec.Fail(t, r.violationSig, p, "%s", r.msg)
			}
		}
	})
}

func bucket(n int) string {
	switch {
	case n == 0:
		return "0"
	case n == 1:
		return "1"
	case n <= 4:
		return "2-4"
	case n <= 8:
		return "5-8"
	default:
		return "9+"
	}
}
