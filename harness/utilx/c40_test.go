package utilx

import (
	"bytes"
	"errors"
	"flag"
	"fmt"
	"io"
	"net"
	"sort"
	"sync"
	"sync/atomic"
	"testing"
	"testing/iotest"
	"time"

	"go.miragespace.co/specter/spec/tun"
	"go.miragespace.co/specter/util/bufconn"
	"verifharness/internal/ev"

	"pgregory.net/rapid"
)

// ---- C40: tun.Pipe ---------------------------------------------------------------
//
//   user X  <->  [x1 ==pair== x2]  <-- tun.Pipe(x2, y1) -->  [y1 ==pair== y2]  <->  user Y
//
// Each pair is a bufconn.BufferedPipe or a net.Pipe. x2 and y1 are wrapped so the
// harness sees every Close and can inject a read or write error at a byte count.
// A user is a writer goroutine (payload in chunks) and a reader goroutine.

type c40Side struct {
	Pair      string `json:"pair"`            // bufconn | netpipe | scripted (no user: the stream itself plays a side that sends Payload and finishes)
	Final     string `json:"final,omitempty"` // scripted: eof-separate | eof-with-data | err-separate | err-with-data (how Read reports the end relative to the last bytes)
	Buf       int    `json:"buf"`             // bufconn only
	Payload   int    `json:"payload"`
	Chunks    []int  `json:"chunks"`     // cycled
	ReadSizes []int  `json:"read_sizes"` // cycled
	Yields    []int  `json:"yields"`     // cycled, before each user call
}

type c40Fault struct {
	Stream     int    `json:"stream"`      // 0: the stream facing user X (x2), 1: the stream facing user Y (y1)
	Op         string `json:"op"`          // read | write
	AfterBytes int    `json:"after_bytes"` // the call that would move byte AfterBytes+1 fails
}

type c40Prog struct {
	Sides      [2]c40Side `json:"sides"`
	Mode       string     `json:"mode"`        // orderly | abrupt | fault
	Ender      int        `json:"ender"`       // which user finishes first (orderly, abrupt)
	CloseAfter int        `json:"close_after"` // abrupt: the ender closes after writing this many bytes
	Fault      *c40Fault  `json:"fault,omitempty"`
	Swap       bool       `json:"swap"` // call Pipe(y1, x2) instead of Pipe(x2, y1)
	// how the pipe-facing streams hand out what they read (io.Reader allows all of it)
	ReadCap [2]int  `json:"read_cap"` // > 0: a Read returns at most this many bytes (short reads)
	DataErr [2]bool `json:"data_err"` // the last bytes come together with the terminating error (abrupt mode only: it needs one read of look-ahead)
	// the pipe-facing stream also has a CloseWrite method (TCP / unix / TLS connection shape)
	HalfClose [2]bool `json:"has_close_write"`
	// Close of the pipe-facing stream takes this long to return
	SlowCloseMS [2]int `json:"slow_close_ms"`
}

var errC40Injected = errors.New("injected stream failure")

type c40Stream struct {
	inner io.ReadWriteCloser
	rd    io.Reader // what Read reads from (inner, or a look-ahead reader around it)
	cap   int
	// Close returns only after this long
	slowClose time.Duration
	closed    atomic.Int32 // Close calls that have returned
	// a Write on the underlying stream failed before the pipe had closed this stream
	innerWriteErr atomic.Bool
	name          string
	closes        atomic.Int32
	nRead         atomic.Int64
	nWrote        atomic.Int64
	// fault injection (-1: none)
	readFailAfter  int64
	writeFailAfter int64
	faultHit       atomic.Bool
	// scripted behaviour for the witness (nil: use inner)
	onRead  func(p []byte) (int, error)
	onWrite func(p []byte) (int, error)
	onClose func()
}

func (s *c40Stream) Read(p []byte) (int, error) {
	if s.onRead != nil {
		return s.onRead(p)
	}
	if s.readFailAfter >= 0 {
		left := s.readFailAfter - s.nRead.Load()
		if left <= 0 {
			s.faultHit.Store(true)
			return 0, errC40Injected
		}
		if int64(len(p)) > left {
			p = p[:left]
		}
	}
	if s.cap > 0 && len(p) > s.cap {
		p = p[:s.cap]
	}
	n, err := s.rd.Read(p)
	s.nRead.Add(int64(n))
	return n, err
}

func (s *c40Stream) Write(p []byte) (int, error) {
	if s.onWrite != nil {
		return s.onWrite(p)
	}
	if s.writeFailAfter >= 0 {
		left := s.writeFailAfter - s.nWrote.Load()
		if int64(len(p)) > left {
			n := 0
			var err error
			if left > 0 {
				n, err = s.inner.Write(p[:left])
				s.nWrote.Add(int64(n))
			}
			if err == nil {
				s.faultHit.Store(true)
				err = errC40Injected
			}
			return n, err
		}
	}
	n, err := s.inner.Write(p)
	s.nWrote.Add(int64(n))
	if err != nil && s.closes.Load() == 0 {
		s.innerWriteErr.Store(true)
	}
	return n, err
}

func (s *c40Stream) Close() error {
	s.closes.Add(1)
	if s.onClose != nil {
		s.onClose()
	}
	var err error
	if s.inner != nil {
		err = s.inner.Close()
	}
	if s.slowClose > 0 {
		// a Close that takes a while to return (TLS close-notify, QUIC stream reset): whoever is
		// told that the pipe is finished must find BOTH streams closed - Close has RETURNED on
		// each - however slow the first one was
		time.Sleep(s.slowClose)
	}
	s.closed.Add(1)
	return err
}

// c40HalfCloser is a c40Stream that also offers CloseWrite, as TCP, unix and TLS connections
// do. The underlying pairs cannot half-close, so CloseWrite only counts.
type c40HalfCloser struct {
	*c40Stream
	closeWrites atomic.Int32
}

func (h *c40HalfCloser) CloseWrite() error { h.closeWrites.Add(1); return nil }

// c40Mem is a stream that plays a whole side: Read hands out the payload in
// generated chunk sizes and reports the end as configured, Write collects what
// the side receives.
type c40Mem struct {
	mu       sync.Mutex
	payload  []byte
	off      int
	chunks   []int
	k        int
	withData bool
	termErr  error
	finished bool
	closed   bool
	sink     []byte
}

func (m *c40Mem) Read(p []byte) (int, error) {
	m.mu.Lock()
	defer m.mu.Unlock()
	if m.closed {
		return 0, io.ErrClosedPipe
	}
	if m.finished || m.off == len(m.payload) {
		m.finished = true
		return 0, m.termErr
	}
	n := min(m.chunks[m.k%len(m.chunks)], len(p), len(m.payload)-m.off)
	m.k++
	copy(p, m.payload[m.off:m.off+n])
	m.off += n
	if m.off == len(m.payload) && m.withData {
		m.finished = true
		return n, m.termErr
	}
	return n, nil
}

func (m *c40Mem) Write(p []byte) (int, error) {
	m.mu.Lock()
	defer m.mu.Unlock()
	if m.closed {
		return 0, io.ErrClosedPipe
	}
	m.sink = append(m.sink, p...)
	return len(p), nil
}

func (m *c40Mem) Close() error {
	m.mu.Lock()
	m.closed = true
	m.mu.Unlock()
	return nil
}

type c40Run struct {
	hang     bool
	inflight string
	viols    []c39Viol
	labels   []string
	nontriv  bool
	// truncated: the finishing side's bytes did not all arrive although the
	// receiving user kept reading until its stream ended
	truncated    bool
	truncatedMsg string
	pipeErrs     int
}

func c40Pair(s c40Side) (net.Conn, net.Conn) {
	if s.Pair == "netpipe" {
		return net.Pipe()
	}
	return bufconn.BufferedPipe(s.Buf)
}

func c40Payload(side, n int) []byte { return c39Data(side+2, 0, n) }

const c40Watchdog = 30 * time.Second

var c40HangConfirmed atomic.Bool

func c40WD() time.Duration {
	if c40HangConfirmed.Load() {
		return 5 * time.Second
	}
	return c40Watchdog
}

func runC40(p c40Prog) c40Run {
	payload := [2][]byte{c40Payload(0, p.Sides[0].Payload), c40Payload(1, p.Sides[1].Payload)}
	var user [2]net.Conn // nil for a scripted side
	var mem [2]*c40Mem
	str := [2]*c40Stream{
		{name: "x2", readFailAfter: -1, writeFailAfter: -1},
		{name: "y1", readFailAfter: -1, writeFailAfter: -1},
	}
	for i := 0; i < 2; i++ {
		sd := p.Sides[i]
		if sd.Pair == "scripted" {
			m := &c40Mem{payload: payload[i], chunks: sd.Chunks, termErr: io.EOF}
			m.withData = sd.Final == "eof-with-data" || sd.Final == "err-with-data"
			if sd.Final == "err-separate" || sd.Final == "err-with-data" {
				m.termErr = errC40Injected
			}
			mem[i] = m
			str[i].inner = m
		} else {
			u, pipeEnd := c40Pair(sd)
			user[i], str[i].inner = u, pipeEnd
		}
		str[i].rd = str[i].inner
		if p.DataErr[i] {
			str[i].rd = iotest.DataErrReader(str[i].inner)
		}
		str[i].cap = p.ReadCap[i]
	}
	if p.Fault != nil {
		if p.Fault.Op == "read" {
			str[p.Fault.Stream].readFailAfter = int64(p.Fault.AfterBytes)
		} else {
			str[p.Fault.Stream].writeFailAfter = int64(p.Fault.AfterBytes)
		}
	}

	var (
		res      c40Run
		wg       sync.WaitGroup
		got      [2][]byte // bytes user i received
		readErr  [2]error
		wrote    [2]int // bytes user i wrote with success
		closedBy [2]atomic.Bool
		received [2]atomic.Int64
		stMu     sync.Mutex
		status   = map[string]string{}
	)
	setSt := func(who, what string) {
		stMu.Lock()
		if what == "" {
			delete(status, who)
		} else {
			status[who] = what
		}
		stMu.Unlock()
	}
	closeUser := func(i int) {
		closedBy[i].Store(true)
		user[i].Close()
	}
	allReceived := make(chan struct{}) // orderly: the ender has received the whole payload of the other user
	var allOnce sync.Once

	// optionally the pipe-facing streams are of a kind that can close its write direction on
	// its own (like *net.TCPConn, *net.UnixConn, *tls.Conn); what Pipe owes its caller is the same
	var ps [2]io.ReadWriteCloser
	for i := range ps {
		if p.SlowCloseMS[i] > 0 {
			str[i].slowClose = time.Duration(p.SlowCloseMS[i]) * time.Millisecond
		}
		ps[i] = str[i]
		if p.HalfClose[i] {
			ps[i] = &c40HalfCloser{c40Stream: str[i]}
		}
	}
	var errCh <-chan error
	if p.Swap {
		errCh = tun.Pipe(ps[1], ps[0])
	} else {
		errCh = tun.Pipe(ps[0], ps[1])
	}

	writer := func(i int) {
		defer wg.Done()
		sd := p.Sides[i]
		who := fmt.Sprintf("user%d-writer", i)
		limit := len(payload[i])
		if p.Mode == "abrupt" && i == p.Ender {
			limit = p.CloseAfter
		}
		off := 0
		for k := 0; off < limit; k++ {
			n := min(sd.Chunks[k%len(sd.Chunks)], limit-off)
			pause(sd.Yields[k%len(sd.Yields)], 0)
			setSt(who, fmt.Sprintf("Write(%d bytes) at offset %d", n, off))
			w, err := user[i].Write(payload[i][off : off+n])
			setSt(who, "")
			if err != nil {
				break // the pipe (or this user's own close) ended the stream
			}
			off += w
			wrote[i] = off
		}
		switch {
		case p.Mode == "abrupt" && i == p.Ender:
			closeUser(i)
		case p.Mode == "orderly" && i == p.Ender:
			setSt(who, "waiting until this user has received everything")
			<-allReceived
			setSt(who, "")
			closeUser(i)
		}
	}
	reader := func(i int) {
		defer wg.Done()
		sd := p.Sides[i]
		who := fmt.Sprintf("user%d-reader", i)
		buf := make([]byte, 1<<15)
		expect := len(payload[1-i])
		for k := 0; ; k++ {
			if p.Mode == "orderly" && i == p.Ender && len(got[i]) >= expect {
				allOnce.Do(func() { close(allReceived) })
			}
			size := sd.ReadSizes[k%len(sd.ReadSizes)]
			pause(sd.Yields[k%len(sd.Yields)], 0)
			setSt(who, fmt.Sprintf("Read(buf %d) after %d bytes", size, len(got[i])))
			n, err := user[i].Read(buf[:size])
			setSt(who, "")
			got[i] = append(got[i], buf[:n]...)
			received[i].Store(int64(len(got[i])))
			if err != nil {
				readErr[i] = err
				break
			}
		}
		allOnce.Do(func() { close(allReceived) }) // never leave the writer waiting
		if !closedBy[i].Load() {
			closeUser(i) // a user whose stream ended closes its end
		}
	}
	for i := 0; i < 2; i++ {
		if user[i] == nil {
			continue
		}
		wg.Add(2)
		go writer(i)
		go reader(i)
	}
	closeAll := func() {
		for i := 0; i < 2; i++ {
			if user[i] != nil {
				user[i].Close()
			}
			str[i].inner.Close()
		}
	}

	// 1. the pipe reports completion
	tm := time.NewTimer(c40WD())
	defer tm.Stop()
	completed := false
	for !completed {
		select {
		case e, ok := <-errCh:
			if !ok {
				completed = true
			} else if e != nil {
				res.pipeErrs++
			}
		case <-tm.C:
			stMu.Lock()
			res.inflight = fmt.Sprintf("%v; closes x2=%d y1=%d; received X=%d Y=%d", status, str[0].closes.Load(), str[1].closes.Load(), received[0].Load(), received[1].Load())
			stMu.Unlock()
			res.hang = true
			closeAll()
			return res
		}
	}
	// 2. at that moment both streams have been closed by the pipe
	c0, c1 := str[0].closes.Load(), str[1].closes.Load()
	d0, d1 := str[0].closed.Load(), str[1].closed.Load()
	if c0 < 1 || c1 < 1 {
		res.viols = append(res.viols, c39Viol{"stream-not-closed-at-completion", fmt.Sprintf("the pipe reported completion with Close calls x2=%d y1=%d", c0, c1)})
	} else if d0 < 1 || d1 < 1 {
		res.viols = append(res.viols, c39Viol{"stream-not-closed-at-completion", fmt.Sprintf("the pipe reported completion while a Close was still running: Close has returned x2=%d y1=%d times (Close takes %d / %d ms)", d0, d1, p.SlowCloseMS[0], p.SlowCloseMS[1])})
	}
	// 3. users wind down (their ends are unblocked by the closes above)
	done := make(chan struct{})
	go func() { wg.Wait(); close(done) }()
	select {
	case <-done:
	case <-time.After(c40WD()):
		if c0 >= 1 && c1 >= 1 {
			// both pipe-side streams are closed, so this is the pair implementation (C39), not Pipe
			res.hang = true
			stMu.Lock()
			res.inflight = fmt.Sprintf("users still blocked after the pipe completed: %v", status)
			stMu.Unlock()
		}
		closeAll()
		if res.hang {
			return res
		}
		<-done
	}

	// 4. byte streams
	for i := 0; i < 2; i++ {
		if mem[i] != nil {
			mem[i].mu.Lock()
			got[i] = append([]byte{}, mem[i].sink...)
			mem[i].mu.Unlock()
			wrote[i] = mem[i].off
		}
	}
	for i := 0; i < 2; i++ { // user i received got[i], written by user 1-i
		src := 1 - i
		sent := payload[src]
		if p.Mode == "abrupt" && src == p.Ender {
			sent = sent[:p.CloseAfter]
		}
		if !bytes.HasPrefix(sent, got[i]) {
			res.viols = append(res.viols, c39Viol{"bytes-differ-from-written", fmt.Sprintf("user %d received %d bytes that are not a prefix of what user %d wrote (%d bytes)", i, len(got[i]), src, len(sent))})
			continue
		}
		// which deliveries must be complete
		mustAll, why := false, ""
		switch p.Mode {
		case "orderly":
			mustAll, why = true, "orderly exchange"
		case "abrupt":
			if src == p.Ender {
				mustAll, why = true, "the user that finished first had written them before closing"
			}
		case "scripted":
			if src == p.Ender {
				mustAll, why = true, "the scripted side handed all of them to the pipe ("+p.Sides[src].Final+") and nothing made a write to it fail"
			}
		case "fault":
			f := p.Fault
			if f.Op == "read" && f.Stream == src && p.Sides[i].Payload == 0 {
				// the failing stream delivered AfterBytes bytes to the pipe before failing and
				// nothing travels the other way
				sent = sent[:min(len(sent), f.AfterBytes)]
				mustAll, why = true, "read before the stream failed, opposite direction silent"
			}
		}
		if mustAll && len(got[i]) != len(sent) {
			msg := fmt.Sprintf("user %d received %d of the %d bytes user %d wrote (%s); reader ended with %v", i, len(got[i]), len(sent), src, why, readErr[i])
			if p.Mode == "abrupt" && p.Sides[i].Payload > 0 && str[src].innerWriteErr.Load() {
				// the listed finding's mechanism: the opposite direction failed writing to the
				// side that had finished and tore both streams down
				res.truncated, res.truncatedMsg = true, msg
			} else {
				res.viols = append(res.viols, c39Viol{"bytes-lost", msg})
			}
		}
	}

	// labels / non-trivial
	lab := map[string]bool{"mode:" + p.Mode: true, "pairs:" + p.Sides[0].Pair + "+" + p.Sides[1].Pair: true}
	if wrote[0] > 0 && wrote[1] > 0 {
		lab["bidirectional"] = true
		res.nontriv = true
	}
	if p.Fault != nil {
		lab["fault:"+p.Fault.Op] = true
		if str[p.Fault.Stream].faultHit.Load() {
			lab["fault:triggered"] = true
			res.nontriv = true
		}
	}
	if p.Mode == "abrupt" && p.CloseAfter > 0 {
		res.nontriv = true
	}
	if p.Mode == "scripted" {
		lab["scripted-final:"+p.Sides[p.Ender].Final] = true
		if p.Sides[p.Ender].Payload > 0 {
			res.nontriv = true
		}
	}
	if p.ReadCap[0] > 0 || p.ReadCap[1] > 0 {
		lab["short-reads"] = true
	}
	if p.DataErr[0] || p.DataErr[1] {
		lab["last-bytes-with-error"] = true
	}
	if max(len(got[0]), len(got[1])) > tun.BufferSize {
		lab["larger-than-copy-buffer"] = true
	}
	if res.pipeErrs > 0 {
		lab["pipe-reported-error"] = true
	}
	if p.Swap {
		lab["args-swapped"] = true
	}
	if p.HalfClose[0] || p.HalfClose[1] {
		lab["stream-has-CloseWrite"] = true
	}
	for l := range lab {
		res.labels = append(res.labels, l)
	}
	sort.Strings(res.labels)
	return res
}

func genC40(t *rapid.T) c40Prog {
	var p c40Prog
	for i := range p.Sides {
		s := &p.Sides[i]
		s.Pair = rapid.SampledFrom([]string{"bufconn", "bufconn", "netpipe"}).Draw(t, "pair")
		s.Buf = rapid.OneOf(rapid.IntRange(1, 64), rapid.Just(8192)).Draw(t, "buf")
		s.Payload = rapid.OneOf(rapid.Just(0), rapid.IntRange(0, 64), rapid.IntRange(0, 3000), rapid.IntRange(16000, 40000)).Draw(t, "payload")
		nc := rapid.IntRange(1, 4).Draw(t, "nChunks")
		for k := 0; k < nc; k++ {
			s.Chunks = append(s.Chunks, rapid.OneOf(rapid.IntRange(1, 16), rapid.IntRange(1, 2000), rapid.IntRange(1, 20000)).Draw(t, "chunk"))
			s.ReadSizes = append(s.ReadSizes, rapid.OneOf(rapid.IntRange(1, 16), rapid.IntRange(1, 2000), rapid.IntRange(1, 1<<15)).Draw(t, "rsize"))
			s.Yields = append(s.Yields, rapid.IntRange(0, 3).Draw(t, "yields"))
		}
		if s.Payload > 4000 { // keep per-case cost bounded: no byte-at-a-time transfer of big payloads
			for k := range s.Chunks {
				s.Chunks[k] = max(s.Chunks[k], 256)
			}
		}
	}
	for i := range p.Sides { // reading a big payload byte by byte is only slow
		if p.Sides[1-i].Payload > 4000 {
			for k := range p.Sides[i].ReadSizes {
				p.Sides[i].ReadSizes[k] = max(p.Sides[i].ReadSizes[k], 256)
			}
		}
	}
	p.Swap = rapid.Bool().Draw(t, "swap")
	p.Ender = rapid.IntRange(0, 1).Draw(t, "ender")
	for i := range p.HalfClose {
		p.HalfClose[i] = rapid.IntRange(0, 2).Draw(t, "hasCloseWrite") == 0
		p.SlowCloseMS[i] = rapid.SampledFrom([]int{0, 0, 0, 3, 12}).Draw(t, "slowCloseMs")
	}
	for i := range p.ReadCap { // short reads from the pipe-facing streams
		if rapid.IntRange(0, 2).Draw(t, "readCap?") == 0 {
			lo := 1
			if p.Sides[i].Payload > 4000 {
				lo = 64
			}
			p.ReadCap[i] = rapid.OneOf(rapid.IntRange(lo, lo+15), rapid.IntRange(lo, 5000)).Draw(t, "readCap")
		}
	}
	switch rapid.IntRange(0, 12).Draw(t, "mode") {
	case 10, 11, 12:
		// one side is played by a scripted stream that sends its payload and finishes; how
		// Read reports the end (with or after the last bytes, EOF or error) is generated
		p.Mode = "scripted"
		e := &p.Sides[p.Ender]
		e.Pair = "scripted"
		e.Final = rapid.SampledFrom([]string{"eof-separate", "eof-with-data", "err-separate", "err-with-data"}).Draw(t, "final")
		if e.Payload == 0 && rapid.IntRange(0, 3).Draw(t, "keepEmpty") != 0 {
			e.Payload = rapid.IntRange(1, 300).Draw(t, "scriptedPayload")
		}
		if rapid.IntRange(0, 2).Draw(t, "otherSilent") == 0 {
			p.Sides[1-p.Ender].Payload = 0
		}
	case 0, 1, 2:
		p.Mode = "orderly"
	case 3, 4, 5, 6:
		p.Mode = "abrupt"
		for i := range p.DataErr {
			p.DataErr[i] = rapid.IntRange(0, 2).Draw(t, "dataErr") == 0
		}
		p.CloseAfter = rapid.OneOf(rapid.Just(p.Sides[p.Ender].Payload), rapid.IntRange(0, p.Sides[p.Ender].Payload)).Draw(t, "closeAfter")
		if rapid.IntRange(0, 2).Draw(t, "otherSilent") == 0 {
			p.Sides[1-p.Ender].Payload = 0
		}
	default:
		p.Mode = "fault"
		f := &c40Fault{Stream: rapid.IntRange(0, 1).Draw(t, "faultStream"), Op: rapid.SampledFrom([]string{"read", "write"}).Draw(t, "faultOp")}
		if f.Op == "read" {
			// bytes read from stream f.Stream are the payload of user f.Stream
			f.AfterBytes = rapid.IntRange(0, p.Sides[f.Stream].Payload).Draw(t, "faultAfter")
			if rapid.Bool().Draw(t, "otherSilent") {
				p.Sides[1-f.Stream].Payload = 0
			}
		} else {
			// bytes written to stream f.Stream are the payload of the other user; the failing
			// call must exist, so at least one byte has to be left
			other := &p.Sides[1-f.Stream]
			if other.Payload == 0 {
				other.Payload = rapid.IntRange(1, 200).Draw(t, "forcedPayload")
			}
			f.AfterBytes = rapid.IntRange(0, other.Payload-1).Draw(t, "faultAfter")
		}
		p.Fault = f
	}
	return p
}

const c40SigTruncated = "finishing-side-bytes-truncated-by-opposite-direction"

// c40WitnessStall is how long the scripted user Y of the witness does not read.
// The unchanged Pipe closes y1 in the statement after the failed write, long
// before this; an implementation that lets the opposite direction drain for at
// least this long delivers the bytes and the witness reports "not reproduced".
const c40WitnessStall = 3 * time.Second

// c40Witness reproduces the truncation deterministically with scripted streams:
// user X has sent 4 bytes and closed (x2: Read gives the 4 bytes, then EOF;
// Write fails like a closed connection); user Y is busy sending and is not
// reading for the next 3 s (y1: Read gives 3 bytes; Write blocks until y1 is
// closed or user Y reads again, as a real stream with a full buffer does). The direction Y->X fails
// on its first write and Pipe closes both streams, so the 4 bytes of the user
// that finished are dropped although Y never went away.
func c40Witness() (reproduced bool, detail string) {
	y1Closed := make(chan struct{})
	var y1Once sync.Once
	var delivered atomic.Int64
	xReads, yReads := 0, 0
	var mu sync.Mutex
	x2 := &c40Stream{name: "x2"}
	x2.onRead = func(p []byte) (int, error) {
		mu.Lock()
		defer mu.Unlock()
		xReads++
		if xReads == 1 {
			return copy(p, "XXXX"), nil
		}
		return 0, io.EOF
	}
	x2.onWrite = func(p []byte) (int, error) { return 0, io.ErrClosedPipe }
	y1 := &c40Stream{name: "y1"}
	y1.onRead = func(p []byte) (int, error) {
		mu.Lock()
		yReads++
		first := yReads == 1
		mu.Unlock()
		if first {
			return copy(p, "YYY"), nil
		}
		<-y1Closed
		return 0, io.ErrClosedPipe
	}
	y1.onWrite = func(p []byte) (int, error) {
		select {
		case <-y1Closed:
			return 0, io.ErrClosedPipe
		case <-time.After(c40WitnessStall): // user Y starts reading again
			delivered.Add(int64(len(p)))
			return len(p), nil
		}
	}
	y1.onClose = func() { y1Once.Do(func() { close(y1Closed) }) }
	ch := tun.Pipe(x2, y1)
	tm := time.NewTimer(2 * c40Watchdog)
	defer tm.Stop()
	for {
		select {
		case _, ok := <-ch:
			if !ok {
				return delivered.Load() < 4, fmt.Sprintf("delivered %d of 4 bytes of the finished user", delivered.Load())
			}
		case <-tm.C:
			return false, "witness did not complete"
		}
	}
}

func TestC40(t *testing.T) {
	rec := ev.New(t, "C40")
	rec.Rule("rapid-generated programmes: two users connected through tun.Pipe over bufconn (buffer 1..64 or 8192) and net.Pipe pairs, payloads 0..40000 bytes each way (above the 16 KiB copy buffer in a fraction of the cases), cycled chunk / read sizes and Gosched yields, either argument order. Modes: orderly (the ender closes after sending everything and receiving everything), abrupt (the ender closes after k of its bytes, the other user silent or still sending), fault (the stream facing one user returns an error from Read or Write at a byte count). scripted (one side is a scripted stream that hands out its payload in generated short reads and reports its end as EOF or an error, either after or together with the last bytes). The pipe-facing streams optionally cap every Read (short reads) and, in abrupt mode, deliver their last bytes together with the terminating error (look-ahead reader). Oracle: the error channel closes; at that moment both streams had Close called; every user received a prefix of what the other wrote; the whole of it in orderly mode, for the user or scripted side that finished first, and for bytes read before an injected read error when nothing travels the other way. Non-trivial: both users wrote, or a fault triggered, or the ender (user or scripted side) wrote before finishing. Distinct = distinct programmes.")
	rec.Assume("bufconn and net.Pipe pairs behave as byte streams (C39 covers bufconn)",
		"which errors appear on the channel is not checked, only that it is closed",
		"watchdog 30 s on completion with the must-reproduce rule (a single unreproduced hit is inconclusive)")
	flag.Set("rapid.shrinktime", "10s")

	known := ev.Known("C40", c40SigTruncated)
	if known {
		ok, detail := c40Witness()
		rec.Witnessed(c40SigTruncated, ok)
		rec.Note("witness_"+c40SigTruncated, detail)
	}

	ev.RapidCheck(t, 300, 10000, func(t *rapid.T) {
		p := genC40(t)
		r := runC40(p)
		if r.hang {
			first := r.inflight
			r = runC40(p)
			if r.hang {
				c40HangConfirmed.Store(true)
				rec.Case(true, caseKey(p), func() any { return p }, "hang")
				rec.Fail(t, "pipe-did-not-complete", map[string]any{"case": p, "first_run": first, "second_run": r.inflight},
					"no completion after %v in two consecutive runs: %s", c40WD(), r.inflight)
			}
			rec.Inconclusive("watchdog-hit-not-reproduced")
		}
		rec.Case(r.nontriv, caseKey(p), func() any { return p }, r.labels...)
		if r.truncated {
			if known {
				rec.Excluded(c40SigTruncated)
			} else {
				rec.Fail(t, c40SigTruncated, map[string]any{"case": p}, "%s", r.truncatedMsg)
			}
		}
		if len(r.viols) > 0 {
			v := r.viols[0]
			rec.Fail(t, v.Sig, map[string]any{"case": p, "violations": r.viols}, "%s", v.Msg)
		}
	})
}
