package utilx

import (
	"bytes"
	"encoding/json"
	"errors"
	"flag"
	"fmt"
	"io"
	"net"
	"runtime"
	"sync"
	"sync/atomic"
	"testing"
	"time"

	"go.miragespace.co/specter/util/bufconn"
	"verifharness/internal/ev"

	"pgregory.net/rapid"
)

// ---- C39: util/bufconn is a faithful byte stream ------------------------------
//
// Two kinds of generated case:
//
//  kind "stream": four free-running goroutines (a writer and a reader on each
//    end of one BufferedPipe) with generated chunk sizes, read sizes, yields,
//    optional short deadlines ("noise": a timed-out call is simply retried) and
//    a generated close plan. Oracle: a position-set automaton over the writer's
//    recorded calls decides whether the bytes the reader saw are exactly
//    concat(successful writes) where a failed write may have contributed a
//    prefix; EOF demands the complete stream; calls started after Close()
//    returned on their own end must fail and deliver nothing.
//
//  kind "script": one goroutine drives a generated operation script whose
//    every step has an outcome predicted by a FIFO model (never blocking by
//    construction), interleaved with *probes* that must block: a read on an
//    empty pipe / a write larger than the free space, each released either by
//    a deadline (must return a timeout error) or by a Close of the peer or of
//    the own end from the driving goroutine (must return EOF / an error).
//
// Both run under a watchdog (30 s; generous budget, not an oracle): a hit is
// re-run immediately and only a second hit is a violation.

type c39End struct {
	c            net.Conn
	name         string
	readDLArmed  atomic.Bool
	writeDLArmed atomic.Bool
	closeStarted atomic.Bool
	closeDone    atomic.Bool
}

func (e *c39End) close() {
	e.closeStarted.Store(true)
	e.c.Close()
	e.closeDone.Store(true)
}
func (e *c39End) setRD(d time.Duration) {
	e.readDLArmed.Store(true)
	e.c.SetReadDeadline(time.Now().Add(d))
}
func (e *c39End) setWD(d time.Duration) {
	e.writeDLArmed.Store(true)
	e.c.SetWriteDeadline(time.Now().Add(d))
}
func (e *c39End) clearRD() { e.c.SetReadDeadline(time.Time{}) }
func (e *c39End) clearWD() { e.c.SetWriteDeadline(time.Time{}) }

func c39IsTimeout(err error) bool {
	var ne net.Error
	return err != nil && errors.As(err, &ne) && ne.Timeout()
}

func c39Byte(dir, off int) byte {
	x := uint32(off)*2654435761 + uint32(dir)*40503 + 12345
	x ^= x >> 15
	x *= 2246822519
	x ^= x >> 13
	return byte(x)
}

func c39Data(dir, off, n int) []byte {
	b := make([]byte, n)
	for i := range b {
		b[i] = c39Byte(dir, off+i)
	}
	return b
}

type c39Viol struct {
	Sig string `json:"sig"`
	Msg string `json:"msg"`
}

func pause(yields, sleepUS int) {
	for i := 0; i < yields; i++ {
		runtime.Gosched()
	}
	if sleepUS > 0 {
		time.Sleep(time.Duration(sleepUS) * time.Microsecond)
	}
}

// ---- stream automaton ----------------------------------------------------------

type c39WriteRec struct {
	data        []byte
	err         error
	deliverNone bool // the call started after Close() had returned on its own end
}

// c39Match decides whether got is explained by the writes.
//
//	full:   got == concatenation where each successful write contributes all
//	        its bytes and each failed write a prefix (nothing if deliverNone)
//	prefix: got is a prefix of such a concatenation
func c39Match(writes []c39WriteRec, got []byte) (full, prefix bool) {
	cur := map[int]bool{0: true}
	L := len(got)
	for _, w := range writes {
		if cur[L] {
			prefix = true
		}
		next := map[int]bool{}
		for pos := range cur {
			if w.err == nil {
				end := pos + len(w.data)
				if end <= L {
					if bytes.Equal(got[pos:end], w.data) {
						next[end] = true
					}
				} else if bytes.Equal(got[pos:], w.data[:L-pos]) {
					prefix = true // got ends inside a successful write
				}
				continue
			}
			next[pos] = true
			if w.deliverNone {
				continue
			}
			for j := 1; j <= len(w.data) && pos+j <= L; j++ {
				if got[pos+j-1] != w.data[j-1] {
					break
				}
				next[pos+j] = true
			}
		}
		cur = next
		if len(cur) == 0 {
			break
		}
	}
	if cur[L] {
		full, prefix = true, true
	}
	return
}

// ---- kind "stream" ---------------------------------------------------------------

type c39Write struct {
	Len        int `json:"len"`
	Yields     int `json:"yields"`
	SleepUS    int `json:"sleep_us"`
	DeadlineMS int `json:"deadline_ms"` // 0: none
}

type c39EndPlan struct {
	Writes         []c39Write `json:"writes"`
	ReadSizes      []int      `json:"read_sizes"`       // cycled
	ReadYields     []int      `json:"read_yields"`      // cycled
	ReadDeadlineMS []int      `json:"read_deadline_ms"` // cycled, 0: none
	CloseBy        string     `json:"close_by"`         // writer | reader | timer | first | second
	CloseAtWrite   int        `json:"close_at_write"`
	CloseAtBytes   int        `json:"close_at_bytes"`
	CloseAfterUS   int        `json:"close_after_us"`
}

type c39Stream struct {
	Buf  int           `json:"buf"`
	Ends [2]c39EndPlan `json:"ends"`
}

type c39DirOut struct {
	writes   []c39WriteRec
	got      []byte
	sawEOF   bool
	termErr  error
	reads    int
	timeouts int
}

type c39Run struct {
	hang     bool
	inflight string
	viols    []c39Viol
	labels   []string
	nontriv  bool
	notes    map[string]int64
}

type c39Status struct {
	mu    sync.Mutex
	slots map[string]string
	ends  [2]*c39End
}

func (s *c39Status) set(who, what string) {
	s.mu.Lock()
	if what == "" {
		delete(s.slots, who)
	} else {
		s.slots[who] = what
	}
	s.mu.Unlock()
}

func (s *c39Status) snapshot() string {
	s.mu.Lock()
	defer s.mu.Unlock()
	b, _ := json.Marshal(s.slots)
	return string(b)
}

var c39HangConfirmed atomic.Bool

func c39Watchdog() time.Duration {
	if c39HangConfirmed.Load() {
		return 5 * time.Second // only while shrinking an already confirmed hang
	}
	return 30 * time.Second
}

// underWatchdog runs body in its own goroutine; on a watchdog hit both ends are
// closed (which wakes every waiter of an intact implementation) and the
// in-flight calls are reported.
func underWatchdog(st *c39Status, body func() c39Run) c39Run {
	done := make(chan c39Run, 1)
	go func() { done <- body() }()
	tm := time.NewTimer(c39Watchdog())
	defer tm.Stop()
	select {
	case r := <-done:
		return r
	case <-tm.C:
		infl := st.snapshot()
		for _, e := range st.ends {
			if e != nil {
				e.c.SetDeadline(time.Now().Add(-time.Second))
				e.c.Close()
			}
		}
		select { // let the goroutines drain so they do not pile up
		case <-done:
		case <-time.After(5 * time.Second):
		}
		return c39Run{hang: true, inflight: infl}
	}
}

// postCloseOps: calls started after Close() returned on the own end must fail.
func postCloseOps(e *c39End, who string, st *c39Status, viols *[]c39Viol, notes map[string]int64) {
	var b [8]byte
	st.set(who, e.name+".Read after own Close")
	n, err := e.c.Read(b[:])
	if err == nil || n != 0 {
		*viols = append(*viols, c39Viol{"read-on-closed-end-succeeded", fmt.Sprintf("%s.Read after %s.Close() returned (%d, %v)", e.name, e.name, n, err)})
	}
	st.set(who, e.name+".Write after own Close")
	n, err = e.c.Write([]byte{0xEE})
	if err == nil || n != 0 {
		*viols = append(*viols, c39Viol{"write-on-closed-end-succeeded", fmt.Sprintf("%s.Write(1 byte) after %s.Close() returned (%d, %v)", e.name, e.name, n, err)})
	}
	// observation only (the statement's domain is non-empty chunks)
	if n, err = e.c.Write(nil); err == nil && n == 0 {
		notes["empty_write_on_closed_end_returned_nil"]++
	}
	st.set(who, "")
}

func runC39Stream(p c39Stream) c39Run {
	a, b := bufconn.BufferedPipe(p.Buf)
	ends := [2]*c39End{{c: a, name: "A"}, {c: b, name: "B"}}
	st := &c39Status{slots: map[string]string{}, ends: ends}
	return underWatchdog(st, func() c39Run {
		var (
			wg       sync.WaitGroup
			outs     [2]c39DirOut // indexed by direction = writer end
			violsMu  sync.Mutex
			viols    []c39Viol
			notes    = map[string]int64{}
			bothDone [2]atomic.Int32
		)
		addViol := func(sig, f string, a ...any) {
			violsMu.Lock()
			viols = append(viols, c39Viol{sig, fmt.Sprintf(f, a...)})
			violsMu.Unlock()
		}
		post := func(e *c39End, who string) {
			var v []c39Viol
			n := map[string]int64{}
			postCloseOps(e, who, st, &v, n)
			violsMu.Lock()
			viols = append(viols, v...)
			for k, x := range n {
				notes[k] += x
			}
			violsMu.Unlock()
		}
		total := func(e int) int {
			s := 0
			for _, w := range p.Ends[e].Writes {
				s += w.Len
			}
			return s
		}

		writer := func(e int) {
			defer wg.Done()
			end, peer, plan := ends[e], ends[1-e], p.Ends[e]
			who := end.name + "-writer"
			out := &outs[e]
			off := 0
			closeHere := func() {
				st.set(who, end.name+".Close")
				end.close()
				post(end, who)
			}
			for i, w := range plan.Writes {
				if plan.CloseBy == "writer" && i == plan.CloseAtWrite {
					closeHere()
				}
				pause(w.Yields, w.SleepUS)
				if w.DeadlineMS > 0 {
					end.setWD(time.Duration(w.DeadlineMS) * time.Millisecond)
				}
				data := c39Data(e, off, w.Len)
				off += w.Len
				rec := c39WriteRec{data: data, deliverNone: end.closeDone.Load()}
				st.set(who, fmt.Sprintf("%s.Write(%d bytes) #%d", end.name, w.Len, i))
				n, err := end.c.Write(data)
				st.set(who, "")
				rec.err = err
				out.writes = append(out.writes, rec)
				if n < 0 || n > len(data) {
					addViol("write-count-out-of-range", "%s.Write(%d bytes) returned n=%d", end.name, len(data), n)
				}
				if err == nil && n != len(data) {
					addViol("short-write-without-error", "%s.Write(%d bytes) returned (%d, nil)", end.name, len(data), n)
				}
				if rec.deliverNone && err == nil && len(data) > 0 {
					addViol("write-on-closed-end-succeeded", "%s.Write(%d bytes) started after %s.Close() returned and succeeded", end.name, len(data), end.name)
				}
				if err != nil {
					if c39IsTimeout(err) {
						if !end.writeDLArmed.Load() {
							addViol("timeout-without-deadline", "%s.Write returned %v although no write deadline was ever set", end.name, err)
						}
						end.clearWD()
						continue
					}
					if !end.closeStarted.Load() && !peer.closeStarted.Load() {
						addViol("write-failed-on-open-stream", "%s.Write(%d bytes) failed with %v while neither end had been closed", end.name, len(data), err)
					}
					break
				}
				if w.DeadlineMS > 0 {
					end.clearWD()
				}
			}
			if plan.CloseBy == "writer" && plan.CloseAtWrite >= len(plan.Writes) && !end.closeStarted.Load() {
				closeHere()
			}
			if plan.CloseBy == "first" && bothDone[e].Add(1) == 2 {
				closeHere()
			}
		}

		reader := func(r int) {
			defer wg.Done()
			d := 1 - r // direction read here = data written by the other end
			end, plan := ends[r], p.Ends[r]
			who := end.name + "-reader"
			out := &outs[d]
			want := total(d)
			buf := make([]byte, 96)
			closeHere := func() {
				st.set(who, end.name+".Close")
				end.close()
				post(end, who)
			}
			spins := 0
			for i := 0; ; i++ {
				if plan.CloseBy == "first" && len(out.got) >= want {
					// received everything: this end closes once its writer is done too
					if bothDone[r].Add(1) == 2 {
						closeHere()
					}
					return
				}
				size := plan.ReadSizes[i%len(plan.ReadSizes)]
				pause(plan.ReadYields[i%len(plan.ReadYields)], 0)
				dl := plan.ReadDeadlineMS[i%len(plan.ReadDeadlineMS)]
				if dl > 0 {
					end.setRD(time.Duration(dl) * time.Millisecond)
				}
				mustFail := end.closeDone.Load()
				st.set(who, fmt.Sprintf("%s.Read(buf %d) #%d after %d bytes", end.name, size, i, len(out.got)))
				n, err := end.c.Read(buf[:size])
				st.set(who, "")
				out.reads++
				if n < 0 || n > size {
					addViol("read-count-out-of-range", "%s.Read(buf %d) returned n=%d", end.name, size, n)
					break
				}
				if mustFail && (n != 0 || err == nil) {
					addViol("read-on-closed-end-succeeded", "%s.Read started after %s.Close() returned and gave (%d, %v)", end.name, end.name, n, err)
				}
				out.got = append(out.got, buf[:n]...)
				if err != nil {
					if c39IsTimeout(err) {
						if !end.readDLArmed.Load() {
							addViol("timeout-without-deadline", "%s.Read returned %v although no read deadline was ever set", end.name, err)
							break
						}
						out.timeouts++
						end.clearRD()
						continue
					}
					if err == io.EOF {
						out.sawEOF = true
					} else if !end.closeStarted.Load() {
						addViol("read-error-not-eof-on-open-end", "%s.Read failed with %v although %s was never closed", end.name, err, end.name)
					}
					out.termErr = err
					break
				}
				if dl > 0 {
					end.clearRD()
				}
				if n == 0 && size > 0 {
					if spins++; spins > 10000 {
						addViol("read-spins-without-data", "%s.Read(buf %d) returned (0, nil) 10000 times", end.name, size)
						break
					}
					runtime.Gosched()
				}
				if plan.CloseBy == "reader" && len(out.got) >= plan.CloseAtBytes {
					closeHere()
					break
				}
			}
			if out.sawEOF {
				// end-of-stream is sticky
				st.set(who, end.name+".Read after EOF")
				n, err := end.c.Read(buf[:8])
				st.set(who, "")
				if n != 0 || err == nil || (c39IsTimeout(err) && !end.readDLArmed.Load()) {
					addViol("data-after-eof", "%s.Read after EOF returned (%d, %v)", end.name, n, err)
				} else if err != io.EOF && !c39IsTimeout(err) && !end.closeStarted.Load() {
					addViol("read-error-not-eof-on-open-end", "%s.Read after EOF failed with %v although %s was never closed", end.name, err, end.name)
				}
			}
			// an application that sees its stream end closes its own end
			if !end.closeStarted.Load() {
				closeHere()
			}
		}

		for e := 0; e < 2; e++ {
			wg.Add(2)
			go writer(e)
			go reader(e)
			if p.Ends[e].CloseBy == "timer" {
				wg.Add(1)
				go func(e int) {
					defer wg.Done()
					who := ends[e].name + "-closer"
					time.Sleep(time.Duration(p.Ends[e].CloseAfterUS) * time.Microsecond)
					st.set(who, ends[e].name+".Close")
					ends[e].close()
					post(ends[e], who)
				}(e)
			}
		}
		wg.Wait()

		res := c39Run{notes: notes}
		graceful := p.Ends[0].CloseBy == "first" || p.Ends[1].CloseBy == "first"
		for d := 0; d < 2; d++ {
			o := &outs[d]
			w, r := ends[d].name, ends[1-d].name
			full, prefix := c39Match(o.writes, o.got)
			okBytes, failed := 0, 0
			for _, wr := range o.writes {
				if wr.err == nil {
					okBytes += len(wr.data)
				} else {
					failed++
				}
			}
			switch {
			case !prefix:
				viols = append(viols, c39Viol{"bytes-differ-from-written", fmt.Sprintf("%s->%s: the %d bytes read are not a prefix of any stream the %d recorded writes can explain", w, r, len(o.got), len(o.writes))})
			case o.sawEOF && !full:
				viols = append(viols, c39Viol{"eof-before-all-written-bytes", fmt.Sprintf("%s->%s: reader got EOF after %d bytes but %d bytes were written by successful calls", w, r, len(o.got), okBytes)})
			}
			if graceful {
				if failed > 0 {
					viols = append(viols, c39Viol{"write-failed-on-open-stream", fmt.Sprintf("%s->%s: %d writes failed in an orderly exchange", w, r, failed)})
				}
				if prefix && len(o.got) != total(d) {
					viols = append(viols, c39Viol{"bytes-lost-in-orderly-exchange", fmt.Sprintf("%s->%s: read %d of %d bytes", w, r, len(o.got), total(d))})
				}
			}
			if len(o.got) > p.Buf {
				res.nontriv = true
				res.labels = append(res.labels, "stream:moved-more-than-buffer")
			}
			if failed > 0 {
				res.nontriv = true
				res.labels = append(res.labels, "stream:some-write-cut-by-close-or-deadline")
			}
			if o.sawEOF {
				res.labels = append(res.labels, "stream:reader-saw-eof")
			}
			if o.timeouts > 0 {
				res.labels = append(res.labels, "stream:read-timeouts-retried")
			}
			notes["bytes_read"] += int64(len(o.got))
			notes["read_calls"] += int64(o.reads)
			notes["write_calls"] += int64(len(o.writes))
		}
		if graceful {
			res.labels = append(res.labels, "stream:orderly")
		} else {
			res.labels = append(res.labels, "stream:abrupt:"+p.Ends[0].CloseBy+"+"+p.Ends[1].CloseBy)
		}
		res.viols = viols
		res.labels = uniq(res.labels)
		return res
	})
}

func uniq(in []string) []string {
	seen := map[string]bool{}
	var out []string
	for _, s := range in {
		if !seen[s] {
			seen[s] = true
			out = append(out, s)
		}
	}
	return out
}

func genC39Stream(t *rapid.T) c39Stream {
	p := c39Stream{Buf: rapid.OneOf(rapid.IntRange(1, 64), rapid.IntRange(1, 4)).Draw(t, "buf")}
	orderly := rapid.IntRange(0, 2).Draw(t, "orderly") == 0
	noise := rapid.IntRange(0, 3).Draw(t, "deadlineNoise") == 0
	chunk := rapid.OneOf(rapid.IntRange(1, 8), rapid.IntRange(1, 2*p.Buf+2), rapid.IntRange(1, 200))
	rsize := rapid.OneOf(rapid.IntRange(1, 8), rapid.IntRange(1, p.Buf+2), rapid.IntRange(1, 96), rapid.IntRange(0, 2))
	for e := 0; e < 2; e++ {
		pl := &p.Ends[e]
		nw := rapid.IntRange(0, 12).Draw(t, "nWrites")
		for i := 0; i < nw; i++ {
			w := c39Write{Len: chunk.Draw(t, "len"), Yields: rapid.IntRange(0, 3).Draw(t, "wy")}
			if rapid.IntRange(0, 9).Draw(t, "ws?") == 0 {
				w.SleepUS = rapid.IntRange(1, 300).Draw(t, "wsleep")
			} else if noise && rapid.IntRange(0, 3).Draw(t, "wslong?") == 0 {
				w.SleepUS = rapid.IntRange(500, 4000).Draw(t, "wsleepLong") // long enough for a reader deadline to expire
			}
			if noise && !orderly && rapid.IntRange(0, 3).Draw(t, "wd?") == 0 {
				w.DeadlineMS = rapid.IntRange(1, 20).Draw(t, "wdl")
			}
			pl.Writes = append(pl.Writes, w)
		}
		nr := rapid.IntRange(1, 5).Draw(t, "nReadPat")
		for i := 0; i < nr; i++ {
			pl.ReadSizes = append(pl.ReadSizes, rsize.Draw(t, "rsize"))
			pl.ReadYields = append(pl.ReadYields, rapid.IntRange(0, 3).Draw(t, "ry"))
			dl := 0
			if noise && rapid.IntRange(0, 2).Draw(t, "rd?") == 0 {
				dl = rapid.OneOf(rapid.IntRange(1, 3), rapid.IntRange(1, 20)).Draw(t, "rdl")
			}
			pl.ReadDeadlineMS = append(pl.ReadDeadlineMS, dl)
		}
		// a pattern of only zero-size reads would never consume anything
		allZero := true
		for _, s := range pl.ReadSizes {
			if s > 0 {
				allZero = false
			}
		}
		if allZero {
			pl.ReadSizes[0] = 1
		}
	}
	if orderly {
		first := rapid.IntRange(0, 1).Draw(t, "first")
		p.Ends[first].CloseBy = "first"
		p.Ends[1-first].CloseBy = "second"
		return p
	}
	// at least one end has a trigger that is certain to fire
	sure := rapid.IntRange(0, 1).Draw(t, "sureEnd")
	for e := 0; e < 2; e++ {
		pl := &p.Ends[e]
		kinds := []string{"writer", "timer", "reader"}
		if e == sure {
			kinds = kinds[:2]
		}
		pl.CloseBy = rapid.SampledFrom(kinds).Draw(t, "closeBy")
		switch pl.CloseBy {
		case "writer":
			pl.CloseAtWrite = rapid.IntRange(0, len(pl.Writes)).Draw(t, "closeAtWrite")
		case "reader":
			tot := 0
			for _, w := range p.Ends[1-e].Writes {
				tot += w.Len
			}
			pl.CloseAtBytes = rapid.IntRange(0, tot+1).Draw(t, "closeAtBytes")
		case "timer":
			pl.CloseAfterUS = rapid.OneOf(rapid.IntRange(0, 50), rapid.IntRange(0, 2000)).Draw(t, "closeAfterUS")
		}
	}
	return p
}

// ---- kind "script" -----------------------------------------------------------------

type c39Op struct {
	Kind    string `json:"kind"`
	Dir     int    `json:"dir"`            // direction: writer end = Dir, reader end = 1-Dir
	N       int    `json:"n"`              // write length / read buffer size / extra bytes beyond the free space
	DMS     int    `json:"dms"`            // deadline kind "future": milliseconds from now
	When    string `json:"when,omitempty"` // deadline probes: "before" the call starts | while the call is "blocked" (set from the driver after pause_us)
	DL      string `json:"dl,omitempty"`   // deadline probes: future | now | past-1ms | past-1h | cleared | cleared-after-1h
	Both    bool   `json:"both,omitempty"` // deadline probes: use SetDeadline instead of SetReadDeadline / SetWriteDeadline
	PauseUS int    `json:"pause_us"`       // delay between starting the blocked call and the releasing action
	End     int    `json:"end"`
}

type c39Script struct {
	Buf int     `json:"buf"`
	Ops []c39Op `json:"ops"`
}

// c39Model is the FIFO the script generator and the executor share.
type c39Model struct {
	buf    int
	q      [2][]byte // per direction
	off    [2]int    // bytes attempted so far per direction (data generator offset)
	closed [2]bool   // per end
}

// genC39Script draws ops that the model says are legal in the current state.
// Only lengths matter for legality, so generation tracks counts.
func genC39Script(t *rapid.T) c39Script {
	s := c39Script{Buf: rapid.OneOf(rapid.IntRange(1, 64), rapid.IntRange(1, 5)).Draw(t, "buf")}
	avail := [2]int{}
	closed := [2]bool{}
	nops := rapid.IntRange(3, 40).Draw(t, "nops")
	probes := 0
	for len(s.Ops) < nops {
		d := rapid.IntRange(0, 1).Draw(t, "dir")
		w, r := d, 1-d
		var cand []string
		if !closed[w] && !closed[r] {
			if avail[d] < s.Buf {
				cand = append(cand, "W", "W", "W", "W")
			}
			cand = append(cand, "W0")
			if probes < 3 {
				cand = append(cand, "WT", "BWPC", "BWOC")
			}
		}
		if !closed[r] {
			if avail[d] > 0 {
				cand = append(cand, "R", "R", "R", "R0", "RALL")
			} else if closed[w] {
				cand = append(cand, "REOF")
			} else if probes < 3 {
				cand = append(cand, "RT", "RT", "BRPC", "BROC")
			}
		}
		if closed[w] {
			cand = append(cand, "WCLOSED")
		}
		if closed[r] {
			cand = append(cand, "RCLOSED")
		}
		if !closed[w] && closed[r] {
			cand = append(cand, "WPEERCLOSED")
		}
		if !closed[w] && len(s.Ops) > 2 {
			cand = append(cand, "CLOSE")
		}
		if len(cand) == 0 {
			break
		}
		op := c39Op{Kind: rapid.SampledFrom(cand).Draw(t, "kind"), Dir: d}
		switch op.Kind {
		case "W":
			op.N = rapid.IntRange(1, s.Buf-avail[d]).Draw(t, "wn")
			avail[d] += op.N
		case "R":
			// a legal read may be shorter than min(N, queued) (ring wrap-around); generation
			// assumes the longest, the executor works from the real queue and clamps writes
			op.N = rapid.IntRange(1, 70).Draw(t, "rn")
			avail[d] -= min(op.N, avail[d])
		case "RALL":
			op.N = rapid.IntRange(1, 70).Draw(t, "rn")
			avail[d] = 0
		case "RT", "WT":
			// deadline probe: {set before the call, set while the call is blocked} x
			// {future, exactly now, in the past, cleared} x {read, write}
			if op.Kind == "RT" {
				op.N = rapid.IntRange(1, 16).Draw(t, "rn")
			} else {
				op.N = rapid.IntRange(1, 40).Draw(t, "extra")
			}
			op.When = rapid.SampledFrom([]string{"before", "blocked", "blocked"}).Draw(t, "when")
			op.DL = rapid.SampledFrom([]string{"future", "future", "now", "now", "past-1ms", "past-1h", "cleared", "cleared-after-1h"}).Draw(t, "dl")
			if op.DL == "future" {
				op.DMS = rapid.OneOf(rapid.IntRange(1, 5), rapid.IntRange(1, 20)).Draw(t, "dms")
			}
			op.Both = rapid.IntRange(0, 3).Draw(t, "both") == 0
			op.PauseUS = rapid.OneOf(rapid.Just(0), rapid.IntRange(0, 100), rapid.IntRange(200, 1500)).Draw(t, "pause")
			probes++
			avail[d] = 0 // the executor leaves the direction empty after the probe
		case "BRPC", "BROC", "BWPC", "BWOC":
			op.N = rapid.IntRange(1, 40).Draw(t, "n")
			op.PauseUS = rapid.OneOf(rapid.Just(0), rapid.IntRange(0, 100), rapid.IntRange(0, 1500)).Draw(t, "pause")
			probes++
			switch op.Kind {
			case "BRPC":
				closed[w] = true
			case "BROC":
				closed[r] = true
			case "BWPC":
				closed[r] = true
			case "BWOC":
				closed[w] = true
				avail[d] = 0 // executor drains to EOF
			}
		case "CLOSE":
			op.End = w
			closed[w] = true
		case "WCLOSED", "WPEERCLOSED":
			op.N = rapid.IntRange(1, 20).Draw(t, "n")
		case "RCLOSED", "REOF":
			op.N = rapid.IntRange(1, 20).Draw(t, "n")
		}
		s.Ops = append(s.Ops, op)
	}
	return s
}

func dlClass(dl string) string {
	switch dl {
	case "future":
		return "future"
	case "now":
		return "now"
	}
	return "past"
}

func runC39Script(s c39Script) c39Run {
	a, b := bufconn.BufferedPipe(s.Buf)
	ends := [2]*c39End{{c: a, name: "A"}, {c: b, name: "B"}}
	st := &c39Status{slots: map[string]string{}, ends: ends}
	return underWatchdog(st, func() c39Run {
		res := c39Run{notes: map[string]int64{}}
		m := c39Model{buf: s.Buf}
		fail := func(sig, f string, a ...any) c39Run {
			res.viols = append(res.viols, c39Viol{sig, fmt.Sprintf(f, a...)})
			return res
		}
		label := map[string]bool{}
		written := [2]int{}
		buf := make([]byte, 128)

		// retryStale: a timeout on an end whose deadline has been cleared can only
		// come from a timer that fired while it was being replaced; the statement
		// does not speak about it, so the call is repeated after clearing again.
		readOnce := func(e *c39End, n int, what string) (int, error) {
			for k := 0; ; k++ {
				st.set("driver", what)
				got, err := e.c.Read(buf[:n])
				st.set("driver", "")
				if c39IsTimeout(err) && e.readDLArmed.Load() && k < 3 {
					res.notes["stale_timeout_after_clear"]++
					e.clearRD()
					continue
				}
				return got, err
			}
		}
		// drain reads dir d until a deadline expires on an empty pipe (writer idle).
		drainByDeadline := func(d int) ([]byte, error) {
			e := ends[1-d]
			var out []byte
			// one deadline for the whole drain (queued data is returned even after it has
			// passed; re-arming per read could race a firing timer)
			e.setRD(3 * time.Millisecond)
			for {
				st.set("driver", fmt.Sprintf("%s.Read (drain, 3ms deadline)", e.name))
				n, err := e.c.Read(buf[:64])
				st.set("driver", "")
				out = append(out, buf[:n]...)
				if err != nil {
					e.clearRD()
					if c39IsTimeout(err) {
						return out, nil
					}
					return out, err
				}
			}
		}
		prefixOK := func(have, q, data []byte) (int, bool) { // have == q ++ data[:j]
			if len(have) < len(q) || !bytes.Equal(have[:len(q)], q) {
				return 0, false
			}
			j := len(have) - len(q)
			if j > len(data) || !bytes.Equal(have[len(q):], data[:j]) {
				return 0, false
			}
			return j, true
		}

		// drainModel reads everything the model says is queued in direction d.
		drainModel := func(d int, ctx string) *c39Viol {
			re := ends[1-d]
			for len(m.q[d]) > 0 {
				got, err := readOnce(re, 64, ctx+": reading the queued bytes first")
				if err != nil || got < 1 || got > len(m.q[d]) || !bytes.Equal(buf[:got], m.q[d][:got]) {
					return &c39Viol{"bytes-differ-from-written", fmt.Sprintf("%s: Read returned (%d, %v) %x while %x was queued", ctx, got, err, buf[:max(got, 0)], m.q[d])}
				}
				m.q[d] = m.q[d][got:]
			}
			return nil
		}

		for i, op := range s.Ops {
			d := op.Dir
			we, re := ends[d], ends[1-d]
			ctx := fmt.Sprintf("op #%d %s dir %s->%s (buf %d, queued %d)", i, op.Kind, we.name, re.name, s.Buf, len(m.q[d]))
			switch op.Kind {
			case "W", "W0":
				n := op.N
				if op.Kind == "W0" {
					n = 0
				}
				if n > s.Buf-len(m.q[d]) {
					n = s.Buf - len(m.q[d]) // keep it non-blocking whatever short reads did before
				}
				data := c39Data(d, m.off[d], n)
				m.off[d] += n
				st.set("driver", ctx)
				got, err := we.c.Write(data)
				st.set("driver", "")
				if err != nil || got != n {
					return fail("write-failed-on-open-stream", "%s: Write(%d bytes) with %d bytes free returned (%d, %v)", ctx, n, s.Buf-len(m.q[d]), got, err)
				}
				m.q[d] = append(m.q[d], data...)
				written[d] += n
			case "R", "R0", "RALL":
				for {
					if len(m.q[d]) == 0 {
						break
					}
					n := op.N
					if op.Kind == "R0" {
						n = 0
					}
					got, err := readOnce(re, n, ctx)
					if err != nil {
						return fail("read-failed-with-data-queued", "%s: Read(buf %d) returned (%d, %v)", ctx, n, got, err)
					}
					if n == 0 {
						if got != 0 {
							return fail("read-count-out-of-range", "%s: Read(empty buf) returned %d", ctx, got)
						}
						break
					}
					if got < 1 || got > n || got > len(m.q[d]) {
						return fail("read-count-out-of-range", "%s: Read(buf %d) returned %d", ctx, n, got)
					}
					if !bytes.Equal(buf[:got], m.q[d][:got]) {
						return fail("bytes-differ-from-written", "%s: Read returned %x, written %x", ctx, buf[:got], m.q[d][:got])
					}
					m.q[d] = m.q[d][got:]
					if op.Kind != "RALL" {
						break
					}
				}
			case "REOF":
				if v := drainModel(d, ctx); v != nil {
					res.viols = append(res.viols, *v)
					return res
				}
				got, err := readOnce(re, op.N, ctx)
				if got != 0 || err != io.EOF {
					return fail("no-eof-after-writer-closed", "%s: writer end closed, pipe empty, Read returned (%d, %v)", ctx, got, err)
				}
				label["script:eof"] = true
			case "RT", "WT":
				isRead := op.Kind == "RT"
				target := we // the end whose call is probed
				if isRead {
					target = re
					if v := drainModel(d, ctx); v != nil {
						res.viols = append(res.viols, *v)
						return res
					}
				}
				cleared := op.DL == "cleared" || op.DL == "cleared-after-1h"
				apply := func(tm time.Time) {
					switch {
					case op.Both:
						if !tm.IsZero() {
							target.readDLArmed.Store(true)
							target.writeDLArmed.Store(true)
						}
						target.c.SetDeadline(tm)
					case isRead:
						if !tm.IsZero() {
							target.readDLArmed.Store(true)
						}
						target.c.SetReadDeadline(tm)
					default:
						if !tm.IsZero() {
							target.writeDLArmed.Store(true)
						}
						target.c.SetWriteDeadline(tm)
					}
				}
				setDL := func() {
					switch op.DL {
					case "future":
						apply(time.Now().Add(time.Duration(op.DMS) * time.Millisecond))
					case "now":
						apply(time.Now())
					case "past-1ms":
						apply(time.Now().Add(-time.Millisecond))
					case "past-1h":
						apply(time.Now().Add(-time.Hour))
					case "cleared-after-1h":
						apply(time.Now().Add(time.Hour))
						apply(time.Time{})
					case "cleared":
						apply(time.Time{})
					}
				}
				what := fmt.Sprintf("%s, deadline %s set %s the call (pause %d us, SetDeadline=%v)", ctx, op.DL, op.When, op.PauseUS, op.Both)
				type callRes struct {
					n   int
					err error
				}
				ch := make(chan callRes, 1)
				var data []byte
				free := s.Buf - len(m.q[d])
				rb := make([]byte, op.N)
				if !isRead {
					data = c39Data(d, m.off[d], free+op.N)
					m.off[d] += len(data)
				}
				if op.When == "before" {
					setDL()
				}
				go func() {
					var r callRes
					if isRead {
						r.n, r.err = target.c.Read(rb)
					} else {
						r.n, r.err = target.c.Write(data)
					}
					ch <- r
				}()
				st.set("driver", what+": call started, waiting for it to return")
				pause(0, op.PauseUS)
				if op.When == "blocked" {
					setDL()
				}
				switch {
				case cleared && isRead:
					// no deadline: only data may release the read
					k := 1 + op.N%s.Buf
					rel := c39Data(d, m.off[d], k)
					m.off[d] += k
					if n, err := we.c.Write(rel); err != nil || n != k {
						return fail("write-failed-on-open-stream", "%s: releasing Write(%d bytes) into an empty pipe returned (%d, %v)", what, k, n, err)
					}
					written[d] += k
					r := <-ch
					st.set("driver", "")
					if c39IsTimeout(r.err) {
						return fail("cleared-deadline-timed-out", "%s: Read returned (%d, %v) although the deadline had been cleared", what, r.n, r.err)
					}
					if r.err != nil || r.n < 1 || r.n > k || !bytes.Equal(rb[:r.n], rel[:r.n]) {
						return fail("bytes-differ-from-written", "%s: blocked Read released by Write(%x) returned (%d, %v) %x", what, rel, r.n, r.err, rb[:max(r.n, 0)])
					}
					m.q[d] = append([]byte{}, rel[r.n:]...)
					if v := drainModel(d, ctx); v != nil {
						res.viols = append(res.viols, *v)
						return res
					}
					label["script:read-deadline-cleared:"+op.When] = true
				case cleared:
					// no deadline: only free space may release the write
					stream := append(append([]byte{}, m.q[d]...), data...)
					consumed := 0
					for consumed < op.N { // op.N bytes beyond the free space
						got, err := readOnce(re, 64, what+": making room")
						if err != nil || got < 1 || consumed+got > len(stream) || !bytes.Equal(buf[:got], stream[consumed:consumed+got]) {
							return fail("bytes-differ-from-written", "%s: Read while making room returned (%d, %v) %x, expected a prefix of %x", what, got, err, buf[:max(got, 0)], stream[consumed:])
						}
						consumed += got
					}
					r := <-ch
					st.set("driver", "")
					if c39IsTimeout(r.err) {
						return fail("cleared-deadline-timed-out", "%s: Write returned (%d, %v) although the deadline had been cleared", what, r.n, r.err)
					}
					if r.err != nil || r.n != len(data) {
						return fail("write-failed-on-open-stream", "%s: blocked Write(%d bytes) returned (%d, %v) after %d bytes were read", what, len(data), r.n, r.err, consumed)
					}
					written[d] += len(data)
					m.q[d] = stream[consumed:]
					if v := drainModel(d, ctx); v != nil {
						res.viols = append(res.viols, *v)
						return res
					}
					label["script:write-deadline-cleared:"+op.When] = true
				case isRead:
					r := <-ch
					st.set("driver", "")
					apply(time.Time{})
					if r.n != 0 || !c39IsTimeout(r.err) {
						return fail("deadline-did-not-time-out-read", "%s: Read on an empty pipe returned (%d, %v)", what, r.n, r.err)
					}
					label["script:read-deadline:"+op.When+":"+dlClass(op.DL)] = true
				default:
					r := <-ch
					st.set("driver", "")
					apply(time.Time{})
					if !c39IsTimeout(r.err) {
						return fail("deadline-did-not-time-out-write", "%s: Write(%d bytes) with %d bytes free returned (%d, %v)", what, len(data), free, r.n, r.err)
					}
					have, derr := drainByDeadline(d)
					if derr != nil {
						return fail("read-failed-with-data-queued", "%s: draining after the timed-out write failed: %v", what, derr)
					}
					j, ok := prefixOK(have, m.q[d], data)
					if !ok {
						return fail("bytes-differ-from-written", "%s: after a timed-out write the pipe held %x, expected %x followed by a prefix of %x", what, have, m.q[d], data)
					}
					if j == free {
						res.notes["timed_out_write_delivered_exactly_free_space"]++
					} else {
						res.notes["timed_out_write_delivered_other_prefix"]++
					}
					m.q[d] = nil
					written[d] += j
					label["script:write-deadline:"+op.When+":"+dlClass(op.DL)] = true
				}
				res.nontriv = true
			case "BRPC", "BROC":
				if v := drainModel(d, ctx); v != nil {
					res.viols = append(res.viols, *v)
					return res
				}
				type rr struct {
					n   int
					err error
				}
				ch := make(chan rr, 1)
				rb := make([]byte, op.N)
				go func() {
					n, err := re.c.Read(rb)
					ch <- rr{n, err}
				}()
				st.set("driver", ctx+": reader started, waiting for it to return")
				pause(0, op.PauseUS)
				closer := we
				if op.Kind == "BROC" {
					closer = re
				}
				closer.close()
				if op.Kind == "BRPC" {
					m.closed[d] = true
				} else {
					m.closed[1-d] = true
				}
				r := <-ch
				st.set("driver", "")
				if c39IsTimeout(r.err) && re.readDLArmed.Load() {
					res.notes["stale_timeout_after_clear"]++
					re.clearRD()
					r.n, r.err = readOnce(re, op.N, ctx)
				}
				if op.Kind == "BRPC" {
					if r.n != 0 || r.err != io.EOF {
						return fail("no-eof-after-writer-closed", "%s: Read blocked on an empty pipe, then %s.Close(): Read returned (%d, %v)", ctx, we.name, r.n, r.err)
					}
					label["script:blocked-read-peer-close"] = true
				} else {
					if r.n != 0 || r.err == nil {
						return fail("read-on-closed-end-succeeded", "%s: Read blocked on an empty pipe, then own %s.Close(): Read returned (%d, %v)", ctx, re.name, r.n, r.err)
					}
					label["script:blocked-read-own-close"] = true
				}
				res.nontriv = true
			case "BWPC", "BWOC":
				free := s.Buf - len(m.q[d])
				data := c39Data(d, m.off[d], free+op.N)
				m.off[d] += len(data)
				type wr struct {
					n   int
					err error
				}
				ch := make(chan wr, 1)
				go func() {
					n, err := we.c.Write(data)
					ch <- wr{n, err}
				}()
				st.set("driver", ctx+": writer started, waiting for it to return")
				pause(0, op.PauseUS)
				if op.Kind == "BWPC" {
					re.close()
					m.closed[1-d] = true
				} else {
					we.close()
					m.closed[d] = true
				}
				r := <-ch
				st.set("driver", "")
				if r.err == nil {
					return fail("blocked-write-succeeded-after-close", "%s: Write(%d bytes) with %d bytes free, then Close(): Write returned (%d, nil)", ctx, len(data), free, r.n)
				}
				if op.Kind == "BWOC" {
					// the reader end is still open: queued bytes, a prefix of the cut write, then EOF
					var have []byte
					for {
						n, err := readOnce(re, 64, ctx+": drain to EOF")
						have = append(have, buf[:n]...)
						if err == io.EOF {
							break
						}
						if err != nil {
							return fail("no-eof-after-writer-closed", "%s: draining after the writer closed failed with %v", ctx, err)
						}
						if len(have) > len(m.q[d])+len(data) {
							break
						}
					}
					if _, ok := prefixOK(have, m.q[d], data); !ok {
						return fail("bytes-differ-from-written", "%s: after the writer closed the reader got %x, expected %x followed by a prefix of %x", ctx, have, m.q[d], data)
					}
					m.q[d] = nil
					label["script:blocked-write-own-close"] = true
				} else {
					label["script:blocked-write-peer-close"] = true
				}
				res.nontriv = true
			case "CLOSE":
				e := ends[op.End]
				st.set("driver", ctx)
				e.close()
				st.set("driver", "")
				m.closed[op.End] = true
				label["script:close"] = true
			case "WCLOSED":
				data := c39Data(d, m.off[d], op.N)
				st.set("driver", ctx)
				n, err := we.c.Write(data)
				st.set("driver", "")
				if err == nil || n != 0 {
					return fail("write-on-closed-end-succeeded", "%s: Write(%d bytes) on closed end %s returned (%d, %v)", ctx, op.N, we.name, n, err)
				}
				if n, err := we.c.Write(nil); err == nil && n == 0 {
					res.notes["empty_write_on_closed_end_returned_nil"]++
				}
				label["script:write-on-closed-end"] = true
			case "RCLOSED":
				n, err := readOnce(re, op.N, ctx)
				if err == nil || n != 0 {
					return fail("read-on-closed-end-succeeded", "%s: Read on closed end %s returned (%d, %v)", ctx, re.name, n, err)
				}
				label["script:read-on-closed-end"] = true
			case "WPEERCLOSED":
				// the statement only demands that this does not block
				data := c39Data(d, m.off[d], op.N)
				st.set("driver", ctx)
				_, err := we.c.Write(data)
				st.set("driver", "")
				if err == nil {
					res.notes["write_to_closed_peer_returned_nil"]++
				}
				label["script:write-to-closed-peer"] = true
			}
		}
		// whatever is still queued towards an open reader must be readable, and if
		// the writer end is closed, followed by EOF
		for d := 0; d < 2; d++ {
			re := ends[1-d]
			if m.closed[1-d] {
				continue
			}
			for len(m.q[d]) > 0 {
				got, err := readOnce(re, 64, fmt.Sprintf("final drain %s->%s", ends[d].name, re.name))
				if err != nil || got < 1 || got > len(m.q[d]) || !bytes.Equal(buf[:got], m.q[d][:got]) {
					return fail("bytes-differ-from-written", "final drain %s->%s: Read returned (%d, %v) %x, queued %x", ends[d].name, re.name, got, err, buf[:max(got, 0)], m.q[d])
				}
				m.q[d] = m.q[d][got:]
			}
			if m.closed[d] {
				got, err := readOnce(re, 8, fmt.Sprintf("final EOF %s->%s", ends[d].name, re.name))
				if got != 0 || err != io.EOF {
					return fail("no-eof-after-writer-closed", "final: %s closed, pipe empty, %s.Read returned (%d, %v)", ends[d].name, re.name, got, err)
				}
			}
		}
		for e := 0; e < 2; e++ {
			if !m.closed[e] {
				ends[e].close()
			}
			var v []c39Viol
			postCloseOps(ends[e], "driver", st, &v, res.notes)
			res.viols = append(res.viols, v...)
		}
		for d := 0; d < 2; d++ {
			if written[d] > s.Buf {
				label["script:moved-more-than-buffer"] = true
				res.nontriv = true
			}
		}
		for l := range label {
			res.labels = append(res.labels, l)
		}
		return res
	})
}

// ---- the test ------------------------------------------------------------------------

type c39Case struct {
	Kind   string     `json:"kind"`
	Stream *c39Stream `json:"stream,omitempty"`
	Script *c39Script `json:"script,omitempty"`
}

func (c c39Case) run() c39Run {
	if c.Kind == "stream" {
		return runC39Stream(*c.Stream)
	}
	return runC39Script(*c.Script)
}

func TestC39(t *testing.T) {
	rec := ev.New(t, "C39")
	rec.Rule("rapid-generated cases of two kinds on bufconn.BufferedPipe(1..64). stream: a writer and a reader goroutine per end, 0..12 chunks of 1..200 bytes each way, cycled read sizes 0..96, Gosched/sleep yields, optional 1..20 ms deadlines on calls (timed-out calls are retried), close plan = orderly (one end closes after sending everything and receiving everything, the other on EOF) or abrupt (each end closed by its writer after k writes / its reader after N bytes / a timer). script: a single goroutine runs 3..40 model-legal steps (write <= free space, read with data queued, read at EOF, calls on closed ends) with up to 3 blocking probes (read on empty pipe or write beyond free space, released by a deadline, by the peer's Close or by the own end's Close from another goroutine). Deadline probes span {set before the call, set from another goroutine while the call is blocked} x {1..20 ms in the future, exactly now, 1 ms / 1 h in the past, cleared (zero time, optionally after a 1 h deadline)} x {read, write} x {SetRead/WriteDeadline, SetDeadline}: a non-zero deadline must end the call with a timeout error, a cleared one must leave it blocked until data / free space releases it. Oracle: position-set automaton (stream) / exact FIFO model (script); EOF only after every successfully written byte; calls on a closed end fail; blocked calls return timeout / EOF / error. Non-trivial: some direction carried more bytes than the buffer holds, or a write was cut by a close or deadline, or a blocking probe ran. Distinct = distinct generated programmes.")
	rec.Assume("one reader goroutine and one writer goroutine per end (plus a closer); concurrent readers on the same end are out of scope",
		"a failed Write may have delivered any prefix of its data (the implementation reports n=0), as DESIGN.md C39 allows",
		"zero-length writes on a closed end are outside the domain (they return nil; counted as an observation)",
		"a timeout reported right after a deadline was cleared (timer fired while being replaced) is tolerated and counted; the statement does not cover it",
		"watchdog 30 s per case; a hit counts only if an immediate re-run of the same case hits again, otherwise inconclusive")
	flag.Set("rapid.shrinktime", "10s")
	ev.RapidCheck(t, 500, 20000, func(t *rapid.T) {
		var c c39Case
		if rapid.IntRange(0, 9).Draw(t, "kind") < 6 {
			s := genC39Stream(t)
			c = c39Case{Kind: "stream", Stream: &s}
		} else {
			s := genC39Script(t)
			c = c39Case{Kind: "script", Script: &s}
		}
		r := c.run()
		if r.hang {
			first := r.inflight
			r = c.run()
			if r.hang {
				c39HangConfirmed.Store(true)
				rec.Case(true, caseKey(c), func() any { return c }, "hang")
				rec.Fail(t, "call-blocked-forever", map[string]any{"case": c, "in_flight_first_run": first, "in_flight_second_run": r.inflight},
					"calls still blocked after %v in two consecutive runs of the same case; in flight: %s", c39Watchdog(), r.inflight)
			}
			rec.Inconclusive("watchdog-hit-not-reproduced")
		}
		for k, v := range r.notes {
			rec.Add(k, v)
		}
		rec.Case(r.nontriv, caseKey(c), func() any { return c }, append(r.labels, "kind:"+c.Kind)...)
		if len(r.viols) > 0 {
			v := r.viols[0]
			rec.Fail(t, v.Sig, map[string]any{"case": c, "violations": r.viols}, "%s", v.Msg)
		}
	})
}

func caseKey(c any) string {
	b, _ := json.Marshal(c)
	return string(b)
}
