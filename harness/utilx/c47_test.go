package utilx

import (
	"fmt"
	"net"
	"net/netip"
	"strings"
	"testing"
	"unicode"
	"unicode/utf8"

	"go.miragespace.co/specter/cmd/verifexport"
	"verifharness/internal/ev"

	"pgregory.net/rapid"
)

// ---- C47: listen address list normalization ---------------------------------
//
// Reference (written from the property statement, not from listen.go):
//   1. trim blanks of every entry, drop entries that are empty afterwards;
//   2. a non-empty (after 1) override list replaces the base list;
//   3. nothing left => error;
//   4. walk the list in order, skipping entries already seen (text equality);
//      an entry that is not host:port, or whose host is neither empty (wildcard),
//      an IP literal, nor exactly the Fly host => error for the whole call;
//   5. network = proto+"4" for IPv4 hosts and the Fly host, proto+"6" for IPv6
//      hosts, proto for the wildcard host.
// Two points the statement leaves open are accepted either way (the reference
// is evaluated under both readings and the result must equal one of them):
// a zoned literal (fe80::1%eth0) may be rejected as "not an IP" or taken as
// IPv6; an IPv4-mapped IPv6 literal (::ffff:1.2.3.4) may count as IPv4 (Go's
// convention) or IPv6.

type refAddr struct {
	Address, Host, Network string
	Version                int // 0 any, 4, 6
}

type refMode struct {
	zoneIsIP     bool
	mappedIsIPv4 bool
}

func refTrim(s string) string {
	// byte-preserving: invalid UTF-8 is never a blank and must come back unchanged
	for len(s) > 0 {
		r, w := utf8.DecodeRuneInString(s)
		if !unicode.IsSpace(r) || (r == utf8.RuneError && w == 1) {
			break
		}
		s = s[w:]
	}
	for len(s) > 0 {
		r, w := utf8.DecodeLastRuneInString(s)
		if !unicode.IsSpace(r) || (r == utf8.RuneError && w == 1) {
			break
		}
		s = s[:len(s)-w]
	}
	return s
}

func refCoalesce(in []string) []string {
	var out []string
	for _, s := range in {
		if t := refTrim(s); t != "" {
			out = append(out, t)
		}
	}
	return out
}

// refParse returns (addresses, wantErr, touchedOpenPoint).
func refParse(proto string, base, over []string, m refMode) ([]refAddr, bool, bool) {
	list := refCoalesce(base)
	if o := refCoalesce(over); len(o) > 0 {
		list = o
	}
	if len(list) == 0 {
		return nil, true, false
	}
	open := false
	seen := map[string]bool{}
	var out []refAddr
	for _, a := range list {
		if seen[a] {
			continue
		}
		seen[a] = true
		host, _, err := net.SplitHostPort(a)
		if err != nil {
			return nil, true, open
		}
		ver := 0
		switch {
		case host == "":
			ver = 0
		case host == "fly-global-services":
			ver = 4
		default:
			ip, perr := netip.ParseAddr(host)
			if perr != nil {
				return nil, true, open
			}
			if ip.Zone() != "" {
				open = true
				if !m.zoneIsIP {
					return nil, true, open
				}
				ver = 6
			} else if ip.Is4() {
				ver = 4
			} else if ip.Is4In6() {
				open = true
				if m.mappedIsIPv4 {
					ver = 4
				} else {
					ver = 6
				}
			} else {
				ver = 6
			}
		}
		nw := proto
		if ver == 4 {
			nw += "4"
		} else if ver == 6 {
			nw += "6"
		}
		out = append(out, refAddr{Address: a, Host: host, Network: nw, Version: ver})
	}
	return out, false, open
}

func gotToRef(in []verifexport.ListenAddress) []refAddr {
	var out []refAddr
	for _, a := range in {
		v := -1
		switch a.Version {
		case verifexport.ListenIPAny:
			v = 0
		case verifexport.ListenIPV4:
			v = 4
		case verifexport.ListenIPV6:
			v = 6
		}
		out = append(out, refAddr{Address: a.Address, Host: a.Host, Network: a.Network, Version: v})
	}
	return out
}

func sameRef(a, b []refAddr) bool {
	if len(a) != len(b) {
		return false
	}
	for i := range a {
		if a[i] != b[i] {
			return false
		}
	}
	return true
}

type c47Fataler interface {
	Fatalf(string, ...any)
	Helper()
}

type c47Outcome struct {
	err  bool
	list []refAddr
}

func (o c47Outcome) String() string {
	if o.err {
		return "error"
	}
	return fmt.Sprintf("%+v", o.list)
}

// checkListen runs the real ParseAddresses and compares with the reference.
// hostsByConstruction (optional) are the hosts the generator put into the
// effective, well-formed entries; they double-check the host extraction
// independently of net.SplitHostPort.
func checkListen(t c47Fataler, rec *ev.Recorder, proto string, base, over []string, labels []string, constructed []refAddr, constructedKnown bool) {
	t.Helper()
	var got []verifexport.ListenAddress
	var gerr error
	var panicked any
	func() {
		defer func() { panicked = recover() }()
		got, gerr = verifexport.ListenParseAddresses(proto, base, over)
	}()
	replay := map[string]any{"proto": proto, "base": base, "overrides": over}
	if panicked != nil {
		rec.Fail(t, "parse-addresses-panic", replay, "ParseAddresses(%q,%q,%q) panicked: %v", proto, base, over, panicked)
	}
	g := c47Outcome{err: gerr != nil, list: gotToRef(got)}
	if gerr != nil && len(got) != 0 {
		rec.Fail(t, "error-with-addresses", replay, "ParseAddresses returned both an error (%v) and %d addresses", gerr, len(got))
	}

	var accepted []c47Outcome
	open := false
	for _, m := range []refMode{{false, true}, {true, true}, {false, false}, {true, false}} {
		l, e, o := refParse(proto, base, over, m)
		open = open || o
		accepted = append(accepted, c47Outcome{err: e, list: l})
	}
	ok := false
	for _, a := range accepted {
		if a.err == g.err && (a.err || sameRef(a.list, g.list)) {
			ok = true
			break
		}
	}

	eff := refCoalesce(base)
	overEff := refCoalesce(over)
	replaced := len(overEff) > 0
	if replaced {
		eff = overEff
	}
	dup, padded := false, false
	seen := map[string]bool{}
	for _, a := range eff {
		if seen[a] {
			dup = true
		}
		seen[a] = true
	}
	for _, s := range append(append([]string{}, base...), over...) {
		if s != refTrim(s) {
			padded = true
		}
	}
	ls := append([]string{}, labels...)
	if dup {
		ls = append(ls, "has-duplicate")
	}
	if padded {
		ls = append(ls, "has-padding")
	}
	if replaced && len(refCoalesce(base)) > 0 {
		ls = append(ls, "override-replaces-base")
	}
	if len(over) > 0 && !replaced {
		ls = append(ls, "override-all-blank")
	}
	if accepted[0].err {
		ls = append(ls, "expect:error")
	} else {
		ls = append(ls, "expect:ok")
		fam := map[int]bool{}
		for _, a := range accepted[0].list {
			fam[a.Version] = true
		}
		if len(fam) > 1 {
			ls = append(ls, "mixed-families")
		}
	}
	if open {
		ls = append(ls, "open-point:zone-or-4in6")
	}
	nt := len(eff) >= 2 || (len(over) > 0 && len(refCoalesce(base)) > 0)
	key := fmt.Sprintf("%q|%q|%q", proto, base, over)
	rec.Case(nt, key, func() any {
		return map[string]any{"proto": proto, "base": base, "overrides": over, "got": g.String(), "want": accepted[0].String()}
	}, ls...)

	if !ok {
		sig := "listen-result-mismatch"
		switch {
		case g.err && !accepted[0].err:
			sig = "listen-unexpected-error"
		case !g.err && accepted[0].err:
			sig = "listen-missing-error"
		case len(g.list) != len(accepted[0].list):
			sig = "listen-dedupe-or-selection-mismatch"
		default:
			for i := range g.list {
				if g.list[i].Address != accepted[0].list[i].Address {
					sig = "listen-order-or-text-mismatch"
					break
				}
				if g.list[i].Network != accepted[0].list[i].Network || g.list[i].Version != accepted[0].list[i].Version {
					sig = "listen-network-mismatch"
				}
			}
		}
		replay["got"] = g.String()
		replay["want"] = accepted[0].String()
		rec.Fail(t, sig, replay, "ParseAddresses(%q, %q, %q) = %s (err=%v), reference = %s", proto, base, over, g.String(), gerr, accepted[0].String())
	}

	// Independent of net.SplitHostPort: when the generator built every effective
	// entry itself it knows the outcome by construction.
	if constructedKnown && !open {
		want := c47Outcome{err: constructed == nil, list: constructed}
		if want.err != g.err || (!want.err && !sameRef(want.list, g.list)) {
			replay["got"] = g.String()
			replay["want_by_construction"] = want.String()
			rec.Fail(t, "listen-mismatch-by-construction", replay, "ParseAddresses(%q, %q, %q) = %s (err=%v), by construction = %s", proto, base, over, g.String(), gerr, want.String())
		}
	}
}

// ---- generator ---------------------------------------------------------------

type c47Entry struct {
	text  string // as passed (with padding)
	trim  string // expected trimmed text
	valid bool   // well-formed and acceptable
	host  string
	ver   int
	open  bool // zoned / 4in6: excluded from the by-construction oracle
	blank bool
}

var (
	c47V4 = []string{"127.0.0.1", "0.0.0.0", "10.0.0.1", "192.168.1.254", "255.255.255.255", "1.2.3.4"}
	c47V6 = []string{"::", "::1", "fe80::1", "2001:db8::1", "2001:db8:0:0:0:0:0:1", "FE80::A", "0:0:0:0:0:0:0:1"}
	// hosts that are not IP literals and must be rejected
	c47Bad = []string{"localhost", "example.com", "Fly-Global-Services", "fly-global-services.", "fly-global-service", "256.1.1.1", "1.2.3", "01.2.3.4", "1.2.3.4.5", "*", "0x7f.0.0.1", "a b"}
	c47WS  = []string{" ", "  ", "\t", "\n", "\r\n", "\v", "\f", " \t ", "\u00a0", "\u3000", "\u0085"}
	c47Pt  = []string{"80", "0", "443", "65535", "53", "", "http", "99999", "8080", "\xd2", "8\xff0"}
)

func genC47Entry(t *rapid.T, pool *[]c47Entry, allowBad bool) c47Entry {
	// re-use an earlier entry (duplicate) with some probability
	if len(*pool) > 0 && rapid.IntRange(0, 9).Draw(t, "dup") < 3 {
		e := (*pool)[rapid.IntRange(0, len(*pool)-1).Draw(t, "dupIdx")]
		if !e.blank {
			// possibly different padding: still a duplicate after trimming
			e.text = genPad(t) + e.trim + genPad(t)
			return e
		}
	}
	var e c47Entry
	port := rapid.SampledFrom(c47Pt).Draw(t, "port")
	k := rapid.IntRange(0, 19).Draw(t, "kind")
	if !allowBad && ((k >= 12 && k <= 15) || k >= 18) {
		k = k % 12 // only acceptable entries in this case
	}
	switch {
	case k <= 4: // IPv4
		h := rapid.SampledFrom(c47V4).Draw(t, "v4")
		if rapid.IntRange(0, 3).Draw(t, "rnd4") == 0 {
			h = fmt.Sprintf("%d.%d.%d.%d", rapid.IntRange(0, 255).Draw(t, "a"), rapid.IntRange(0, 255).Draw(t, "b"), rapid.IntRange(0, 255).Draw(t, "c"), rapid.IntRange(0, 255).Draw(t, "d"))
		}
		e = c47Entry{trim: h + ":" + port, valid: true, host: h, ver: 4}
		if rapid.IntRange(0, 7).Draw(t, "br4") == 0 { // [1.2.3.4]:80 is a legal host:port spelling
			e.trim = "[" + h + "]:" + port
		}
	case k <= 8: // IPv6 bracketed
		h := rapid.SampledFrom(c47V6).Draw(t, "v6")
		if rapid.IntRange(0, 3).Draw(t, "rnd6") == 0 {
			h = fmt.Sprintf("2001:db8::%x:%x", rapid.IntRange(0, 0xffff).Draw(t, "x"), rapid.IntRange(1, 0xffff).Draw(t, "y"))
		}
		e = c47Entry{trim: "[" + h + "]:" + port, valid: true, host: h, ver: 6}
	case k == 9: // wildcard
		e = c47Entry{trim: ":" + port, valid: true, host: "", ver: 0}
	case k == 10 || k == 11: // Fly host
		e = c47Entry{trim: "fly-global-services:" + port, valid: true, host: "fly-global-services", ver: 4}
	case k == 12 || k == 13: // rejected host
		h := rapid.SampledFrom(c47Bad).Draw(t, "bad")
		e = c47Entry{trim: h + ":" + port, valid: false}
	case k == 14: // missing port
		h := rapid.SampledFrom(append(append([]string{}, c47V4...), "fly-global-services", "localhost")).Draw(t, "np")
		e = c47Entry{trim: h, valid: false}
	case k == 15: // unbracketed IPv6 with port / bracket without port
		h := rapid.SampledFrom(c47V6).Draw(t, "u6")
		if rapid.Bool().Draw(t, "form") {
			e = c47Entry{trim: h + ":" + port, valid: false}
		} else {
			e = c47Entry{trim: "[" + h + "]", valid: false}
		}
	case k == 16: // open points
		if rapid.Bool().Draw(t, "zone") {
			e = c47Entry{trim: "[fe80::1%eth0]:" + port, valid: true, open: true}
		} else {
			e = c47Entry{trim: "[::ffff:1.2.3.4]:" + port, valid: true, open: true}
		}
	case k == 17: // blank
		e = c47Entry{blank: true}
		if rapid.Bool().Draw(t, "ws") {
			e.text = genPad(t)
		}
		return e
	default: // inner blank: not trimmed, must be rejected
		h := rapid.SampledFrom(c47V4).Draw(t, "iv4")
		if rapid.Bool().Draw(t, "where") {
			e = c47Entry{trim: h + " :" + port, valid: false}
		} else {
			e = c47Entry{trim: h[:3] + " " + h[3:] + ":" + port, valid: false}
		}
	}
	e.text = genPad(t) + e.trim + genPad(t)
	return e
}

func genPad(t *rapid.T) string {
	if rapid.IntRange(0, 2).Draw(t, "pad?") != 0 {
		return ""
	}
	return rapid.SampledFrom(c47WS).Draw(t, "pad")
}

func texts(es []c47Entry) []string {
	if es == nil {
		return nil
	}
	out := make([]string, len(es))
	for i, e := range es {
		out[i] = e.text
	}
	return out
}

// byConstruction derives the expected outcome from what the generator built.
func byConstruction(proto string, base, over []c47Entry) (list []refAddr, known bool) {
	pick := func(es []c47Entry) []c47Entry {
		var out []c47Entry
		for _, e := range es {
			if !e.blank {
				out = append(out, e)
			}
		}
		return out
	}
	eff := pick(base)
	if o := pick(over); len(o) > 0 {
		eff = o
	}
	if len(eff) == 0 {
		return nil, true
	}
	seen := map[string]bool{}
	list = []refAddr{}
	for _, e := range eff {
		if seen[e.trim] {
			continue
		}
		seen[e.trim] = true
		if e.open {
			return nil, false
		}
		if !e.valid {
			return nil, true
		}
		nw := proto
		if e.ver == 4 {
			nw += "4"
		} else if e.ver == 6 {
			nw += "6"
		}
		list = append(list, refAddr{Address: e.trim, Host: e.host, Network: nw, Version: e.ver})
	}
	return list, true
}

func TestC47(t *testing.T) {
	rec := ev.New(t, "C47")
	rec.Rule("rapid-generated (proto, base list, override list): entries are IPv4 / bracketed IPv6 / wildcard / Fly-host / hostname / malformed (no port, unbracketed v6, inner blank) / blank, padded with ASCII and Unicode blanks, with duplicates re-drawn from earlier entries (possibly with different padding); overrides nil, empty, all-blank or populated. Oracle: reference written from the statement (text dedupe, first-seen order, family network) plus an independent by-construction expectation. Non-trivial: the effective list has >= 2 entries, or a non-empty base meets a non-nil override list. Distinct = distinct (proto, base, overrides) texts.")
	rec.Assume("net.SplitHostPort and net/netip.ParseAddr are trusted to define host:port syntax and IP literals; blanks = unicode.IsSpace",
		"zoned literals and IPv4-mapped IPv6 literals are accepted under either reading (the statement does not settle them)",
		"which error is returned is not checked, only that one is")
	ev.RapidCheck(t, 20000, 1000000, func(t *rapid.T) {
		proto := rapid.SampledFrom([]string{"tcp", "udp", "tcp", "udp", "quic", "", "ip"}).Draw(t, "proto")
		var pool []c47Entry
		allowBad := rapid.IntRange(0, 2).Draw(t, "allowBad") == 0
		gen := func(label string, max int, allowNil bool) []c47Entry {
			n := rapid.IntRange(0, max).Draw(t, label+"N")
			if n == 0 {
				if allowNil && rapid.Bool().Draw(t, label+"Nil") {
					return nil
				}
				return []c47Entry{}
			}
			out := make([]c47Entry, 0, n)
			for i := 0; i < n; i++ {
				e := genC47Entry(t, &pool, allowBad)
				out = append(out, e)
				pool = append(pool, e)
			}
			return out
		}
		base := gen("base", 6, true)
		var over []c47Entry
		switch rapid.IntRange(0, 3).Draw(t, "overMode") {
		case 0:
			over = nil
		case 1: // all blank
			n := rapid.IntRange(0, 3).Draw(t, "blankN")
			over = []c47Entry{}
			for i := 0; i < n; i++ {
				over = append(over, c47Entry{blank: true, text: genPad(t)})
			}
		default:
			over = gen("over", 5, false)
		}
		want, known := byConstruction(proto, base, over)
		checkListen(t, rec, proto, texts(base), texts(over), []string{"generated"}, want, known)
	})
}

// FuzzC47 is the byte-level companion (thorough tier): base and override
// lists arrive as comma-separated strings (the way the CLI flags deliver
// them); the reference oracle runs inside the target.
func FuzzC47(f *testing.F) {
	f.Add("tcp", "127.0.0.1:80", " 127.0.0.1:80 ,[::1]:80,127.0.0.1:80", true)
	f.Add("udp", "0.0.0.0:53,[::]:53", "", false)
	f.Add("udp", "fly-global-services:53", "   ", true)
	f.Add("tcp", ":443", "missing-port", true)
	f.Add("tcp", "example.com:80,[fe80::1%eth0]:1,[::ffff:1.2.3.4]:2", "", false)
	f.Add("", "\t[2001:db8::1]:0\n,, ,1.2.3.4:", ",", true)
	f.Add("0", "0", ":\xd2", true) // invalid UTF-8 must pass through the trimming untouched
	rec := ev.New(f, "C47fuzz")
	split := func(s string, present bool) []string {
		if !present {
			return nil
		}
		if s == "" {
			return []string{}
		}
		return strings.Split(s, ",")
	}
	f.Fuzz(func(t *testing.T, proto, base, over string, overPresent bool) {
		checkListen(t, rec, proto, split(base, true), split(over, overPresent), []string{"fuzz"}, nil, false)
	})
}
