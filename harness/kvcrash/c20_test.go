package kvcrash

import (
	"crypto/sha256"
	"errors"
	"fmt"
	"os"
	"path/filepath"
	"runtime"
	"sort"
	"strings"
	"sync"
	"sync/atomic"
	"testing"
	"time"

	"go.miragespace.co/specter/kv/aof"
	"go.miragespace.co/specter/spec/chord"
	"verifharness/internal/ev"

	"github.com/tidwall/wal"
	"go.uber.org/zap"
	"pgregory.net/rapid"
)

// ---- C20: the append-only-log store recovers from a crash at every
// file-operation boundary ----------------------------------------------------
//
// The harness go.mod replaces github.com/tidwall/wal with /verif/third_party/wal,
// a copy of v1.2.1 whose mutating file-system calls report to wal.OnFileOp.
// /repo/kv/aof is compiled unchanged against it. Inside the callback (which
// runs synchronously, inside the log's lock, on the store's own goroutine) the
// harness copies the log directory: a *process* crash keeps everything the
// kernel has accepted, so that copy is exactly the disk image a crash right
// after this file operation leaves behind.

const (
	sigC20Known  = "crash-after-append-of-rejected-mutation-reopen-fails"
	sigC20Reopen = "reopen-fails-on-crash-image"
	sigC20Panic  = "reopen-panics-on-crash-image"
	sigC20State  = "recovered-state-is-not-an-acknowledged-prefix"
	sigC20Live   = "clean-restart-fails-during-history"

	sigC20ContOutcome = "recovered-store-wrong-outcome-for-next-mutation"
	sigC20ContReopen  = "recovered-store-does-not-reopen-after-further-mutations"
	sigC20ContState   = "recovered-store-loses-or-invents-data-after-further-mutations"
)

var c20Keys = []string{"a", "ab", "b", "c"}

// c20BulkKeys: 80 more keys that only large Import / RemoveKeys mutations use.
// A history that touches any of them is checked over all 84 keys.
var c20BulkKeys, c20AllKeys = func() ([]string, []string) {
	var bulk []string
	for i := 0; i < 80; i++ {
		bulk = append(bulk, fmt.Sprintf("n%02d", i))
	}
	all := append(append([]string{}, c20Keys...), bulk...)
	sort.Strings(all)
	return bulk, all
}()

func keysOfHistory(ops []op) []string {
	for _, o := range ops {
		for _, k := range o.Keys {
			if strings.HasPrefix(k, "n") {
				return c20AllKeys
			}
		}
		for _, e := range o.Imp {
			if strings.HasPrefix(e.Key, "n") {
				return c20AllKeys
			}
		}
	}
	return c20Keys
}

var c20Children = []string{"x", "y", "z"}

// ---- file-operation recorder ------------------------------------------------

type imgFile struct {
	name string
	blob [32]byte
	size int
}

type image struct {
	idx      int
	kind     string // file operation that just completed
	base     string // base name of the file operated on
	done     int    // mutations completed (acknowledged or rejected) so far
	inflight int    // index of the mutation being applied, -1 if none
	appended bool   // the in-flight mutation's entry has been written to a segment
	endFile  bool   // ... and the rollback's .END file has been renamed into place
	files    []imgFile
	top      []imgFile // regular files directly in the data directory, next to wal/ (none on the current tree)
}

type collector struct {
	walDir string // absolute <DataDir>/wal

	mu       sync.Mutex
	done     int
	inflight int
	appended bool
	endFile  bool
	images   []*image
	blobs    map[[32]byte][]byte
	snapErr  error
}

var (
	collMu     sync.RWMutex
	collectors []*collector
)

func init() {
	wal.OnFileOp = func(kind, path string) {
		collMu.RLock()
		var c *collector
		for _, x := range collectors {
			if path == x.walDir || strings.HasPrefix(path, x.walDir+string(os.PathSeparator)) {
				c = x
				break
			}
		}
		collMu.RUnlock()
		if c != nil {
			c.onFileOp(kind, path)
		}
	}
}

func registerCollector(c *collector) {
	collMu.Lock()
	collectors = append(collectors, c)
	collMu.Unlock()
}

func unregisterCollector(c *collector) {
	collMu.Lock()
	for i, x := range collectors {
		if x == c {
			collectors = append(collectors[:i], collectors[i+1:]...)
			break
		}
	}
	collMu.Unlock()
}

func isSegmentName(base string) bool {
	if len(base) != 20 {
		return false
	}
	for _, ch := range base {
		if ch < '0' || ch > '9' {
			return false
		}
	}
	return true
}

func (c *collector) onFileOp(kind, path string) {
	c.mu.Lock()
	defer c.mu.Unlock()
	base := filepath.Base(path)
	if c.inflight >= 0 {
		if kind == "write" && isSegmentName(base) {
			c.appended = true
		}
		if kind == "rename" && strings.HasSuffix(base, ".END") {
			c.endFile = true
		}
	}
	img := &image{idx: len(c.images), kind: kind, base: base, done: c.done, inflight: c.inflight, appended: c.appended, endFile: c.endFile}
	ents, err := os.ReadDir(c.walDir)
	if err != nil && !os.IsNotExist(err) {
		c.snapErr = err
	}
	for _, e := range ents {
		if e.IsDir() {
			continue
		}
		b, err := os.ReadFile(filepath.Join(c.walDir, e.Name()))
		if err != nil {
			c.snapErr = err
			continue
		}
		h := sha256.Sum256(b)
		if _, ok := c.blobs[h]; !ok {
			c.blobs[h] = b
		}
		img.files = append(img.files, imgFile{name: e.Name(), blob: h, size: len(b)})
	}
	// a process that stops leaves the WHOLE data directory behind, not only the log
	if tops, err := os.ReadDir(filepath.Dir(c.walDir)); err == nil {
		for _, e := range tops {
			if !e.Type().IsRegular() {
				continue
			}
			b, err := os.ReadFile(filepath.Join(filepath.Dir(c.walDir), e.Name()))
			if err != nil {
				continue
			}
			h := sha256.Sum256(b)
			if _, ok := c.blobs[h]; !ok {
				c.blobs[h] = b
			}
			img.top = append(img.top, imgFile{name: e.Name(), blob: h, size: len(b)})
		}
	}
	c.images = append(c.images, img)
}

func (c *collector) begin(i int) {
	c.mu.Lock()
	c.inflight, c.appended, c.endFile = i, false, false
	c.mu.Unlock()
}

func (c *collector) sawEndFile() bool {
	c.mu.Lock()
	defer c.mu.Unlock()
	return c.endFile
}

func (c *collector) end() {
	c.mu.Lock()
	c.done++
	c.inflight, c.appended, c.endFile = -1, false, false
	c.mu.Unlock()
}

// ---- running one history ------------------------------------------------------

func scratchRoot(t testing.TB) string {
	// tmpfs when there is one: the rollback path fsyncs its temp file
	if st, err := os.Stat("/dev/shm"); err == nil && st.IsDir() {
		if d, err := os.MkdirTemp("/dev/shm", "verif-kvcrash-"); err == nil {
			t.Cleanup(func() { os.RemoveAll(d) })
			return d
		}
	}
	return t.TempDir()
}

func newAOF(dir string, flush time.Duration) (*aof.DiskKV, error) {
	return aof.New(aof.Config{Logger: zap.NewNop(), HasnFn: chord.Hash, DataDir: dir, FlushInterval: flush})
}

// stopAOF closes a store; Stop waits for the Start loop, so one must exist.
func stopAOF(kv *aof.DiskKV, started bool) {
	if !started {
		go kv.Start()
	}
	kv.Stop()
}

type c20Run struct {
	keys     []string // every key the history can touch; all of them are read back from every image
	ops      []op
	outcomes []error // live result of every mutation
	states   []model // states[i] = model after the first i mutations (effect iff acknowledged)
	images   []*image
	blobs    map[[32]byte][]byte
	liveErr  error // a clean restart inside the history failed
	liveAt   int
	mismatch int // live outcome differs from what the model expects (reported, never asserted)

	batchOutcomes    map[int][]error // per "batch" step: live result of every member
	batchRejected    int             // batches in which at least one member was rejected
	batchRollbacks   int             // batches during which the store rolled an entry back
	batches          int
	batchUnexplained string // a batch whose results no ordering of its members explains (history cut there)
}

// runC20History applies ops through the real Start loop and records a crash
// image at every file operation.
func runC20History(root string, ops []op, flush time.Duration) (*c20Run, error) {
	dir, err := os.MkdirTemp(root, "live-")
	if err != nil {
		return nil, err
	}
	defer os.RemoveAll(dir)
	abs, err := filepath.Abs(dir)
	if err != nil {
		return nil, err
	}
	col := &collector{walDir: filepath.Join(abs, aof.LogDir), inflight: -1, blobs: map[[32]byte][]byte{}}
	registerCollector(col)
	defer unregisterCollector(col)

	run := &c20Run{keys: keysOfHistory(ops), ops: ops, liveAt: -1, batchOutcomes: map[int][]error{}}
	kv, err := newAOF(abs, flush)
	if err != nil {
		return nil, fmt.Errorf("creating the store: %w", err)
	}
	go kv.Start()

	m := model{}
	run.states = append(run.states, m.clone())
	for i, o := range ops {
		col.begin(i)
		var opErr error
		if o.Kind == "restart" {
			kv.Stop()
			kv2, err := newAOF(abs, flush)
			if err != nil {
				run.liveErr, run.liveAt = err, i
				col.end()
				run.outcomes = append(run.outcomes, err)
				run.states = append(run.states, m.clone())
				run.ops = ops[:i+1]
				kv = nil
				break
			}
			kv = kv2
			go kv.Start()
		} else if o.Kind == "batch" {
			errs := runConcurrently(kv, o.Batch)
			run.batchOutcomes[i] = errs
			run.batches++
			for _, e := range errs {
				if e != nil {
					run.batchRejected++
					break
				}
			}
			if col.sawEndFile() {
				run.batchRollbacks++
			}
			// the members raced, so their order is whatever the store made it:
			// read the key back and adopt the state if some ordering of all
			// members, consistent with every member's result, produces it
			live, rerr := readStore(kv, run.keys, false)
			var next model
			if rerr == nil {
				next = explainBatch(m, o.Batch, errs, live.canon(run.keys, false), run.keys)
			}
			if next == nil {
				run.batchUnexplained = fmt.Sprintf("step %d %s results %v live state %v (read error %v)", i, o, errStrings(errs), live, rerr)
				col.end()
				run.outcomes = append(run.outcomes, nil)
				run.states = append(run.states, m.clone())
				run.ops = ops[:i+1]
				break
			}
			m = next
		} else {
			expectReject := m.wouldReject(o)
			opErr = applyKV(kv, o)
			if (opErr != nil) != expectReject {
				run.mismatch++
			}
			if opErr == nil {
				m.apply(o)
			}
		}
		col.end()
		run.outcomes = append(run.outcomes, opErr)
		run.states = append(run.states, m.clone())
	}
	if kv != nil {
		kv.Stop()
	}
	col.mu.Lock()
	run.images, run.blobs = col.images, col.blobs
	serr := col.snapErr
	col.mu.Unlock()
	if serr != nil {
		return nil, fmt.Errorf("snapshotting the log directory: %w", serr)
	}
	return run, nil
}

// runConcurrently issues the members of a batch at the same instant: one
// goroutine each, all spinning on a barrier that is lifted once every one of
// them is running.
func runConcurrently(kv chord.KVProvider, members []op) []error {
	errs := make([]error, len(members))
	var ready atomic.Int32
	var release atomic.Bool
	var wg sync.WaitGroup
	for i, o := range members {
		wg.Add(1)
		go func() {
			defer wg.Done()
			ready.Add(1)
			for n := 0; !release.Load(); n++ {
				if n > 1<<18 {
					runtime.Gosched() // starved machine: do not hold a core for ever
				}
			}
			errs[i] = applyKV(kv, o)
		}()
	}
	for int(ready.Load()) < len(members) {
		runtime.Gosched()
	}
	release.Store(true)
	wg.Wait()
	return errs
}

// permutations calls fn with every ordering of every k-subset of 0..n-1 for
// k in ks (n <= 4, so at most 65 sequences).
func permutations(n int, ks map[int]bool, fn func(seq []int)) {
	var seq []int
	used := make([]bool, n)
	var rec func()
	rec = func() {
		if ks[len(seq)] {
			fn(seq)
		}
		for i := 0; i < n; i++ {
			if !used[i] {
				used[i] = true
				seq = append(seq, i)
				rec()
				seq = seq[:len(seq)-1]
				used[i] = false
			}
		}
	}
	rec()
}

// explainBatch returns the model after the batch if some ordering of ALL
// members, in which every member is rejected exactly when it really was,
// yields the state the live store shows; nil otherwise.
func explainBatch(pre model, members []op, errs []error, liveCanon string, keys []string) model {
	var found model
	permutations(len(members), map[int]bool{len(members): true}, func(seq []int) {
		if found != nil {
			return
		}
		m := pre.clone()
		for _, i := range seq {
			if m.wouldReject(members[i]) != (errs[i] != nil) {
				return
			}
			if errs[i] == nil {
				m.apply(members[i])
			}
		}
		if m.snapshot(keys).canon(keys, false) == liveCanon {
			found = m
		}
	})
	return found
}

// batchCandidates is the set of states a crash in the middle of a batch may
// leave: the state before it plus any subset of its members in any order
// (a member the contract rejects at its place in the order has no effect).
func batchCandidates(pre model, members []op, keys []string) map[string]bool {
	out := map[string]bool{}
	all := map[int]bool{}
	for k := 0; k <= len(members); k++ {
		all[k] = true
	}
	permutations(len(members), all, func(seq []int) {
		m := pre.clone()
		for _, i := range seq {
			m.apply(members[i])
		}
		out[m.snapshot(keys).canon(keys, false)] = true
	})
	return out
}

// ---- checking one image -------------------------------------------------------

type imgResult struct {
	img       *image
	reopenErr error
	panicked  any
	got       snapshot
	harness   error
	continued bool
	contSig   string // the recovered store misbehaved when it was used further
	contMsg   string
}

func checkC20Image(root string, run *c20Run, img *image) (res imgResult) {
	res.img = img
	dir, err := os.MkdirTemp(root, "img-")
	if err != nil {
		res.harness = err
		return
	}
	defer os.RemoveAll(dir)
	wd := filepath.Join(dir, aof.LogDir)
	if err := os.MkdirAll(wd, 0o750); err != nil {
		res.harness = err
		return
	}
	for _, f := range img.files {
		if err := os.WriteFile(filepath.Join(wd, f.name), run.blobs[f.blob], 0o640); err != nil {
			res.harness = err
			return
		}
	}
	for _, f := range img.top {
		if err := os.WriteFile(filepath.Join(dir, f.name), run.blobs[f.blob], 0o640); err != nil {
			res.harness = err
			return
		}
	}
	var kv *aof.DiskKV
	func() {
		defer func() {
			if p := recover(); p != nil {
				res.panicked = p
			}
		}()
		kv, res.reopenErr = newAOF(dir, time.Hour)
	}()
	if res.panicked != nil || res.reopenErr != nil {
		return
	}
	res.got, res.harness = readStore(kv, run.keys, false)
	if res.harness != nil {
		stopAOF(kv, false)
		return
	}
	total := 0
	for _, f := range img.files {
		total += f.size
	}
	if total > 1<<20 && img.idx%6 != 0 {
		// multi-MiB image: replaying it a second time dominates the budget,
		// so only every sixth of those is continued
		stopAOF(kv, false)
		return
	}
	res.continued = true
	res.contSig, res.contMsg = continueAfterRecovery(kv, dir, img.idx, res.got, run.keys)
	return
}

// continueAfterRecovery uses the recovered store as a store: "recovers"
// means the reopened store keeps working, and the property applies to it in
// turn. Four more mutations go through the real Start loop - a put, an append
// of a child outside the generators' alphabet (the contract accepts it), the
// same append again (the contract rejects it: exercises the rollback on the
// recovered log) and a delete - then a clean Stop, a second reopen, and the
// result must be the recovered state plus exactly the acknowledged ones.
func continueAfterRecovery(kv *aof.DiskKV, dir string, idx int, got snapshot, keys []string) (sig, msg string) {
	go kv.Start()
	stopped := false
	defer func() {
		if !stopped {
			kv.Stop()
		}
	}()
	k, k2 := c20Keys[idx%len(c20Keys)], c20Keys[(idx+1)%len(c20Keys)]
	val := valSpec{Fill: fmt.Sprintf("r%d", idx), Len: 6}
	steps := []struct {
		o      op
		reject bool
	}{
		{op{Kind: "put", Key: k, Val: val}, false},
		{op{Kind: "app", Key: k, Child: "n"}, false},
		{op{Kind: "app", Key: k, Child: "n"}, true},
		{op{Kind: "del", Key: k2}, false},
	}
	for _, st := range steps {
		err := applyKV(kv, st.o)
		if (err != nil) != st.reject {
			return sigC20ContOutcome, fmt.Sprintf("after recovery %s returned %v (contract: rejected=%v)", st.o, err, st.reject)
		}
	}
	kv.Stop()
	stopped = true
	var kv2 *aof.DiskKV
	var err error
	var panicked any
	func() {
		defer func() { panicked = recover() }()
		kv2, err = newAOF(dir, time.Hour)
	}()
	if panicked != nil {
		return sigC20ContReopen, fmt.Sprintf("second reopen (after recovery, 4 mutations, clean Stop) panicked: %v", panicked)
	}
	if err != nil {
		return sigC20ContReopen, fmt.Sprintf("second reopen (after recovery, 4 mutations, clean Stop) failed: %v", err)
	}
	defer stopAOF(kv2, false)
	got2, rerr := readStore(kv2, keys, false)
	if rerr != nil {
		return sigC20ContState, rerr.Error()
	}
	want := snapshot{}
	for key, o := range got {
		want[key] = observed{Simple: o.Simple, Children: append([]string{}, o.Children...)}
	}
	wk := want[k]
	wk.Simple = vrepr(val.bytes())
	wk.Children = append(wk.Children, "n")
	sort.Strings(wk.Children)
	want[k] = wk
	wk2 := want[k2]
	wk2.Simple = "-"
	want[k2] = wk2
	if g, w := got2.canon(keys, false), want.canon(keys, false); g != w {
		return sigC20ContState, fmt.Sprintf("after recovery + %v + clean restart the store shows %s, want %s", []string{steps[0].o.String(), steps[1].o.String(), steps[2].o.String() + " (rejected)", steps[3].o.String()}, g, w)
	}
	return "", ""
}

// window of the listed finding: the in-flight mutation is a PrefixAppend the
// contract rejects (child already present), its entry is already in the
// segment file and the rollback has not yet put its .END file in place.
func inKnownWindow(run *c20Run, img *image) bool {
	if img.inflight < 0 || img.inflight >= len(run.ops) {
		return false
	}
	o := run.ops[img.inflight]
	return o.Kind == "app" && run.states[img.inflight].wouldReject(o) && img.appended && !img.endFile
}

func rejectedWindow(run *c20Run, img *image) bool {
	if img.inflight < 0 || img.inflight >= len(run.outcomes) {
		return false
	}
	return run.ops[img.inflight].Kind != "restart" && run.outcomes[img.inflight] != nil && img.appended
}

func segmentFiles(img *image) int {
	n := 0
	for _, f := range img.files {
		if isSegmentName(f.name) {
			n++
		}
	}
	return n
}

type c20Failure struct {
	sig string
	msg string
	doc map[string]any
}

type failer interface {
	Fatalf(string, ...any)
	Helper()
}

// checkC20Run checks every image of one history and returns the first failure.
func checkC20Run(root string, rec *ev.Recorder, run *c20Run, histKey string, tags []string) *c20Failure {
	results := make([]imgResult, len(run.images))
	var wg sync.WaitGroup
	sem := make(chan struct{}, 4)
	for i, img := range run.images {
		wg.Add(1)
		sem <- struct{}{}
		go func() {
			defer wg.Done()
			defer func() { <-sem }()
			results[i] = checkC20Image(root, run, img)
		}()
	}
	wg.Wait()

	batchSets := map[int]map[string]bool{}
	var first *c20Failure
	fail := func(sig string, r imgResult, format string, args ...any) {
		if first != nil {
			return
		}
		img := r.img
		files := []string{}
		for _, f := range img.files {
			files = append(files, fmt.Sprintf("%s(%dB)", f.name, f.size))
		}
		doc := map[string]any{
			"history": run.ops, "outcomes": errStrings(run.outcomes),
			"image_index": img.idx, "after_file_op": img.kind + " " + img.base,
			"mutations_completed": img.done, "in_flight": img.inflight, "files": files,
		}
		if img.inflight >= 0 && img.inflight < len(run.ops) {
			doc["in_flight_op"] = run.ops[img.inflight].String()
			if bo, ok := run.batchOutcomes[img.inflight]; ok {
				doc["in_flight_batch_results"] = errStrings(bo)
			}
		}
		if r.got != nil {
			doc["recovered"] = r.got
		}
		first = &c20Failure{sig: sig, msg: fmt.Sprintf(format, args...), doc: doc}
	}

	for _, r := range results {
		img := r.img
		if r.harness != nil {
			panic(fmt.Sprintf("harness: image %d: %v", img.idx, r.harness))
		}
		known := inKnownWindow(run, img)
		rejected := rejectedWindow(run, img) || known
		// non-trivial: the log is ahead of the acknowledged prefix (the entry
		// of a mutation that has not been answered yet is on disk)
		nt := img.inflight >= 0 && run.ops[img.inflight].Kind != "restart" && img.appended
		labels := append([]string{"fileop:" + img.kind}, tags...)
		if img.inflight >= 0 {
			labels = append(labels, "inflight:"+run.ops[img.inflight].Kind)
			if o := run.ops[img.inflight]; (o.Kind == "imp" && len(o.Imp) > 16) || (o.Kind == "rmk" && len(o.Keys) > 16) {
				labels = append(labels, "inflight:"+o.Kind+">16keys")
			}
		} else {
			labels = append(labels, "inflight:none")
		}
		if img.inflight >= 0 && run.ops[img.inflight].Kind == "batch" {
			if img.appended {
				labels = append(labels, "window:concurrent-batch-partly-in-log")
			}
			if img.endFile || strings.Contains(img.base, ".END") {
				labels = append(labels, "window:rollback-inside-concurrent-batch")
			}
		} else if nt && !rejected {
			labels = append(labels, "window:accepted-mutation-appended-not-yet-acknowledged")
		}
		if rejected {
			labels = append(labels, "window:rejected-mutation-in-log")
			if img.endFile {
				labels = append(labels, "window:rollback-after-END-rename")
			}
		}
		if nseg := segmentFiles(img); nseg > 1 {
			labels = append(labels, "segments>1")
			if rejected {
				labels = append(labels, "window:cross-segment-rollback")
			}
		}
		rec.Case(nt, fmt.Sprintf("%s#%d", histKey, img.idx), func() any {
			return map[string]any{"history": opsStrings(run.ops), "image": img.idx, "after_file_op": img.kind + " " + img.base, "completed": img.done, "in_flight": img.inflight}
		}, labels...)

		if r.continued {
			rec.Add("images_continued_after_recovery", 1)
		}
		if r.panicked != nil {
			fail(sigC20Panic, r, "aof.New panicked on the image after %s %s: %v", img.kind, img.base, r.panicked)
			continue
		}
		if r.reopenErr != nil {
			if known && errors.Is(r.reopenErr, chord.ErrKVPrefixConflict) {
				if ev.Known("C20", sigC20Known) {
					rec.Excluded(sigC20Known)
					continue
				}
				fail(sigC20Known, r, "image after %s %s (rejected %s appended, not yet rolled back): aof.New: %v", img.kind, img.base, run.ops[img.inflight], r.reopenErr)
				continue
			}
			fail(sigC20Reopen, r, "image after %s %s (completed=%d in-flight=%d): aof.New: %v", img.kind, img.base, img.done, img.inflight, r.reopenErr)
			continue
		}
		got := r.got.canon(run.keys, false)
		want0 := run.states[img.done].snapshot(run.keys)
		ok := got == want0.canon(run.keys, false)
		var want1 snapshot
		var wantSet map[string]bool
		if !ok && img.inflight >= 0 && run.ops[img.inflight].Kind == "batch" {
			// taken while 2..4 mutations were racing: any subset of them, in
			// any order, may have reached the log
			if batchSets[img.inflight] == nil {
				batchSets[img.inflight] = batchCandidates(run.states[img.done], run.ops[img.inflight].Batch, run.keys)
			}
			wantSet = batchSets[img.inflight]
			ok = wantSet[got]
		} else if !ok && img.inflight >= 0 && img.done+1 < len(run.states) {
			// the in-flight mutation as if it had been acknowledged
			m1 := run.states[img.done].clone()
			if o := run.ops[img.inflight]; o.Kind != "restart" {
				m1.apply(o)
			}
			want1 = m1.snapshot(run.keys)
			ok = got == want1.canon(run.keys, false)
		}
		if ok && r.contSig != "" {
			fail(r.contSig, r, "image after %s %s (completed=%d in-flight=%d) reopened with the right contents, but: %s", img.kind, img.base, img.done, img.inflight, r.contMsg)
			continue
		}
		if !ok {
			if first == nil {
				partial := ""
				if img.inflight >= 0 && run.ops[img.inflight].Kind == "imp" {
					o, n := run.ops[img.inflight], 0
					for _, e := range o.Imp {
						if r.got[e.Key].Simple == vrepr(e.Simple.bytes()) {
							n++
						}
					}
					partial = fmt.Sprintf(" [%d of the %d keys of the in-flight Import are present]", n, len(o.Imp))
				}
				if len(run.keys) > 8 && want1 != nil {
					partial += " differing keys: " + diffSnap(r.got, want0, want1, run.keys)
				}
				fail(sigC20State, r, "image after %s %s (completed=%d in-flight=%d)%s: recovered %s, want %s%s", img.kind, img.base, img.done, img.inflight, partial,
					got, want0.canon(run.keys, false), func() string {
						if want1 != nil {
							return " or " + want1.canon(run.keys, false)
						}
						if wantSet != nil {
							alts := []string{}
							for k := range wantSet {
								alts = append(alts, k)
							}
							sort.Strings(alts)
							return " or any of the states a subset of the racing batch can produce: " + strings.Join(alts, " / ")
						}
						return ""
					}())
				first.doc["want_acknowledged"] = want0
				if want1 != nil {
					first.doc["want_with_in_flight"] = want1
				}
			}
		}
	}
	if run.liveErr != nil && first == nil {
		first = &c20Failure{sig: sigC20Live, msg: fmt.Sprintf("clean Stop + aof.New at history position %d failed: %v", run.liveAt, run.liveErr),
			doc: map[string]any{"history": run.ops, "outcomes": errStrings(run.outcomes), "restart_at": run.liveAt, "error": run.liveErr.Error()}}
	}
	return first
}

func errStrings(errs []error) []string {
	out := make([]string, len(errs))
	for i, e := range errs {
		if e == nil {
			out[i] = "ok"
		} else {
			out[i] = e.Error()
		}
	}
	return out
}

func opsStrings(ops []op) []string {
	out := make([]string, len(ops))
	for i, o := range ops {
		out[i] = o.String()
	}
	return out
}

// ---- generator ----------------------------------------------------------------

// bulkSelection: n distinct keys out of all 84, entry i getting a value whose
// size cycles through 2 B / 300 B / 40 B / 3000 B and 0..2 children.
func bulkKeys(n, off int) []string {
	out := make([]string, n)
	for i := range out {
		out[i] = c20AllKeys[(off+i*37)%len(c20AllKeys)] // 37 is coprime to 84: distinct
	}
	return out
}

func genBulkSize(t *rapid.T) int {
	switch s := rapid.IntRange(0, 9).Draw(t, "size-class"); {
	case s == 0 || s == 9 || s == 4:
		return rapid.IntRange(1, 3).Draw(t, "n")
	case s == 1 || s == 5 || s == 8:
		return rapid.IntRange(4, 16).Draw(t, "n")
	default:
		return rapid.IntRange(17, 80).Draw(t, "n")
	}
}

func genC20Op(big, bulk bool) *rapid.Generator[op] {
	key := rapid.SampledFrom(c20Keys)
	child := rapid.SampledFrom(c20Children)
	small := rapid.SampledFrom([]valSpec{{"v1", 2}, {"v2", 2}, {"w", 300}, {"long", 3000}})
	return rapid.Custom(func(t *rapid.T) op {
		k := rapid.IntRange(0, 99).Draw(t, "kind")
		if big {
			k = 0 // only puts, with segment-sized values
		}
		if bulk {
			// in a bulk history two steps in five are bulk transfers
			switch rapid.IntRange(0, 4).Draw(t, "bulk-step") {
			case 1:
				k = 71
			case 3:
				k = 77
			}
		}
		switch {
		case k < 20:
			v := small.Draw(t, "val")
			if big {
				v = valSpec{Fill: rapid.SampledFrom([]string{"B1", "B2", "B3"}).Draw(t, "fill"), Len: rapid.SampledFrom([]int{700 << 10, 1100 << 10, 2100 << 10}).Draw(t, "len")}
			}
			return op{Kind: "put", Key: key.Draw(t, "key"), Val: v}
		case k < 27:
			return op{Kind: "del", Key: key.Draw(t, "key")}
		case k < 55:
			return op{Kind: "app", Key: key.Draw(t, "key"), Child: child.Draw(t, "child")}
		case k < 63:
			return op{Kind: "rem", Key: key.Draw(t, "key"), Child: child.Draw(t, "child")}
		case k < 72:
			if bulk && rapid.IntRange(0, 3).Draw(t, "bulk-import") != 2 {
				// a transfer of 1..80 keys in ONE Import call
				n, off, salt := genBulkSize(t), rapid.IntRange(0, 83).Draw(t, "off"), rapid.IntRange(0, 11).Draw(t, "salt")
				sizes := []int{2, 300, 40, 3000}
				o := op{Kind: "imp"}
				for i, key := range bulkKeys(n, off) {
					o.Imp = append(o.Imp, impSpec{Key: key, Simple: valSpec{Fill: fmt.Sprintf("m%d.%d", salt, i), Len: sizes[(i+salt)%4]},
						Children: append([]string{}, c20Children[:(i+salt)%3]...)})
				}
				return o
			}
			n := rapid.IntRange(1, 3).Draw(t, "n")
			o := op{Kind: "imp"}
			for i := 0; i < n; i++ {
				e := impSpec{Key: key.Draw(t, "ikey"), Simple: small.Draw(t, "ival"), Lease: uint64(rapid.IntRange(0, 2).Draw(t, "lease"))}
				e.Children = rapid.SliceOfNDistinct(child, 0, 3, rapid.ID[string]).Draw(t, "ichildren")
				o.Imp = append(o.Imp, e)
			}
			return o
		case k < 78:
			if bulk && rapid.IntRange(0, 3).Draw(t, "bulk-remove") != 2 {
				return op{Kind: "rmk", Keys: bulkKeys(genBulkSize(t), rapid.IntRange(0, 83).Draw(t, "off"))}
			}
			return op{Kind: "rmk", Keys: rapid.SliceOfNDistinct(key, 1, 3, rapid.ID[string]).Draw(t, "keys")}
		case k < 96:
			return genC20Batch(t)
		default:
			return op{Kind: "restart"}
		}
	})
}

// genC20Batch: 2..4 mutations on ONE key, issued at the same instant by as
// many goroutines - the same PrefixAppend several times, append against
// remove of the same child, put against delete, or a free mix of those.
func genC20Batch(t *rapid.T) op {
	k := rapid.SampledFrom(c20Keys).Draw(t, "bkey")
	c := rapid.SampledFrom(c20Children).Draw(t, "bchild")
	n := rapid.IntRange(2, 4).Draw(t, "bn")
	vals := []valSpec{{"c1", 2}, {"c2", 2}, {"cw", 300}}
	o := op{Kind: "batch", Key: k}
	member := func(kind int, i int) op {
		switch kind {
		case 0:
			return op{Kind: "app", Key: k, Child: c}
		case 1:
			return op{Kind: "rem", Key: k, Child: c}
		case 2:
			return op{Kind: "put", Key: k, Val: vals[i%len(vals)]}
		default:
			return op{Kind: "del", Key: k}
		}
	}
	switch rapid.IntRange(0, 9).Draw(t, "btemplate") {
	case 1, 2, 3, 4, 5: // the same append from every goroutine
		for i := 0; i < n; i++ {
			o.Batch = append(o.Batch, member(0, i))
		}
	case 6, 7: // append(s) against a remove of the same child
		o.Batch = append(o.Batch, member(0, 0), member(1, 0))
		for i := 2; i < n; i++ {
			o.Batch = append(o.Batch, member(0, i))
		}
	case 8: // put(s) against a delete
		o.Batch = append(o.Batch, member(2, 0), member(3, 0))
		for i := 2; i < n; i++ {
			o.Batch = append(o.Batch, member(2, i))
		}
	default: // free mix on the key
		for i := 0; i < n; i++ {
			o.Batch = append(o.Batch, member(rapid.IntRange(0, 3).Draw(t, "bmember"), i))
		}
	}
	return o
}

type c20Case struct {
	Bulk  bool
	Ops   []op
	Flush time.Duration
	Big   bool
}

func genC20Case(t *rapid.T) c20Case {
	flush := time.Hour
	if rapid.IntRange(0, 3).Draw(t, "ticker") == 2 {
		flush = 20 * time.Microsecond // periodic Sync lands between (and races with the arrival of) mutations
	}
	// one history in a hundred (thorough: twenty) stores values large enough to cross the
	// 2 MiB segment size: append, big puts until the segment cycles, the same
	// append again (rejected; its entry is the first of the new segment, so
	// the rollback truncates across segments), then a random tail
	if rapid.IntRange(0, ev.Pick(99, 19)).Draw(t, "big-history") == 7 {
		k := rapid.SampledFrom(c20Keys).Draw(t, "bkey")
		c := rapid.SampledFrom(c20Children).Draw(t, "bchild")
		ops := []op{{Kind: "app", Key: k, Child: c}}
		ops = append(ops, rapid.SliceOfN(genC20Op(false, false), 0, 2).Draw(t, "pre")...)
		ops = append(ops, rapid.SliceOfN(genC20Op(true, false), 2, 4).Draw(t, "bigs")...)
		ops = append(ops, op{Kind: "app", Key: k, Child: c})
		ops = append(ops, rapid.SliceOfN(genC20Op(false, false), 0, 5).Draw(t, "post")...)
		return c20Case{Ops: ops, Flush: flush, Big: true}
	}
	n := rapid.IntRange(5, ev.Pick(30, 60)).Draw(t, "len")
	// one history in four also moves bulk transfers: Import / RemoveKeys of
	// 1..80 keys (40 % of them above 16 keys) over an 84-key alphabet
	bulk := rapid.IntRange(0, 3).Draw(t, "bulk-history") == 2
	ops := rapid.SliceOfN(genC20Op(false, bulk), n, n).Draw(t, "ops")
	return c20Case{Ops: ops, Flush: flush, Bulk: bulk}
}

// ---- the check ------------------------------------------------------------------

func b2i(b bool) int {
	if b {
		return 1
	}
	return 0
}

func histHash(ops []op, flush time.Duration) string {
	h := sha256.Sum256([]byte(opsJSON(ops) + flush.String()))
	return fmt.Sprintf("%x", h[:10])
}

func c20Witness(t *testing.T, rec *ev.Recorder, root string) {
	ops := []op{
		{Kind: "put", Key: "a", Val: valSpec{"v1", 2}},
		{Kind: "app", Key: "a", Child: "x"},
		{Kind: "app", Key: "a", Child: "x"}, // rejected: ErrKVPrefixConflict
		{Kind: "put", Key: "b", Val: valSpec{"v2", 2}},
	}
	run, err := runC20History(root, ops, time.Hour)
	if err != nil {
		t.Fatalf("harness: witness history: %v", err)
	}
	reproduced := false
	var lines []string
	for _, img := range run.images {
		r := checkC20Image(root, run, img)
		if r.harness != nil {
			t.Fatalf("harness: witness image %d: %v", img.idx, r.harness)
		}
		st := "reopens"
		if r.reopenErr != nil {
			st = "REOPEN FAILS: " + r.reopenErr.Error()
			if inKnownWindow(run, img) && errors.Is(r.reopenErr, chord.ErrKVPrefixConflict) {
				reproduced = true
			}
		}
		lines = append(lines, fmt.Sprintf("#%d after %s %s completed=%d in-flight=%d known-window=%v: %s", img.idx, img.kind, img.base, img.done, img.inflight, inKnownWindow(run, img), st))
	}
	rec.Note("witness_history", opsStrings(ops))
	rec.Note("witness_outcomes", errStrings(run.outcomes))
	rec.Note("witness_images", lines)
	rec.Witnessed(sigC20Known, reproduced)
}

func TestC20(t *testing.T) {
	rec := ev.New(t, "C20")
	rec.Rule("rapid-generated mutation histories (put, delete, prefix append over 3 children so that conflicts are frequent, prefix remove, import with overlapping keys, remove-keys (both with 1..3 keys, and in one history out of four with 1..80 keys of an 84-key alphabet, 40 % of those above 16 keys, values 2 B..3 KB), clean restart, and 'concurrent batch' steps in which 2..4 goroutines released from a spin barrier issue mutations on one key at the same instant - the same PrefixAppend from all of them, append vs remove of one child, put vs delete, or a mix; 5..30 steps, thorough 5..60; one history in a hundred (thorough: twenty), plus one fixed history per run, with 0.7-2.1 MiB values arranged so that the segment cycles and a rejected append is rolled back across segments; one in four with a 20 us flush ticker) run through the real Start loop. Every MkdirAll/OpenFile/Write/Sync/Close/Rename/Remove of the WAL library yields one crash image (copy of the log directory and of every regular file next to it in the data directory) tagged (mutations completed, mutation in flight); ALL images of a history are reopened with aof.New and read back (Get + PrefixList of every alphabet key); an image taken during a concurrent batch must equal the state before the batch plus some subset of its members in some order, and after the batch the model continues from the live state provided an ordering of all members consistent with their results explains it. One evaluation = one image. Non-trivial: the image was taken while the log is ahead of the acknowledged prefix, i.e. the entry of the in-flight mutation is already in a segment file and the client has no answer yet (for a mutation the store rejects this lasts from the write of its entry to the end of its rollback; those images are labelled window:rejected-mutation-in-log). Distinct = distinct (history, image index).")
	rec.Assume(
		"crash = the process stops (SIGKILL, panic, OOM kill): everything handed to the kernel survives, so a copy of the directory at a file-operation boundary is the post-crash image; power loss / torn sectors are C22's subject",
		"granularity is the file-operation boundary named by the property's quantifier; a write(2) is not split",
		"acknowledged = the mutation call returned nil to the client; the in-flight mutation may or may not be present after recovery; imports always carry a non-empty simple value (the backends disagree on what a nil one means, which is C16/C17's subject)",
		"/verif/third_party/wal is tidwall/wal v1.2.1 plus pass-through wrappers that report each file operation (no behaviour change)",
	)
	rec.Note("images_per_history", "all (exhaustive per history)")
	root := scratchRoot(t)

	c20Witness(t, rec, root)

	// one fixed segment-crossing history per run (the generated ones are rare
	// in the quick tier because each of their images is several MiB)
	{
		big := valSpec{"B1", 700 << 10}
		ops := []op{{Kind: "app", Key: "a", Child: "x"}, {Kind: "put", Key: "a", Val: big}, {Kind: "put", Key: "b", Val: big}, {Kind: "put", Key: "c", Val: big},
			{Kind: "app", Key: "a", Child: "x"}, {Kind: "put", Key: "ab", Val: valSpec{"v1", 2}}, {Kind: "restart"}, {Kind: "app", Key: "a", Child: "x"}, {Kind: "rmk", Keys: []string{"a", "b"}}}
		run, err := runC20History(root, ops, time.Hour)
		if err != nil {
			t.Fatalf("harness: %v", err)
		}
		rec.Add("histories", 1)
		rec.Add("histories_segment_crossing", 1)
		rec.Add("images", int64(len(run.images)))
		if f := checkC20Run(root, rec, run, histHash(ops, time.Hour), []string{"history:segment-crossing-values", "history:fixed"}); f != nil {
			rec.Fail(t, f.sig, f.doc, "%s | history=%v", f.msg, opsStrings(run.ops))
		}
	}

	ev.RapidCheck(t, 120, 3000, func(rt *rapid.T) {
		c := genC20Case(rt)
		t0 := time.Now()
		defer func() {
			if os.Getenv("VERIF_DEBUG") != "" {
				fmt.Printf("DEBUG history ops=%d big=%v flush=%v took=%v\n", len(c.Ops), c.Big, c.Flush, time.Since(t0))
			}
		}()
		run, err := runC20History(root, c.Ops, c.Flush)
		if err != nil {
			rt.Fatalf("harness: %v", err)
		}
		rec.Add("histories", 1)
		rec.Add("images", int64(len(run.images)))
		rec.Add("live_outcome_differs_from_model", int64(run.mismatch))
		rec.Add("concurrent_batches", int64(run.batches))
		rec.Add("concurrent_batches_with_a_rejected_member", int64(run.batchRejected))
		rec.Add("concurrent_batches_with_a_rollback", int64(run.batchRollbacks))
		if run.batchUnexplained != "" {
			// not this property's subject (C18); the history is cut at that step
			rec.Inconclusive("concurrent-batch-result-not-explained-by-any-order")
			fmt.Printf("C20 note: %s\n", run.batchUnexplained)
		}
		var tags []string
		if c.Big {
			tags = append(tags, "history:segment-crossing-values")
			rec.Add("histories_segment_crossing", 1)
		}
		if c.Flush < time.Second {
			tags = append(tags, "history:flush-ticker")
		}
		if c.Bulk {
			tags = append(tags, "history:bulk-transfers")
			rec.Add("histories_with_bulk_transfers", 1)
		}
		for _, o := range c.Ops {
			if n := len(o.Imp); o.Kind == "imp" && n > 3 {
				rec.Add("imports_4_to_16_keys", int64(b2i(n <= 16)))
				rec.Add("imports_over_16_keys", int64(b2i(n > 16)))
			}
			if n := len(o.Keys); o.Kind == "rmk" && n > 16 {
				rec.Add("remove_keys_over_16_keys", 1)
			}
		}
		if f := checkC20Run(root, rec, run, histHash(c.Ops, c.Flush), tags); f != nil {
			f.doc["flush_interval"] = c.Flush.String()
			rec.Fail(rt, f.sig, f.doc, "%s | history=%v", f.msg, opsStrings(run.ops))
		}
	})
}
