package kvcrash

import (
	"bufio"
	"context"
	"errors"
	"fmt"
	"math/rand/v2"
	"os"
	"os/exec"
	"path/filepath"
	"sort"
	"strconv"
	"strings"
	"sync"
	"sync/atomic"
	"syscall"
	"testing"
	"time"

	"go.miragespace.co/specter/kv/sqlite3"
	"go.miragespace.co/specter/spec/chord"
	"go.miragespace.co/specter/spec/protocol"
	"verifharness/internal/ev"

	"go.uber.org/zap"
)

// ---- C23: the SQLite store keeps every committed operation across SIGKILL ---
//
// The test binary re-executes itself as a child (TestC23Child). The child
// opens c23Stores independent stores (one directory, one writer goroutine and
// one seed each - starting a child is by far the most expensive step, so one
// SIGKILL interrupts several stores at once) and applies to each an endless
// operation history that is a pure function of the store's seed; before
// issuing operation i on store j it writes "S j i" and after the call returned
// "A j i <result>" to a pipe (one write(2) per line, nothing buffered). The
// parent SIGKILLs the child at a generated point, reads the journal to the
// end, reopens every store in its own process and compares it with the model
// of the acknowledged operations (plus, possibly, the single operation in
// flight on that store). The same databases are then handed to the next
// child: kill -> recover -> continue -> kill chains.

const (
	c23EnvChild = "VERIF_KVCRASH_CHILD"
	c23EnvDir   = "VERIF_C23_DIR"
	c23EnvSeed  = "VERIF_C23_SEED"

	c23Stores = 4

	sigC23Reopen  = "sqlite-reopen-fails-after-kill"
	sigC23State   = "sqlite-state-after-kill-is-not-acknowledged-prefix"
	sigC23Listing = "sqlite-key-listing-inconsistent-with-data-after-kill"
	sigC23Read    = "sqlite-read-fails-after-kill"
)

var (
	c23Keys     = []string{"k0", "k1", "k10", "k11", "k2", "k3", "k4", "k5", "k6", "k7", "k8", "k9"}
	c23Children = []string{"w", "x", "y", "z"}
	c23Tokens   = []uint64{5, 9}
	// keys touched only by the bulk operations (one import / one remove-keys call over all of
	// them: the hand-over of a whole range)
	c23BulkKeys = func() []string {
		ks := make([]string, 520)
		for i := range ks {
			ks[i] = fmt.Sprintf("b%03d", i)
		}
		return ks
	}()
	// everything that is read back and compared after a kill
	c23AllKeys = append(append([]string{}, c23Keys...), c23BulkKeys...)
)

// c23Op is operation i of the history of (seed): a pure function of its
// arguments, so parent and child agree without exchanging the history.
type c23Gen struct {
	r    *rand.Rand
	seed uint64
	i    int
}

func newC23Gen(seed uint64) *c23Gen {
	return &c23Gen{r: rand.New(rand.NewPCG(seed, 0x5eed)), seed: seed}
}

func pick[T any](r *rand.Rand, xs []T) T { return xs[r.IntN(len(xs))] }

func (g *c23Gen) val() valSpec {
	// every value is unique (operation index inside), never empty
	sizes := []int{12, 12, 40, 40, 900, 900, 5000, 20000}
	return valSpec{Fill: fmt.Sprintf("s%d.i%d", g.seed%100000, g.i), Len: pick(g.r, sizes)}
}

func (g *c23Gen) subset(xs []string, min, max int) []string {
	n := min + g.r.IntN(max-min+1)
	perm := g.r.Perm(len(xs))
	out := make([]string, 0, n)
	for _, p := range perm[:n] {
		out = append(out, xs[p])
	}
	return out
}

func (g *c23Gen) next() op {
	defer func() { g.i++ }()
	r := g.r
	k := r.IntN(100)
	switch {
	case k < 2:
		// one transaction's worth of a whole range arriving
		o := op{Kind: "imp"}
		for _, key := range c23BulkKeys {
			o.Imp = append(o.Imp, impSpec{Key: key, Simple: valSpec{Fill: fmt.Sprintf("s%d.i%d.%s", g.seed%100000, g.i, key), Len: 24}})
		}
		return o
	case k < 4:
		// ... and leaving again in ONE remove-keys call
		return op{Kind: "rmk", Keys: append([]string{}, c23BulkKeys...)}
	case k < 28:
		return op{Kind: "put", Key: pick(r, c23Keys), Val: g.val()}
	case k < 36:
		return op{Kind: "del", Key: pick(r, c23Keys)}
	case k < 58:
		return op{Kind: "app", Key: pick(r, c23Keys), Child: pick(r, c23Children)}
	case k < 66:
		return op{Kind: "rem", Key: pick(r, c23Keys), Child: pick(r, c23Children)}
	case k < 84:
		// import: 1..3 keys usually, sometimes most of the alphabet in one
		// transaction (long transaction = wide in-flight window)
		max := 3
		if r.IntN(4) == 0 {
			max = 10
		}
		o := op{Kind: "imp"}
		for _, key := range g.subset(c23Keys, 1, max) {
			e := impSpec{Key: key, Simple: g.val(), Children: g.subset(c23Children, 0, 3)}
			if r.IntN(3) == 0 {
				e.Lease = pick(r, c23Tokens)
			}
			o.Imp = append(o.Imp, e)
		}
		return o
	case k < 93:
		return op{Kind: "rmk", Keys: g.subset(c23Keys, 1, 5)}
	default:
		return op{Kind: "release", Key: pick(r, c23Keys), Token: pick(r, c23Tokens)}
	}
}

// wazeroCacheDir is the compilation cache handed to sqlite3.Initialize, the
// way cmd/server does before it opens the store. Compiling the SQLite wasm
// module costs about a second of CPU (tens of seconds of wall time on a
// loaded machine); with the cache every child after the first loads it in
// milliseconds. The cache is content-addressed and written with
// temp-file + rename, so concurrent processes can share it.
func wazeroCacheDir() string {
	root := os.Getenv("VERIF_ROOT")
	if root == "" {
		root = "/verif"
	}
	d := filepath.Join(root, ".build", "wazero-cache")
	if err := os.MkdirAll(d, 0o755); err == nil {
		return d
	}
	d = filepath.Join(os.TempDir(), "verif-wazero-cache")
	os.MkdirAll(d, 0o755)
	return d
}

func storeDir(dir string, j int) string { return filepath.Join(dir, fmt.Sprintf("store%d", j)) }

func storeSeed(seed uint64, j int) uint64 { return seed + uint64(j)*0x9e3779b97f4a7c15 }

func newSqlite(dir string) (*sqlite3.SqliteKV, error) {
	if err := sqlite3.Initialize(wazeroCacheDir()); err != nil {
		return nil, fmt.Errorf("sqlite3.Initialize: %w", err)
	}
	return sqlite3.New(sqlite3.Config{Logger: zap.NewNop(), HashFn: chord.Hash, DataDir: dir})
}

// ---- child ---------------------------------------------------------------------

func TestC23Child(t *testing.T) {
	if os.Getenv(c23EnvChild) != "c23" {
		t.Skip("child-process half of TestC23")
	}
	journal := os.NewFile(3, "journal")
	if journal == nil {
		os.Exit(3)
	}
	say := func(s string) {
		if _, err := journal.Write([]byte(s)); err != nil {
			os.Exit(4) // the parent is gone
		}
	}
	say("BOOT\n")
	seed, err := strconv.ParseUint(os.Getenv(c23EnvSeed), 10, 64)
	if err != nil {
		say("FATAL bad seed\n")
		os.Exit(5)
	}
	if err := sqlite3.Initialize(wazeroCacheDir()); err != nil {
		say("FATAL sqlite3.Initialize: " + strings.ReplaceAll(err.Error(), "\n", " ") + "\n")
		os.Exit(6)
	}
	say("INIT\n")
	kvs := make([]*sqlite3.SqliteKV, c23Stores)
	for j := range kvs {
		kv, err := newSqlite(storeDir(os.Getenv(c23EnvDir), j))
		if err != nil {
			say("OPENFAIL " + strconv.Itoa(j) + " " + strings.ReplaceAll(err.Error(), "\n", " ") + "\n")
			os.Exit(6)
		}
		kvs[j] = kv
	}
	say("READY\n")
	for j, kv := range kvs {
		go func() {
			g := newC23Gen(storeSeed(seed, j))
			tag := " " + strconv.Itoa(j) + " "
			for i := 0; ; i++ {
				o := g.next()
				say("S" + tag + strconv.Itoa(i) + "\n")
				err := applyKV(kv, o)
				res := "ok"
				switch {
				case err == nil:
				case errors.Is(err, chord.ErrKVPrefixConflict), errors.Is(err, chord.ErrKVLeaseExpired):
					res = "rej"
				default:
					res = "err:" + strings.ReplaceAll(err.Error(), "\n", " ")
				}
				say("A" + tag + strconv.Itoa(i) + " " + res + "\n")
			}
		}()
	}
	time.Sleep(150 * time.Second) // never outlive a lost parent
	say("TIMEOUT\n")
	os.Exit(7)
}

// ---- parent ----------------------------------------------------------------------

type killPlan struct {
	Line  string `json:"trigger_line"`  // "S" or "A"
	Index int    `json:"trigger_index"` // kill once this line of that operation (or a later one) has been seen
	Delay int    `json:"delay_us"`
}

func genKillPlan(r *rand.Rand) killPlan {
	p := killPlan{Line: "S"}
	if r.IntN(4) == 0 {
		p.Line = "A"
	}
	switch r.IntN(10) {
	case 0, 1, 2:
		p.Index = r.IntN(12) // first transactions after (re)opening
	case 3, 4, 5, 6:
		p.Index = 12 + r.IntN(300)
	case 7, 8:
		p.Index = 300 + r.IntN(1500)
	default:
		p.Index = 1800 + r.IntN(ev.Pick(2500, 5000)) // WAL grows past the auto-checkpoint size
	}
	switch r.IntN(4) {
	case 0:
		p.Delay = 0
	case 1:
		p.Delay = r.IntN(60)
	default:
		p.Delay = r.IntN(900)
	}
	return p
}

type childRun struct {
	ready    bool
	openFail string
	results  [c23Stores][]string // per store and acknowledged operation: ok | rej | err:...
	started  [c23Stores]int      // per store: number of S lines
	exitErr  error
	killedAt time.Duration
	readyAt  time.Duration
	bootAt   time.Duration
	initAt   time.Duration
	endAt    time.Duration
	stderr   string
	timeout  atomic.Bool
	extra    []string
}

func runC23Child(ctx context.Context, dir string, seed uint64, plan killPlan) (*childRun, error) {
	pr, pw, err := os.Pipe()
	if err != nil {
		return nil, err
	}
	cmd := exec.Command(os.Args[0], "-test.run", "^TestC23Child$", "-test.count", "1", "-test.timeout", "0")
	// the child is c23Stores writers; a small GOMAXPROCS keeps dozens of concurrent
	// children from thrashing the scheduler of a loaded machine
	cmd.Env = append(os.Environ(), "GOMAXPROCS=4", c23EnvChild+"=c23", c23EnvDir+"="+dir, c23EnvSeed+"="+strconv.FormatUint(seed, 10))
	cmd.ExtraFiles = []*os.File{pw}
	var errBuf strings.Builder
	cmd.Stdout = &errBuf
	cmd.Stderr = &errBuf
	if err := cmd.Start(); err != nil {
		pr.Close()
		pw.Close()
		return nil, err
	}
	pw.Close()
	run := &childRun{}
	var once sync.Once
	kill := func() { once.Do(func() { cmd.Process.Signal(syscall.SIGKILL) }) }
	t0 := time.Now()
	// safety nets (a loaded machine can take many seconds to start a child):
	// a child that is not ready after 150 s is given up (inconclusive); one
	// that does not reach its trigger within 30 s of being ready is killed
	// where it is, which is as good a kill point as any
	guard := time.AfterFunc(150*time.Second, func() { kill() })
	defer guard.Stop()
	var guard2 *time.Timer
	defer func() {
		if guard2 != nil {
			guard2.Stop()
		}
	}()
	go func() {
		<-ctx.Done()
		kill()
	}()

	sc := bufio.NewScanner(pr)
	sc.Buffer(make([]byte, 0, 4096), 1<<20)
	armed := false
	for sc.Scan() {
		line := sc.Text()
		switch {
		case line == "BOOT":
			run.bootAt = time.Since(t0)
		case line == "INIT":
			run.initAt = time.Since(t0)
		case line == "READY":
			run.ready = true
			run.readyAt = time.Since(t0)
			guard2 = time.AfterFunc(30*time.Second, func() { run.timeout.Store(true); kill() })
		case strings.HasPrefix(line, "S "), strings.HasPrefix(line, "A "):
			f := strings.SplitN(line, " ", 4)
			j, n := -1, -1
			if len(f) >= 3 {
				j, _ = strconv.Atoi(f[1])
				n, _ = strconv.Atoi(f[2])
			}
			switch {
			case j < 0 || j >= c23Stores:
				run.extra = append(run.extra, "malformed "+line)
			case f[0] == "S" && len(f) == 3 && n == run.started[j] && n == len(run.results[j]):
				run.started[j] = n + 1
			case f[0] == "A" && len(f) == 4 && n == len(run.results[j]) && run.started[j] == n+1:
				run.results[j] = append(run.results[j], f[3])
			default:
				run.extra = append(run.extra, "out-of-order "+line)
			}
			// the kill plan watches store 0; the other stores are wherever they are
			if !armed && j == 0 && plan.Line == f[0] && n >= plan.Index {
				armed = true
			}
		case strings.HasPrefix(line, "OPENFAIL "):
			run.openFail = line[len("OPENFAIL "):]
		default:
			run.extra = append(run.extra, line)
		}
		if armed {
			armed = false
			plan.Index = 1 << 60 // fire once
			if plan.Delay == 0 {
				run.killedAt = time.Since(t0)
				kill()
			} else {
				time.AfterFunc(time.Duration(plan.Delay)*time.Microsecond, func() { kill() })
			}
		}
	}
	pr.Close()
	run.exitErr = cmd.Wait()
	run.endAt = time.Since(t0)
	run.stderr = errBuf.String()
	return run, nil
}

type c23Case struct {
	Chain int      `json:"chain"`
	Gen   int      `json:"generation"`
	Seed  uint64   `json:"child_seed"`
	Plan  killPlan `json:"kill_plan"`
}

// listingProblems checks ListKeys / RangeKeys(0,0) against what Get,
// PrefixList and Export show for every alphabet key.
func listingProblems(kv chord.KVProvider, obs snapshot, keys []string) ([]string, error) {
	ctx := context.Background()
	var probs []string
	lk, err := kv.ListKeys(ctx, []byte{})
	if err != nil {
		return nil, fmt.Errorf("ListKeys: %w", err)
	}
	type kk struct {
		key string
		typ protocol.KeyComposite_Type
	}
	seen := map[kk]int{}
	alpha := map[string]bool{}
	for _, k := range keys {
		alpha[k] = true
	}
	for _, e := range lk {
		seen[kk{string(e.GetKey()), e.GetType()}]++
		if !alpha[string(e.GetKey())] {
			probs = append(probs, fmt.Sprintf("ListKeys lists %q (%s) which was never written", e.GetKey(), e.GetType()))
		}
	}
	for k, n := range seen {
		if n > 1 {
			probs = append(probs, fmt.Sprintf("ListKeys lists %q (%s) %d times", k.key, k.typ, n))
		}
	}
	rk, err := kv.RangeKeys(ctx, 0, 0)
	if err != nil {
		return nil, fmt.Errorf("RangeKeys(0,0): %w", err)
	}
	for _, e := range rk {
		if !alpha[string(e)] {
			probs = append(probs, fmt.Sprintf("RangeKeys(0,0) returns %q which was never written", e))
		}
	}
	for _, k := range keys {
		o := obs[k]
		check := func(typ protocol.KeyComposite_Type, has bool, what string) {
			if listed := seen[kk{k, typ}] > 0; listed != has {
				probs = append(probs, fmt.Sprintf("key %q: ListKeys %s=%v but %s", k, typ, listed, what))
			}
		}
		check(protocol.KeyComposite_SIMPLE, o.Simple != "-", "Get returns "+o.Simple)
		check(protocol.KeyComposite_PREFIX, len(o.Children) > 0, fmt.Sprintf("PrefixList returns %v", o.Children))
		check(protocol.KeyComposite_LEASE, o.Lease != 0, fmt.Sprintf("Export lease token is %d", o.Lease))
		if n := hasKey(rk, k); (n > 0) != o.holds() || n > 1 {
			probs = append(probs, fmt.Sprintf("key %q: RangeKeys(0,0) returns it %d times but the store shows %+v", k, n, o))
		}
	}
	// ListKeys with a real prefix must be the matching part of the full listing
	for _, p := range []string{"k1", "k10"} {
		sub, err := kv.ListKeys(ctx, []byte(p))
		if err != nil {
			return nil, fmt.Errorf("ListKeys(%q): %w", p, err)
		}
		want := 0
		for _, e := range lk {
			if strings.HasPrefix(string(e.GetKey()), p) {
				want++
			}
		}
		if len(sub) != want {
			probs = append(probs, fmt.Sprintf("ListKeys(%q) has %d entries, the full listing has %d with that prefix", p, len(sub), want))
		}
	}
	sort.Strings(probs)
	return probs, nil
}

type c23Outcome struct {
	sig    string
	msg    string
	doc    map[string]any
	incon  string
	labels []string
	nt     bool
	sample map[string]any
	next   model
}

// oneKill runs one generation of a chain: one child, one SIGKILL, then every
// store is reopened and compared. It returns one outcome per store, or a
// single child-level outcome (inconclusive / reopen failure seen by the child).
func oneKill(ctx context.Context, dir string, cs c23Case, ms []model) []c23Outcome {
	whole := func(o c23Outcome) []c23Outcome {
		o.doc = map[string]any{"case": cs}
		return []c23Outcome{o}
	}
	run, err := runC23Child(ctx, dir, cs.Seed, cs.Plan)
	if err != nil {
		return whole(c23Outcome{incon: "child-spawn-failed", msg: err.Error()})
	}
	if run.openFail != "" {
		// the previous generation's reopen in the parent succeeded, so this is
		// a reopen failure after a kill too (or the very first open failed)
		if cs.Gen == 0 {
			return whole(c23Outcome{incon: "child-first-open-failed", msg: run.openFail})
		}
		return whole(c23Outcome{sig: sigC23Reopen, msg: "child of generation " + strconv.Itoa(cs.Gen) + " could not open store " + run.openFail})
	}
	if !run.ready {
		return whole(c23Outcome{incon: "child-never-ready", msg: fmt.Sprintf("exit=%v output=%s", run.exitErr, tail(run.stderr, 800))})
	}
	if ws, ok := exitStatus(run.exitErr); !ok || !ws.Signaled() || ws.Signal() != syscall.SIGKILL {
		return whole(c23Outcome{incon: "child-exited-by-itself", msg: fmt.Sprintf("exit=%v journal-extra=%v output=%s", run.exitErr, run.extra, tail(run.stderr, 800))})
	}
	if len(run.extra) > 0 {
		return whole(c23Outcome{incon: "journal-garbled", msg: fmt.Sprint(run.extra)})
	}
	outs := make([]c23Outcome, c23Stores)
	var wg sync.WaitGroup
	for j := range outs {
		wg.Add(1)
		go func() {
			defer wg.Done()
			outs[j] = checkStoreAfterKill(storeDir(dir, j), cs, j, run, ms[j])
		}()
	}
	wg.Wait()
	if os.Getenv("VERIF_DEBUG") != "" {
		fmt.Printf("DEBUG c23 chain=%d gen=%d boot=%v init=%v ready=%v end=%v acked=%d/%d/%d/%d\n", cs.Chain, cs.Gen, run.bootAt, run.initAt, run.readyAt, run.endAt,
			len(run.results[0]), len(run.results[1]), len(run.results[2]), len(run.results[3]))
	}
	return outs
}

// checkStoreAfterKill reopens store j of a killed child and compares.
func checkStoreAfterKill(dir string, cs c23Case, j int, run *childRun, m model) c23Outcome {
	out := c23Outcome{doc: map[string]any{"case": cs, "store": j, "store_seed": storeSeed(cs.Seed, j)}}
	results := run.results[j]
	acked := len(results)
	inflight := -1
	if run.started[j] == acked+1 {
		inflight = acked
	}

	// the same history, regenerated
	g := newC23Gen(storeSeed(cs.Seed, j))
	m0 := m.clone()
	mismatch := 0
	var lastOps []string
	for i := 0; i < acked; i++ {
		o := g.next()
		if i >= acked-5 {
			lastOps = append(lastOps, fmt.Sprintf("%d:%s=%s", i, o, results[i]))
		}
		switch res := results[i]; {
		case res == "ok":
			if m0.wouldReject(o) {
				mismatch++
			}
			m0.apply(o)
		case res == "rej":
			if !m0.wouldReject(o) {
				mismatch++
			}
		default:
			out.incon = "child-operation-unexpected-error"
			out.msg = fmt.Sprintf("op %d %s: %s", i, o, res)
			return out
		}
	}
	var inflightOp *op
	m1 := m0
	if inflight >= 0 {
		o := g.next()
		inflightOp = &o
		m1 = m0.clone()
		m1.apply(o)
	}
	out.doc["acknowledged"] = acked
	out.doc["last_acknowledged_ops"] = lastOps
	out.doc["in_flight"] = inflight
	if inflightOp != nil {
		out.doc["in_flight_op"] = inflightOp.String()
	}
	out.doc["outcome_model_mismatches"] = mismatch

	walSize := int64(-1)
	if st, err := os.Stat(filepath.Join(dir, "sqlite3", "db-wal")); err == nil {
		walSize = st.Size()
	}
	out.doc["wal_bytes_at_kill"] = walSize
	dbSize := int64(-1)
	if st, err := os.Stat(filepath.Join(dir, "sqlite3", "db")); err == nil {
		dbSize = st.Size()
	}
	out.doc["db_bytes_at_kill"] = dbSize

	kv, err := newSqlite(dir)
	if err != nil {
		out.sig, out.msg = sigC23Reopen, fmt.Sprintf("sqlite3.New after SIGKILL (acked=%d in-flight=%d): %v", acked, inflight, err)
		return out
	}
	defer kv.Close()
	obs, err := readStore(kv, c23AllKeys, true)
	if err != nil {
		out.sig, out.msg = sigC23Read, fmt.Sprintf("after SIGKILL (acked=%d in-flight=%d): %v", acked, inflight, err)
		return out
	}
	got := obs.canon(c23AllKeys, true)
	w0 := m0.snapshot(c23AllKeys)
	w1 := m1.snapshot(c23AllKeys)
	fate := ""
	switch {
	case inflight < 0 && got == w0.canon(c23AllKeys, true):
		out.next = m0
		fate = "between-operations"
	case inflight >= 0 && got == w1.canon(c23AllKeys, true) && w1.canon(c23AllKeys, true) != w0.canon(c23AllKeys, true):
		out.next = m1
		fate = "in-flight-committed"
	case inflight >= 0 && got == w0.canon(c23AllKeys, true) && w1.canon(c23AllKeys, true) != w0.canon(c23AllKeys, true):
		out.next = m0
		fate = "in-flight-rolled-back"
	case inflight >= 0 && got == w0.canon(c23AllKeys, true):
		out.next = m0
		fate = "in-flight-without-visible-effect"
	default:
		out.doc["recovered"] = obs
		out.doc["want_acknowledged"] = w0
		if inflight >= 0 {
			out.doc["want_with_in_flight"] = w1
		}
		out.sig = sigC23State
		out.msg = fmt.Sprintf("after SIGKILL (acked=%d in-flight=%v) the store shows %s", acked, out.doc["in_flight_op"], diffSnap(obs, w0, w1, c23AllKeys))
		return out
	}
	probs, err := listingProblems(kv, obs, c23AllKeys)
	if err != nil {
		out.sig, out.msg = sigC23Read, fmt.Sprintf("after SIGKILL (acked=%d in-flight=%d): %v", acked, inflight, err)
		return out
	}
	if len(probs) > 0 {
		out.doc["recovered"] = obs
		out.doc["problems"] = probs
		out.sig = sigC23Listing
		out.msg = fmt.Sprintf("after SIGKILL (acked=%d in-flight=%v): %s", acked, out.doc["in_flight_op"], strings.Join(probs, "; "))
		return out
	}

	out.nt = inflight >= 0
	out.labels = []string{"kill:" + fate, fmt.Sprintf("generation:%d", cs.Gen), "acked:" + bucket(acked)}
	if inflightOp != nil {
		out.labels = append(out.labels, "inflight:"+inflightOp.Kind)
		if inflightOp.Kind == "imp" && len(inflightOp.Imp) > 3 {
			out.labels = append(out.labels, "inflight:imp>3keys")
		}
		if inflightOp.Kind == "imp" && len(inflightOp.Imp) > 200 {
			out.labels = append(out.labels, "inflight:bulk-import(520 keys)")
		}
		if inflightOp.Kind == "rmk" && len(inflightOp.Keys) > 200 {
			out.labels = append(out.labels, "inflight:bulk-remove-keys(520 keys)")
		}
	}
	if walSize >= 4000<<10 {
		out.labels = append(out.labels, "wal-at-auto-checkpoint-size-at-kill")
	}
	if dbSize > 4096 {
		out.labels = append(out.labels, "db-file-checkpointed-before-kill")
	}
	if run.timeout.Load() {
		out.labels = append(out.labels, "kill:by-safety-timer")
	}
	out.sample = map[string]any{"case": cs, "store": j, "acknowledged": acked, "in_flight_op": out.doc["in_flight_op"], "fate": fate, "wal_bytes_at_kill": walSize, "db_bytes_at_kill": dbSize}
	out.doc["fate"] = fate
	return out
}

func bucket(n int) string {
	switch {
	case n == 0:
		return "0"
	case n < 12:
		return "1-11"
	case n < 300:
		return "12-299"
	case n < 1800:
		return "300-1799"
	}
	return ">=1800"
}

func diffSnap(got, w0, w1 snapshot, keys []string) string {
	var parts []string
	for _, k := range keys {
		g, a, b := fmt.Sprint(got[k]), fmt.Sprint(w0[k]), fmt.Sprint(w1[k])
		if g != a || g != b {
			parts = append(parts, fmt.Sprintf("%s: got %s, acknowledged-prefix %s, with-in-flight %s", k, g, a, b))
		}
	}
	return strings.Join(parts, " | ")
}

func tail(s string, n int) string {
	if len(s) > n {
		return s[len(s)-n:]
	}
	return s
}

func exitStatus(err error) (syscall.WaitStatus, bool) {
	var ee *exec.ExitError
	if errors.As(err, &ee) {
		ws, ok := ee.Sys().(syscall.WaitStatus)
		return ws, ok
	}
	return 0, false
}

func TestC23(t *testing.T) {
	rec := ev.New(t, "C23")
	rec.Rule("chains of kill -> reopen -> continue on one database: a re-executed child opens the SQLite store and applies an endless history that is a pure function of a seed (put with unique 12 B..20 KB values, delete, prefix append over 4 children so that conflicts are frequent, prefix remove, import of 1..10 keys in one transaction with children and lease tokens, remove-keys of 1..5 keys, release with right/wrong token; 12 keys incl. k1/k10/k11; 2% of the operations import 520 further keys in ONE call and 2% remove all 520 in ONE remove-keys call - a whole range arriving and leaving), journalling 'S i' before and 'A i result' after each call on a pipe; the parent SIGKILLs it after a generated journal line (operation 0..11 / ..311 / ..1799 / beyond, so that the WAL passes the 4 MiB auto-checkpoint size) plus 0..900 us, reopens in-process and compares Get/PrefixList/lease of every key with model(acknowledged) or model(acknowledged + the operation in flight), then ListKeys / RangeKeys(0,0) against those reads. One child hosts 4 independent stores (own directory, seed, writer goroutine), so one SIGKILL interrupts 4 stores; one evaluation = one (store, kill). Non-trivial: the kill landed between an operation's S line and its A line on that store. Distinct = distinct (chain, generation, seed, kill plan, store).")
	rec.Assume(
		"SIGKILL only: the OS page cache survives, so fsync policy (synchronous pragma) and power loss are out of reach of this check",
		"acknowledged = the call returned to the child and its A line reached the pipe; an operation whose A line is missing may or may not be visible",
		"values are never empty and lease tokens only come from Import / Release (what an empty value or a wall-clock lease means is C16/C19's subject)",
	)
	// warm the compilation cache (and this process) before any child starts
	if warm, err := newSqlite(t.TempDir()); err != nil {
		t.Fatalf("harness: cannot open a fresh sqlite store: %v", err)
	} else {
		warm.Close()
	}
	gens := ev.Pick(3, 5)
	kills := ev.N(24, 600)
	chains := (kills + gens - 1) / gens
	workers := ev.Pick(8, 6)
	base := t.TempDir()
	seed := uint64(ev.ShardSeed())

	ctx, cancel := context.WithCancel(context.Background())
	defer cancel()

	var childKills atomic.Int64
	type result struct {
		cs  c23Case
		out c23Outcome
	}
	results := make(chan result, chains*gens*c23Stores)
	var wg sync.WaitGroup
	sem := make(chan struct{}, workers)
	for c := 0; c < chains; c++ {
		wg.Add(1)
		go func() {
			defer wg.Done()
			sem <- struct{}{}
			defer func() { <-sem }()
			dir := filepath.Join(base, fmt.Sprintf("chain%d", c))
			if err := os.MkdirAll(dir, 0o755); err != nil {
				results <- result{out: c23Outcome{incon: "mkdir-failed", msg: err.Error()}}
				return
			}
			r := rand.New(rand.NewPCG(seed, uint64(c)+1))
			ms := make([]model, c23Stores)
			for j := range ms {
				ms[j] = model{}
			}
			for g := 0; g < gens; g++ {
				if ctx.Err() != nil {
					return
				}
				cs := c23Case{Chain: c, Gen: g, Seed: r.Uint64N(1 << 40), Plan: genKillPlan(r)}
				outs := oneKill(ctx, dir, cs, ms)
				childKills.Add(1)
				stop := len(outs) != c23Stores
				for j, out := range outs {
					results <- result{cs, out}
					if out.sig != "" || out.incon != "" {
						stop = true // the chain's model state is unknown from here on
					} else if !stop {
						ms[j] = out.next
					}
				}
				if stop {
					return
				}
			}
		}()
	}
	go func() { wg.Wait(); close(results) }()

	var firstFail *result
	defer func() { rec.Note("children_killed", childKills.Load()) }()
	for r := range results {
		out := r.out
		switch {
		case out.incon != "":
			rec.Inconclusive(out.incon)
			rec.Add("children_inconclusive", 1)
			fmt.Printf("C23 inconclusive chain=%d gen=%d: %s: %s\n", r.cs.Chain, r.cs.Gen, out.incon, oneLine(out.msg))
		case out.sig != "":
			if firstFail == nil {
				rr := r
				firstFail = &rr
				cancel()
			}
		default:
			rec.Case(out.nt, fmt.Sprintf("%d/%d/%d/%+v/%v", r.cs.Chain, r.cs.Gen, r.cs.Seed, r.cs.Plan, out.doc["store"]), func() any { return out.sample }, out.labels...)
			rec.Add("store_kills", 1)
			if mm, _ := out.doc["outcome_model_mismatches"].(int); mm > 0 {
				rec.Add("acknowledged_outcome_differs_from_model", int64(mm))
			}
		}
	}
	if firstFail != nil {
		rec.Fail(t, firstFail.out.sig, firstFail.out.doc, "%s", firstFail.out.msg)
	}
}

func oneLine(s string) string {
	s = strings.ReplaceAll(s, "\n", " | ")
	if len(s) > 500 {
		s = s[:500] + "…"
	}
	return s
}
