// Package kvcrash holds the crash-recovery checks of the two durable KV
// backends: C20 (append-only log, crash image at every file-operation
// boundary) and C23 (SQLite, child process killed with SIGKILL).
//
// This file is the small reference model both checks use and the code that
// applies one generated operation to a real store.
package kvcrash

import (
	"bytes"
	"context"
	"crypto/sha256"
	"encoding/json"
	"fmt"
	"sort"
	"strings"

	"go.miragespace.co/specter/spec/chord"
	"go.miragespace.co/specter/spec/protocol"
)

// ---- operations ------------------------------------------------------------

// valSpec describes a value without carrying its bytes around (values can be
// several hundred KiB when a history has to cross the 2 MiB segment size).
type valSpec struct {
	Fill string `json:"fill"` // short tag, repeated/padded to Len bytes
	Len  int    `json:"len"`
}

func (v valSpec) bytes() []byte {
	if v.Len <= 0 {
		return nil
	}
	if len(v.Fill) >= v.Len {
		return []byte(v.Fill[:v.Len])
	}
	b := make([]byte, 0, v.Len)
	for len(b) < v.Len {
		b = append(b, v.Fill...)
		b = append(b, '.')
	}
	return b[:v.Len]
}

type impSpec struct {
	Key      string   `json:"key"`
	Simple   valSpec  `json:"simple"`
	Children []string `json:"children,omitempty"`
	Lease    uint64   `json:"lease,omitempty"`
}

// op is one generated mutation. Kinds: put del app rem imp rmk release
// restart (restart = clean Stop + reopen; C20 only, no effect on the model).
type op struct {
	Kind  string    `json:"kind"`
	Key   string    `json:"key,omitempty"`
	Val   valSpec   `json:"val,omitzero"`
	Child string    `json:"child,omitempty"`
	Keys  []string  `json:"keys,omitempty"`
	Imp   []impSpec `json:"imp,omitempty"`
	Token uint64    `json:"token,omitempty"`
	// Kind "batch" (C20): Batch holds 2..4 mutations on one key that are
	// issued at the same instant by as many goroutines.
	Batch []op `json:"batch,omitempty"`
}

func (o op) String() string {
	switch o.Kind {
	case "put":
		return fmt.Sprintf("put(%s,%s*%d)", o.Key, o.Val.Fill, o.Val.Len)
	case "del":
		return fmt.Sprintf("del(%s)", o.Key)
	case "app":
		return fmt.Sprintf("append(%s,%s)", o.Key, o.Child)
	case "rem":
		return fmt.Sprintf("remove(%s,%s)", o.Key, o.Child)
	case "imp":
		var parts []string
		for _, e := range o.Imp {
			parts = append(parts, fmt.Sprintf("%s={%s*%d,%v,%d}", e.Key, e.Simple.Fill, e.Simple.Len, e.Children, e.Lease))
		}
		return "import(" + strings.Join(parts, ";") + ")"
	case "rmk":
		return fmt.Sprintf("removeKeys(%v)", o.Keys)
	case "release":
		return fmt.Sprintf("release(%s,%d)", o.Key, o.Token)
	case "batch":
		var parts []string
		for _, b := range o.Batch {
			parts = append(parts, b.String())
		}
		return "concurrently{" + strings.Join(parts, " || ") + "}"
	}
	return o.Kind
}

func opsJSON(ops []op) string {
	b, _ := json.Marshal(ops)
	return string(b)
}

// applyKV issues o against a real store.
func applyKV(kv chord.KVProvider, o op) error {
	ctx := context.Background()
	switch o.Kind {
	case "put":
		return kv.Put(ctx, []byte(o.Key), o.Val.bytes())
	case "del":
		return kv.Delete(ctx, []byte(o.Key))
	case "app":
		return kv.PrefixAppend(ctx, []byte(o.Key), []byte(o.Child))
	case "rem":
		return kv.PrefixRemove(ctx, []byte(o.Key), []byte(o.Child))
	case "imp":
		keys := make([][]byte, len(o.Imp))
		vals := make([]*protocol.KVTransfer, len(o.Imp))
		for i, e := range o.Imp {
			keys[i] = []byte(e.Key)
			t := &protocol.KVTransfer{SimpleValue: e.Simple.bytes(), LeaseToken: e.Lease}
			for _, c := range e.Children {
				t.PrefixChildren = append(t.PrefixChildren, []byte(c))
			}
			vals[i] = t
		}
		return kv.Import(ctx, keys, vals)
	case "rmk":
		keys := make([][]byte, len(o.Keys))
		for i, k := range o.Keys {
			keys[i] = []byte(k)
		}
		return kv.RemoveKeys(ctx, keys)
	case "release":
		return kv.Release(ctx, []byte(o.Key), o.Token)
	}
	return fmt.Errorf("harness: unknown op kind %q", o.Kind)
}

// ---- model -----------------------------------------------------------------

type kstate struct {
	simple   []byte // nil = absent (the generators never store an empty value)
	children map[string]struct{}
	lease    uint64
}

type model map[string]*kstate

func (m model) get(k string) *kstate {
	s := m[k]
	if s == nil {
		s = &kstate{children: map[string]struct{}{}}
		m[k] = s
	}
	return s
}

func (m model) clone() model {
	c := model{}
	for k, s := range m {
		n := &kstate{simple: s.simple, lease: s.lease, children: map[string]struct{}{}}
		for ch := range s.children {
			n.children[ch] = struct{}{}
		}
		c[k] = n
	}
	return c
}

// wouldReject: the contract rejects the operation in this state (and a
// rejected operation changes nothing).
func (m model) wouldReject(o op) bool {
	switch o.Kind {
	case "app":
		if s := m[o.Key]; s != nil {
			_, dup := s.children[o.Child]
			return dup
		}
	case "release":
		s := m[o.Key]
		return s == nil || s.lease == 0 || s.lease != o.Token
	}
	return false
}

// apply performs o as an accepted operation (a no-op if the contract rejects it).
func (m model) apply(o op) {
	if m.wouldReject(o) {
		return
	}
	switch o.Kind {
	case "put":
		m.get(o.Key).simple = o.Val.bytes()
	case "del":
		m.get(o.Key).simple = nil
	case "app":
		m.get(o.Key).children[o.Child] = struct{}{}
	case "rem":
		delete(m.get(o.Key).children, o.Child)
	case "imp":
		for _, e := range o.Imp {
			s := m.get(e.Key)
			s.simple = e.Simple.bytes()
			for _, c := range e.Children {
				s.children[c] = struct{}{}
			}
			if e.Lease != 0 {
				s.lease = e.Lease
			}
		}
	case "rmk":
		for _, k := range o.Keys {
			delete(m, k)
		}
	case "release":
		m.get(o.Key).lease = 0
	}
}

func vrepr(b []byte) string {
	if len(b) == 0 {
		return "-"
	}
	if len(b) <= 24 {
		return fmt.Sprintf("%q", b)
	}
	h := sha256.Sum256(b)
	return fmt.Sprintf("#%d:%x", len(b), h[:8])
}

// observed is what a store (or the model) shows for one key.
type observed struct {
	Simple   string   `json:"simple"`
	Children []string `json:"children"`
	Lease    uint64   `json:"lease,omitempty"`
}

func (o observed) holds() bool { return o.Simple != "-" || len(o.Children) > 0 || o.Lease != 0 }

type snapshot map[string]observed

func (s snapshot) canon(keys []string, withLease bool) string {
	var b strings.Builder
	for _, k := range keys {
		o := s[k]
		fmt.Fprintf(&b, "%s=%s|%s", k, o.Simple, strings.Join(o.Children, ","))
		if withLease {
			fmt.Fprintf(&b, "|%d", o.Lease)
		}
		b.WriteByte(';')
	}
	return b.String()
}

func (m model) snapshot(keys []string) snapshot {
	out := snapshot{}
	for _, k := range keys {
		o := observed{Simple: "-", Children: []string{}}
		if s := m[k]; s != nil {
			o.Simple = vrepr(s.simple)
			for c := range s.children {
				o.Children = append(o.Children, c)
			}
			sort.Strings(o.Children)
			o.Lease = s.lease
		}
		out[k] = o
	}
	return out
}

// readStore reads every alphabet key back from a real store through the
// public read API (Get, PrefixList and, for the lease token, Export).
func readStore(kv chord.KVProvider, keys []string, withLease bool) (snapshot, error) {
	ctx := context.Background()
	out := snapshot{}
	for _, k := range keys {
		v, err := kv.Get(ctx, []byte(k))
		if err != nil {
			return nil, fmt.Errorf("Get(%q): %w", k, err)
		}
		ch, err := kv.PrefixList(ctx, []byte(k))
		if err != nil {
			return nil, fmt.Errorf("PrefixList(%q): %w", k, err)
		}
		o := observed{Simple: vrepr(v), Children: []string{}}
		for _, c := range ch {
			o.Children = append(o.Children, string(c))
		}
		sort.Strings(o.Children)
		out[k] = o
	}
	if withLease {
		bk := make([][]byte, len(keys))
		for i, k := range keys {
			bk[i] = []byte(k)
		}
		vals, err := kv.Export(ctx, bk)
		if err != nil {
			return nil, fmt.Errorf("Export: %w", err)
		}
		if len(vals) != len(keys) {
			return nil, fmt.Errorf("Export returned %d values for %d keys", len(vals), len(keys))
		}
		for i, k := range keys {
			o := out[k]
			o.Lease = vals[i].GetLeaseToken()
			// Export must agree with Get / PrefixList (same store, no writer)
			if got := vrepr(vals[i].GetSimpleValue()); got != o.Simple {
				return nil, fmt.Errorf("Export(%q).SimpleValue=%s but Get=%s", k, got, o.Simple)
			}
			out[k] = o
		}
	}
	return out, nil
}

func hasKey(list [][]byte, k string) int {
	n := 0
	for _, e := range list {
		if bytes.Equal(e, []byte(k)) {
			n++
		}
	}
	return n
}
