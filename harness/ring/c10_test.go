package ring

import (
	"context"
	"fmt"
	"sort"
	"strings"
	"testing"
	"time"

	"go.miragespace.co/specter/spec/chord"
	"go.miragespace.co/specter/spec/protocol"
	"verifharness/internal/ev"
	"verifharness/internal/ringsim"

	"pgregory.net/rapid"
)

// C10: ring-wide key listing returns exactly the stored keys.

// keys are byte strings: besides the path-like ones, some hold bytes at the edges of the byte
// range (0xff, 0x00, 0x80) and multi-byte runes, also as last byte of a listing prefix
var c10Alphabet = []string{"a", "ab", "abc", "abd", "b", "b/x", "b/x/y", "b/y", "c", "ca", "z", "zz/top",
	"\xff", "a\xff", "a\xffb", "a\xff\xff", "\xff\xff/x", "k\x00", "k\x00z", "k\x80", "é", "éa",
	"", "a/", "abc/def/ghi"}

type c10Key struct {
	Key      string   `json:"key"`
	Simple   bool     `json:"simple"`
	Children []string `json:"children"`
	Lease    bool     `json:"lease"`
	// second phase: the stored content is partially taken away again, so that a
	// listing has to reflect what is LEFT, not what was ever written
	RemoveChildren []string `json:"remove_children,omitempty"`
	DeleteSimple   bool     `json:"delete_simple,omitempty"`
	ReleaseLease   bool     `json:"release_lease,omitempty"`
}

type c10Case struct {
	IDs      []uint64 `json:"ids"`
	Vias     []int    `json:"vias"`
	Keys     []c10Key `json:"keys"`
	Prefixes []string `json:"prefixes"`
	Backends []int    `json:"backends"`
}

func TestC10(t *testing.T) {
	rec := ev.New(t, "C10")
	rec.Rule("rapid-generated stable rings of 1..8 real LocalNodes (ids placed next to the keys' hashes so that the keys spread over several nodes; stores drawn from memory/aof/sqlite) and key sets from a prefix-closed alphabet (keys that are prefixes of each other, shared prefixes, '/' segments); each key holds a generated non-empty subset of {simple value, prefix children, lease} written through the DHT and then partially taken away again through another node (some or all children removed, value deleted, lease released); ListKeys is issued from EVERY node for generated prefixes (incl. the empty prefix, existing keys, proper prefixes and non-matching prefixes). Oracle: the result equals, as a multiset of (key, kind), the model filtered by string prefix - every stored key once per kind it holds, nothing else. Non-trivial: >= 2 nodes hold data and >= 1 key has >= 2 kinds. Distinct = distinct cases.")
	rec.Assume("values are non-empty (an empty simple value counts as absent; see C16), leases use a 10 min TTL so they do not expire during the case")
	anchors := []uint64{}
	for _, k := range c10Alphabet {
		anchors = append(anchors, chord.Hash([]byte(k)))
	}
	backs := ev.Pick([]int{0, 0, 1, 2, 2}, []int{0, 1, 2})
	ev.RapidCheck(t, 40, 800, func(t *rapid.T) {
		ids := genLayoutIDs(1, 8, anchors...).Draw(t, "ids")
		cs := c10Case{IDs: ids,
			Vias:     rapid.SliceOfN(rapid.IntRange(0, 1<<20), len(ids), len(ids)).Draw(t, "vias"),
			Backends: rapid.SliceOfN(rapid.SampledFrom(backs), 8, 8).Draw(t, "backends"),
		}
		keyIdx := rapid.SliceOfNDistinct(rapid.IntRange(0, len(c10Alphabet)-2), 1, 10, rapid.ID[int]).Draw(t, "keys")
		for _, ki := range keyIdx {
			k := c10Key{Key: c10Alphabet[ki]}
			if k.Key == "" {
				continue
			}
			mask := rapid.IntRange(1, 7).Draw(t, "kinds")
			k.Simple = mask&1 != 0
			if mask&2 != 0 {
				k.Children = rapid.SliceOfNDistinct(rapid.SampledFrom([]string{"x", "y", "ab", "a"}), 1, 3, rapid.ID[string]).Draw(t, "children")
			}
			k.Lease = mask&4 != 0
			if len(k.Children) > 0 && rapid.IntRange(0, 2).Draw(t, "removeSome") > 0 {
				n := rapid.IntRange(1, len(k.Children)).Draw(t, "nRemove") // partial or complete removal
				k.RemoveChildren = append([]string{}, k.Children[:n]...)
			}
			k.DeleteSimple = k.Simple && rapid.IntRange(0, 3).Draw(t, "deleteSimple") == 0
			k.ReleaseLease = k.Lease && rapid.IntRange(0, 3).Draw(t, "releaseLease") == 0
			cs.Keys = append(cs.Keys, k)
		}
		cs.Prefixes = rapid.SliceOfN(rapid.SampledFrom(append([]string{"q", "abx", "b/x/", "zz"}, c10Alphabet...)), 3, 8).Draw(t, "prefixes")
		// byte-wise prefixes of stored keys (may end inside a multi-byte rune or in 0xff / 0x00)
		for i := 0; i < 3 && len(cs.Keys) > 0; i++ {
			k := cs.Keys[rapid.IntRange(0, len(cs.Keys)-1).Draw(t, "prefixOf")].Key
			cs.Prefixes = append(cs.Prefixes, k[:rapid.IntRange(1, len(k)).Draw(t, "prefixLen")])
		}
		cs.Prefixes = append(cs.Prefixes, "")

		newKV, rmDirs := kvFactory(t, cs.Backends)
		r := &simRing{net: ringsim.New(ringsim.Config{Seed: int64(ids[0]) + 11, NewKV: newKV}), members: map[uint64]*ringsim.Member{}}
		defer func() { r.net.Close(); rmDirs() }()
		if err := r.buildRing(ids, func(i int) int { return cs.Vias[i] }); err != nil {
			rec.Inconclusive("ring-build-failed")
			return
		}
		if _, c := r.settle(60, true, nil); c.Problem != "" {
			rec.Inconclusive("ring-not-converged")
			return
		}
		ctx := context.Background()
		live := r.live()
		type kk struct{ key, kind string }
		model := map[kk]int{}
		multiKind := false
		partialRemovals := 0
		for i, k := range cs.Keys {
			entry := live[i%len(live)].Node
			kinds := 0
			if k.Simple {
				if err := retryKV(func() error { return entry.Put(ctx, []byte(k.Key), []byte("v-"+k.Key)) }); err != nil {
					t.Fatalf("harness: Put on stable ring: %v", err)
				}
				model[kk{k.Key, "SIMPLE"}]++
				kinds++
			}
			for _, c := range k.Children {
				if err := retryKV(func() error { return entry.PrefixAppend(ctx, []byte(k.Key), []byte(c)) }); err != nil {
					t.Fatalf("harness: PrefixAppend on stable ring: %v", err)
				}
			}
			if len(k.Children) > 0 {
				model[kk{k.Key, "PREFIX"}]++
				kinds++
			}
			var token uint64
			if k.Lease {
				if err := retryKV(func() (e error) { token, e = entry.Acquire(ctx, []byte(k.Key), 10*time.Minute); return e }); err != nil {
					t.Fatalf("harness: Acquire on stable ring: %v", err)
				}
				model[kk{k.Key, "LEASE"}]++
				kinds++
			}
			// second phase through another entry node
			entry2 := live[(i+1)%len(live)].Node
			for _, c := range k.RemoveChildren {
				if err := retryKV(func() error { return entry2.PrefixRemove(ctx, []byte(k.Key), []byte(c)) }); err != nil {
					t.Fatalf("harness: PrefixRemove on stable ring: %v", err)
				}
			}
			if len(k.RemoveChildren) > 0 {
				partialRemovals++
				if len(k.RemoveChildren) == len(k.Children) {
					delete(model, kk{k.Key, "PREFIX"})
					kinds--
				}
			}
			if k.DeleteSimple {
				if err := retryKV(func() error { return entry2.Delete(ctx, []byte(k.Key)) }); err != nil {
					t.Fatalf("harness: Delete on stable ring: %v", err)
				}
				delete(model, kk{k.Key, "SIMPLE"})
				kinds--
			}
			if k.ReleaseLease {
				if err := retryKV(func() error { return entry2.Release(ctx, []byte(k.Key), token) }); err != nil {
					t.Fatalf("harness: Release on stable ring: %v", err)
				}
				delete(model, kk{k.Key, "LEASE"})
				kinds--
			}
			if kinds >= 2 {
				multiKind = true
			}
		}
		nodesWithData := 0
		for _, m := range live {
			if ks, _ := m.KV.Inner().RangeKeys(ctx, 0, 0); len(ks) > 0 {
				nodesWithData++
			}
		}
		rec.Case(nodesWithData >= 2 && multiKind, fmt.Sprintf("%+v", cs), func() any { return cs },
			fmt.Sprintf("nodes-with-data:%d", nodesWithData), fmt.Sprintf("N=%d", len(live)), fmt.Sprintf("keys-with-removed-children:%v", partialRemovals > 0))
		render := func(m map[kk]int) []string {
			out := []string{}
			for k, n := range m {
				for i := 0; i < n; i++ {
					out = append(out, k.kind+":"+k.key)
				}
			}
			sort.Strings(out)
			return out
		}
		listings := 0
		for _, m := range live {
			for _, prefix := range cs.Prefixes {
				wantM := map[kk]int{}
				for k, n := range model {
					if strings.HasPrefix(k.key, prefix) {
						wantM[k] = n
					}
				}
				w := render(wantM)
				listOnce := func() ([]string, error) {
					var got []*protocol.KeyComposite
					if err := retryKV(func() (e error) { got, e = m.Node.ListKeys(ctx, []byte(prefix)); return }); err != nil {
						return nil, err
					}
					gm := map[kk]int{}
					for _, kc := range got {
						gm[kk{string(kc.GetKey()), kc.GetType().String()}]++
					}
					return render(gm), nil
				}
				g, err := listOnce()
				listings++
				if err == nil && strings.Join(g, "|") == strings.Join(w, "|") {
					continue
				}
				// a stale in-flight maintenance write can transiently un-converge a settled ring
				// (see C01): a wrong listing or an error counts only if it shows again on the
				// re-settled ring
				persistent := true
				for try := 0; try < 3 && persistent; try++ {
					if _, c3 := r.settle(20, true, nil); c3.Problem != "" {
						persistent = false
						break
					}
					if g2, e2 := listOnce(); e2 == nil && strings.Join(g2, "|") == strings.Join(w, "|") {
						persistent = false
					}
				}
				if !persistent {
					rec.Inconclusive("transient-listing-failure-not-reproducible-on-settled-ring")
					return
				}
				if err != nil {
					rec.Fail(t, "listing-fails-on-stable-ring", map[string]any{"case": cs, "start": m.ID, "prefix": prefix, "err": err.Error()}, "ListKeys(%q) from %d on a stable ring: %v", prefix, m.ID, err)
				}
				sig := "listing-differs-from-stored-keys"
				switch {
				case len(g) > len(w):
					sig = "listing-has-extra-or-duplicate-entries"
				case len(g) < len(w):
					sig = "listing-misses-stored-keys"
				}
				rec.Fail(t, sig, map[string]any{"case": cs, "start": m.ID, "prefix": prefix, "got": g, "want": w}, "ListKeys(%q) from node %d = %v, want %v", prefix, m.ID, g, w)
			}
		}
		rec.Add("listings", int64(listings))
	})
}
