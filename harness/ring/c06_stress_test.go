package ring

import (
	"context"
	"fmt"
	"math/rand"
	"runtime"
	"sort"
	"sync"
	"sync/atomic"
	"time"

	"go.miragespace.co/specter/spec/chord"
	"go.miragespace.co/specter/spec/protocol"
	"verifharness/internal/ringsim"
)

// lockPeer is a scripted neighbour of the one real node of
// membershipLockStress: it plays a joiner (receives the keys handed over by
// Import and keeps them), later the leaving predecessor (hands them back), or
// the static far side of the ring.
type lockPeer struct {
	scriptPeer
	mu   sync.Mutex
	data map[string]*protocol.KVTransfer
	dead atomic.Bool
}

func (p *lockPeer) Ping() error {
	if p.dead.Load() {
		return chord.ErrNodeGone
	}
	return nil
}

func (p *lockPeer) Import(_ context.Context, keys [][]byte, values []*protocol.KVTransfer) error {
	p.mu.Lock()
	defer p.mu.Unlock()
	if p.data == nil {
		p.data = map[string]*protocol.KVTransfer{}
	}
	for i, k := range keys {
		p.data[string(k)] = values[i]
	}
	return nil
}

// membershipLockStress: ONE real node S between scripted neighbours; in every
// round 2-4 membership requests hit S at the same instant (spin barrier): join
// requests of fresh nodes whose ids lie between S's predecessor and S, and the
// leave request of S's current predecessor. Nobody releases anything before
// all of them have been answered, so at most one may be granted and every
// other answer must be a retryable refusal; after the winner has finished
// (taking over / handing back the keys like the real protocol does) and
// released, S must be Active again with the right predecessor. At the end the
// keys held by S and by the nodes that are still joined must be exactly the
// keys written at the start, each in one place, with the right values.
func membershipLockStress(seed int64, rounds int) (problem string, replay map[string]any, done, contended int) {
	// a node records every state transition for its whole life: start over with a fresh node
	// every 20k rounds so that memory stays bounded. The run is bounded by its round count; the
	// wall-clock cap (4 min) only keeps a heavily loaded machine or the race detector, under
	// which a round costs many times more, from eating the check's whole budget - the evidence
	// reports the rounds actually run.
	t0 := time.Now()
	for seg := 0; done < rounds && time.Since(t0) < 4*time.Minute; seg++ {
		n := rounds - done
		if n > 20000 {
			n = 20000
		}
		p, rp, d, c := lockStressSegment(seed+int64(seg)*7919, n)
		done, contended = done+d, contended+c
		if p != "" {
			return p, rp, done, contended
		}
		if d == 0 {
			break
		}
	}
	return "", nil, done, contended
}

func lockStressSegment(seed int64, rounds int) (problem string, replay map[string]any, done, contended int) {
	const (
		pID = uint64(1) << 40
		sID = uint64(1) << 47
		nID = sID + (uint64(1) << 40)
	)
	rng := rand.New(rand.NewSource(seed))
	net := ringsim.New(ringsim.Config{Seed: seed, StabilizeInterval: time.Hour, FixFingerInterval: time.Hour, PredCheckInterval: time.Hour})
	// not closed: see overlappingStabilizeRounds
	s := net.Add(sID)
	sSelf := net.Proxy(nID, sID)
	base := &lockPeer{scriptPeer: scriptPeer{id: pID}}
	far := &lockPeer{scriptPeer: scriptPeer{id: nID}}
	far.succs = func() []chord.VNode { return []chord.VNode{base, sSelf} }
	far.pred = func() chord.VNode { return sSelf }
	base.succs = func() []chord.VNode { return []chord.VNode{sSelf, far} }
	var initialJoin atomic.Bool
	initialJoin.Store(true)
	far.join = func() (chord.VNode, []chord.VNode, error) {
		if initialJoin.Load() {
			return base, []chord.VNode{far, base}, nil
		}
		// a request routed past S reaches nodes that are still joining: refused, retryable
		return nil, nil, chord.ErrJoinInvalidState
	}
	if err := s.Node.Join(far); err != nil {
		return "precondition: join: " + err.Error(), nil, 0, 0
	}
	initialJoin.Store(false)
	ctx := context.Background()
	want := map[string]string{}
	for i := 0; len(want) < 96 && i < 1<<16; i++ {
		k := fmt.Sprintf("lock-%d", i)
		if chord.Between(pID, chord.Hash([]byte(k)), sID, true) {
			v := fmt.Sprintf("v-%d", i)
			if err := s.Node.Put(ctx, []byte(k), []byte(v)); err != nil {
				return "precondition: put: " + err.Error(), nil, 0, 0
			}
			want[k] = v
		}
	}
	stack := []*lockPeer{base} // S's predecessors, innermost last
	type answer struct {
		kind string
		peer *lockPeer
		err  error
	}
	fail := func(i int, msg string, extra map[string]any) (string, map[string]any, int, int) {
		extra["seed"], extra["round"] = seed, i
		return fmt.Sprintf("round %d: %s", i, msg), extra, done, contended
	}
	for i := 0; i < rounds; i++ {
		cur := stack[len(stack)-1]
		k := 2 + rng.Intn(3)
		reqs := make([]answer, 0, k)
		gap := (sID - cur.id) / 2
		hasLeave := false
		for c := 0; c < k; c++ {
			if len(stack) > 1 && (len(stack) >= 8 || rng.Intn(3) == 0) && !hasLeave {
				hasLeave = true
				reqs = append(reqs, answer{kind: "leave", peer: cur})
			} else if len(stack) < 8 {
				reqs = append(reqs, answer{kind: "join", peer: &lockPeer{scriptPeer: scriptPeer{id: cur.id + gap + uint64(c)*3}}})
			}
		}
		if len(reqs) == 0 {
			continue
		}
		var (
			wg    sync.WaitGroup
			ready atomic.Int32
		)
		wg.Add(len(reqs))
		for c := range reqs {
			r := &reqs[c]
			// the paths to the lock differ in length (a join request routes and takes the KV
			// barrier first): random head starts of up to ~1 us vary how they line up
			spin := rng.Intn(600)
			go func() {
				defer wg.Done()
				ready.Add(1)
				for int(ready.Load()) < len(reqs) {
					runtime.Gosched()
				}
				for x := 0; x < spin; x++ {
					_ = ready.Load()
				}
				if r.kind == "join" {
					_, _, r.err = s.Node.RequestToJoin(r.peer)
				} else {
					r.err = s.Node.RequestToLeave(r.peer)
				}
			}()
		}
		wg.Wait()
		done++
		if len(reqs) >= 2 {
			contended++
		}
		var winner *answer
		desc := make([]string, 0, len(reqs))
		for c := range reqs {
			r := &reqs[c]
			desc = append(desc, fmt.Sprintf("%s(%d)=%v", r.kind, r.peer.id, r.err))
			switch {
			case r.err == nil && winner != nil:
				return fail(i, fmt.Sprintf("node %d granted two membership requests at the same time (nothing had been released): %s(%d) and %s(%d)", sID, winner.kind, winner.peer.id, r.kind, r.peer.id), map[string]any{"requests": desc, "schedule": "all requests are issued to the same node at the same instant; no FinishJoin/FinishLeave(release) is sent before all have been answered"})
			case r.err == nil:
				winner = r
			case !chord.ErrorIsRetryable(r.err):
				return fail(i, fmt.Sprintf("%s request of %d refused with the non-retryable error %q while competing requests were in flight", r.kind, r.peer.id, r.err), map[string]any{"requests": desc})
			}
		}
		if winner == nil {
			if st := s.Node.VerifState(); st != chord.Active {
				return fail(i, fmt.Sprintf("every request was refused but node %d is %s", sID, st), map[string]any{"requests": desc})
			}
			continue
		}
		if st := s.Node.VerifState(); st != chord.Transferring {
			return fail(i, fmt.Sprintf("a %s request was granted but node %d is %s, not holding its membership lock", winner.kind, sID, st), map[string]any{"requests": desc})
		}
		if winner.kind == "join" {
			if err := s.Node.FinishJoin(false, true); err != nil {
				return fail(i, fmt.Sprintf("release after the granted join failed: %v", err), map[string]any{"requests": desc})
			}
			stack = append(stack, winner.peer)
		} else {
			l := winner.peer
			l.mu.Lock()
			keys, vals := make([][]byte, 0, len(l.data)), make([]*protocol.KVTransfer, 0, len(l.data))
			for k, v := range l.data {
				keys, vals = append(keys, []byte(k)), append(vals, v)
			}
			l.data = nil
			l.mu.Unlock()
			if err := s.Node.Import(ctx, keys, vals); err != nil {
				return fail(i, fmt.Sprintf("hand-back of %d keys by the leaving predecessor failed: %v", len(keys), err), map[string]any{"requests": desc})
			}
			if err := s.Node.FinishLeave(false, true); err != nil {
				return fail(i, fmt.Sprintf("release after the granted leave failed: %v", err), map[string]any{"requests": desc})
			}
			l.dead.Store(true)
			stack = stack[:len(stack)-1]
			s.Node.VerifCheckPredecessor()
			if err := s.Node.Notify(stack[len(stack)-1]); err != nil {
				return fail(i, fmt.Sprintf("notify after the leave failed: %v", err), map[string]any{"requests": desc})
			}
		}
		if st := s.Node.VerifState(); st != chord.Active {
			return fail(i, fmt.Sprintf("after the %s finished and released, node %d is %s", winner.kind, sID, st), map[string]any{"requests": desc})
		}
		if pre := s.Node.VerifPredecessor(); pre == nil || pre.ID() != stack[len(stack)-1].id {
			return fail(i, fmt.Sprintf("after the %s of %d finished, node %d's predecessor is %v, want %d", winner.kind, winner.peer.id, sID, vidOf(pre), stack[len(stack)-1].id), map[string]any{"requests": desc})
		}
		if i%512 == 0 || i == rounds-1 {
			if p := lockStressData(ctx, s, stack, want); p != "" {
				return fail(i, p, map[string]any{"requests": desc})
			}
		}
	}
	if p := lockStressData(ctx, s, stack, want); p != "" {
		return fail(rounds, p, map[string]any{})
	}
	return "", nil, done, contended
}

func vidOf(v chord.VNode) any {
	if v == nil {
		return "nil"
	}
	return v.ID()
}

// lockStressData: the keys written at the start sit in exactly one place (S's
// store or one still-joined neighbour) with their values.
func lockStressData(ctx context.Context, s *ringsim.Member, stack []*lockPeer, want map[string]string) string {
	seen := map[string]string{}
	place := map[string]string{}
	ks, err := s.KV.Inner().RangeKeys(ctx, 0, 0)
	if err != nil {
		return "precondition: RangeKeys: " + err.Error()
	}
	vals, err := s.KV.Inner().Export(ctx, ks)
	if err != nil {
		return "precondition: Export: " + err.Error()
	}
	for i, k := range ks {
		seen[string(k)] = string(vals[i].GetSimpleValue())
		place[string(k)] = "the node itself"
	}
	for _, p := range stack[1:] {
		p.mu.Lock()
		for k, v := range p.data {
			if where, dup := place[k]; dup {
				p.mu.Unlock()
				return fmt.Sprintf("key %q is held by %s and by joined node %d", k, where, p.id)
			}
			seen[k] = string(v.GetSimpleValue())
			place[k] = fmt.Sprintf("joined node %d", p.id)
		}
		p.mu.Unlock()
	}
	keys := make([]string, 0, len(want))
	for k := range want {
		keys = append(keys, k)
	}
	sort.Strings(keys)
	for _, k := range keys {
		got, ok := seen[k]
		if !ok {
			return fmt.Sprintf("key %q (written before the membership changes) is held by nobody", k)
		}
		if got != want[k] {
			return fmt.Sprintf("key %q holds %q at %s, written %q", k, got, place[k], want[k])
		}
	}
	if len(seen) != len(want) {
		return fmt.Sprintf("%d keys are held in total, %d were written", len(seen), len(want))
	}
	return ""
}
