package ring

import (
	"context"
	"fmt"
	"time"

	"go.miragespace.co/specter/spec/chord"
	"verifharness/internal/ringsim"
)

// writesDuringLeaveThatFails: L tries to leave, but every hand-over to its
// successor S fails after 60 ms on the wire, so each of L's attempts keeps it
// in state Leaving for a while and the leave is abandoned in the end: L stays
// a member. All the time clients write keys of L's range through L's
// predecessor. After the quiet period every key in every node's own store
// must hash into that node's range.
func writesDuringLeaveThatFails() (problem string) {
	const (
		P = uint64(1) << 44
		L = uint64(2) << 44
		S = uint64(3) << 44
	)
	r := newSimRing(ringsim.Config{Seed: 62, SlowMethod: "Import", SlowDelay: 60 * time.Millisecond})
	defer r.net.Close()
	if err := r.buildRing([]uint64{P, L, S}, func(i int) int { return 0 }); err != nil {
		return "precondition: " + err.Error()
	}
	if _, c := r.settle(60, true, nil); c.Problem != "" {
		return "precondition: " + c.Problem
	}
	r.fillLists(20)
	var keys [][]byte
	for i := 0; len(keys) < 12 && i < 1<<16; i++ {
		k := []byte(fmt.Sprintf("leaving-range-%d", i))
		if chord.Between(P, chord.Hash(k), L, true) {
			keys = append(keys, k)
		}
	}
	ctx := context.Background()
	// L must have something to hand over, otherwise a leave makes no Import call
	if err := retryKV(func() error { return r.members[P].Node.Put(ctx, keys[0], []byte("seed")) }); err != nil {
		return "precondition: put: " + err.Error()
	}
	rule := r.net.AddRule(&ringsim.FaultRule{Method: "Import", Caller: L, Callee: S, Mode: ringsim.FailBefore, From: 1, To: 1 << 30})
	leaveDone := make(chan struct{})
	go func() { r.members[L].Node.Leave(); close(leaveDone) }()
	writes := 0
	for stop := false; !stop; {
		for _, k := range keys[1:] {
			select {
			case <-leaveDone:
				stop = true
			default:
			}
			if stop {
				break
			}
			// one attempt, no retry loop: a write either lands somewhere or is refused
			if err := r.members[P].Node.Put(ctx, k, []byte("w")); err == nil {
				writes++
			} else if !chord.ErrorIsRetryable(err) {
				r.net.ClearRules()
				<-leaveDone
				return fmt.Sprintf("Put(%q) through %d while %d was trying to leave failed non-retryably: %v", k, P, L, err)
			}
			time.Sleep(2 * time.Millisecond)
		}
	}
	fired := r.net.RuleFired(rule)
	r.net.ClearRules()
	if st := r.members[L].Node.VerifState(); st != chord.Active {
		return "precondition: the leave was not abandoned (node is " + st.String() + ")"
	}
	if fired == 0 {
		return "precondition: no hand-over was attempted"
	}
	if _, c := r.settle(80, false, nil, false); c.Problem != "" {
		return "precondition: not converged after the abandoned leave: " + c.Problem
	}
	live := r.live()
	ids := liveIDs(live)
	for i, m := range live {
		ks, err := m.KV.Inner().RangeKeys(ctx, 0, 0)
		if err != nil {
			return "precondition: RangeKeys: " + err.Error()
		}
		pre := ids[(i-1+len(ids))%len(ids)]
		for _, k := range ks {
			if h := chord.Hash(k); !chord.Between(pre, h, m.ID, true) {
				return fmt.Sprintf("node %d holds key %q (hash %d) outside its range (%d, %d] after %d abandoned its leave (%d hand-over attempts failed, %d writes were acknowledged meanwhile); ring %v", m.ID, k, h, pre, m.ID, L, fired, writes, ids)
			}
		}
	}
	return ""
}

// twoJoinersOneStallsAtPredecessorProbe: two nodes join into the same gap
// (P, S). The request of the lower one, j2, is the first to reach S and stalls
// at S's liveness probe of its predecessor (the Ping is held on the wire);
// meanwhile the higher one, j1, asks S to join as well. Whichever way S orders
// the two requests, after the quiet period every key in every node's own store
// must hash into that node's range.
func twoJoinersOneStallsAtPredecessorProbe() (problem string) {
	const (
		P  = uint64(1) << 44
		J2 = uint64(3) << 44
		J1 = uint64(6) << 44
		S  = uint64(9) << 44
	)
	// nobody probes a predecessor on its own while the probe of the join request is held
	r := newSimRing(ringsim.Config{Seed: 58, PredCheckInterval: 3 * time.Second})
	defer r.net.Close()
	if err := r.buildRing([]uint64{P, S}, func(i int) int { return 0 }); err != nil {
		return "precondition: " + err.Error()
	}
	if _, c := r.settle(60, true, nil); c.Problem != "" {
		return "precondition: " + c.Problem
	}
	ctx := context.Background()
	for i := 0; i < 80; i++ {
		k := []byte(fmt.Sprintf("gap-%d", i))
		if err := retryKV(func() error { return r.members[P].Node.Put(ctx, k, []byte("v")) }); err != nil {
			return "precondition: put: " + err.Error()
		}
	}
	gate := r.net.AddGate(&ringsim.Gate{Method: "Ping", Caller: S, Callee: P, Nth: 1})
	type jr struct {
		id  uint64
		err error
	}
	results := make(chan jr, 2)
	go func() { _, err := r.join(J2, S); results <- jr{J2, err} }()
	select {
	case <-gate.Reached():
	case res := <-results:
		gate.Release()
		return fmt.Sprintf("precondition: first join ended without probing the predecessor: %v", res.err)
	case <-time.After(10 * time.Second):
		gate.Release()
		return "precondition: predecessor probe not reached"
	}
	go func() { _, err := r.join(J1, S); results <- jr{J1, err} }()
	// give the second joiner time to run its whole join if S lets it
	var first *jr
	select {
	case res := <-results:
		first = &res
	case <-time.After(150 * time.Millisecond):
	}
	gate.Release()
	got := map[uint64]error{}
	if first != nil {
		got[first.id] = first.err
	}
	for len(got) < 2 {
		select {
		case res := <-results:
			got[res.id] = res.err
		case <-time.After(60 * time.Second):
			return "precondition: joins did not return"
		}
	}
	// a joiner that ran out of attempts while the other one held the lock simply tries again
	for id, err := range got {
		if err != nil {
			if _, err2 := r.join(id, P); err2 != nil {
				return fmt.Sprintf("precondition: join of %d failed twice: %v / %v", id, err, err2)
			}
		}
	}
	if _, c := r.settle(80, false, nil, false); c.Problem != "" {
		return "precondition: not converged after the joins: " + c.Problem
	}
	live := r.live()
	ids := liveIDs(live)
	for i, m := range live {
		keys, err := m.KV.Inner().RangeKeys(ctx, 0, 0)
		if err != nil {
			return "precondition: RangeKeys: " + err.Error()
		}
		pre := ids[(i-1+len(ids))%len(ids)]
		for _, k := range keys {
			if h := chord.Hash(k); !chord.Between(pre, h, m.ID, true) {
				return fmt.Sprintf("node %d holds key %q (hash %d) outside its range (%d, %d]; ring %v; join results %v", m.ID, k, h, pre, m.ID, ids, got)
			}
		}
	}
	return ""
}

// restartWithOldStore: node L (backend given) holds data, leaves gracefully,
// the ring changes while it is away (J joins into L's former range, more data
// is written), then L restarts with its old identity and its old store and
// joins again. After the quiet period every key in every remaining node's own
// store must hash into that node's range (hence sits on exactly one node).
func restartWithOldStore(t tfail, backend int) (problem string) {
	const (
		// L owns half of the identifier space, J later takes the lower half of that
		P = uint64(1) << 44
		J = uint64(5) << 44 // joins while L is away, inside L's former range (P, L]
		L = uint64(9) << 44
		S = uint64(13) << 44
	)
	newKV, rmDirs := kvFactory(t, []int{0, backend, 0, 0}) // creation order: P, L, S, J
	r := &simRing{net: ringsim.New(ringsim.Config{Seed: 51, NewKV: newKV}), members: map[uint64]*ringsim.Member{}}
	defer func() { r.net.Close(); rmDirs() }()
	if err := r.buildRing([]uint64{P, L, S}, func(i int) int { return 0 }); err != nil {
		return "precondition: " + err.Error()
	}
	if _, c := r.settle(60, true, nil); c.Problem != "" {
		return "precondition: " + c.Problem
	}
	r.fillLists(20)
	ctx := context.Background()
	put := func(prefix string, n int) error {
		for i := 0; i < n; i++ {
			k := []byte(fmt.Sprintf("%s-%d", prefix, i))
			entry := r.live()[i%len(r.live())].Node
			if err := retryKV(func() error { return entry.Put(ctx, k, []byte("v")) }); err != nil {
				return err
			}
			if i%4 == 0 {
				if err := retryKV(func() error { return entry.PrefixAppend(ctx, k, []byte("c")) }); err != nil {
					return err
				}
			}
		}
		return nil
	}
	if err := put("restart-a", 60); err != nil {
		return "precondition: put: " + err.Error()
	}
	old := r.members[L]
	old.Node.Leave()
	if old.Node.VerifState() != chord.Left {
		return "precondition: leave did not complete"
	}
	if _, c := r.settle(60, false, nil, false); c.Problem != "" {
		return "precondition: " + c.Problem
	}
	if _, err := r.join(J, P); err != nil {
		return "precondition: join while away: " + err.Error()
	}
	if err := put("restart-b", 30); err != nil {
		return "precondition: put: " + err.Error()
	}
	if _, err := r.rejoinLocked(old, S); err != nil {
		return "precondition: rejoin: " + err.Error()
	}
	if _, c := r.settle(80, false, nil, false); c.Problem != "" {
		return "precondition: not converged after the restart: " + c.Problem
	}
	live := r.live()
	ids := liveIDs(live)
	holders := map[string][]uint64{}
	for i, m := range live {
		keys, err := m.KV.Inner().RangeKeys(ctx, 0, 0)
		if err != nil {
			return "precondition: RangeKeys: " + err.Error()
		}
		pre := ids[(i-1+len(ids))%len(ids)]
		for _, k := range keys {
			holders[string(k)] = append(holders[string(k)], m.ID)
			if h := chord.Hash(k); !chord.Between(pre, h, m.ID, true) {
				return fmt.Sprintf("node %d (restarted: %v) holds key %q (hash %d) outside its range (%d, %d]; ring %v", m.ID, m.ID == L, k, h, pre, m.ID, ids)
			}
		}
	}
	for k, hs := range holders {
		if len(hs) > 1 {
			return fmt.Sprintf("key %q is held by nodes %v", k, hs)
		}
	}
	return ""
}

// handOverAcrossZero: the hand-over range of a join wraps around identifier 0 - the joiner
// becomes the lowest (or the highest) id of the ring - and the successor that hands over keeps
// its data in the given backend and owns keys on both sides of the joiner. Afterwards every key
// in every node's own store must hash into that node's range and sit on exactly one node, and
// every key must still be readable.
func handOverAcrossZero(t tfail, backend int, joinerLowest bool) (problem string) {
	A, B := uint64(4)<<44, uint64(9)<<44
	J := uint64(1) << 44 // (B, J] wraps: J becomes the lowest id, successor A
	if !joinerLowest {
		J = uint64(14) << 44 // (B, J] does not wrap but (J, A] does afterwards: J becomes the highest id
	}
	newKV, rmDirs := kvFactory(t, []int{backend, backend, 0}) // creation order: A, B, J
	r := &simRing{net: ringsim.New(ringsim.Config{Seed: 77, NewKV: newKV}), members: map[uint64]*ringsim.Member{}}
	defer func() { r.net.Close(); rmDirs() }()
	if err := r.buildRing([]uint64{A, B}, func(i int) int { return 0 }); err != nil {
		return "precondition: " + err.Error()
	}
	if _, c := r.settle(60, true, nil); c.Problem != "" {
		return "precondition: " + c.Problem
	}
	ctx := context.Background()
	var keys [][]byte
	for i := 0; i < 120; i++ {
		k := []byte(fmt.Sprintf("zero-%d", i))
		keys = append(keys, k)
		entry := r.live()[i%2].Node
		if err := retryKV(func() error { return entry.Put(ctx, k, []byte("v")) }); err != nil {
			return "precondition: put: " + err.Error()
		}
		if i%5 == 0 {
			if err := retryKV(func() error { return entry.PrefixAppend(ctx, k, []byte("c")) }); err != nil {
				return "precondition: append: " + err.Error()
			}
		}
	}
	if _, err := r.join(J, B); err != nil {
		return "precondition: join: " + err.Error()
	}
	if _, c := r.settle(80, false, nil, false); c.Problem != "" {
		return "precondition: not converged after the join: " + c.Problem
	}
	live := r.live()
	ids := liveIDs(live)
	holders := map[string][]uint64{}
	for i, m := range live {
		ks, err := m.KV.Inner().RangeKeys(ctx, 0, 0)
		if err != nil {
			return "precondition: RangeKeys: " + err.Error()
		}
		pre := ids[(i-1+len(ids))%len(ids)]
		for _, k := range ks {
			holders[string(k)] = append(holders[string(k)], m.ID)
			if h := chord.Hash(k); !chord.Between(pre, h, m.ID, true) {
				return fmt.Sprintf("node %d holds key %q (hash %d) outside its range (%d, %d] after node %d joined; ring %v", m.ID, k, h, pre, m.ID, J, ids)
			}
		}
	}
	for k, hs := range holders {
		if len(hs) > 1 {
			return fmt.Sprintf("key %q is held by nodes %v", k, hs)
		}
	}
	for _, k := range keys {
		var got []byte
		if err := retryKV(func() (e error) { got, e = live[0].Node.Get(ctx, k); return }); err != nil || string(got) != "v" {
			return fmt.Sprintf("key %q written before node %d joined reads %q, %v afterwards (held by %v)", k, J, got, err, holders[string(k)])
		}
	}
	return ""
}
