package ring

import (
	"context"
	"fmt"
	"time"

	"go.miragespace.co/specter/spec/chord"
	"verifharness/internal/ringsim"
)

// predecessorDroppedWhileJoinWaits: a join request has entered the contacted
// node S and waits for S's KV barrier (a client write is executing inside S's
// storage); in that window S's predecessor check notices that the predecessor
// is dead and drops it. When the write finishes the join request proceeds in
// a state in which the predecessor is unknown. It must be answered with
// success or a retryable refusal - never with a crash.
func predecessorDroppedWhileJoinWaits() (problem string, panics int64) {
	const (
		P = uint64(1) << 44
		D = uint64(2) << 44 // predecessor of S, crash-stops
		J = uint64(5) << 43
		S = uint64(3) << 44
	)
	r := newSimRing(ringsim.Config{Seed: 49, StabilizeInterval: time.Second, FixFingerInterval: time.Second, PredCheckInterval: time.Second})
	defer r.net.Close()
	if err := r.buildRing([]uint64{P, D, S}, func(i int) int { return 0 }); err != nil {
		return "precondition: " + err.Error(), 0
	}
	if _, c := r.settle(60, true, nil); c.Problem != "" {
		return "precondition: " + c.Problem, 0
	}
	r.fillLists(20)
	var key []byte
	for i := 0; i < 1<<16; i++ {
		k := []byte(fmt.Sprintf("barrier-%d", i))
		if h := chord.Hash(k); chord.Between(D, h, S, true) {
			key = k
			break
		}
	}
	if key == nil {
		return "precondition: no key", 0
	}
	ctx := context.Background()
	sNode := r.members[S].Node
	entered := make(chan struct{})
	release := make(chan struct{})
	first := true
	r.members[S].KV.SetHook(func(op string, k []byte) {
		if string(k) == string(key) && first {
			first = false
			close(entered)
			<-release
		}
	})
	putDone := make(chan error, 1)
	go func() { putDone <- sNode.Put(ctx, key, []byte("v")) }()
	select {
	case <-entered:
	case err := <-putDone:
		return fmt.Sprintf("precondition: write returned before reaching the store: %v", err), 0
	case <-time.After(10 * time.Second):
		return "precondition: store hook not reached", 0
	}
	// the join request arrives while the write holds the KV barrier
	type jr struct{ err error }
	reqDone := make(chan jr, 1)
	go func() {
		_, _, err := r.net.Proxy(J, S).RequestToJoin(r.net.Proxy(S, J))
		reqDone <- jr{err}
	}()
	// give the request time to pass its early checks and block on the barrier
	for i := 0; i < 400 && sNode.VerifState() == chord.Active; i++ {
		time.Sleep(500 * time.Microsecond)
	}
	time.Sleep(5 * time.Millisecond)
	// the predecessor dies and S notices
	r.net.Crash(r.members[D])
	// the predecessor check needs the predecessor write lock, which the in-flight write's
	// handler still read-holds: it queues up in front of the waiting join request
	checked := make(chan struct{})
	go func() { sNode.VerifCheckPredecessor(); close(checked) }()
	time.Sleep(20 * time.Millisecond)
	close(release)
	<-putDone
	select {
	case <-checked:
	case <-time.After(30 * time.Second):
		return "precondition: predecessor check did not return", 0
	}
	var res jr
	select {
	case res = <-reqDone:
	case <-time.After(30 * time.Second):
		return "join request did not return after the barrier was released", r.net.Panics.Load()
	}
	r.members[S].KV.SetHook(nil)
	if n := r.net.Panics.Load(); n > 0 {
		return "handler panicked while serving the join request: " + firstLine(r.net.PanicLog[0]), n
	}
	if res.err != nil && !chord.ErrorIsRetryable(res.err) && !isTransport(res.err) {
		return fmt.Sprintf("join request answered with the non-retryable error %q", res.err), 0
	}
	if res.err == nil {
		// granted: release the lock like a joiner would
		r.net.Proxy(J, S).FinishJoin(false, true)
	}
	for i := 0; i < 2000 && sNode.VerifState() != chord.Active; i++ {
		time.Sleep(500 * time.Microsecond)
	}
	if st := sNode.VerifState(); st != chord.Active {
		return fmt.Sprintf("node %d is %s after answering the join request", S, st), 0
	}
	return "", 0
}

// joinWhileContactedNodeIsLeaving: the contacted node S is in the middle of its
// own graceful leave (state Leaving, its key hand-over to the successor is on
// the wire) when a valid joiner whose id lies in S's range asks S to join. The
// answer - whether it is given at once or after the leave has finished - must
// be a hand-off or a retryable refusal: the joiner's retry will find the new
// owner of the range.
func joinWhileContactedNodeIsLeaving() (problem string) {
	const (
		P = uint64(1) << 44
		J = uint64(3) << 43
		S = uint64(2) << 44
		N = uint64(3) << 44
	)
	r := newSimRing(ringsim.Config{Seed: 55})
	defer r.net.Close()
	if err := r.buildRing([]uint64{P, S, N}, func(i int) int { return 0 }); err != nil {
		return "precondition: " + err.Error()
	}
	if _, c := r.settle(60, true, nil); c.Problem != "" {
		return "precondition: " + c.Problem
	}
	r.fillLists(20)
	ctx := context.Background()
	stored := 0
	for i := 0; i < 1<<16 && stored < 6; i++ {
		k := []byte(fmt.Sprintf("leaving-%d", i))
		if chord.Between(P, chord.Hash(k), S, true) {
			if err := retryKV(func() error { return r.members[S].Node.Put(ctx, k, []byte("v")) }); err != nil {
				return "precondition: put: " + err.Error()
			}
			stored++
		}
	}
	gate := r.net.AddGate(&ringsim.Gate{Method: "Import", Caller: S, Callee: N, Nth: 1})
	leaveDone := make(chan struct{})
	go func() { r.members[S].Node.Leave(); close(leaveDone) }()
	select {
	case <-gate.Reached():
	case <-leaveDone:
		gate.Release()
		return "precondition: leave finished without handing keys over"
	case <-time.After(10 * time.Second):
		gate.Release()
		return "precondition: hand-over not reached"
	}
	if st := r.members[S].Node.VerifState(); st != chord.Leaving {
		gate.Release()
		<-leaveDone
		return "precondition: contacted node is " + st.String() + ", not Leaving"
	}
	answer := make(chan error, 1)
	go func() {
		_, _, err := r.net.Proxy(J, S).RequestToJoin(r.net.Proxy(S, J))
		answer <- err
	}()
	// the request is inside S (refused at once, or queued behind the hand-over)
	var err error
	answered := false
	select {
	case err = <-answer:
		answered = true
	case <-time.After(30 * time.Millisecond):
	}
	gate.Release()
	<-leaveDone
	if !answered {
		select {
		case err = <-answer:
		case <-time.After(20 * time.Second):
			return "join request to a leaving node was not answered after the leave had finished"
		}
	}
	if n := r.net.Panics.Load(); n > 0 {
		return "handler panicked while serving the join request: " + firstLine(r.net.PanicLog[0])
	}
	if err != nil && !chord.ErrorIsRetryable(err) {
		return fmt.Sprintf("join request for an id in the range of node %d, which was in the middle of its graceful leave, answered with the non-retryable error %q (answered before the leave finished: %v)", S, err, answered)
	}
	if err == nil {
		r.net.Proxy(J, S).FinishJoin(false, true)
	}
	return ""
}

// joinWhilePredecessorPointerStale: the predecessor L of S has just left
// gracefully and S has not noticed yet (its predecessor pointer still names
// L) when a valid joiner between L and S asks S to join. The first answer
// must be a hand-off or a retryable refusal.
func joinWhilePredecessorPointerStale() (problem string) {
	const (
		P = uint64(1) << 44
		L = uint64(2) << 44
		J = uint64(5) << 43
		S = uint64(3) << 44
	)
	r := newSimRing(ringsim.Config{Seed: 52, StabilizeInterval: time.Second, FixFingerInterval: time.Second, PredCheckInterval: time.Second})
	defer r.net.Close()
	if err := r.buildRing([]uint64{P, L, S}, func(i int) int { return 0 }); err != nil {
		return "precondition: " + err.Error()
	}
	if _, c := r.settle(60, true, nil); c.Problem != "" {
		return "precondition: " + c.Problem
	}
	r.fillLists(20)
	leaveDone := make(chan struct{})
	go func() { r.members[L].Node.Leave(); close(leaveDone) }()
	defer func() { <-leaveDone }()
	// S was never membership-locked while the ring was built (all joins were granted by P), so a
	// Transferring entry in its state history means the leave request has been granted
	lockedOnce := func() bool {
		for _, st := range r.members[S].Node.VerifStateHistory() {
			if st == chord.Transferring {
				return true
			}
		}
		return false
	}
	done := false
	for deadline := time.Now().Add(15 * time.Second); time.Now().Before(deadline); {
		if r.members[L].Node.VerifState() == chord.Left && r.members[S].Node.VerifState() == chord.Active && lockedOnce() {
			done = true
			break
		}
		time.Sleep(50 * time.Microsecond)
	}
	if !done {
		return "precondition: leave did not complete"
	}
	if pre := r.members[S].Node.VerifPredecessor(); pre == nil || pre.ID() != L {
		return "precondition: successor already repaired its predecessor pointer"
	}
	_, _, err := r.net.Proxy(J, S).RequestToJoin(r.net.Proxy(S, J))
	if n := r.net.Panics.Load(); n > 0 {
		return "handler panicked while serving the join request: " + firstLine(r.net.PanicLog[0])
	}
	if err != nil && !chord.ErrorIsRetryable(err) {
		return fmt.Sprintf("join request to a node whose predecessor has just left answered with the non-retryable error %q", err)
	}
	if err == nil {
		r.net.Proxy(J, S).FinishJoin(false, true)
	}
	return ""
}
