package ring

import (
	"context"
	"fmt"
	"time"

	"go.miragespace.co/specter/spec/chord"
	"verifharness/internal/ringsim"
)

// predecessorDroppedWhileJoinWaits: a join request has entered the contacted
// node S and waits for S's KV barrier (a client write is executing inside S's
// storage); in that window S's predecessor check notices that the predecessor
// is dead and drops it. When the write finishes the join request proceeds in
// a state in which the predecessor is unknown. It must be answered with
// success or a retryable refusal - never with a crash.
func predecessorDroppedWhileJoinWaits() (problem string, panics int64) {
	const (
		P = uint64(1) << 44
		D = uint64(2) << 44 // predecessor of S, crash-stops
		J = uint64(5) << 43
		S = uint64(3) << 44
	)
	r := newSimRing(ringsim.Config{Seed: 49, StabilizeInterval: time.Second, FixFingerInterval: time.Second, PredCheckInterval: time.Second})
	defer r.net.Close()
	if err := r.buildRing([]uint64{P, D, S}, func(i int) int { return 0 }); err != nil {
		return "precondition: " + err.Error(), 0
	}
	if _, c := r.settle(60, true, nil); c.Problem != "" {
		return "precondition: " + c.Problem, 0
	}
	r.fillLists(20)
	var key []byte
	for i := 0; i < 1<<16; i++ {
		k := []byte(fmt.Sprintf("barrier-%d", i))
		if h := chord.Hash(k); chord.Between(D, h, S, true) {
			key = k
			break
		}
	}
	if key == nil {
		return "precondition: no key", 0
	}
	ctx := context.Background()
	sNode := r.members[S].Node
	entered := make(chan struct{})
	release := make(chan struct{})
	first := true
	r.members[S].KV.SetHook(func(op string, k []byte) {
		if string(k) == string(key) && first {
			first = false
			close(entered)
			<-release
		}
	})
	putDone := make(chan error, 1)
	go func() { putDone <- sNode.Put(ctx, key, []byte("v")) }()
	select {
	case <-entered:
	case err := <-putDone:
		return fmt.Sprintf("precondition: write returned before reaching the store: %v", err), 0
	case <-time.After(10 * time.Second):
		return "precondition: store hook not reached", 0
	}
	// the join request arrives while the write holds the KV barrier
	type jr struct{ err error }
	reqDone := make(chan jr, 1)
	go func() {
		_, _, err := r.net.Proxy(J, S).RequestToJoin(r.net.Proxy(S, J))
		reqDone <- jr{err}
	}()
	// give the request time to pass its early checks and block on the barrier
	for i := 0; i < 400 && sNode.VerifState() == chord.Active; i++ {
		time.Sleep(500 * time.Microsecond)
	}
	time.Sleep(5 * time.Millisecond)
	// the predecessor dies and S notices
	r.net.Crash(r.members[D])
	// the predecessor check needs the predecessor write lock, which the in-flight write's
	// handler still read-holds: it queues up in front of the waiting join request
	checked := make(chan struct{})
	go func() { sNode.VerifCheckPredecessor(); close(checked) }()
	time.Sleep(20 * time.Millisecond)
	close(release)
	<-putDone
	select {
	case <-checked:
	case <-time.After(30 * time.Second):
		return "precondition: predecessor check did not return", 0
	}
	var res jr
	select {
	case res = <-reqDone:
	case <-time.After(30 * time.Second):
		return "join request did not return after the barrier was released", r.net.Panics.Load()
	}
	r.members[S].KV.SetHook(nil)
	if n := r.net.Panics.Load(); n > 0 {
		return "handler panicked while serving the join request: " + firstLine(r.net.PanicLog[0]), n
	}
	if res.err != nil && !chord.ErrorIsRetryable(res.err) && !isTransport(res.err) {
		return fmt.Sprintf("join request answered with the non-retryable error %q", res.err), 0
	}
	if res.err == nil {
		// granted: release the lock like a joiner would
		r.net.Proxy(J, S).FinishJoin(false, true)
	}
	for i := 0; i < 2000 && sNode.VerifState() != chord.Active; i++ {
		time.Sleep(500 * time.Microsecond)
	}
	if st := sNode.VerifState(); st != chord.Active {
		return fmt.Sprintf("node %d is %s after answering the join request", S, st), 0
	}
	return "", 0
}

// joinWhilePredecessorPointerStale: the predecessor L of S has just left
// gracefully and S has not noticed yet (its predecessor pointer still names
// L) when a valid joiner between L and S asks S to join. The first answer
// must be a hand-off or a retryable refusal.
func joinWhilePredecessorPointerStale() (problem string) {
	const (
		P = uint64(1) << 44
		L = uint64(2) << 44
		J = uint64(5) << 43
		S = uint64(3) << 44
	)
	r := newSimRing(ringsim.Config{Seed: 52, StabilizeInterval: time.Second, FixFingerInterval: time.Second, PredCheckInterval: time.Second})
	defer r.net.Close()
	if err := r.buildRing([]uint64{P, L, S}, func(i int) int { return 0 }); err != nil {
		return "precondition: " + err.Error()
	}
	if _, c := r.settle(60, true, nil); c.Problem != "" {
		return "precondition: " + c.Problem
	}
	r.fillLists(20)
	leaveDone := make(chan struct{})
	go func() { r.members[L].Node.Leave(); close(leaveDone) }()
	defer func() { <-leaveDone }()
	// S was never membership-locked while the ring was built (all joins were granted by P), so a
	// Transferring entry in its state history means the leave request has been granted
	lockedOnce := func() bool {
		for _, st := range r.members[S].Node.VerifStateHistory() {
			if st == chord.Transferring {
				return true
			}
		}
		return false
	}
	done := false
	for deadline := time.Now().Add(15 * time.Second); time.Now().Before(deadline); {
		if r.members[L].Node.VerifState() == chord.Left && r.members[S].Node.VerifState() == chord.Active && lockedOnce() {
			done = true
			break
		}
		time.Sleep(50 * time.Microsecond)
	}
	if !done {
		return "precondition: leave did not complete"
	}
	if pre := r.members[S].Node.VerifPredecessor(); pre == nil || pre.ID() != L {
		return "precondition: successor already repaired its predecessor pointer"
	}
	_, _, err := r.net.Proxy(J, S).RequestToJoin(r.net.Proxy(S, J))
	if n := r.net.Panics.Load(); n > 0 {
		return "handler panicked while serving the join request: " + firstLine(r.net.PanicLog[0])
	}
	if err != nil && !chord.ErrorIsRetryable(err) {
		return fmt.Sprintf("join request to a node whose predecessor has just left answered with the non-retryable error %q", err)
	}
	if err == nil {
		r.net.Proxy(J, S).FinishJoin(false, true)
	}
	return ""
}
