package ring

import (
	"context"
	"fmt"
	"sort"
	"strconv"
	"strings"
	"testing"

	"go.miragespace.co/specter/spec/chord"
	"verifharness/internal/ev"
	"verifharness/internal/ringsim"

	"github.com/twitchtv/twirp"
	"pgregory.net/rapid"
)

// C06: a node takes part in at most one membership change at a time; refusals
// are retryable; refused/failed attempts leave the touched nodes serving.

// lifecycleEdges is the lifecycle graph of DESIGN §3 C06.
var lifecycleEdges = map[chord.State][]chord.State{
	chord.Inactive:     {chord.Joining},
	chord.Joining:      {chord.Active, chord.Inactive},
	chord.Active:       {chord.Transferring, chord.Leaving},
	chord.Transferring: {chord.Active},
	chord.Leaving:      {chord.Left, chord.Active},
	chord.Left:         {},
}

func lifecyclePathProblem(h []chord.State) string {
	if len(h) == 0 || h[0] != chord.Inactive {
		return fmt.Sprintf("history does not start Inactive: %v", h)
	}
	for i := 1; i < len(h); i++ {
		ok := false
		for _, n := range lifecycleEdges[h[i-1]] {
			if n == h[i] {
				ok = true
			}
		}
		if !ok {
			return fmt.Sprintf("illegal transition %s -> %s at step %d of %v", h[i-1], h[i], i, h)
		}
	}
	return ""
}

type lockEvent struct {
	node      uint64
	kind      string // grant-join | grant-leave | release
	call, ret int64
	who       string
}

// lockEvents extracts, per node, the grants and releases of the membership
// lock from the proxy event log. A forwarded join request is granted by the
// head of the returned successor list, not by the node first contacted.
func lockEvents(evs []ringsim.Event) (map[uint64][]lockEvent, int, []string) {
	calls := map[int64]ringsim.Event{}
	out := map[uint64][]lockEvent{}
	refusals := 0
	var badRefusals []string
	for _, e := range evs {
		if e.Kind == "call" {
			calls[e.CallID] = e
			continue
		}
		if e.Kind != "ret" {
			continue
		}
		c := calls[e.CallID]
		switch e.Method {
		case "RequestToJoin":
			if e.Err == "" {
				// result "pre=<id> succ=<a,b,c>": grantor = first of succ
				i := strings.Index(e.Result, "succ=")
				if i < 0 {
					continue
				}
				head := strings.SplitN(e.Result[i+5:], ",", 2)[0]
				g, err := strconv.ParseUint(head, 10, 64)
				if err != nil {
					continue
				}
				// only count the delivery at the grantor itself (forwarding hops return the same result)
				if e.Callee != g {
					continue
				}
				out[g] = append(out[g], lockEvent{g, "grant-join", c.Seq, e.Seq, "joiner " + e.Arg})
			} else {
				refusals++
				if !refusalOK(e.Err) {
					badRefusals = append(badRefusals, fmt.Sprintf("RequestToJoin(%s) at %d: %s", e.Arg, e.Callee, e.Err))
				}
			}
		case "RequestToLeave":
			if e.Err == "" {
				out[e.Callee] = append(out[e.Callee], lockEvent{e.Callee, "grant-leave", c.Seq, e.Seq, "leaver " + e.Arg})
			} else {
				refusals++
				if !refusalOK(e.Err) {
					badRefusals = append(badRefusals, fmt.Sprintf("RequestToLeave(%s) at %d: %s", e.Arg, e.Callee, e.Err))
				}
			}
		case "FinishJoin", "FinishLeave":
			if strings.Contains(e.Arg, "release") && e.Err == "" {
				out[e.Callee] = append(out[e.Callee], lockEvent{e.Callee, "release", c.Seq, e.Seq, e.Method + " from " + fmt.Sprint(e.Caller)})
			}
		}
	}
	return out, refusals, badRefusals
}

// refusalOK: a refusal must be retryable. The only exception that is not the
// refusal of a busy node is a duplicate joiner id. (Until the repair ca818e2 a
// request that reached a leaving or departed node was answered "node is not
// part of the ring", non-retryably, and this oracle tolerated it as DESIGN
// observation O2; since then the join path answers such requests retryably
// and the tolerance would only hide regressions.)
func refusalOK(msg string) bool {
	err := chord.ErrorMapper(twirp.NewError(twirp.Internal, msg))
	if chord.ErrorIsRetryable(err) {
		return true
	}
	return err == chord.ErrDuplicateJoinerID
}

func genC06Plan() *rapid.Generator[churnPlan] {
	return rapid.Custom(func(t *rapid.T) churnPlan {
		initial := genLayoutIDs(2, 5).Draw(t, "initial")
		p := churnPlan{
			Initial:  initial,
			Vias:     rapid.SliceOfN(rapid.IntRange(0, 1<<20), len(initial), len(initial)).Draw(t, "vias"),
			MaxDelay: rapid.SampledFrom([]int{0, 200, 1000}).Draw(t, "maxDelayUs"),
			DelayPct: rapid.SampledFrom([]int{0, 30, 80}).Draw(t, "delayPct"),
			Seed:     rapid.Int64Range(1, 1<<40).Draw(t, "netSeed"),
		}
		p.LogJitterPct = rapid.SampledFrom([]int{0, 0, 15, 50}).Draw(t, "logJitterPct")
		for ph, n := 0, rapid.IntRange(1, 3).Draw(t, "phases"); ph < n; ph++ {
			focus := rapid.IntRange(0, 7).Draw(t, "focus")
			var phase churnPhase
			tmpl := rapid.SampledFrom([]string{"k-joiners-one-gap", "leave-vs-join-at-same-node", "leave-vs-join-at-successor", "adjacent-leaves", "join-while-pred-leaves", "mixed"}).Draw(t, "template")
			via := func() int { return rapid.IntRange(0, 1<<16).Draw(t, "via") }
			switch tmpl {
			case "k-joiners-one-gap":
				for k, kk := 0, rapid.IntRange(2, 4).Draw(t, "k"); k < kk; k++ {
					phase.Actions = append(phase.Actions, churnAction{Kind: "join", Rel: true, Focus: focus, Off: -1 - k, Pick: via()})
				}
			case "leave-vs-join-at-same-node":
				phase.Actions = append(phase.Actions, churnAction{Kind: "leave", Pick: focus}, churnAction{Kind: "join", Rel: true, Focus: focus, Off: -1, Pick: via()})
			case "leave-vs-join-at-successor":
				phase.Actions = append(phase.Actions, churnAction{Kind: "leave", Pick: focus}, churnAction{Kind: "join", Rel: true, Focus: focus + 1, Off: -1, Pick: via()}, churnAction{Kind: "join", Rel: true, Focus: focus, Off: 1, Pick: via()})
			case "adjacent-leaves":
				phase.Actions = append(phase.Actions, churnAction{Kind: "leave", Pick: focus}, churnAction{Kind: "leave", Pick: focus + 1})
				if rapid.Bool().Draw(t, "third") {
					phase.Actions = append(phase.Actions, churnAction{Kind: "leave", Pick: focus + 2})
				}
			case "join-while-pred-leaves":
				phase.Actions = append(phase.Actions, churnAction{Kind: "leave", Pick: focus}, churnAction{Kind: "join", Rel: true, Focus: focus + 1, Off: -2, Pick: via()})
			default:
				for k, kk := 0, rapid.IntRange(2, 4).Draw(t, "k"); k < kk; k++ {
					if rapid.Bool().Draw(t, "j") {
						phase.Actions = append(phase.Actions, churnAction{Kind: "join", Rel: true, Focus: focus + rapid.IntRange(0, 2).Draw(t, "df"), Off: rapid.SampledFrom([]int{-1, -2, 1, 2, -1000}).Draw(t, "off"), Pick: via()})
					} else {
						phase.Actions = append(phase.Actions, churnAction{Kind: "leave", Pick: focus + rapid.IntRange(0, 2).Draw(t, "dl")})
					}
				}
			}
			phase.SettleRounds = rapid.SampledFrom([]int{0, 0, 2}).Draw(t, "settle")
			p.Phases = append(p.Phases, phase)
		}
		return p
	})
}

func TestC06(t *testing.T) {
	rec := ev.New(t, "C06")
	rec.Rule("rapid-generated contention programmes on real LocalNodes in the ring simulator (initial ring 2..5 nodes): per phase one template with generated focus node, ids and call delays - k joiners into one gap through generated members; Leave(X) racing a join whose successor is X; Leave(X) racing joins at succ(X) and just after X; Leave of 2..3 adjacent nodes; join at X while pred(X) leaves; mixed. Oracle: (a) lock-interval exclusion from the proxy event log per node: two grants (RequestToJoin answered by the grantor = head of the returned successor list, RequestToLeave answered nil) must have a release (FinishJoin/FinishLeave(release) delivered) that can lie between them, judged conservatively on call/return order, and the number of grants never exceeds the Active->Transferring transitions in the node's recorded state history; (b) every refusal is retryable (documented non-refusals: duplicate id, request reached a node that already left); (c) every node's recorded state history is a path of the lifecycle graph; (d) after the quiet period every remaining node is Active and serves Put/Get. Non-trivial: >= 1 refusal or >= 2 lock windows on one node. Distinct = distinct plans.")
	rec.Assume("the local leg of a lock (a leaver's own Leaving state, a joiner's Joining state) is judged through the state history, the remote leg through the event log")
	// scenario tier: a join refused because the contacted node has just lost its predecessor
	if p, n := refusedJoinLeavesNodeServing(); p != "" {
		if len(p) > 13 && p[:13] == "precondition:" {
			rec.Inconclusive("scenario-precondition")
			t.Logf("refused-join scenario: %s", p)
		} else {
			rec.Fail(t, "refused-join-leaves-node-not-serving", map[string]any{"schedule": "ring {1<<44, 2<<44, 3<<44}; 2<<44 leaves; 3<<44 drops its predecessor pointer; 5<<43 asks 3<<44 to join before the new predecessor has notified it", "problem": p}, "%s", p)
		}
	} else {
		rec.Case(true, "scenario:refused-join-without-predecessor", func() any {
			return map[string]any{"scenario": "join refused by a node that has just lost its predecessor", "refusals": n}
		}, "scenario:refused-join-without-predecessor")
	}
	// scenario tier: a join request that reaches a node in the middle of its own leave
	if p := joinWhileContactedNodeIsLeaving(); p != "" {
		if len(p) > 13 && p[:13] == "precondition:" {
			rec.Inconclusive("scenario-precondition")
			t.Logf("contacted-node-leaving scenario: %s", p)
		} else {
			rec.Fail(t, "membership-request-refused-non-retryably", map[string]any{"schedule": "ring {1<<44, 2<<44, 3<<44}; 2<<44 holds keys and leaves gracefully, its Import to 3<<44 is held on the wire (state Leaving); 3<<43 asks 2<<44 to join; the hand-over is released", "problem": p}, "%s", p)
		}
	} else {
		rec.Case(true, "scenario:join-while-contacted-node-is-leaving", func() any {
			return map[string]any{"scenario": "join request to a node that is in the middle of its own graceful leave (one membership change holds it)"}
		}, "scenario:join-while-contacted-node-is-leaving")
	}
	// scenario tier: a leave that its successor granted fails at the leaver itself
	if p := leaveFailsLocallyAfterSuccessorGranted(); p != "" {
		if len(p) > 13 && p[:13] == "precondition:" {
			rec.Inconclusive("scenario-precondition")
			t.Logf("leave-fails-locally scenario: %s", p)
		} else {
			rec.Fail(t, "failed-leave-attempt-leaves-successor-locked", map[string]any{"schedule": "ring {1<<44, 2<<44, 3<<44}; 3<<44 leaves: RequestToLeave to its successor 1<<44 is granted, the reply is held; 5<<43 joins via 3<<44 and gets its lock, the joiner's FinishJoin(release) is held; the grant is delivered; releases follow", "problem": p}, "%s", p)
		}
	} else {
		rec.Case(true, "scenario:leave-fails-at-the-leaver-after-grant", func() any {
			return map[string]any{"scenario": "leave attempt granted by the successor fails at the leaver itself (locked by a join): both must return to serving"}
		}, "scenario:leave-fails-at-the-leaver-after-grant")
	}
	// scenario tier: the only member is asked to leave while the first join holds its lock
	if p := soleMemberLeavesDuringFirstJoin(); p != "" {
		if len(p) > 13 && p[:13] == "precondition:" {
			rec.Inconclusive("scenario-precondition")
			t.Logf("sole-member-leaves scenario: %s", p)
		} else {
			rec.Fail(t, "leave-processed-while-granted-join-holds-the-lock", map[string]any{"schedule": "ring {2<<44}; 1<<44 joins, its advisory FinishJoin(stabilize) to 2<<44 is held on the wire (2<<44 is Transferring: membership lock held by the join); Leave() of 2<<44; advisory released", "problem": p}, "%s", p)
		}
	} else {
		rec.Case(true, "scenario:sole-member-leaves-during-first-join", func() any {
			return map[string]any{"scenario": "Leave() of the only member while the first join holds its membership lock"}
		}, "scenario:sole-member-leaves-during-first-join")
	}
	// schedule-stress tier: simultaneous membership requests at ONE real node, scripted neighbours
	{
		p, replay, done, contended := membershipLockStress(ev.ShardSeed(), ev.Pick(300000, 2000000))
		rec.Add("lock_stress_rounds", int64(done))
		rec.Add("lock_stress_rounds_contended", int64(contended))
		switch {
		case p != "" && len(p) > 13 && p[:13] == "precondition:":
			rec.Inconclusive("lock-stress-precondition")
			t.Logf("lock stress: %s", p)
		case p != "":
			rec.Fail(t, "membership-lock-violated-under-simultaneous-requests", replay, "%s", p)
		default:
			rec.Case(contended > 0, "stress:simultaneous-membership-requests", func() any {
				return map[string]any{"scenario": "2-4 join/leave requests hit one real node at the same instant (spin barrier), nothing is released before all are answered; winner finishes and releases; keys accounted for at the end", "rounds": done, "contended_rounds": contended}
			}, "stress:simultaneous-membership-requests")
		}
	}
	// regression tier: the minimal schedule of a non-retryable refusal found by the thorough tier
	if p := joinRoutedThroughJoiningNode(); p != "" {
		if len(p) > 13 && p[:13] == "precondition:" {
			rec.Inconclusive("regression-schedule-precondition")
			t.Logf("join-through-joining-node regression: %s", p)
		} else {
			rec.Fail(t, "join-routed-through-joining-node-refused-non-retryably", map[string]any{"schedule": "ring {1<<44, 3<<44}; 2<<44 joins via 3<<44 and its RequestToJoin response is held; 1<<44 stabilizes and fixes fingers; 5<<43 joins via 1<<44", "problem": p}, "%s", p)
		}
	}
	ev.RapidCheck(t, 40, 720, func(t *rapid.T) {
		plan := genC06Plan().Draw(t, "plan")
		r := newChurnRing(plan, true)
		defer r.net.Close()
		if err := r.buildRing(plan.Initial, func(i int) int { return plan.Vias[i] }); err != nil {
			rec.Inconclusive("initial-ring-build-failed")
			return
		}
		if _, c := r.settle(60, false, nil); c.Problem != "" {
			rec.Inconclusive("initial-ring-not-converged")
			return
		}
		var out churnOutcome
		runChurn(r, plan, &out)
		rounds, conv := r.settle(80, false, nil, true)
		if n := r.net.Timeouts.Load(); n > 0 {
			// a caller gave up on a call after the 10 s transport timer: a lost response is a
			// fault (C07), and a lock whose grant was never received is never released
			rec.Add("rpc_timeouts", n)
			rec.Inconclusive("rpc-timeout-fired-during-churn")
			return
		}

		evs := r.net.Events()
		locks, refusals, badRefusals := lockEvents(evs)
		maxWindows := 0
		for _, ls := range locks {
			g := 0
			for _, l := range ls {
				if l.kind != "release" {
					g++
				}
			}
			if g > maxWindows {
				maxWindows = g
			}
		}
		doc := map[string]any{"plan": plan, "churn_log": out.Log, "refusals": refusals, "members_at_end": liveIDs(r.live())}
		labels := []string{}
		if plan.LogJitterPct > 0 {
			labels = append(labels, "log-jitter")
		}
		if refusals > 0 {
			labels = append(labels, "has-refusal")
		}
		if maxWindows >= 2 {
			labels = append(labels, "node-with>=2-lock-windows")
		}
		rec.Case(refusals > 0 || maxWindows >= 2, fmt.Sprintf("%+v", plan), func() any { return doc }, labels...)
		rec.Add("refusals", int64(refusals))
		rec.Add("joins_ok", int64(out.JoinsOK))
		rec.Add("leaves_ok", int64(out.LeavesOK))
		rec.Add("leaves_gave_up", int64(out.LeavesFailed))
		rec.Add("joins_failed", int64(out.JoinsFailed))

		if n := r.net.Panics.Load(); n > 0 {
			rec.Fail(t, "handler-panic-during-churn", map[string]any{"plan": plan, "panic": r.net.PanicLog[0]}, "handler panicked: %s", firstLine(r.net.PanicLog[0]))
		}
		// (a) lock exclusion
		for node, ls := range locks {
			sort.Slice(ls, func(i, j int) bool { return ls[i].call < ls[j].call })
			var grants, rels []lockEvent
			for _, l := range ls {
				if l.kind == "release" {
					rels = append(rels, l)
				} else {
					grants = append(grants, l)
				}
			}
			for i := 0; i < len(grants); i++ {
				for j := 0; j < len(grants); j++ {
					g1, g2 := grants[i], grants[j]
					if i == j || g1.ret >= g2.call {
						continue // not definitely ordered g1 before g2
					}
					found := false
					for _, rl := range rels {
						if rl.ret > g1.call && rl.call < g2.ret {
							found = true
							break
						}
					}
					if !found {
						doc["node"], doc["grant1"], doc["grant2"] = node, fmt.Sprintf("%+v", g1), fmt.Sprintf("%+v", g2)
						rec.Fail(t, "two-membership-grants-without-release", doc, "node %d granted %s (%s) and then %s (%s) with no release in between", node, g1.kind, g1.who, g2.kind, g2.who)
					}
				}
			}
			m := r.members[node]
			if m != nil {
				h := m.Node.VerifStateHistory()
				trans := 0
				for i := 1; i < len(h); i++ {
					if h[i] == chord.Transferring {
						trans++
					}
				}
				if len(grants) > trans {
					doc["node"], doc["history"] = node, fmt.Sprint(h)
					rec.Fail(t, "grant-without-taking-the-lock", doc, "node %d answered %d membership requests with success but entered Transferring only %d times (history %v)", node, len(grants), trans, h)
				}
			}
		}
		// (b) refusals retryable
		if len(badRefusals) > 0 {
			doc["bad_refusals"] = badRefusals
			rec.Fail(t, "refusal-not-retryable", doc, "membership request refused with a non-retryable error: %s", badRefusals[0])
		}
		// (c) lifecycle paths
		for _, m := range r.allMembers() {
			if p := lifecyclePathProblem(m.Node.VerifStateHistory()); p != "" {
				doc["node"] = m.ID
				rec.Fail(t, "state-history-leaves-lifecycle-graph", doc, "node %d: %s", m.ID, p)
			}
		}
		// (d) everybody back to serving
		if conv.Problem != "" {
			doc["problem"] = conv.Problem
			if problemClass(conv.Problem) == "state-not-active" {
				rec.Fail(t, "node-stuck-in-membership-state-after-quiescence", doc, "after %d maintenance rounds: %s", rounds, conv.Problem)
			}
			rec.Inconclusive("ring-not-converged-after-churn")
			return
		}
		ctx := context.Background()
		for i, m := range r.live() {
			key := []byte(fmt.Sprintf("c06-%d", i))
			if err := retryKV(func() error { return m.Node.Put(ctx, key, []byte("v")) }); err != nil {
				doc["node"], doc["err"] = m.ID, err.Error()
				rec.Fail(t, "node-not-serving-after-quiescence", doc, "Put via node %d after quiescence: %v", m.ID, err)
			}
			var got []byte
			if err := retryKV(func() (e error) { got, e = m.Node.Get(ctx, key); return }); err != nil || string(got) != "v" {
				doc["node"], doc["err"] = m.ID, fmt.Sprint(err)
				rec.Fail(t, "node-not-serving-after-quiescence", doc, "Get via node %d after quiescence: %q %v", m.ID, got, err)
			}
		}
	})
}
