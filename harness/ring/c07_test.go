package ring

import (
	"context"
	"fmt"
	"sort"
	"testing"

	"go.miragespace.co/specter/spec/chord"
	"verifharness/internal/ev"
	"verifharness/internal/ringsim"

	"pgregory.net/rapid"
)

// C07: a failed or timed-out join or leave loses no data and locks no node.
// Fault enumeration: the full product (membership RPC x fault mode x
// occurrence pattern x scenario) is run for every generated ring.

type c07Cell struct {
	Scenario string `json:"scenario"` // join | leave
	Method   string `json:"rpc"`
	Arg      string `json:"arg,omitempty"`
	Mode     string `json:"mode"`
	Pattern  string `json:"pattern"` // first | first-3
}

func (c c07Cell) name() string {
	m := c.Method
	if c.Arg != "" {
		m += "(" + c.Arg + ")"
	}
	return fmt.Sprintf("%s:%s:%s", c.Scenario, m, c.Mode)
}

func c07Cells() []c07Cell {
	var out []c07Cell
	type rpcT struct{ m, a string }
	for _, sc := range []struct {
		name string
		rpcs []rpcT
	}{
		{"join", []rpcT{{"RequestToJoin", ""}, {"Import", ""}, {"FinishJoin", "stabilize"}, {"FinishJoin", "release"}}},
		{"leave", []rpcT{{"RequestToLeave", ""}, {"Import", ""}, {"FinishLeave", "stabilize"}, {"FinishLeave", "release"}}},
	} {
		for _, r := range sc.rpcs {
			for _, mode := range []string{"fail-before-delivery", "deliver-lose-response"} {
				for _, pat := range []string{"first", "first-3", "every", "from-2nd-on"} {
					out = append(out, c07Cell{sc.name, r.m, r.a, mode, pat})
				}
			}
		}
	}
	return out
}

type c07Ring struct {
	IDs    []uint64 `json:"ids"`
	Vias   []int    `json:"vias"`
	NKeys  int      `json:"nkeys"`
	Actor  int      `json:"actor"`  // leave: index of the leaver; join: picks the joiner's position
	Via    int      `json:"via"`    // join: entry member
	Offset int      `json:"offset"` // join: joiner id = hash(key[actor]) + offset
}

var c07Keys = func() []string {
	var out []string
	for i := 0; i < 400; i++ {
		out = append(out, fmt.Sprintf("c07/key-%02d", i))
	}
	return out
}()

type c07Result struct {
	Cell       c07Cell  `json:"cell"`
	Ring       c07Ring  `json:"ring"`
	ActionErr  string   `json:"action_result"`
	Fired      int      `json:"faults_fired"`
	Problems   []string `json:"problems"`
	Signatures []string `json:"signatures"`
	Members    []uint64 `json:"members_after"`
}

func runC07Cell(t tfail, rec *ev.Recorder, ring c07Ring, cell c07Cell) *c07Result {
	res := &c07Result{Cell: cell, Ring: ring}
	r := newSimRing(ringsim.Config{Seed: int64(ring.IDs[0]) + 7})
	defer r.net.Close()
	if err := r.buildRing(ring.IDs, func(i int) int { return ring.Vias[i] }); err != nil {
		rec.Inconclusive("ring-build-failed")
		return nil
	}
	if _, c := r.settle(60, true, nil); c.Problem != "" {
		rec.Inconclusive("ring-not-converged")
		return nil
	}
	if !r.fillLists(30) {
		rec.Inconclusive("successor-lists-not-filled")
		return nil
	}
	ctx := context.Background()
	live := r.live()
	// acknowledged data
	want := map[string]string{}
	wantChildren := map[string][]string{}
	for i := 0; i < ring.NKeys; i++ {
		k := c07Keys[i]
		entry := live[i%len(live)].Node
		v := fmt.Sprintf("val-%d", i)
		if err := retryKV(func() error { return entry.Put(ctx, []byte(k), []byte(v)) }); err != nil {
			t.Fatalf("harness: preload Put: %v", err)
		}
		want[k] = v
		if i%3 == 0 {
			for _, c := range []string{"x", "y"} {
				if err := retryKV(func() error { return entry.PrefixAppend(ctx, []byte(k), []byte(c)) }); err != nil {
					t.Fatalf("harness: preload PrefixAppend: %v", err)
				}
				wantChildren[k] = append(wantChildren[k], c)
			}
		}
	}
	mode := ringsim.FailBefore
	if cell.Mode == "deliver-lose-response" {
		mode = ringsim.LoseResponse
	}
	to := 1
	if cell.Pattern == "first-3" {
		to = 3
	}
	if cell.Pattern == "every" {
		to = 1 << 30 // the fault persists until the attempt has used up all of its retries
	}
	from := 1
	if cell.Pattern == "from-2nd-on" {
		from, to = 2, 1<<30 // the first occurrence goes through (e.g. the first batch of a transfer), every later one fails
	}
	rule := r.net.AddRule(&ringsim.FaultRule{Method: cell.Method, Arg: cell.Arg, AnyCaller: true, AnyCallee: true, Mode: mode, From: from, To: to})

	sorted := sortedIDs(ring.IDs)
	switch cell.Scenario {
	case "join":
		// joiner takes over the range ending at a key's hash (so the hand-over moves data)
		j := (chord.Hash([]byte(c07Keys[ring.Actor%ring.NKeys])) + uint64(int64(ring.Offset))) & ringMax
		for idxOf(sorted, j) >= 0 {
			j = (j + 1) & ringMax
		}
		_, err := r.join(j, ring.IDs[ring.Via%len(ring.IDs)])
		res.ActionErr = fmt.Sprintf("Join(%d) -> %v", j, err)
	case "leave":
		if len(sorted) < 2 {
			return nil
		}
		// prefer a leaver that holds data
		var cands []*ringsim.Member
		for _, m := range live {
			if ks, _ := m.KV.Inner().RangeKeys(ctx, 0, 0); len(ks) > 0 {
				cands = append(cands, m)
			}
		}
		if len(cands) == 0 {
			cands = live
		}
		x := cands[ring.Actor%len(cands)]
		x.Node.Leave()
		res.ActionErr = fmt.Sprintf("Leave(%d) -> state %s", x.ID, x.Node.VerifState())
	}
	res.Fired = rule.Fired
	r.net.ClearRules()

	// quiet period
	_, conv := r.settle(80, false, nil, false)
	after := r.live()
	res.Members = liveIDs(after)
	add := func(sig, format string, args ...any) {
		res.Problems = append(res.Problems, fmt.Sprintf(format, args...))
		for _, s := range res.Signatures {
			if s == sig {
				return
			}
		}
		res.Signatures = append(res.Signatures, sig)
	}
	for _, m := range after {
		if st := m.Node.VerifState(); st != chord.Active {
			add(cell.name()+":node-stuck-"+st.String(), "node %d is %s after the attempt and the quiet period", m.ID, st)
		}
	}
	if conv.Problem != "" && len(res.Signatures) == 0 {
		// pointers did not converge although nobody is stuck: not this property's business
		rec.Inconclusive("ring-not-converged-after-attempt")
	}
	// every acknowledged key readable through every remaining node
	lost := map[string]bool{}
	for _, m := range after {
		for _, k := range sortedKeys(want) {
			if len(lost) >= 2 {
				break // two witnesses per cell are enough; retrying every key is slow
			}
			var got []byte
			err := retryKV(func() (e error) { got, e = m.Node.Get(ctx, []byte(k)); return })
			if err != nil {
				if !lost[k] {
					add(cell.name()+":acknowledged-data-unreachable", "Get(%q) via %d: %v", k, m.ID, err)
				}
				lost[k] = true
				continue
			}
			if string(got) != want[k] {
				if !lost[k] {
					add(cell.name()+":acknowledged-data-lost", "Get(%q) via %d = %q want %q", k, m.ID, got, want[k])
				}
				lost[k] = true
			}
			if cs := wantChildren[k]; len(cs) > 0 && !lost[k] {
				var list [][]byte
				err := retryKV(func() (e error) { list, e = m.Node.PrefixList(ctx, []byte(k)); return })
				gotS := []string{}
				for _, c := range list {
					gotS = append(gotS, string(c))
				}
				sort.Strings(gotS)
				if err != nil || fmt.Sprint(gotS) != fmt.Sprint(cs) {
					add(cell.name()+":acknowledged-data-lost", "PrefixList(%q) via %d = %v (%v) want %v", k, m.ID, gotS, err, cs)
					lost[k] = true
				}
			}
		}
	}
	if n := r.net.Panics.Load(); n > 0 {
		add(cell.name()+":handler-panic", "%s", firstLine(r.net.PanicLog[0]))
	}
	return res
}

func TestC07(t *testing.T) {
	rec := ev.New(t, "C07")
	rec.Rule("fault enumeration: for every rapid-generated ring (2..5 real LocalNodes with ids next to the keys' hashes, 5..20 acknowledged keys with values and prefix children, generated joiner position / leaver) the COMPLETE product {RequestToJoin, Import, FinishJoin(stabilize), FinishJoin(release)} x {join} and {RequestToLeave, Import, FinishLeave(stabilize), FinishLeave(release)} x {leave} x {request dropped before delivery, delivered but response lost (caller sees a deadline error)} x {first occurrence, first three occurrences, every occurrence until the attempt has exhausted its retries, every occurrence but the first} = 64 cells (the two persistent patterns for the first ring only in the quick tier); rings hold 5..20 or 100..400 acknowledged keys is executed: the fault is injected in the RPC proxy, the real Join/Leave runs to completion (incl. its retry loop), faults are cleared, the ring gets a quiet period of <= 80 maintenance rounds. Oracle: every remaining node is Active and every acknowledged key/child is readable with its value through every remaining node (retryable errors retried <= 60x). An evaluation is one (ring, cell); non-trivial: the fault actually fired. Distinct = (ring, cell).")
	rec.Assume("faults are injected at the RPC boundary only (the proxy emulates RemoteNode: a lost response surfaces as context.DeadlineExceeded); nodes do not crash in this property")
	// scenario tier: an attempt that fails without any injected fault, after the first lock was
	// granted - the leaver itself is locked by a join when its successor's grant arrives
	if p := leaveFailsLocallyAfterSuccessorGranted(); p != "" {
		if len(p) > 13 && p[:13] == "precondition:" {
			rec.Inconclusive("scenario-precondition")
			t.Logf("leave-fails-locally scenario: %s", p)
		} else {
			rec.Fail(t, "leave:fails-at-the-leaver-after-grant:node-stuck-or-data-unreachable", map[string]any{"schedule": "ring {1<<44, 2<<44, 3<<44}; 3<<44 leaves: RequestToLeave to its successor 1<<44 is granted, the reply is held; 5<<43 joins via 3<<44 and gets its lock, the joiner's FinishJoin(release) is held; the grant is delivered; releases follow", "problem": p}, "%s", p)
		}
	} else {
		rec.Case(true, "scenario:leave-fails-at-the-leaver-after-grant", func() any {
			return map[string]any{"scenario": "leave attempt granted by the successor fails at the leaver itself (locked by a join): both must return to serving"}
		}, "scenario:leave-fails-at-the-leaver-after-grant")
	}
	cells := c07Cells()
	rec.Note("cells_per_ring", len(cells))
	known := map[string]bool{}
	reproduced := map[string]bool{}
	var unknown []*c07Result
	ringNo := 0
	ev.RapidCheck(t, 3, 60, func(t *rapid.T) {
		anchors := []uint64{}
		for _, k := range c07Keys {
			anchors = append(anchors, chord.Hash([]byte(k)))
		}
		ids := genLayoutIDs(2, 5, anchors...).Draw(t, "ids")
		ring := c07Ring{
			IDs:    ids,
			Vias:   rapid.SliceOfN(rapid.IntRange(0, 1<<20), len(ids), len(ids)).Draw(t, "vias"),
			NKeys:  rapid.OneOf(rapid.IntRange(5, 20), rapid.IntRange(5, 20), rapid.IntRange(100, 400)).Draw(t, "nkeys"),
			Actor:  rapid.IntRange(0, 1<<10).Draw(t, "actor"),
			Via:    rapid.IntRange(0, 1<<10).Draw(t, "via"),
			Offset: rapid.SampledFrom([]int{0, 1, 1 << 20, 1 << 30}).Draw(t, "offset"),
		}
		ringNo++
		if !ev.Thorough() {
			// quick tier: ring 1 small with every pattern, ring 2 LARGE (transfers of > 64 keys) but
			// only the Import cells, ring 3 small without the persistent patterns
			if ringNo == 2 {
				ring.NKeys = 150
			} else if ring.NKeys > 20 {
				ring.NKeys = 5 + ring.NKeys%16
			}
		}
		for _, cell := range cells {
			if !ev.Thorough() && ringNo == 2 && cell.Method != "Import" {
				continue
			}
			// the "every occurrence" pattern makes the real retry loops run to exhaustion (~2 s of
			// back-off each): all rings in the thorough tier, the first ring only in the quick tier
			if (cell.Pattern == "every" || cell.Pattern == "from-2nd-on") && !ev.Thorough() && ringNo > 2 {
				continue
			}
			res := runC07Cell(t, rec, ring, cell)
			if res == nil {
				continue
			}
			labels := []string{"cell:" + cell.name(), "pattern:" + cell.Pattern}
			if len(res.Signatures) > 0 {
				labels = append(labels, "cell-violates")
			}
			rec.Case(res.Fired > 0, fmt.Sprintf("%v|%+v", ring, cell), func() any { return res }, labels...)
			for _, sig := range res.Signatures {
				if ev.Known("C07", sig) {
					rec.Excluded(sig)
					known[sig] = true
					reproduced[sig] = true
					continue
				}
				unknown = append(unknown, res)
				rec.Fail(t, sig, res, "%s (%s): %v", cell.name(), res.ActionErr, res.Problems)
			}
		}
	})
	for sig := range reproduced {
		rec.Witnessed(sig, true)
	}
	_ = unknown
}
