package ring

import (
	"fmt"
	"sort"
	"sync"
	"time"

	"go.miragespace.co/specter/spec/chord"
	"go.uber.org/zap"
	"verifharness/internal/ringsim"

	"pgregory.net/rapid"
)

// ---- churn plans (shared by C02..C06) ----------------------------------------

type churnAction struct {
	Kind string `json:"kind"` // "join" | "leave"
	ID   uint64 `json:"id,omitempty"`
	Pick int    `json:"pick"` // join: index of the entry member; leave: index of the leaver (mod live members at phase start)
	// Rel joins take their id relative to a member at phase start: id = live[Focus].ID + Off
	Rel   bool `json:"rel,omitempty"`
	Focus int  `json:"focus,omitempty"`
	Off   int  `json:"off,omitempty"`
}

type churnPhase struct {
	Actions      []churnAction `json:"actions"`
	SettleRounds int           `json:"settle_rounds_after"`
}

type churnPlan struct {
	Initial  []uint64     `json:"initial"`
	Vias     []int        `json:"vias"`
	Phases   []churnPhase `json:"phases"`
	MaxDelay int          `json:"max_delay_us"`
	DelayPct int          `json:"delay_pct"`
	Seed     int64        `json:"seed"`
	// SlowReleaseMs > 0: every FinishJoin/FinishLeave(release) is delivered that much later, so
	// membership locks are held long enough for competing attempts to run out of retries
	SlowReleaseMs int `json:"slow_release_ms,omitempty"`
	// LogJitterPct > 0: every log statement / child-logger derivation inside the nodes yields
	// with that probability (schedule points inside functions, see ringsim.JitterLogger)
	LogJitterPct int `json:"log_jitter_pct,omitempty"`
}

func genChurnPlan(maxInitial, maxPhases, maxActions int, anchors ...uint64) *rapid.Generator[churnPlan] {
	return rapid.Custom(func(t *rapid.T) churnPlan {
		initial := genLayoutIDs(1, maxInitial, anchors...).Draw(t, "initial")
		used := map[uint64]bool{}
		for _, id := range initial {
			used[id] = true
		}
		p := churnPlan{
			Initial:  initial,
			Vias:     rapid.SliceOfN(rapid.IntRange(0, 1<<20), len(initial), len(initial)).Draw(t, "vias"),
			MaxDelay: rapid.SampledFrom([]int{0, 200, 2000}).Draw(t, "maxDelayUs"),
			DelayPct: rapid.SampledFrom([]int{0, 30, 80}).Draw(t, "delayPct"),
			Seed:     rapid.Int64Range(1, 1<<40).Draw(t, "netSeed"),
		}
		p.SlowReleaseMs = rapid.SampledFrom([]int{0, 0, 0, 40, 90}).Draw(t, "slowReleaseMs")
		p.LogJitterPct = rapid.SampledFrom([]int{0, 0, 15, 50}).Draw(t, "logJitterPct")
		nPhases := rapid.IntRange(1, maxPhases).Draw(t, "phases")
		all := append([]uint64{}, initial...)
		for ph := 0; ph < nPhases; ph++ {
			var phase churnPhase
			n := rapid.IntRange(1, maxActions).Draw(t, "actions")
			for a := 0; a < n; a++ {
				if rapid.IntRange(0, 99).Draw(t, "isJoin") < 55 {
					// fresh id: uniform or adjacent to a known id
					var id uint64
					if len(anchors) > 0 && rapid.IntRange(0, 2).Draw(t, "anchoredJoin") > 0 {
						a := anchors[rapid.IntRange(0, len(anchors)-1).Draw(t, "anchor")]
						id = (a + uint64(rapid.SampledFrom([]int64{0, 1, -1, 1 << 20, -(1 << 20), 1 << 36, -(1 << 36)}).Draw(t, "anchorOff"))) & ringMax
					} else if rapid.Bool().Draw(t, "near") {
						base := all[rapid.IntRange(0, len(all)-1).Draw(t, "nearOf")]
						id = (base + uint64(int64(rapid.IntRange(-3, 3).Draw(t, "off")))) & ringMax
					} else {
						id = rapid.Uint64Range(0, ringMax).Draw(t, "id")
					}
					for used[id] {
						id = (id + 1) & ringMax
					}
					used[id] = true
					all = append(all, id)
					phase.Actions = append(phase.Actions, churnAction{Kind: "join", ID: id, Pick: rapid.IntRange(0, 1<<16).Draw(t, "via")})
				} else if ph > 0 && rapid.IntRange(0, 3).Draw(t, "rejoin") == 0 {
					// restart of a node that left in an earlier phase (old identity, old store)
					phase.Actions = append(phase.Actions, churnAction{Kind: "rejoin", Pick: rapid.IntRange(0, 1<<16).Draw(t, "which"), Focus: rapid.IntRange(0, 1<<16).Draw(t, "rejoinVia")})
				} else {
					phase.Actions = append(phase.Actions, churnAction{Kind: "leave", Pick: rapid.IntRange(0, 1<<16).Draw(t, "leaver")})
				}
			}
			phase.SettleRounds = rapid.SampledFrom([]int{0, 0, 1, 3}).Draw(t, "settle")
			p.Phases = append(p.Phases, phase)
		}
		// one plan in six ends by shrinking the ring: more leaves than members are requested and
		// the runner lets all but one of them go (concurrently), so that rings that end with a
		// single survivor or very few nodes are not rare
		if rapid.IntRange(0, 5).Draw(t, "shrink") == 0 {
			var phase churnPhase
			for i := 0; i < 12; i++ {
				phase.Actions = append(phase.Actions, churnAction{Kind: "leave", Pick: i})
			}
			p.Phases = append(p.Phases, phase)
			if rapid.Bool().Draw(t, "shrinkTwice") {
				p.Phases = append(p.Phases, phase)
			}
		}
		return p
	})
}

type churnOutcome struct {
	JoinsOK, JoinsFailed   int
	LeavesOK, LeavesFailed int
	Rejoins                int
	JoinLeaveConcurrent    bool // some phase ran a join and a leave concurrently
	AdjacentActions        bool // two actions of one phase touched adjacent ring positions
	Log                    []string
	JoinErrs               []string
}

// runChurn executes the plan on r (the initial ring must already be built).
// `between` (optional) runs after each phase.
func runChurn(r *simRing, plan churnPlan, out *churnOutcome) {
	var mu sync.Mutex
	logf := func(format string, args ...any) {
		mu.Lock()
		out.Log = append(out.Log, fmt.Sprintf(format, args...))
		mu.Unlock()
	}
	for pi, phase := range plan.Phases {
		live := r.live()
		if len(live) == 0 {
			return
		}
		liveIDsSorted := liveIDs(live)
		// resolve the actions against the membership at phase start
		type resolved struct {
			act    churnAction
			leaver *ringsim.Member
			via    uint64
		}
		var rs []resolved
		usedRel := map[uint64]bool{}
		leaving := map[uint64]bool{}
		nLeaves := 0
		for _, a := range phase.Actions {
			if a.Kind == "leave" {
				if nLeaves >= len(live)-1 {
					continue // never remove the last member
				}
				// pick a member not already leaving in this phase
				for k := 0; k < len(live); k++ {
					m := live[(a.Pick+k)%len(live)]
					if !leaving[m.ID] {
						leaving[m.ID] = true
						nLeaves++
						rs = append(rs, resolved{act: a, leaver: m})
						break
					}
				}
			}
		}
		// "rejoin": a node that left gracefully earlier restarts with its old identity AND its
		// old store (a normal restart of a node with persistent storage)
		for _, a := range phase.Actions {
			if a.Kind != "rejoin" {
				continue
			}
			var departed []*ringsim.Member
			for _, m := range r.allMembers() {
				if m.Joined.Load() && m.Node.VerifState() == chord.Left && !usedRel[m.ID] {
					departed = append(departed, m)
				}
			}
			if len(departed) == 0 {
				continue
			}
			old := departed[a.Pick%len(departed)]
			usedRel[old.ID] = true
			via := live[a.Focus%len(live)]
			rs = append(rs, resolved{act: churnAction{Kind: "rejoin", ID: old.ID}, leaver: old, via: via.ID})
		}
		for _, a := range phase.Actions {
			if a.Kind == "join" {
				if a.Rel {
					id := (live[a.Focus%len(live)].ID + uint64(int64(a.Off))) & ringMax
					for r.hasMember(id) || usedRel[id] {
						id = (id - 1) & ringMax
					}
					usedRel[id] = true
					a.ID = id
				}
				// entry: prefer (3 of 4) a member that is not leaving in this phase
				via := live[a.Pick%len(live)]
				if leaving[via.ID] && a.Pick%4 != 0 {
					for k := 1; k < len(live); k++ {
						c := live[(a.Pick+k)%len(live)]
						if !leaving[c.ID] {
							via = c
							break
						}
					}
				}
				rs = append(rs, resolved{act: a, via: via.ID})
			}
		}
		// classification for the non-trivial rule
		touched := []uint64{}
		hasJoin, hasLeave := false, false
		for _, x := range rs {
			if x.act.Kind == "join" || x.act.Kind == "rejoin" {
				hasJoin = true
				touched = append(touched, ownerOf(liveIDsSorted, x.act.ID)) // the successor that will hand over
			} else {
				hasLeave = true
				touched = append(touched, x.leaver.ID)
			}
		}
		if hasJoin && hasLeave {
			out.JoinLeaveConcurrent = true
		}
		for i := 0; i < len(touched); i++ {
			for j := i + 1; j < len(touched); j++ {
				a, b := idxOf(liveIDsSorted, touched[i]), idxOf(liveIDsSorted, touched[j])
				d := (a - b + len(liveIDsSorted)) % len(liveIDsSorted)
				if d <= 1 || d == len(liveIDsSorted)-1 {
					out.AdjacentActions = true
				}
			}
		}
		fns := make([]func(), 0, len(rs))
		for _, x := range rs {
			x := x
			if x.act.Kind == "rejoin" {
				fns = append(fns, func() {
					_, err := r.rejoinLocked(x.leaver, x.via)
					mu.Lock()
					if err == nil {
						out.JoinsOK++
						out.Rejoins++
					} else {
						out.JoinsFailed++
						out.JoinErrs = append(out.JoinErrs, err.Error())
					}
					mu.Unlock()
					logf("phase %d: rejoin %d (old store) via %d -> %v", pi, x.act.ID, x.via, err)
				})
				continue
			}
			if x.act.Kind == "join" {
				fns = append(fns, func() {
					_, err := r.joinLocked(x.act.ID, x.via)
					mu.Lock()
					if err == nil {
						out.JoinsOK++
					} else {
						out.JoinsFailed++
						out.JoinErrs = append(out.JoinErrs, err.Error())
					}
					mu.Unlock()
					logf("phase %d: join %d via %d -> %v", pi, x.act.ID, x.via, err)
				})
			} else {
				fns = append(fns, func() {
					x.leaver.Node.Leave()
					st := x.leaver.Node.VerifState()
					mu.Lock()
					if st == chord.Left {
						out.LeavesOK++
						x.leaver.LeftDone.Store(true)
					} else {
						out.LeavesFailed++
					}
					mu.Unlock()
					logf("phase %d: leave %d -> state %s", pi, x.leaver.ID, st)
				})
			}
		}
		runAll(fns...)
		for i := 0; i < phase.SettleRounds; i++ {
			maintenanceRound(r.live())
		}
	}
}

// joinLocked is join with the member map guarded (concurrent joins).
var memberMapMu sync.Mutex

func (r *simRing) joinLocked(id, via uint64) (*ringsim.Member, error) {
	m := r.net.Add(id)
	memberMapMu.Lock()
	r.members[id] = m
	memberMapMu.Unlock()
	err := m.Node.Join(r.net.Proxy(id, via))
	m.JoinErr = err
	if err == nil {
		m.Joined.Store(true)
	}
	return m, err
}

// rejoinLocked restarts a departed member: new LocalNode, same id, same store.
func (r *simRing) rejoinLocked(old *ringsim.Member, via uint64) (*ringsim.Member, error) {
	m := r.net.AddWithKV(old.ID, old.KV.Inner())
	memberMapMu.Lock()
	r.retired = append(r.retired, old)
	r.members[old.ID] = m
	memberMapMu.Unlock()
	err := m.Node.Join(r.net.Proxy(old.ID, via))
	m.JoinErr = err
	if err == nil {
		m.Joined.Store(true)
		return m, nil
	}
	// the restarted process could not join and gives up (the server binary exits on a failed
	// join): it must not linger as a reachable node that is "not running". The departed
	// incarnation is what the rest of the ring keeps seeing.
	m.Stop()
	memberMapMu.Lock()
	r.retired = append(r.retired, m)
	r.members[old.ID] = old
	memberMapMu.Unlock()
	r.net.Restore(old)
	return m, err
}

func (r *simRing) hasMember(id uint64) bool {
	memberMapMu.Lock()
	defer memberMapMu.Unlock()
	return r.members[id] != nil
}

func (r *simRing) allMembers() []*ringsim.Member {
	memberMapMu.Lock()
	defer memberMapMu.Unlock()
	out := make([]*ringsim.Member, 0, len(r.members))
	for _, m := range r.members {
		out = append(out, m)
	}
	sort.Slice(out, func(i, j int) bool { return out[i].ID < out[j].ID })
	return out
}

// churnLogger: nil (no logging, no yields) or the jittering logger of the plan.
func churnLogger(plan churnPlan) *zap.Logger {
	if plan.LogJitterPct <= 0 {
		return nil
	}
	l, _ := ringsim.JitterLogger(plan.Seed, plan.LogJitterPct, 150*time.Microsecond)
	return l
}

func newChurnRing(plan churnPlan, keepLog bool) *simRing {
	return newSimRing(ringsim.Config{
		Logger:     churnLogger(plan),
		Seed:       plan.Seed,
		MaxDelay:   time.Duration(plan.MaxDelay) * time.Microsecond,
		DelayProb:  float64(plan.DelayPct) / 100,
		KeepLog:    keepLog,
		SlowMethod: "Finish*", SlowArg: "release", SlowDelay: time.Duration(plan.SlowReleaseMs) * time.Millisecond,
	})
}

func problemClass(p string) string {
	// "node 5 predecessor nil, want 7" -> class without numbers
	switch {
	case p == "":
		return ""
	case contains(p, "state"):
		return "state-not-active"
	case contains(p, "predecessor nil"):
		return "predecessor-nil"
	case contains(p, "predecessor"):
		return "predecessor-wrong"
	case contains(p, "empty successor list"):
		return "successor-list-empty"
	case contains(p, "contains departed"):
		return "successor-list-has-departed-node"
	case contains(p, "successor list"):
		return "successor-list-order-wrong"
	case contains(p, "successor"):
		return "successor-wrong"
	case contains(p, "finger"):
		return "finger-wrong"
	}
	return "other"
}

func contains(s, sub string) bool {
	return len(s) >= len(sub) && (func() bool {
		for i := 0; i+len(sub) <= len(s); i++ {
			if s[i:i+len(sub)] == sub {
				return true
			}
		}
		return false
	})()
}
