package ring

import (
	"context"
	"errors"
	"fmt"
	"testing"
	"time"

	"go.miragespace.co/specter/spec/chord"
	"verifharness/internal/ev"
	"verifharness/internal/ringsim"

	"pgregory.net/rapid"
)

// retryKV retries a DHT KV call on retryable errors (bounded).
func retryKV(fn func() error) error {
	var err error
	for i := 0; i < 60; i++ {
		if err = fn(); err == nil || !chord.ErrorIsRetryable(err) {
			return err
		}
		time.Sleep(time.Duration(1+i/5) * time.Millisecond)
	}
	return err
}

func isTransport(err error) bool {
	return errors.Is(err, ringsim.ErrUnreachable) || errors.Is(err, ringsim.ErrRoutingLoop)
}

type c08Case struct {
	IDs        []uint64 `json:"ids"`
	Scenario   string   `json:"scenario"` // plain | pred-nil
	S          uint64   `json:"contacted_successor"`
	Joiner     uint64   `json:"joiner"`
	JoinerKind string   `json:"joiner_kind"`
	Entry      uint64   `json:"entry"`
	NotifyDrop int      `json:"notify_drops"`
	PredAtJoin string   `json:"pred_of_S_at_join"`
	Err        string   `json:"join_err"`
	DataKeys    int     `json:"data_keys_in_ring,omitempty"`
	ExportFails int     `json:"storage_failures_during_hand_over,omitempty"`
	ExportsHit  int     `json:"storage_failures_that_fired,omitempty"`
}

func TestC08(t *testing.T) {
	rec := ev.New(t, "C08")
	rec.Rule("rapid-generated rings of 1..5 real LocalNodes (adversarial id layouts) in the ring simulator; scenario pred-nil: the predecessor of a chosen node S is crash-stopped, S runs its predecessor check (predecessor becomes nil) and the next k Notify calls to S are dropped (k generated) so the state persists while every other node repairs its routing; scenario plain: stable ring incl. single node whose predecessor is itself. Then a joiner (id inside S's range, adjacent to S or to its predecessor, uniform, or DUPLICATE of an existing id) runs the real Join through S or another live member. Oracle: no handler panic; valid joiner gets nil or an error with ErrorIsRetryable; duplicate id never joins; afterwards S is Active and serves Put/Get. One case in three stores 8..40 keys through the ring first and lets the storage of the joiner's successor fail the first 0..3 exports of the hand-over (the request must then be refused retryably, and the joiner's own retries get it in). Non-trivial: predecessor of S was nil or S itself when the join was issued, or the hand-over hit a storage failure. Distinct = distinct (ids, scenario, S, joiner, entry, k).")
	rec.Assume("transport errors caused by the crash-stopped node itself are not answers of the contacted node (counted as inconclusive)")
	const sigPanic = "request-to-join-panics-on-nil-predecessor"
	// scenario tier: the predecessor is dropped while the join request waits inside the node
	for i := 0; i < 3; i++ {
		p, panics := predecessorDroppedWhileJoinWaits()
		switch {
		case p == "":
			rec.Case(true, fmt.Sprintf("scenario:predecessor-dropped-while-join-waits:%d", i), func() any {
				return map[string]any{"scenario": "predecessor check drops a dead predecessor while a join request waits behind a client write inside the contacted node"}
			}, "scenario:predecessor-dropped-while-join-waits")
		case len(p) > 13 && p[:13] == "precondition:":
			rec.Inconclusive("scenario-precondition")
			t.Logf("predecessor-dropped scenario: %s", p)
		default:
			sig := "join-request-not-answered-cleanly-after-predecessor-dropped"
			if panics > 0 {
				sig = "join-request-panics-after-predecessor-dropped-while-waiting"
			}
			rec.Fail(t, sig, map[string]any{"schedule": "ring {1<<44, 2<<44, 3<<44}; a client write holds 3<<44's KV barrier; 5<<43's join request enters 3<<44 and waits; 2<<44 crashes and 3<<44's predecessor check drops it; the write finishes", "problem": p}, "%s", p)
		}
	}
	stale := joinWhilePredecessorPointerStale()
	for i := 0; i < 3 && len(stale) > 13 && stale[:13] == "precondition:"; i++ {
		stale = joinWhilePredecessorPointerStale() // the window (S has not noticed yet) is up to one check interval wide
	}
	if p := stale; p != "" {
		if len(p) > 13 && p[:13] == "precondition:" {
			rec.Inconclusive("scenario-precondition")
			t.Logf("stale-predecessor-pointer scenario: %s", p)
		} else {
			rec.Fail(t, "join-request-not-answered-cleanly-while-predecessor-pointer-stale", map[string]any{"schedule": "ring {1<<44, 2<<44, 3<<44}; 2<<44 leaves gracefully; before 3<<44 notices, 5<<43 asks 3<<44 to join", "problem": p}, "%s", p)
		}
	} else {
		rec.Case(true, "scenario:join-while-predecessor-pointer-stale", func() any {
			return map[string]any{"scenario": "join request to a node whose recorded predecessor has just left"}
		}, "scenario:join-while-predecessor-pointer-stale")
	}
	if p := joinWhileContactedNodeIsLeaving(); p != "" {
		if len(p) > 13 && p[:13] == "precondition:" {
			rec.Inconclusive("scenario-precondition")
			t.Logf("contacted-node-leaving scenario: %s", p)
		} else {
			rec.Fail(t, "join-request-not-answered-cleanly-by-leaving-node", map[string]any{"schedule": "ring {1<<44, 2<<44, 3<<44}; 2<<44 holds keys and leaves gracefully, its Import to 3<<44 is held on the wire (state Leaving); 3<<43 asks 2<<44 to join; the hand-over is released", "problem": p}, "%s", p)
		}
	} else {
		rec.Case(true, "scenario:join-while-contacted-node-is-leaving", func() any {
			return map[string]any{"scenario": "join request to a node that is in the middle of its own graceful leave"}
		}, "scenario:join-while-contacted-node-is-leaving")
	}
	// regression tier: shrunk failures found earlier, replayed without the library
	for _, p := range c08Regressions {
		c08Run(t, rec, p, sigPanic)
	}
	ev.RapidCheck(t, 60, 2000, func(t *rapid.T) {
		ids := genLayoutIDs(1, 5).Draw(t, "ids")
		p := c08Params{
			IDs:        ids,
			Vias:       rapid.SliceOfN(rapid.IntRange(0, 1<<20), len(ids), len(ids)).Draw(t, "vias"),
			SIdx:       rapid.IntRange(0, 4).Draw(t, "S"),
			PredNil:    rapid.IntRange(0, 3).Draw(t, "scenario") > 0,
			PredLeaves: rapid.IntRange(0, 2).Draw(t, "predLeaves") == 0,
			NotifyDrop: rapid.SampledFrom([]int{0, 1, 3, 8, 100000}).Draw(t, "notifyDrops"),
			Kind:       rapid.SampledFrom([]string{"S-1", "pred+1", "mid", "uniform", "S+1", "duplicate"}).Draw(t, "joinerKind"),
			Uniform:    rapid.Uint64Range(0, ringMax).Draw(t, "joiner"),
			DupOf:      rapid.IntRange(0, 4).Draw(t, "dupOf"),
			EntryIdx:   rapid.IntRange(0, 4).Draw(t, "entry"),
			EntryIsS:   rapid.Bool().Draw(t, "entryIsS"),
		}
		if rapid.IntRange(0, 2).Draw(t, "withData") == 0 {
			p.DataKeys = rapid.IntRange(8, 40).Draw(t, "dataKeys")
			p.ExportFails = rapid.SampledFrom([]int{0, 1, 1, 2, 3}).Draw(t, "exportFails")
		}
		c08Run(t, rec, p, sigPanic)
	})
}

type c08Params struct {
	IDs        []uint64 `json:"ids"`
	Vias       []int    `json:"vias"`
	SIdx       int      `json:"s_idx"`
	PredNil    bool     `json:"pred_nil"`
	PredLeaves bool     `json:"pred_leaves"`
	NotifyDrop int      `json:"notify_drops"`
	Kind       string   `json:"joiner_kind"`
	Uniform    uint64   `json:"uniform"`
	DupOf      int      `json:"dup_of"`
	EntryIdx   int      `json:"entry_idx"`
	EntryIsS   bool     `json:"entry_is_s"`
	// DataKeys keys are stored through the ring before anything else happens; ExportFails: the
	// contacted successor's storage fails the first n exports of the hand-over to the joiner
	DataKeys    int `json:"data_keys,omitempty"`
	ExportFails int `json:"export_fails,omitempty"`
}

type tfail interface {
	Fatalf(string, ...any)
	Helper()
	Logf(string, ...any)
}

// c08Regressions: minimal failing cases found by this check on earlier trees.
var c08Regressions = []c08Params{
	// nil-predecessor dereference in RequestToJoin (fixed by the "fix: chord: refuse join while predecessor is unknown" commit)
	{IDs: []uint64{628683407, 628683408}, Vias: []int{0, 0}, SIdx: 0, PredNil: true, NotifyDrop: 8, Kind: "S-1", EntryIdx: 0, EntryIsS: true},
	{IDs: []uint64{100, 200, 300}, Vias: []int{0, 0, 1}, SIdx: 1, PredNil: true, NotifyDrop: 100000, Kind: "mid", EntryIdx: 2, EntryIsS: false},
}

func c08Run(t tfail, rec *ev.Recorder, p c08Params, sigPanic string) {
	ids, vias := p.IDs, p.Vias
	r := newSimRing(ringsim.Config{Seed: int64(ids[0]) + 3})
	defer r.net.Close()
	if err := r.buildRing(ids, func(i int) int { return vias[i] }); err != nil {
		rec.Inconclusive("ring-build-failed")
		return
	}
	if _, c := r.settle(60, true, nil); c.Problem != "" {
		rec.Inconclusive("ring-not-converged")
		return
	}
	for i := 0; i < p.DataKeys; i++ {
		key := []byte(fmt.Sprintf("c08-data-%d", i))
		if err := retryKV(func() error { return r.members[ids[0]].Node.Put(context.Background(), key, []byte("d")) }); err != nil {
			rec.Inconclusive("data-set-up-failed")
			return
		}
	}
	sorted := sortedIDs(ids)
	cs := c08Case{IDs: ids, Scenario: "plain", DataKeys: p.DataKeys, ExportFails: p.ExportFails}
	si := p.SIdx % len(sorted)
	cs.S = sorted[si]
	predID := sorted[(si-1+len(sorted))%len(sorted)]
	if len(sorted) >= 2 && p.PredNil {
		cs.Scenario = "pred-nil"
	}
	S := r.members[cs.S]
	liveSorted := sorted
	if cs.Scenario == "pred-nil" {
		cs.NotifyDrop = p.NotifyDrop
		if cs.NotifyDrop > 0 {
			r.net.AddRule(&ringsim.FaultRule{Method: "Notify", AnyCaller: true, Callee: cs.S, Mode: ringsim.FailBefore, From: 1, To: cs.NotifyDrop})
		}
		// Precondition for the post-condition below: the ring must be able to heal from the
		// crash at all, i.e. every survivor already lists some node other than the victim
		// (a node whose only known successor dies cannot recover by protocol design; that is
		// outside this property). Wait for the lists to fill, in rounds.
		healable := func() bool {
			for _, m := range r.live() {
				if m.ID == predID {
					continue
				}
				ok := false
				for _, s := range m.Node.VerifSuccessors() {
					if s.ID() != predID {
						ok = true
					}
				}
				if !ok {
					return false
				}
			}
			return true
		}
		for i := 0; i < 30 && !healable(); i++ {
			maintenanceRound(r.live())
		}
		if !healable() {
			rec.Inconclusive("successor-lists-too-short-to-survive-crash")
			return
		}
		if p.PredLeaves {
			// the predecessor leaves gracefully and S has NOT noticed yet: its predecessor pointer
			// still names the departed node when the join request arrives
			cs.Scenario = "pred-left-stale-pointer"
			r.members[predID].Node.Leave()
			if r.members[predID].Node.VerifState() != chord.Left {
				rec.Inconclusive("predecessor-leave-did-not-complete")
				return
			}
		} else {
			r.net.Crash(r.members[predID])
			S.Node.VerifCheckPredecessor()
		}
		liveSorted = nil
		for _, id := range sorted {
			if id != predID {
				liveSorted = append(liveSorted, id)
			}
		}
		if cs.NotifyDrop >= 100000 {
			// let everybody else repair successor lists and fingers while S keeps predecessor nil
			for i := 0; i < 8; i++ {
				maintenanceRound(r.live())
			}
		}
	}
	// joiner id
	existing := map[uint64]bool{}
	for _, id := range ids {
		existing[id] = true
	}
	lowID := predID
	kind := p.Kind
	var j uint64
	switch kind {
	case "S-1":
		j = (cs.S - 1) & ringMax
	case "pred+1":
		j = (lowID + 1) & ringMax
	case "mid":
		j = (lowID + ((cs.S-lowID)&ringMax)/2) & ringMax
	case "S+1":
		j = (cs.S + 1) & ringMax
	case "uniform":
		j = p.Uniform
	case "duplicate":
		j = liveSorted[p.DupOf%len(liveSorted)]
	}
	dup := false
	for _, id := range liveSorted {
		if id == j {
			dup = true
		}
	}
	if existing[j] && !dup {
		// equals the crashed node's id: a fresh node reusing a dead id is a valid joiner but
		// the registry is keyed by id; skip this corner
		j = (j + 2) & ringMax
		if existing[j] {
			rec.Inconclusive("joiner-id-collides")
			return
		}
	}
	if dup {
		kind = "duplicate"
	} else if kind == "duplicate" {
		kind = "uniform"
	}
	cs.Joiner, cs.JoinerKind = j, kind
	cs.Entry = liveSorted[p.EntryIdx%len(liveSorted)]
	if p.EntryIsS {
		cs.Entry = cs.S
	}
	pre := S.Node.VerifPredecessor()
	switch {
	case pre == nil:
		cs.PredAtJoin = "nil"
	case pre.ID() == cs.S:
		cs.PredAtJoin = "self"
	default:
		cs.PredAtJoin = "other"
	}

	if p.ExportFails > 0 {
		// whichever member turns out to be the joiner's successor: its storage fails the first
		// exports of the hand-over
		for _, m := range r.live() {
			m.KV.FailNextExports(p.ExportFails)
		}
	}
	var joinErr error
	if dup {
		// a duplicate joiner cannot be registered next to the live node with the same id:
		// use a detached LocalNode that only the join request names
		net2 := ringsim.New(ringsim.Config{Seed: 1})
		jn := net2.Add(j)
		joinErr = jn.Node.Join(r.net.Proxy(j, cs.Entry))
		if joinErr == nil {
			jn.Joined.Store(true)
		}
		defer net2.Close()
	} else {
		_, joinErr = r.join(j, cs.Entry)
	}
	if joinErr != nil {
		cs.Err = joinErr.Error()
	}
	labels := []string{"scenario:" + cs.Scenario, "joiner:" + kind, "pred-at-join:" + cs.PredAtJoin, fmt.Sprintf("join-ok:%v", joinErr == nil)}
	if p.ExportFails > 0 {
		for _, m := range r.live() {
			if left := m.KV.ExportFailuresLeft(); left < p.ExportFails {
				cs.ExportsHit += p.ExportFails - left
			}
			m.KV.FailNextExports(0)
		}
		if cs.ExportsHit > 0 {
			labels = append(labels, "hand-over-hit-a-storage-failure")
		}
	}
	nt := cs.PredAtJoin != "other" || cs.ExportsHit > 0
	rec.Case(nt, fmt.Sprintf("%v|%s|%d|%d|%d|%d|%d|%d", ids, cs.Scenario, cs.S, j, cs.Entry, cs.NotifyDrop, p.DataKeys, p.ExportFails), func() any { return cs }, labels...)

	if n := r.net.Panics.Load(); n > 0 {
		if ev.Known("C08", sigPanic) {
			rec.Excluded(sigPanic)
			return
		}
		rec.Fail(t, sigPanic, map[string]any{"case": cs, "panic": r.net.PanicLog[0]}, "handler panicked while serving a join request: %s", firstLine(r.net.PanicLog[0]))
	}
	switch {
	case dup:
		if joinErr == nil {
			rec.Fail(t, "duplicate-id-joined", cs, "a joiner with the id of a live member was admitted")
		}
	case joinErr == nil:
	case isTransport(joinErr):
		rec.Inconclusive("transport-error-from-crashed-node")
	case !chord.ErrorIsRetryable(joinErr):
		rec.Fail(t, "join-non-retryable-error-for-valid-joiner", cs, "Join(%d via %d) into %v (%s, S=%d pred=%s): non-retryable error %q", j, cs.Entry, liveSorted, cs.Scenario, cs.S, cs.PredAtJoin, joinErr)
	}

	// afterwards: S must be back to serving
	r.net.ClearRules()
	if _, c := r.settle(80, false, nil); c.Problem != "" {
		rec.Fail(t, "ring-not-serving-after-join-attempt", map[string]any{"case": cs, "problem": c.Problem}, "after the join attempt the ring does not return to a converged Active state: %s", c.Problem)
	}
	ctx := context.Background()
	key := []byte(fmt.Sprintf("c08-%d", j))
	// a finger of S may still name the crash-stopped node (the quiet period above does not wait
	// for all 48 fingers): a transport error from that node is not an answer of S - give the
	// finger repair more rounds, and count the case inconclusive if it persists
	serve := func(fn func() error) error {
		var err error
		for i := 0; i < 30; i++ {
			if err = retryKV(fn); err == nil || !isTransport(err) {
				return err
			}
			maintenanceRound(r.live())
		}
		return err
	}
	if err := serve(func() error { return S.Node.Put(ctx, key, []byte("v")) }); err != nil {
		if isTransport(err) {
			rec.Inconclusive("crashed-node-still-referenced-by-a-finger")
			return
		}
		rec.Fail(t, "node-not-serving-after-join-attempt", map[string]any{"case": cs, "err": err.Error()}, "Put through S after the attempt: %v", err)
	}
	var got []byte
	if err := serve(func() (e error) { got, e = S.Node.Get(ctx, key); return }); err != nil || string(got) != "v" {
		if err != nil && isTransport(err) {
			rec.Inconclusive("crashed-node-still-referenced-by-a-finger")
			return
		}
		rec.Fail(t, "node-not-serving-after-join-attempt", map[string]any{"case": cs, "err": fmt.Sprint(err), "got": string(got)}, "Get through S after the attempt: %q %v", got, err)
	}
}

func firstLine(s string) string {
	for i, c := range s {
		if c == '\n' {
			return s[:i]
		}
	}
	return s
}
