package ring

import (
	"fmt"
	"math/rand"
	"runtime"
	"sync"
	"sync/atomic"
	"testing"

	rchord "go.miragespace.co/specter/chord"
	"go.miragespace.co/specter/spec/chord"
	"verifharness/internal/ev"

	"pgregory.net/rapid"
)

// C13: lifecycle transitions are atomic (CAS from the expected state), the
// history lists every successful transition in order, the reported state is
// the last recorded one.

var allStates = []chord.State{chord.Inactive, chord.Joining, chord.Active, chord.Transferring, chord.Leaving, chord.Left}

type c13Attempt struct {
	Kind string      `json:"kind"` // cas-current | cas-wrong | set
	Exp  chord.State `json:"exp"`
	Nxt  chord.State `json:"nxt"`
	OK   bool        `json:"ok"`
	Got  chord.State `json:"returned"`
}

func TestC13(t *testing.T) {
	rec := ev.New(t, "C13")
	rec.Rule("rapid-generated programmes for the real lifecycle cell (constructed through an overlay accessor): G in 2..16 goroutines, R rounds; in each round all goroutines are released together from a barrier and each performs one attempt - Transition(current, random next), Transition(wrong expectation, next) or a forced Set - with generated yields. Oracle at every barrier (the only quiescent points): among pure rounds (no Set) exactly one same-expectation attempt succeeds when there is one, every wrong-expectation attempt fails and returns the then-current state; the history grew by exactly the successful attempts of the round, as a multiset of their targets and - for rounds with Sets - in an order in which every successful CAS follows its expected state; Get() equals the last history entry. A sub-case is one round; non-trivial: >= 2 same-expectation attempts raced, or a Set raced a CAS. Distinct = (states, attempts) of the round.")
	rec.Assume("reported == last recorded is judged at quiescent points only: the CAS and the history insert are two steps, a concurrent reader may see the new state before the history entry")
	rounds := ev.Pick(60, 150)
	ev.RapidCheck(t, 40, 600, func(t *rapid.T) {
		G := rapid.IntRange(2, 16).Draw(t, "goroutines")
		seed := rapid.Int64().Draw(t, "seed")
		init := allStates[rapid.IntRange(0, 5).Draw(t, "initial")]
		setPct := rapid.SampledFrom([]int{0, 0, 10, 40}).Draw(t, "setPct")
		wrongPct := rapid.SampledFrom([]int{0, 20, 50}).Draw(t, "wrongPct")
		cell := rchord.VerifNewNodeState(init)
		rng := rand.New(rand.NewSource(seed))
		hist := []chord.State{init}
		for round := 0; round < rounds; round++ {
			cur := cell.Get()
			atts := make([]c13Attempt, G)
			// strict rounds (half of them): targets come from two states T that nobody expects, so
			// after the first success no further attempt can legitimately succeed
			strict := rng.Intn(2) == 0
			t1 := allStates[(int(cur)+1+rng.Intn(5))%6]
			t2 := allStates[(int(cur)+1+rng.Intn(5))%6]
			for i := range atts {
				a := c13Attempt{Nxt: allStates[rng.Intn(6)]}
				if strict {
					a.Nxt = t1
					if rng.Intn(2) == 0 {
						a.Nxt = t2
					}
				}
				p := rng.Intn(100)
				switch {
				case p < setPct:
					a.Kind = "set"
				case p < setPct+wrongPct:
					a.Kind = "cas-wrong"
					a.Exp = allStates[(int(cur)+1+rng.Intn(5))%6]
					for strict && (a.Exp == t1 || a.Exp == t2) {
						a.Exp = allStates[(int(a.Exp)+1)%6]
						if a.Exp == cur {
							a.Exp = allStates[(int(a.Exp)+1)%6]
						}
					}
				default:
					a.Kind = "cas-current"
					a.Exp = cur
				}
				atts[i] = a
			}
			yields := make([]int, G)
			for i := range yields {
				yields[i] = rng.Intn(3)
			}
			start := make(chan struct{})
			var arrived atomic.Int32
			var wg sync.WaitGroup
			for i := range atts {
				wg.Add(1)
				go func(i int) {
					defer wg.Done()
					<-start
					// spin barrier: all attempts hit the cell within nanoseconds of each other
					arrived.Add(1)
					for spin := 0; arrived.Load() < int32(G); spin++ {
						if spin > 2000 {
							runtime.Gosched()
						}
					}
					for y := 0; y < yields[i]; y++ {
						// spread the attempts a little
						_ = cell.Get()
					}
					a := &atts[i]
					if a.Kind == "set" {
						cell.Set(a.Nxt)
						a.OK, a.Got = true, a.Nxt
						return
					}
					a.Got, a.OK = cell.Transition(a.Exp, a.Nxt)
				}(i)
			}
			close(start)
			wg.Wait()

			// ---- oracle at the barrier
			nSet, nCur, nWrong, okCur, okWrong := 0, 0, 0, 0, 0
			var succ []c13Attempt
			for _, a := range atts {
				switch a.Kind {
				case "set":
					nSet++
				case "cas-current":
					nCur++
					if a.OK {
						okCur++
					}
				case "cas-wrong":
					nWrong++
					if a.OK {
						okWrong++
					}
				}
				if a.OK {
					succ = append(succ, a)
				}
			}
			nt := nCur >= 2 || (nSet >= 1 && nCur+nWrong >= 1)
			doc := map[string]any{"goroutines": G, "state_before": cur.String(), "attempts": atts, "round": round}
			labels := []string{"pure"}
			if nSet > 0 {
				labels = []string{"with-set"}
			} else if strict {
				labels = append(labels, "pure-strict(exactly-one-winner asserted)")
			}
			rec.Case(nt, fmt.Sprintf("%d|%v|%v", G, cur, atts), func() any { return doc }, labels...)
			newHist := cell.History()
			doc["history_before"], doc["history_after"] = fmt.Sprint(hist), fmt.Sprint(newHist)
			if nSet == 0 {
				// A success moves the cell to its target; a further attempt may legitimately succeed
				// only if it expects that target (a chain). "Exactly one winner" and "wrong expectations
				// fail" are therefore asserted for rounds in which no attempt's target is any attempt's
				// expectation; chains are judged by the order check below.
				expects := map[chord.State]bool{}
				for _, a := range atts {
					expects[a.Exp] = true
				}
				chainable := false
				for _, a := range atts {
					if expects[a.Nxt] {
						chainable = true
					}
				}
				if nCur >= 1 && okCur < 1 {
					rec.Fail(t, "no-winner", doc, "%d concurrent Transition(%s, *) attempts: none succeeded", nCur, cur)
				}
				if !chainable {
					if nCur >= 1 && okCur != 1 {
						rec.Fail(t, "not-exactly-one-winner", doc, "%d concurrent Transition(%s, *) attempts: %d succeeded", nCur, cur, okCur)
					}
					if okWrong > 0 {
						rec.Fail(t, "wrong-expectation-succeeded", doc, "a Transition with a wrong expected state succeeded (state %s)", cur)
					}
				} else {
					labels = append(labels, "chainable")
				}
			}
			for _, a := range atts {
				if a.Kind != "set" && a.OK && a.Got != a.Nxt {
					rec.Fail(t, "successful-transition-returns-wrong-state", doc, "Transition(%s,%s) ok but returned %s", a.Exp, a.Nxt, a.Got)
				}
			}
			// history grew by exactly the successes
			if len(newHist) < len(hist) || fmt.Sprint(newHist[:len(hist)]) != fmt.Sprint(hist) {
				rec.Fail(t, "history-rewritten", doc, "history prefix changed: before %v after %v", hist, newHist)
			}
			added := newHist[len(hist):]
			if len(added) != len(succ) {
				rec.Fail(t, "history-misses-or-invents-transitions", doc, "%d successful attempts but history grew by %d (%v)", len(succ), len(added), added)
			}
			// order: there must be an assignment of successes to the appended entries such that
			// every successful CAS directly follows its expected state (backtracking, <= 16 items)
			used := make([]bool, len(succ))
			var place func(pos int, prev chord.State) bool
			place = func(pos int, prev chord.State) bool {
				if pos == len(added) {
					return true
				}
				for i, a := range succ {
					if used[i] || a.Nxt != added[pos] {
						continue
					}
					if a.Kind != "set" && a.Exp != prev {
						continue
					}
					used[i] = true
					if place(pos+1, added[pos]) {
						return true
					}
					used[i] = false
				}
				return false
			}
			if len(added) == len(succ) && !place(0, cur) {
				rec.Fail(t, "history-order-inconsistent-with-transitions", doc, "appended history %v cannot be produced by the successful attempts in any order", added)
			}
			if got := cell.Get(); len(newHist) == 0 || got != newHist[len(newHist)-1] {
				rec.Fail(t, "reported-state-differs-from-last-recorded", doc, "Get()=%s, last history entry %v", got, newHist)
			}
			hist = newHist
		}
	})
}
