package ring

import (
	"fmt"
	"math/rand"
	"runtime"
	"sync"
	"sync/atomic"
	"time"

	"go.miragespace.co/specter/spec/chord"
	"go.miragespace.co/specter/spec/protocol"
	"verifharness/internal/ringsim"
)

// scriptPeer is a ring member as seen by ONE real node under test: it answers
// the calls made by stabilization (and by Join / the one-off tasks run at
// start) from a scripted membership view. Everything else is left to the nil
// embedded interface on purpose - a call the script does not expect must be
// loud, not silently absorbed.
type scriptPeer struct {
	chord.VNode
	id    uint64
	succs func() []chord.VNode
	pred  func() chord.VNode
	join  func() (chord.VNode, []chord.VNode, error)
	gone  func() bool // a departed member answers like a stopped node
}

func (p *scriptPeer) ID() uint64 { return p.id }
func (p *scriptPeer) Identity() *protocol.Node {
	return &protocol.Node{Id: p.id, Address: fmt.Sprintf("script-%d", p.id)}
}
func (p *scriptPeer) Ping() error              { return nil }
func (p *scriptPeer) Notify(chord.VNode) error { return nil }
func (p *scriptPeer) GetPredecessor() (chord.VNode, error) {
	if p.gone != nil && p.gone() {
		return nil, chord.ErrNodeGone
	}
	if p.pred == nil {
		return nil, nil
	}
	return p.pred(), nil
}
func (p *scriptPeer) GetSuccessors() ([]chord.VNode, error) {
	if p.gone != nil && p.gone() {
		return nil, chord.ErrNodeGone
	}
	return p.succs(), nil
}
func (p *scriptPeer) FindSuccessor(uint64) (chord.VNode, error)                     { return p, nil }
func (p *scriptPeer) FinishJoin(bool, bool) error                                   { return nil }
func (p *scriptPeer) RequestToJoin(chord.VNode) (chord.VNode, []chord.VNode, error) { return p.join() }

// overlapView is the membership between the node under test (A) and the rest
// of the ring: an optional node between A and head, and the nodes behind head.
type overlapView struct {
	mid    bool
	behind []chord.VNode
}

// overlappingStabilizeRounds: the membership near a real node A changes twice
// in quick succession while two or three stabilization rounds of A overlap
// (the periodic task and the advisory rounds triggered by FinishJoin and
// FinishLeave run concurrently in the real node): the round that started
// first still sees the older view, the others the final one. After a quiet
// period (three more rounds with nothing changing) A's successor list must be
// exactly its true successors in ring order. Returns the number of rounds run
// and of rounds in which the overlapping rounds really saw different views.
func overlappingStabilizeRounds(seed int64, rounds int, withLookups ...bool) (problem string, replay map[string]any, done, split int) {
	const (
		aID    = uint64(1000)
		midID  = uint64(1500)
		headID = uint64(2000)
	)
	rng := rand.New(rand.NewSource(seed))
	net := ringsim.New(ringsim.Config{Seed: seed, StabilizeInterval: time.Hour, FixFingerInterval: time.Hour, PredCheckInterval: time.Hour})
	// the net is not closed: stopping A would wait for its periodic tasks, which sleep for an
	// hour so that no unscripted stabilization round can straddle the quiet period
	a := net.Add(aID)
	var (
		cur   atomic.Pointer[overlapView] // what the ring answers right now
		final atomic.Pointer[overlapView]
		calls atomic.Int64
		flip  atomic.Int64 // head.GetSuccessors call after which the final view is visible
	)
	aSelf := net.Proxy(headID, aID)
	head := &scriptPeer{id: headID}
	tail := &scriptPeer{id: 900}
	listAfter := func(v *overlapView, includeHead bool) []chord.VNode {
		var l []chord.VNode
		if includeHead {
			l = append(l, head)
		}
		l = append(l, v.behind...)
		l = append(l, aSelf)
		if len(l) > chord.ExtendedSuccessorEntries {
			l = l[:chord.ExtendedSuccessorEntries]
		}
		return l
	}
	head.succs = func() []chord.VNode {
		v := cur.Load()
		if c := calls.Add(1); c == flip.Load() {
			cur.Store(final.Load())
		}
		return listAfter(v, false)
	}
	mid := &scriptPeer{id: midID}
	mid.succs = func() []chord.VNode { return listAfter(cur.Load(), true) }
	mid.pred = func() chord.VNode { return aSelf }
	mid.gone = func() bool { return !cur.Load().mid }
	head.pred = func() chord.VNode {
		if cur.Load().mid {
			return mid
		}
		return aSelf
	}
	next := uint64(3000)
	genView := func() *overlapView {
		v := &overlapView{}
		v.mid = rng.Intn(5) == 0
		for i, k := 0, 1+rng.Intn(3); i < k; i++ {
			next += 1 + uint64(rng.Intn(3))
			v.behind = append(v.behind, &scriptPeer{id: next})
		}
		return v
	}
	first := genView()
	cur.Store(first)
	final.Store(first)
	head.join = func() (chord.VNode, []chord.VNode, error) {
		return tail, chord.MakeSuccListByID(head, listAfter(first, false), chord.ExtendedSuccessorEntries), nil
	}
	tail.succs = func() []chord.VNode { return []chord.VNode{aSelf} }
	if err := a.Node.Join(head); err != nil {
		return "precondition: join: " + err.Error(), nil, 0, 0
	}
	want := func(v *overlapView) []uint64 {
		var ids []uint64
		if v.mid {
			ids = append(ids, midID)
		}
		ids = append(ids, headID)
		for _, b := range v.behind {
			ids = append(ids, b.ID())
		}
		ids = append(ids, aID)
		if len(ids) > chord.ExtendedSuccessorEntries {
			ids = ids[:chord.ExtendedSuccessorEntries]
		}
		return ids
	}
	// bounded by the round count; the wall-clock cap only keeps a loaded machine or the race
	// detector from eating the whole budget (the evidence reports the rounds actually run)
	// C09 runs the same stress with two goroutines that keep asking A for identifiers beyond its
	// successor (A has never repaired its fingers: no finger precedes them) while its successor
	// list is rewritten; a round that does not finish within 20 s is reported with the prefix
	// "lookup-hang:"
	var stopLookups atomic.Bool
	var lookups atomic.Int64
	if len(withLookups) > 0 && withLookups[0] {
		for g := 0; g < 2; g++ {
			go func(g int) {
				for k := uint64(0); !stopLookups.Load(); k++ {
					// (midID, headID]: beyond the successor whenever the node between A and head is a
					// member, and not preceded by any finger (they name head or nodes behind it);
					// every third lookup is for an identifier far beyond the whole neighbourhood
					key := midID + 1 + (k*7+uint64(g))%(headID-midID)
					if k%3 == 2 {
						key = (1<<40 + k*977) & ringMax
					}
					a.Node.FindSuccessor(key)
					lookups.Add(1)
				}
			}(g)
		}
		defer stopLookups.Store(true)
	}
	t0 := time.Now()
	for i := 0; i < rounds && (i%1024 != 0 || time.Since(t0) < 4*time.Minute); i++ {
		older, newer := genView(), genView()
		workers := 2 + rng.Intn(2)
		spins := make([]int, workers)
		for g := range spins {
			spins[g] = rng.Intn(64)
		}
		cur.Store(older)
		final.Store(newer)
		base := calls.Load()
		flip.Store(base + 1 + int64(rng.Intn(workers-1)))
		var (
			wg    sync.WaitGroup
			ready atomic.Int32
		)
		wg.Add(workers)
		for g := 0; g < workers; g++ {
			spin := spins[g]
			go func() {
				defer wg.Done()
				ready.Add(1)
				for int(ready.Load()) < workers {
					runtime.Gosched()
				}
				for s := 0; s < spin; s++ {
					_ = ready.Load()
				}
				a.Node.VerifStabilize()
			}()
		}
		if len(withLookups) > 0 && withLookups[0] {
			fin := make(chan struct{})
			go func() { wg.Wait(); close(fin) }()
			select {
			case <-fin:
			case <-time.After(20 * time.Second):
				n := lookups.Load()
				time.Sleep(500 * time.Millisecond)
				return fmt.Sprintf("lookup-hang: round %d: %d stabilization rounds of node %d did not finish within 20 s while two goroutines look up identifiers beyond its successor through it (lookups answered so far: %d, in the last 0.5 s: %d)", i, workers, aID, n, lookups.Load()-n),
					map[string]any{"seed": seed, "round": i, "lookups_answered": n}, done, split
			}
		} else {
			wg.Wait()
		}
		if calls.Load()-base >= flip.Load()-base+1 {
			split++
		}
		cur.Store(newer) // if a round skipped head (mid known), the change still becomes visible now
		var got []uint64
		quiet := func() {
			for q := 0; q < 3; q++ {
				a.Node.VerifStabilize()
			}
			got = vids(a.Node.VerifSuccessors())
		}
		if len(withLookups) > 0 && withLookups[0] {
			fin := make(chan struct{})
			go func() { quiet(); close(fin) }()
			select {
			case <-fin:
			case <-time.After(20 * time.Second):
				n := lookups.Load()
				time.Sleep(500 * time.Millisecond)
				return fmt.Sprintf("lookup-hang: round %d: the stabilization rounds of node %d after the membership change did not finish within 20 s while two goroutines look up identifiers beyond its successor through it (lookups answered so far: %d, in the last 0.5 s: %d)", i, aID, n, lookups.Load()-n),
					map[string]any{"seed": seed, "round": i, "lookups_answered": n}, done, split
			}
		} else {
			quiet()
		}
		done++
		exp := want(newer)
		if fmt.Sprint(got) != fmt.Sprint(exp) {
			replay = map[string]any{"seed": seed, "round": i, "workers": workers, "older_view": want(older), "final_view": exp, "got": got,
				"schedule": fmt.Sprintf("%d stabilization rounds of node %d overlap while the membership behind it changes from %v to %v; then three more rounds with nothing changing", workers, aID, want(older), exp)}
			return fmt.Sprintf("round %d: after the quiet period node %d lists successors %v, its true successors in ring order are %v (the overlapping rounds saw %v and then %v)", i, aID, got, exp, want(older), exp), replay, done, split
		}
	}
	return "", nil, done, split
}
