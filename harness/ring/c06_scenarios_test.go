package ring

import (
	"context"
	"fmt"
	"time"

	"go.miragespace.co/specter/spec/chord"
	"verifharness/internal/ringsim"
)

// leaveFailsLocallyAfterSuccessorGranted: L is the member with the largest id,
// so its successor N0 has the smaller id and L asks N0 for the leave lock
// before taking its own. While N0's grant is on its way back, a join request
// reaches L and takes L's membership lock; the joiner's release is held, so L
// is still locked when the grant arrives: the leave attempt fails at L itself,
// after the successor has granted. The attempt "fails cleanly": both touched
// nodes must return to serving (N0 must get its lock released), and all data
// stays readable.
func leaveFailsLocallyAfterSuccessorGranted() (problem string) {
	const (
		N0 = uint64(1) << 44
		P  = uint64(2) << 44
		J  = uint64(5) << 43
		L  = uint64(3) << 44
	)
	r := newSimRing(ringsim.Config{Seed: 60})
	defer r.net.Close()
	if err := r.buildRing([]uint64{N0, P, L}, func(i int) int { return 0 }); err != nil {
		return "precondition: " + err.Error()
	}
	if _, c := r.settle(60, true, nil); c.Problem != "" {
		return "precondition: " + c.Problem
	}
	r.fillLists(20)
	ctx := context.Background()
	want := map[string]string{}
	for i := 0; i < 30; i++ {
		k, v := fmt.Sprintf("granted-%d", i), fmt.Sprintf("v%d", i)
		if err := retryKV(func() error { return r.members[P].Node.Put(ctx, []byte(k), []byte(v)) }); err != nil {
			return "precondition: put: " + err.Error()
		}
		want[k] = v
	}
	grant := r.net.AddGate(&ringsim.Gate{Method: "RequestToLeave", Caller: L, Callee: N0, Nth: 1, After: true})
	leaveDone := make(chan struct{})
	go func() { r.members[L].Node.Leave(); close(leaveDone) }()
	select {
	case <-grant.Reached():
	case <-leaveDone:
		grant.Release()
		return "precondition: leave ended without asking the successor"
	case <-time.After(10 * time.Second):
		grant.Release()
		return "precondition: leave request not reached"
	}
	release := r.net.AddGate(&ringsim.Gate{Method: "FinishJoin", Arg: "release", Caller: J, Callee: L, Nth: 1})
	joined := make(chan error, 1)
	go func() { _, err := r.join(J, L); joined <- err }()
	select {
	case <-release.Reached():
	case err := <-joined:
		grant.Release()
		release.Release()
		<-leaveDone
		return fmt.Sprintf("precondition: join ended before releasing the lock: %v", err)
	case <-time.After(10 * time.Second):
		grant.Release()
		release.Release()
		return "precondition: join did not get the lock of the leaving node"
	}
	if st := r.members[L].Node.VerifState(); st != chord.Transferring {
		grant.Release()
		release.Release()
		<-leaveDone
		<-joined
		return "precondition: leaving node is " + st.String() + ", not locked by the join"
	}
	grant.Release() // the successor's grant arrives at a node that is locked by the join
	select {
	case <-leaveDone:
	case <-time.After(500 * time.Millisecond):
	}
	release.Release()
	if err := <-joined; err != nil {
		return "precondition: join failed: " + err.Error()
	}
	select {
	case <-leaveDone:
	case <-time.After(60 * time.Second):
		return "Leave() did not return"
	}
	if _, c := r.settle(80, false, nil, true); c.Problem != "" {
		if problemClass(c.Problem) == "state-not-active" {
			return fmt.Sprintf("after a leave attempt of %d that its successor %d had granted but that failed at %d itself (locked by a join): %s", L, N0, L, c.Problem)
		}
		return "precondition: not converged after the schedule: " + c.Problem
	}
	for _, m := range r.live() {
		for k, v := range want {
			var got []byte
			err := retryKV(func() (e error) { got, e = m.Node.Get(ctx, []byte(k)); return })
			if err != nil || string(got) != v {
				return fmt.Sprintf("Get(%q) via %d = %q, %v; want %q (members %v)", k, m.ID, got, err, v, liveIDs(r.live()))
			}
		}
	}
	return ""
}

// refusedJoinLeavesNodeServing: a join racing the graceful leave of the
// successor's predecessor. L leaves; S notices (predecessor check) that L is
// gone and has no predecessor until P's next stabilize notifies it; J's join
// requests reach S in that window and are refused (retryably). The property:
// a refused attempt leaves the touched node serving - S must be Active again
// after every refusal, the join eventually succeeds (or fails retryably), and
// after quiescence everybody is Active and serves.
func refusedJoinLeavesNodeServing() (problem string, refusals int) {
	const (
		P = uint64(1) << 44
		L = uint64(2) << 44
		J = uint64(5) << 43
		S = uint64(3) << 44
	)
	r := newSimRing(ringsim.Config{Seed: 47, KeepLog: true, StabilizeInterval: 300 * time.Millisecond, FixFingerInterval: 300 * time.Millisecond, PredCheckInterval: 300 * time.Millisecond})
	defer r.net.Close()
	if err := r.buildRing([]uint64{P, L, S}, func(i int) int { return 0 }); err != nil {
		return "precondition: " + err.Error(), 0
	}
	if _, c := r.settle(60, true, nil); c.Problem != "" {
		return "precondition: " + c.Problem, 0
	}
	r.fillLists(20)
	leaveDone := make(chan struct{})
	go func() { r.members[L].Node.Leave(); close(leaveDone) }()
	defer func() { <-leaveDone }()
	for i := 0; i < 200000 && r.members[L].Node.VerifState() != chord.Left; i++ {
		time.Sleep(50 * time.Microsecond)
	}
	for i := 0; i < 200000 && r.members[S].Node.VerifState() != chord.Active; i++ {
		time.Sleep(50 * time.Microsecond)
	}
	if r.members[L].Node.VerifState() != chord.Left || r.members[S].Node.VerifState() != chord.Active {
		return "precondition: leave did not complete", 0
	}
	// S detects that its predecessor is gone
	r.members[S].Node.VerifCheckPredecessor()
	if r.members[S].Node.VerifPredecessor() != nil {
		return "precondition: predecessor pointer not dropped", 0
	}
	// P learns that L is gone (its successor becomes S), but its notification to S is still
	// in flight: S has no predecessor while lookups for J's id already resolve to S
	gate := r.net.AddGate(&ringsim.Gate{Method: "Notify", Caller: P, Callee: S, Nth: 1})
	stabDone := make(chan struct{})
	go func() { r.members[P].Node.VerifStabilize(); close(stabDone) }()
	select {
	case <-gate.Reached():
	case <-stabDone:
		return "precondition: P did not notify S", 0
	case <-time.After(10 * time.Second):
		return "precondition: notify gate not reached", 0
	}
	defer func() { gate.Release(); <-stabDone }()
	if s := r.members[P].Node.VerifSuccessors(); len(s) == 0 || s[0].ID() != S {
		return fmt.Sprintf("precondition: P's successor is %v", vids(s)), 0
	}
	if r.members[S].Node.VerifPredecessor() != nil {
		return "precondition: predecessor pointer restored too early", 0
	}
	// first request in the window: must be refused retryably and leave S Active
	_, _, err := r.net.Proxy(J, S).RequestToJoin(r.net.Proxy(S, J))
	gate.Release()
	if err == nil {
		return "precondition: join request was not refused in the window", 0
	}
	refusals++
	if !chord.ErrorIsRetryable(err) {
		return fmt.Sprintf("join request to a node without predecessor refused non-retryably: %v", err), refusals
	}
	if st := r.members[S].Node.VerifState(); st != chord.Active {
		return fmt.Sprintf("node %d is %s right after refusing a join request (must keep serving)", S, st), refusals
	}
	// the real Join (with its retry loop) must get through once stabilization has caught up
	_, jerr := r.join(J, S)
	if jerr != nil && !chord.ErrorIsRetryable(jerr) {
		return fmt.Sprintf("Join(%d via %d) failed non-retryably: %v", J, S, jerr), refusals
	}
	if _, c := r.settle(80, false, nil, true); c.Problem != "" {
		if problemClass(c.Problem) == "state-not-active" {
			return "after the refused attempt: " + c.Problem, refusals
		}
		return "precondition: not converged after the schedule: " + c.Problem, refusals
	}
	ctx := context.Background()
	for i, m := range r.live() {
		key := []byte(fmt.Sprintf("c06s-%d", i))
		if err := retryKV(func() error { return m.Node.Put(ctx, key, []byte("v")) }); err != nil {
			return fmt.Sprintf("Put via %d after the refused attempt: %v", m.ID, err), refusals
		}
	}
	return "", refusals
}
