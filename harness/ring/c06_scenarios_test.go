package ring

import (
	"context"
	"fmt"
	"time"

	"go.miragespace.co/specter/spec/chord"
	"verifharness/internal/ringsim"
)

// refusedJoinLeavesNodeServing: a join racing the graceful leave of the
// successor's predecessor. L leaves; S notices (predecessor check) that L is
// gone and has no predecessor until P's next stabilize notifies it; J's join
// requests reach S in that window and are refused (retryably). The property:
// a refused attempt leaves the touched node serving - S must be Active again
// after every refusal, the join eventually succeeds (or fails retryably), and
// after quiescence everybody is Active and serves.
func refusedJoinLeavesNodeServing() (problem string, refusals int) {
	const (
		P = uint64(1) << 44
		L = uint64(2) << 44
		J = uint64(5) << 43
		S = uint64(3) << 44
	)
	r := newSimRing(ringsim.Config{Seed: 47, KeepLog: true, StabilizeInterval: 300 * time.Millisecond, FixFingerInterval: 300 * time.Millisecond, PredCheckInterval: 300 * time.Millisecond})
	defer r.net.Close()
	if err := r.buildRing([]uint64{P, L, S}, func(i int) int { return 0 }); err != nil {
		return "precondition: " + err.Error(), 0
	}
	if _, c := r.settle(60, true, nil); c.Problem != "" {
		return "precondition: " + c.Problem, 0
	}
	r.fillLists(20)
	leaveDone := make(chan struct{})
	go func() { r.members[L].Node.Leave(); close(leaveDone) }()
	defer func() { <-leaveDone }()
	for i := 0; i < 200000 && r.members[L].Node.VerifState() != chord.Left; i++ {
		time.Sleep(50 * time.Microsecond)
	}
	for i := 0; i < 200000 && r.members[S].Node.VerifState() != chord.Active; i++ {
		time.Sleep(50 * time.Microsecond)
	}
	if r.members[L].Node.VerifState() != chord.Left || r.members[S].Node.VerifState() != chord.Active {
		return "precondition: leave did not complete", 0
	}
	// S detects that its predecessor is gone
	r.members[S].Node.VerifCheckPredecessor()
	if r.members[S].Node.VerifPredecessor() != nil {
		return "precondition: predecessor pointer not dropped", 0
	}
	// P learns that L is gone (its successor becomes S), but its notification to S is still
	// in flight: S has no predecessor while lookups for J's id already resolve to S
	gate := r.net.AddGate(&ringsim.Gate{Method: "Notify", Caller: P, Callee: S, Nth: 1})
	stabDone := make(chan struct{})
	go func() { r.members[P].Node.VerifStabilize(); close(stabDone) }()
	select {
	case <-gate.Reached():
	case <-stabDone:
		return "precondition: P did not notify S", 0
	case <-time.After(10 * time.Second):
		return "precondition: notify gate not reached", 0
	}
	defer func() { gate.Release(); <-stabDone }()
	if s := r.members[P].Node.VerifSuccessors(); len(s) == 0 || s[0].ID() != S {
		return fmt.Sprintf("precondition: P's successor is %v", vids(s)), 0
	}
	if r.members[S].Node.VerifPredecessor() != nil {
		return "precondition: predecessor pointer restored too early", 0
	}
	// first request in the window: must be refused retryably and leave S Active
	_, _, err := r.net.Proxy(J, S).RequestToJoin(r.net.Proxy(S, J))
	gate.Release()
	if err == nil {
		return "precondition: join request was not refused in the window", 0
	}
	refusals++
	if !chord.ErrorIsRetryable(err) {
		return fmt.Sprintf("join request to a node without predecessor refused non-retryably: %v", err), refusals
	}
	if st := r.members[S].Node.VerifState(); st != chord.Active {
		return fmt.Sprintf("node %d is %s right after refusing a join request (must keep serving)", S, st), refusals
	}
	// the real Join (with its retry loop) must get through once stabilization has caught up
	_, jerr := r.join(J, S)
	if jerr != nil && !chord.ErrorIsRetryable(jerr) {
		return fmt.Sprintf("Join(%d via %d) failed non-retryably: %v", J, S, jerr), refusals
	}
	if _, c := r.settle(80, false, nil, true); c.Problem != "" {
		if problemClass(c.Problem) == "state-not-active" {
			return "after the refused attempt: " + c.Problem, refusals
		}
		return "precondition: not converged after the schedule: " + c.Problem, refusals
	}
	ctx := context.Background()
	for i, m := range r.live() {
		key := []byte(fmt.Sprintf("c06s-%d", i))
		if err := retryKV(func() error { return m.Node.Put(ctx, key, []byte("v")) }); err != nil {
			return fmt.Sprintf("Put via %d after the refused attempt: %v", m.ID, err), refusals
		}
	}
	return "", refusals
}
