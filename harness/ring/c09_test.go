package ring

import (
	"bufio"
	"bytes"
	"encoding/json"
	"fmt"
	"os"
	"os/exec"
	"runtime/debug"
	"strings"
	"sync"
	"testing"
	"time"

	"go.miragespace.co/specter/spec/chord"
	"verifharness/internal/ev"
	"verifharness/internal/ringsim"

	"pgregory.net/rapid"
)

// C09: lookups terminate in every state reachable by the join protocol.
// A Go stack overflow is fatal (not a panic), so every case runs in a child
// process (DESIGN §2 M4) that journals each lookup before issuing it.

type c09Case struct {
	IDs    []uint64 `json:"ids"`
	Vias   []int    `json:"vias"`
	Joiner uint64   `json:"joiner"`
	Via    int      `json:"via"`
	Hook   string   `json:"hook"` // joiner-first-stabilize | joiner-outgoing-lookup | before-finish-join | pred-outgoing-lookup | none
	Nth    int      `json:"nth"`
	Keys   []uint64 `json:"keys"`
	KeyRel []int    `json:"key_rel"` // offsets relative to neighbour ids
}

const c09Env = "VERIF_C09_CASE"

type c09Lookup struct {
	I     int    `json:"i"`
	Phase string `json:"phase"`
	Node  uint64 `json:"node"`
	Key   uint64 `json:"key"`
	NT    bool   `json:"nt"`
}

func TestC09Child(t *testing.T) {
	raw := os.Getenv(c09Env)
	if raw == "" {
		t.Skip("child only")
	}
	var cs c09Case
	if err := json.Unmarshal([]byte(raw), &cs); err != nil {
		fmt.Println("CHILD-ERROR bad case", err)
		os.Exit(3)
	}
	// unbounded recursion should exhaust the stack quickly instead of grinding through the
	// default 1 GB limit; no legitimate lookup needs anywhere near 64 MB of stack
	// (in the simulator every hop runs on its own goroutine, so a legitimate lookup uses a few KB;
	// 8 MB is reached by self-recursion within ~100 ms, before a periodic finger repair can end it)
	debug.SetMaxStack(8 << 20)
	out := bufio.NewWriter(os.Stdout)
	say := func(format string, args ...any) {
		fmt.Fprintf(out, format+"\n", args...)
		out.Flush()
	}
	// a lookup has to return by itself: the transport's give-up timer is set beyond the 20 s
	// budget of a lookup, so that a lookup which only ever ends because a forwarded call timed
	// out (lock cycle, wait for a state change) is seen as what it is - one that does not return
	cfg := ringsim.Config{Seed: int64(cs.Joiner) + 5, RPCTimeout: time.Minute}
	if cs.Hook == "crossing-lookups-during-joins" {
		// forwarded calls spend up to 1.5 ms on the wire, so that lookups really are in flight
		// in both directions when the joins make the nodes update their pointers (on an idle
		// machine an in-process hop takes microseconds and the window all but vanishes)
		cfg.MaxDelay, cfg.DelayProb = 1500*time.Microsecond, 0.6
	}
	if cs.Hook == "pred-stabilized-fingers-stale" || cs.Hook == "pred-stabilized-fingers-stale-joiner-crashes" {
		// nobody repairs fingers on its own while the state is being probed
		cfg.FixFingerInterval = 1500 * time.Millisecond
		cfg.StabilizeInterval = 1500 * time.Millisecond
	}
	r := newSimRing(cfg)
	if err := r.buildRing(cs.IDs, func(i int) int { return cs.Vias[i] }); err != nil {
		say("PRECOND build-failed %v", err)
		return
	}
	if _, c := r.settle(60, true, nil); c.Problem != "" {
		say("PRECOND not-converged %s", c.Problem)
		return
	}
	sorted := sortedIDs(cs.IDs)
	if cs.Hook == "crossing-lookups-during-joins" && len(sorted) >= 4 {
		// X forwards lookups to Y and Y forwards lookups to X (neither is the other's neighbour)
		// while joins at X and at Y make both nodes update their predecessor pointers
		X, Xs, Y, Ys := sorted[0], sorted[1], sorted[2], sorted[3]
		mid := func(a, b uint64) uint64 { return (a + ((b-a)&ringMax)/2) & ringMax }
		kx, ky := mid(Y, Ys), mid(X, Xs) // looked up at X resp. at Y
		done := make(chan string, 8)
		nodes := map[uint64]*ringsim.Member{X: r.members[X], Y: r.members[Y]} // (joins write r.members concurrently)
		worker := func(node, key uint64, n int) {
			m := nodes[node]
			for i := 0; i < n; i++ {
				if _, err := m.Node.FindSuccessor(key); err != nil {
					done <- "err:" + err.Error()
					return
				}
			}
			done <- "ok"
		}
		for round := 0; round < 10; round++ {
			b, _ := json.Marshal(c09Lookup{I: round + 1, Phase: "crossing-lookups-during-joins", Node: X, Key: kx, NT: true})
			say("LOOKUP %s", b)
			go worker(X, kx, 400)
			go worker(Y, ky, 400)
			go worker(X, kx, 400)
			go worker(Y, ky, 400)
			// two joiners, one just before X and one just before Y
			// (ids increase towards X resp. Y, so X resp. Y stays the successor that has to grant)
			j1, j2 := (X-1000+uint64(round))&ringMax, (Y-1000+uint64(round))&ringMax
			joins := make(chan error, 2)
			go func() { _, err := r.join(j1, Ys); joins <- err }()
			go func() { _, err := r.join(j2, Xs); joins <- err }()
			deadline := time.After(25 * time.Second)
			for got := 0; got < 6; {
				select {
				case <-done:
					got++
				case <-joins:
					got++
				case <-deadline:
					say("HANG %d", round+1)
					os.Exit(0)
				}
			}
			say("DONE %d ok", round+1)
		}
		r.net.Close()
		say("END")
		return
	}
	succID := ownerOf(sorted, cs.Joiner)
	predID := sorted[(idxOf(sorted, succID)-1+len(sorted))%len(sorted)]

	var gate *ringsim.Gate
	switch cs.Hook {
	case "join-request-outstanding":
		// the joiner has asked to join and has not been answered yet: state Joining, no
		// neighbours known - a lookup issued to it now must come back (with an error)
		gate = r.net.AddGate(&ringsim.Gate{Method: "RequestToJoin", Caller: cs.Joiner, AnyCallee: true, Nth: 1})
	case "joiner-first-stabilize":
		gate = r.net.AddGate(&ringsim.Gate{Method: "GetPredecessor", Caller: cs.Joiner, AnyCallee: true, Nth: 1})
	case "joiner-outgoing-lookup":
		gate = r.net.AddGate(&ringsim.Gate{Method: "FindSuccessor", Caller: cs.Joiner, AnyCallee: true, Nth: cs.Nth})
	case "before-finish-join":
		gate = r.net.AddGate(&ringsim.Gate{Method: "FinishJoin", Caller: cs.Joiner, AnyCallee: true, Nth: 1})
	case "pred-outgoing-lookup":
		gate = r.net.AddGate(&ringsim.Gate{Method: "FindSuccessor", Caller: predID, AnyCallee: true, Nth: cs.Nth})
	case "pred-stabilized-fingers-stale", "pred-stabilized-fingers-stale-joiner-crashes":
		// the joiner's advisory to its predecessor is still on its way when the predecessor's
		// own periodic stabilize adopts the joiner: successor new, finger table old
		// (second variant: the joiner then crash-stops before the advisory ever arrives, and the
		// predecessor's successor list starts with a node that no longer answers)
		gate = r.net.AddGate(&ringsim.Gate{Method: "FinishJoin", Arg: "stabilize", Caller: cs.Joiner, Callee: predID, Nth: 1})
	}

	// candidate keys: generated absolute keys plus offsets around the neighbours
	keys := append([]uint64{}, cs.Keys...)
	anchors := []uint64{cs.Joiner, succID, predID}
	for i, off := range cs.KeyRel {
		keys = append(keys, (anchors[i%len(anchors)]+uint64(int64(off)))&ringMax)
	}

	li := 0
	lookups := func(phase string) {
		targets := []uint64{cs.Joiner, predID, succID}
		for _, id := range sorted {
			if id != predID && id != succID {
				targets = append(targets, id)
			}
		}
		for _, tid := range targets {
			m := r.members[tid]
			if m == nil {
				continue
			}
			st := m.Node.VerifState()
			if st == chord.Inactive || st == chord.Left || m.Crashed() {
				continue
			}
			for _, k := range keys {
				// non-trivial: node has >= 1 nil finger and key outside (pred,self] U (self,succ]
				nilFinger := false
				for f := 1; f <= chord.MaxFingerEntries; f++ {
					if m.Node.VerifFinger(f) == nil {
						nilFinger = true
						break
					}
				}
				outside := true
				if p := m.Node.VerifPredecessor(); p != nil && chord.Between(p.ID(), k, tid, true) {
					outside = false
				}
				if s := m.Node.VerifSuccessors(); len(s) > 0 && chord.Between(tid, k, s[0].ID(), true) {
					outside = false
				}
				li++
				b, _ := json.Marshal(c09Lookup{I: li, Phase: phase, Node: tid, Key: k, NT: nilFinger && outside})
				say("LOOKUP %s", b)
				done := make(chan string, 1)
				go func() {
					res, err := m.Node.FindSuccessor(k)
					switch {
					case err != nil:
						done <- "err:" + err.Error()
					case res == nil:
						done <- "nil"
					default:
						done <- fmt.Sprint(res.ID())
					}
				}()
				select {
				case res := <-done:
					say("DONE %d %s", li, res)
				case <-time.After(20 * time.Second):
					say("HANG %d", li)
					os.Exit(0)
				}
			}
		}
	}

	joinDone := make(chan error, 1)
	go func() {
		_, err := r.join(cs.Joiner, cs.IDs[cs.Via%len(cs.IDs)])
		joinDone <- err
	}()
	if gate != nil {
		select {
		case <-gate.Reached():
			say("GATE reached")
			if cs.Hook == "pred-stabilized-fingers-stale" || cs.Hook == "pred-stabilized-fingers-stale-joiner-crashes" {
				r.members[predID].Node.VerifStabilize()
				p := r.members[predID].Node
				f1 := uint64(0)
				if f := p.VerifFinger(1); f != nil {
					f1 = f.ID()
				}
				say("STATE pred=%d successors=%v finger1=%d", predID, vids(p.VerifSuccessors()), f1)
			}
			lookups("at-gate:" + cs.Hook)
			if cs.Hook == "pred-stabilized-fingers-stale-joiner-crashes" {
				// the joiner dies with its advisory still undelivered; its predecessor notices
				// through its predecessor check where the joiner was its predecessor too (rings of
				// one); the finger table is as stale as before, the head of the successor list is dead
				if jm := r.members[cs.Joiner]; jm != nil {
					go r.net.Crash(jm)
					time.Sleep(5 * time.Millisecond)
				}
				for _, id := range sorted {
					r.members[id].Node.VerifCheckPredecessor()
				}
				p := r.members[predID].Node
				say("STATE-AFTER-CRASH pred=%d successors=%v predecessor=%v", predID, vids(p.VerifSuccessors()), p.VerifPredecessor() != nil)
				lookups("at-gate:joiner-crashed")
				gate.Release()
				say("JOIN abandoned (joiner crashed)")
				r.net.Close()
				say("END")
				return
			}
			gate.Release()
		case err := <-joinDone:
			say("GATE not-reached join=%v", err)
			// disarm: otherwise one of the harness's own lookups below could be the call that
			// reaches the gate and would then wait for ever
			gate.Release()
			joinDone <- err
		case <-time.After(5 * time.Second):
			say("GATE timeout")
			gate.Release()
		}
	}
	// while the join completes and the background tasks repair the fingers
	lookups("during-repair")
	select {
	case err := <-joinDone:
		say("JOIN %v", err)
	case <-time.After(30 * time.Second):
		say("PRECOND join-did-not-return")
	}
	lookups("after-join")
	r.net.Close()
	say("END")
}

func TestC09(t *testing.T) {
	rec := ev.New(t, "C09")
	rec.Rule("rapid-generated ring (1..4 real LocalNodes, adversarial id layouts) plus a joiner; the join is stopped at a generated hook point by a gate in the RPC proxy (joiner's first stabilize call = neighbours known, all fingers nil; the joiner's k-th outgoing finger lookup; just before FinishJoin; the predecessor's k-th outgoing finger lookup; the predecessor having adopted the joiner through its own stabilize while the joiner's advisory is still in flight = successor new, finger table stale) and FindSuccessor is issued to the joiner, its neighbours and every other node for generated keys (uniform plus neighbour ids +/- small offsets), again while fingers are being repaired and after the join. Each case runs in a child process that journals every lookup before issuing it. Stress tier: two goroutines look up identifiers beyond the successor through ONE real node that never repaired its fingers while 2-3 overlapping stabilization rounds per round rewrite its successor list (30000 rounds, thorough 400000; a round that does not finish within 20 s is a violation). Oracle: every lookup returns a node or an error; the child does not die of stack exhaustion; no lookup is pending for 20 s. A sub-case is one lookup; non-trivial: issued to a node with >= 1 nil finger for a key outside (pred,self] and (self,succ]. Distinct = (ring, joiner, hook, node, key).")
	rec.Assume("child processes that fail for reasons other than the lookup (build/convergence preconditions) are inconclusive")
	self := os.Args[0]
	var mu sync.Mutex
	runCase := func(t tfail, cs c09Case) {
		raw, _ := json.Marshal(cs)
		cmd := exec.Command(self, "-test.run", "^TestC09Child$", "-test.timeout", "300s")
		cmd.Env = append(os.Environ(), c09Env+"="+string(raw))
		var stdout, stderr bytes.Buffer
		cmd.Stdout, cmd.Stderr = &stdout, &stderr
		err := cmd.Run()
		mu.Lock()
		defer mu.Unlock()
		var last *c09Lookup
		doneSet := map[int]bool{}
		hang, looped := -1, -1
		precond := ""
		lookups := []c09Lookup{}
		for _, line := range strings.Split(stdout.String(), "\n") {
			switch {
			case strings.HasPrefix(line, "LOOKUP "):
				var l c09Lookup
				if json.Unmarshal([]byte(line[7:]), &l) == nil {
					lookups = append(lookups, l)
					last = &lookups[len(lookups)-1]
				}
			case strings.HasPrefix(line, "DONE "):
				var i int
				fmt.Sscanf(line, "DONE %d", &i)
				doneSet[i] = true
				if strings.Contains(line, "routing loop") {
					// every hop of the simulator runs on its own goroutine, so a lookup that forwards
					// itself for ever does not exhaust a stack: it is cut off after 5000 hops in flight.
					// No lookup in a ring of at most five nodes needs more than a few dozen.
					looped = i
				}
			case strings.HasPrefix(line, "HANG "):
				fmt.Sscanf(line, "HANG %d", &hang)
			case strings.HasPrefix(line, "PRECOND "):
				precond = line
			}
		}
		for _, l := range lookups {
			if !doneSet[l.I] {
				continue
			}
			rec.Case(l.NT, fmt.Sprintf("%v|%d|%s|%d|%d|%s", cs.IDs, cs.Joiner, cs.Hook, l.Node, l.Key, l.Phase), func() any {
				return map[string]any{"ring": cs.IDs, "joiner": cs.Joiner, "hook": cs.Hook, "nth": cs.Nth, "lookup": l}
			}, "hook:"+cs.Hook, "phase:"+strings.SplitN(l.Phase, ":", 2)[0])
		}
		all := stdout.String() + stderr.String()
		if strings.Contains(all, "stack overflow") || strings.Contains(all, "goroutine stack exceeds") {
			doc := map[string]any{"case": cs, "last_lookup": last, "stderr_head": head(stderr.String(), 1500)}
			rec.Fail(t, "lookup-unbounded-recursion", doc, "child died of stack exhaustion during lookup %+v (ring %v, joiner %d, hook %s)", last, cs.IDs, cs.Joiner, cs.Hook)
		}
		if hang >= 0 {
			rec.Fail(t, "lookup-did-not-terminate", map[string]any{"case": cs, "lookup": last}, "lookup %+v still pending after 20 s", last)
		}
		if looped >= 0 {
			var ll *c09Lookup
			for i := range lookups {
				if lookups[i].I == looped {
					ll = &lookups[i]
				}
			}
			rec.Fail(t, "lookup-forwarded-without-end", map[string]any{"case": cs, "lookup": ll}, "lookup %+v in a ring of %d nodes was forwarded until 5000 hops were in flight and only ended because the transport cut it off", ll, len(cs.IDs)+1)
		}
		if err != nil {
			if strings.Contains(all, "panic:") && strings.Contains(all, "/chord/") {
				rec.Fail(t, "lookup-panics", map[string]any{"case": cs, "last_lookup": last, "stderr_head": head(all, 3000)}, "child panicked during lookup %+v", last)
			}
			t.Fatalf("child failed for an unrelated reason: %v\n%s", err, head(all, 3000))
		}
		if precond != "" {
			rec.Inconclusive(strings.Fields(precond)[1])
		}
	}
	for _, cs := range c09Regressions {
		runCase(t, cs)
	}
	// stress tier: lookups through a node that has never repaired its fingers, for identifiers
	// beyond its successor, in a tight loop while its successor list is rewritten by overlapping
	// stabilization rounds (one real node between scripted neighbours, see c02_overlap_test.go)
	{
		p, replay, done, _ := overlappingStabilizeRounds(ev.ShardSeed()+9, ev.Pick(30000, 400000), true)
		rec.Add("lookup_stress_rounds", int64(done))
		switch {
		case strings.HasPrefix(p, "lookup-hang:"):
			rec.Fail(t, "lookup-did-not-terminate", replay, "%s", p)
		case strings.HasPrefix(p, "precondition:"):
			rec.Inconclusive("stress-precondition")
		default:
			// a successor-list mismatch after the quiet period is C02's business and reported there
			d := done
			rec.Case(true, "stress:lookups-while-successor-list-is-rewritten", func() any {
				return map[string]any{"scenario": "two goroutines look up identifiers beyond the successor through a node with unrepaired fingers while 2-3 stabilization rounds overlap and rewrite its successor list", "rounds": d}
			}, "stress:lookups-while-successor-list-is-rewritten")
		}
	}
	ev.RapidCheck(t, 12, 240, func(t *rapid.T) {
		ids := genLayoutIDs(1, 4).Draw(t, "ids")
		cs := c09Case{
			IDs:    ids,
			Vias:   rapid.SliceOfN(rapid.IntRange(0, 1<<20), len(ids), len(ids)).Draw(t, "vias"),
			Via:    rapid.IntRange(0, 3).Draw(t, "via"),
			Hook:   rapid.SampledFrom([]string{"join-request-outstanding", "joiner-first-stabilize", "joiner-first-stabilize", "joiner-outgoing-lookup", "before-finish-join", "pred-outgoing-lookup", "pred-stabilized-fingers-stale", "pred-stabilized-fingers-stale", "pred-stabilized-fingers-stale-joiner-crashes", "none"}).Draw(t, "hook"),
			Nth:    rapid.IntRange(1, 60).Draw(t, "nth"),
			Keys:   rapid.SliceOfN(rapid.Uint64Range(0, ringMax), 3, 3).Draw(t, "keys"),
			KeyRel: rapid.SliceOfN(rapid.IntRange(-3, 3), 6, 6).Draw(t, "keyRel"),
		}
		// joiner: distinct from the members; biased to sit next to a member
		exist := map[uint64]bool{}
		for _, id := range ids {
			exist[id] = true
		}
		j := rapid.OneOf(rapid.Uint64Range(0, ringMax),
			rapid.Custom(func(t *rapid.T) uint64 {
				return (ids[rapid.IntRange(0, len(ids)-1).Draw(t, "near")] + uint64(int64(rapid.IntRange(-50, 50).Draw(t, "d")))) & ringMax
			})).Draw(t, "joiner")
		for exist[j] {
			j = (j + 1) & ringMax
		}
		cs.Joiner = j
		runCase(t, cs)
	})
}

// c09Regressions: minimal failing cases found by this check on earlier trees.
var c09Regressions = []c09Case{
	// joiner 250 into {100,200,300}: neighbours assigned, fingers nil, lookup of 50 recursed for ever
	{IDs: []uint64{100, 200, 300}, Vias: []int{0, 0, 0}, Joiner: 250, Via: 0, Hook: "joiner-first-stabilize", Nth: 1, Keys: []uint64{50}, KeyRel: []int{0, 1, -1}},
	// fixed scenario: predecessor 200 has adopted joiner 250 (successor new) while its finger table
	// still points at 300; keys just behind the joiner are preceded by no finger
	{IDs: []uint64{100, 200, 300}, Vias: []int{0, 0, 0}, Joiner: 250, Via: 0, Hook: "pred-stabilized-fingers-stale", Nth: 1, Keys: []uint64{251, 260, 299}, KeyRel: []int{1, 1, 1, 2, 2, 2}},
	{IDs: []uint64{1 << 40, 1 << 47}, Vias: []int{0, 0}, Joiner: 1 << 44, Via: 1, Hook: "pred-stabilized-fingers-stale", Nth: 1, Keys: []uint64{1<<44 + 1, 1 << 46}, KeyRel: []int{1, -1, 1, 3, 2, 2}},
	// fixed scenario: two non-adjacent nodes forward lookups to each other while joins update
	// the predecessor pointers of both (lookups must not depend on locks held across a hop)
	{IDs: []uint64{1 << 44, 5 << 44, 9 << 44, 13 << 44}, Vias: []int{0, 0, 0, 0}, Joiner: 3 << 44, Via: 0, Hook: "crossing-lookups-during-joins", Nth: 1, Keys: []uint64{1}, KeyRel: []int{0}},
	// (a second layout and delay seed: the window depends on how the machine schedules the hops)
	{IDs: []uint64{2 << 44, 6 << 44, 10 << 44, 14 << 44}, Vias: []int{0, 1, 0, 2}, Joiner: 4 << 44, Via: 0, Hook: "crossing-lookups-during-joins", Nth: 1, Keys: []uint64{1}, KeyRel: []int{0}},
	// fixed scenario: the joiner's request to join has not been answered yet (state Joining, no
	// neighbours); lookups issued to it must come back instead of waiting for the join
	{IDs: []uint64{100, 200, 300}, Vias: []int{0, 0, 0}, Joiner: 250, Via: 0, Hook: "join-request-outstanding", Nth: 1, Keys: []uint64{50, 251}, KeyRel: []int{0, 1, -1}},
	// fixed scenarios: a single node (and a pair) adopted the joiner through its own stabilize,
	// its fingers still all point at itself, and the joiner crash-stops: successor list
	// [joiner (dead), self], predecessor dropped; keys between the joiner and the node
	{IDs: []uint64{12 << 44}, Vias: []int{0}, Joiner: 4 << 44, Via: 0, Hook: "pred-stabilized-fingers-stale-joiner-crashes", Nth: 1, Keys: []uint64{8 << 44, 5 << 44, 12<<44 - 1}, KeyRel: []int{1, 1, 1}},
	{IDs: []uint64{12 << 44, 14 << 44}, Vias: []int{0, 0}, Joiner: 4 << 44, Via: 0, Hook: "pred-stabilized-fingers-stale-joiner-crashes", Nth: 1, Keys: []uint64{8 << 44, 5 << 44, 13 << 44}, KeyRel: []int{1, 1, 1}},
}

func head(s string, n int) string {
	if len(s) > n {
		return s[:n]
	}
	return s
}
