package ring

import (
	"fmt"
	"testing"
	"time"

	"go.miragespace.co/specter/spec/chord"
	"verifharness/internal/ringsim"

	"verifharness/internal/ev"

	"pgregory.net/rapid"
)

// C02: ring pointers converge to the true ring order after membership churn.
func TestC02(t *testing.T) {
	rec := ev.New(t, "C02")
	rec.Rule("rapid-generated churn history on real LocalNodes in the ring simulator: initial ring of 1..4 nodes (thorough ..8) with adversarial id layouts, 1..4 phases each launching 1..4 membership actions CONCURRENTLY (join of a fresh id - uniform or adjacent to a known id - through a generated member; graceful Leave of a generated member, never the last), seeded per-call proxy delays (0/200us/2ms, on 0/30/80% of calls), optional partial settling between phases. Membership at the end is taken from observed outcomes (Join returned nil; state Left). Quiet period = up to 60 synchronous maintenance rounds. Oracle per remaining node: predecessor = true predecessor; successor list non-empty, head = true successor, member entries are the consecutive true successors in order, no departed node in the list when more than 4 members remain; all 48 fingers = owner(id+2^(k-1)). Non-trivial: some phase ran a join and a leave concurrently or two actions on adjacent ring positions. Distinct = distinct plans.")
	rec.Assume("departed nodes in the tail of a successor list are tolerated (counted) when at most 4 members remain (observation O1 in DESIGN.md: the statement speaks of true successors in ring order, which still holds for the member entries)",
		"the schedule inside one function is left to the Go scheduler; the proxy owns the schedule points at every inter-node call")
	if ev.Known("C02", sigOrphan) {
		// the witness needs both leaves to finish before the survivor's next periodic round
		// (2 s); on a heavily loaded machine one attempt can be too slow
		w := false
		for i := 0; i < 4 && !w; i++ {
			w = c02OrphanWitness()
		}
		rec.Witnessed(sigOrphan, w)
	}
	// scenario tier: the only member is asked to leave while the first join holds its lock
	if p := soleMemberLeavesDuringFirstJoin(); p != "" {
		if len(p) > 13 && p[:13] == "precondition:" {
			rec.Inconclusive("scenario-precondition")
			t.Logf("sole-member-leaves scenario: %s", p)
		} else {
			rec.Fail(t, "not-converged-after-leave-during-first-join", map[string]any{"schedule": "ring {2<<44}; 1<<44 joins, its advisory FinishJoin(stabilize) to 2<<44 is held on the wire (2<<44: predecessor = joiner, successor = itself, membership lock held by the join); Leave() of 2<<44; advisory released", "problem": p}, "%s", p)
		}
	} else {
		rec.Case(true, "scenario:sole-member-leaves-during-first-join", func() any {
			return map[string]any{"scenario": "Leave() of the only member while the first join holds its membership lock"}
		}, "scenario:sole-member-leaves-during-first-join")
	}
	// scenario tier: an abandoned leave must not end the node's own maintenance
	if p := maintenanceContinuesAfterFailedLeave(); p != "" {
		if len(p) > 13 && p[:13] == "precondition:" {
			rec.Inconclusive("scenario-precondition")
			t.Logf("abandoned-leave scenario: %s", p)
		} else {
			rec.Fail(t, "not-converged-by-own-maintenance-after-abandoned-leave", map[string]any{"schedule": "ring {1<<44, 2<<44, 3<<44}; 5<<43 joins via 3<<44, its advisory to 2<<44 is held (3<<44 stays locked); 2<<44 tries to leave and runs out of attempts; advisory released; 3<<44 leaves gracefully; 5 s without any harness-driven maintenance round", "problem": p}, "%s", p)
		}
	} else {
		rec.Case(true, "scenario:maintenance-continues-after-abandoned-leave", func() any {
			return map[string]any{"scenario": "abandoned leave, later change elsewhere in the ring, convergence by the nodes' own periodic tasks only"}
		}, "scenario:maintenance-continues-after-abandoned-leave")
	}
	// schedule-stress tier: overlapping stabilization rounds of one real node while its view changes
	{
		rounds := ev.Pick(150000, 600000)
		p, replay, done, split := overlappingStabilizeRounds(ev.ShardSeed(), rounds)
		rec.Add("overlapping_stabilize_rounds", int64(done))
		rec.Add("overlapping_stabilize_rounds_with_split_views", int64(split))
		switch {
		case p != "" && len(p) > 13 && p[:13] == "precondition:":
			rec.Inconclusive("overlap-stress-precondition")
			t.Logf("overlap stress: %s", p)
		case p != "":
			rec.Fail(t, "successor-list-stuck-after-overlapping-stabilize-rounds", replay, "%s", p)
		default:
			rec.Case(split > 0, "stress:overlapping-stabilize", func() any {
				return map[string]any{"scenario": "2-3 overlapping stabilization rounds of one real node while the membership behind it changes twice; list compared with ring order after 3 quiet rounds", "rounds": done, "rounds_with_split_views": split}
			}, "stress:overlapping-stabilize-rounds")
		}
	}
	maxInit := ev.Pick(4, 8)
	ev.RapidCheck(t, 40, 1200, func(t *rapid.T) {
		plan := genChurnPlan(maxInit, 4, 4).Draw(t, "plan")
		r := newChurnRing(plan, false)
		defer r.net.Close()
		if err := r.buildRing(plan.Initial, func(i int) int { return plan.Vias[i] }); err != nil {
			rec.Inconclusive("initial-ring-build-failed")
			return
		}
		if _, c := r.settle(60, false, nil); c.Problem != "" {
			rec.Inconclusive("initial-ring-not-converged")
			return
		}
		var out churnOutcome
		runChurn(r, plan, &out)
		rounds, c := r.settle(60, true, nil, false)
		nt := out.JoinLeaveConcurrent || out.AdjacentActions
		labels := []string{fmt.Sprintf("members-at-end:%d", len(r.live()))}
		if out.JoinLeaveConcurrent {
			labels = append(labels, "join||leave")
		}
		if plan.LogJitterPct > 0 {
			labels = append(labels, "log-jitter")
		}
		if out.AdjacentActions {
			labels = append(labels, "adjacent-actions")
		}
		if out.JoinsFailed > 0 {
			labels = append(labels, "some-join-failed")
		}
		if out.LeavesFailed > 0 {
			labels = append(labels, "some-leave-gave-up")
		}
		if c.StaleTails > 0 {
			labels = append(labels, "stale-tail-tolerated")
		}
		doc := map[string]any{"plan": plan, "outcome": out.Log, "members_at_end": liveIDs(r.live()), "rounds": rounds}
		rec.Case(nt, fmt.Sprintf("%+v", plan), func() any { return doc }, labels...)
		rec.Add("joins_ok", int64(out.JoinsOK))
		rec.Add("joins_failed", int64(out.JoinsFailed))
		rec.Add("leaves_ok", int64(out.LeavesOK))
		rec.Add("leaves_gave_up", int64(out.LeavesFailed))
		if n := r.net.Panics.Load(); n > 0 {
			rec.Fail(t, "handler-panic-during-churn", map[string]any{"plan": plan, "panic": r.net.PanicLog[0]}, "handler panicked during churn: %s", firstLine(r.net.PanicLog[0]))
		}
		if n := r.net.Timeouts.Load(); n > 0 && c.Problem != "" {
			// a caller gave up on a call after the 10 s transport timer: from then on the history
			// contains a lost response, which is C07's subject, not graceful churn
			rec.Add("rpc_timeouts", n)
			rec.Inconclusive("rpc-timeout-fired-during-churn")
			return
		}
		if c.Problem != "" {
			doc["problem"] = c.Problem
			if orphaned(r) && !orphanedByLockedLeaves(r) {
				// a survivor lists only departed nodes, but they did not all leave through a proper
				// (locked) leave: not the listed finding
				rec.Fail(t, "survivor-orphaned-by-improper-departure", doc, "after churn and %d maintenance rounds a survivor lists only departed nodes, at least one of which did not go through a locked leave: %s", rounds, c.Problem)
			}
			if orphaned(r) {
				// known class: every node a survivor lists as successor left gracefully within one
				// stabilization period, the survivor can never repair its pointers
				if ev.Known("C02", sigOrphan) {
					rec.Excluded(sigOrphan)
					return
				}
				rec.Fail(t, sigOrphan, doc, "after churn and %d maintenance rounds a survivor lists only departed nodes as successors: %s", rounds, c.Problem)
			}
			rec.Fail(t, "not-converged:"+problemClass(c.Problem), doc, "after churn and %d maintenance rounds: %s", rounds, c.Problem)
		}
	})
}

const sigOrphan = "survivor-lists-only-departed-successors"

// orphaned reports whether some remaining node's successor list contains no
// remaining member at all (not even itself).
func orphaned(r *simRing) bool {
	live := r.live()
	member := map[uint64]bool{}
	for _, m := range live {
		member[m.ID] = true
	}
	for _, m := range live {
		any := false
		for _, s := range m.Node.VerifSuccessors() {
			if member[s.ID()] {
				any = true
			}
		}
		if !any {
			return true
		}
	}
	return false
}

// c02OrphanWitness is the deterministic core of the recorded history
// (replays/C02/survivor-lists-only-departed-successors.json): X has just joined
// a ring {A, B} - its successor list is [A, B], it does not yet contain X itself
// - and A and B leave gracefully one after the other before anybody has run a
// periodic stabilize (long maintenance intervals stand in for "within one
// stabilization period"). Reports whether X ends up listing only departed nodes.
func c02OrphanWitness() bool {
	const (
		X = uint64(1) << 44
		A = uint64(2) << 44
		B = uint64(3) << 44
	)
	r := newSimRing(ringsim.Config{Seed: 50, StabilizeInterval: 2 * time.Second, FixFingerInterval: 2 * time.Second, PredCheckInterval: 2 * time.Second})
	defer r.net.Close()
	if err := r.buildRing([]uint64{A, B}, func(i int) int { return 0 }); err != nil {
		return false
	}
	if _, c := r.settle(60, true, nil); c.Problem != "" {
		return false
	}
	r.fillLists(20)
	if _, err := r.join(X, A); err != nil {
		return false
	}
	leaveAndWait := func(id, succ uint64) bool {
		go r.members[id].Node.Leave()
		for i := 0; i < 200000; i++ {
			if r.members[id].Node.VerifState() == chord.Left && r.members[succ].Node.VerifState() == chord.Active {
				return true
			}
			time.Sleep(50 * time.Microsecond)
		}
		return false
	}
	if !leaveAndWait(A, B) || !leaveAndWait(B, X) {
		return false
	}
	_, c := r.settle(30, false, nil, false)
	return c.Problem != "" && orphaned(r)
}
