package ring

import (
	"fmt"
	"time"

	"go.miragespace.co/specter/spec/chord"
	"verifharness/internal/ringsim"
)

// leftThroughLockedLeave reports whether node m, which has left, went through
// the locked leave of a ring with at least two members (its recorded state
// history contains Leaving). A sole member leaves without it (Active -> Left).
func leftThroughLockedLeave(m *ringsim.Member) bool {
	for _, st := range m.Node.VerifStateHistory() {
		if st == chord.Leaving {
			return true
		}
	}
	return false
}

// orphanedByLockedLeaves narrows the listed known finding to what it is about:
// some survivor lists no remaining member, and every node it lists left
// through a proper, locked leave. A survivor whose listed successors vanished
// in any other way (walked away in the middle of a join they had granted,
// crash-stop, ...) is not that finding.
func orphanedByLockedLeaves(r *simRing) bool {
	live := r.live()
	member := map[uint64]bool{}
	for _, m := range live {
		member[m.ID] = true
	}
	found := false
	for _, m := range live {
		any := false
		for _, s := range m.Node.VerifSuccessors() {
			if member[s.ID()] {
				any = true
			}
		}
		if any {
			continue
		}
		found = true
		for _, s := range m.Node.VerifSuccessors() {
			// every incarnation of that id (a departed node may have been restarted since, and the
			// restart may have failed): some incarnation left through a locked leave, none crashed
			var incarnations []*ringsim.Member
			memberMapMu.Lock()
			if cur := r.members[s.ID()]; cur != nil {
				incarnations = append(incarnations, cur)
			}
			for _, old := range r.retired {
				if old.ID == s.ID() {
					incarnations = append(incarnations, old)
				}
			}
			memberMapMu.Unlock()
			proper := false
			for _, dep := range incarnations {
				if dep.Crashed() {
					return false
				}
				if dep.Node.VerifState() == chord.Left && leftThroughLockedLeave(dep) {
					proper = true
				}
			}
			if !proper {
				return false
			}
		}
	}
	return found
}

// soleMemberLeavesDuringFirstJoin: the only member A of a ring has granted the
// first join request (its predecessor already is the joiner J, it still is its
// own successor, its membership lock is held by the join) when it is asked to
// leave. The join's advisory that would make A learn J as successor is held on
// the wire meanwhile. Whatever the leave does - wait, retry, give up - after
// the quiet period the remaining nodes' pointers must be the true ring.
func soleMemberLeavesDuringFirstJoin() (problem string) {
	const (
		A = uint64(2) << 44
		J = uint64(1) << 44
	)
	r := newSimRing(ringsim.Config{Seed: 56})
	defer r.net.Close()
	if err := r.buildRing([]uint64{A}, func(i int) int { return 0 }); err != nil {
		return "precondition: " + err.Error()
	}
	gate := r.net.AddGate(&ringsim.Gate{Method: "FinishJoin", Arg: "stabilize", Caller: J, Callee: A, Nth: 1})
	joinDone := make(chan error, 1)
	go func() { _, err := r.join(J, A); joinDone <- err }()
	select {
	case <-gate.Reached():
	case err := <-joinDone:
		gate.Release()
		return fmt.Sprintf("precondition: join ended before its advisory was sent: %v", err)
	case <-time.After(10 * time.Second):
		gate.Release()
		return "precondition: advisory not reached"
	}
	a := r.members[A].Node
	if st := a.VerifState(); st != chord.Transferring {
		gate.Release()
		<-joinDone
		return "precondition: member is " + st.String() + ", not holding the join's membership lock"
	}
	leaveDone := make(chan struct{})
	go func() { a.Leave(); close(leaveDone) }()
	select {
	case <-leaveDone:
	case <-time.After(40 * time.Millisecond):
	}
	gate.Release()
	if err := <-joinDone; err != nil {
		return "precondition: join failed: " + err.Error()
	}
	select {
	case <-leaveDone:
	case <-time.After(30 * time.Second):
		return "Leave() of the member that had granted the join did not return"
	}
	rounds, c := r.settle(60, true, nil, false)
	if c.Problem != "" {
		return fmt.Sprintf("after %d maintenance rounds: %s (member %d is %s with state history %v; remaining nodes %v)", rounds, c.Problem, A, a.VerifState(), a.VerifStateHistory(), liveIDs(r.live()))
	}
	return ""
}
