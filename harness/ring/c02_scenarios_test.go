package ring

import (
	"fmt"
	"time"

	"go.miragespace.co/specter/spec/chord"
	"verifharness/internal/ringsim"
)

// leftThroughLockedLeave reports whether node m, which has left, went through
// the locked leave of a ring with at least two members (its recorded state
// history contains Leaving). A sole member leaves without it (Active -> Left).
func leftThroughLockedLeave(m *ringsim.Member) bool {
	for _, st := range m.Node.VerifStateHistory() {
		if st == chord.Leaving {
			return true
		}
	}
	return false
}

// orphanedByLockedLeaves narrows the listed known finding to what it is about:
// some survivor lists no remaining member, and every node it lists left
// through a proper, locked leave. A survivor whose listed successors vanished
// in any other way (walked away in the middle of a join they had granted,
// crash-stop, ...) is not that finding.
func orphanedByLockedLeaves(r *simRing) bool {
	live := r.live()
	member := map[uint64]bool{}
	for _, m := range live {
		member[m.ID] = true
	}
	found := false
	for _, m := range live {
		any := false
		for _, s := range m.Node.VerifSuccessors() {
			if member[s.ID()] {
				any = true
			}
		}
		if any {
			continue
		}
		found = true
		for _, s := range m.Node.VerifSuccessors() {
			// every incarnation of that id (a departed node may have been restarted since, and the
			// restart may have failed): some incarnation left through a locked leave, none crashed
			var incarnations []*ringsim.Member
			memberMapMu.Lock()
			if cur := r.members[s.ID()]; cur != nil {
				incarnations = append(incarnations, cur)
			}
			for _, old := range r.retired {
				if old.ID == s.ID() {
					incarnations = append(incarnations, old)
				}
			}
			memberMapMu.Unlock()
			proper := false
			for _, dep := range incarnations {
				if dep.Crashed() {
					return false
				}
				if dep.Node.VerifState() == chord.Left && leftThroughLockedLeave(dep) {
					proper = true
				}
			}
			if !proper {
				return false
			}
		}
	}
	return found
}

// maintenanceContinuesAfterFailedLeave: node L tries to leave while its
// successor is membership-locked for longer than L's whole retry budget; the
// leave is abandoned and L stays a member. Later a node that is NOT a
// neighbour of L leaves gracefully (nobody sends L an advisory). From then on
// only the nodes' own periodic maintenance runs - the harness does not drive a
// single round - and after the quiet period L's pointers, like everybody's,
// must be the true ring (all 48 fingers included).
func maintenanceContinuesAfterFailedLeave() (problem string) {
	const (
		P = uint64(1) << 44
		L = uint64(2) << 44
		J = uint64(5) << 43
		S = uint64(3) << 44
	)
	r := newSimRing(ringsim.Config{Seed: 59})
	defer r.net.Close()
	if err := r.buildRing([]uint64{P, L, S}, func(i int) int { return 0 }); err != nil {
		return "precondition: " + err.Error()
	}
	if _, c := r.settle(60, true, nil); c.Problem != "" {
		return "precondition: " + c.Problem
	}
	r.fillLists(20)
	gate := r.net.AddGate(&ringsim.Gate{Method: "FinishJoin", Arg: "stabilize", Caller: J, Callee: L, Nth: 1})
	joined := make(chan error, 1)
	go func() { _, err := r.join(J, S); joined <- err }()
	select {
	case <-gate.Reached():
	case err := <-joined:
		return fmt.Sprintf("precondition: join returned before the gate: %v", err)
	case <-time.After(10 * time.Second):
		return "precondition: gate not reached"
	}
	left := make(chan struct{})
	go func() { r.members[L].Node.Leave(); close(left) }()
	select {
	case <-left:
	case <-time.After(8 * time.Second):
	}
	gate.Release()
	if err := <-joined; err != nil {
		return "precondition: join failed: " + err.Error()
	}
	select {
	case <-left:
	case <-time.After(60 * time.Second):
		return "precondition: leave did not return"
	}
	if st := r.members[L].Node.VerifState(); st != chord.Active {
		return "precondition: the leave was not abandoned (node is " + st.String() + ")"
	}
	r.members[S].Node.Leave()
	if r.members[S].Node.VerifState() != chord.Left {
		return "precondition: second leave did not complete"
	}
	// quiet period in real time: 2500 stabilization intervals, nobody drives maintenance
	var c convergence
	for deadline := time.Now().Add(5 * time.Second); time.Now().Before(deadline); time.Sleep(5 * time.Millisecond) {
		if c = checkConverged(r.live(), true, true); c.Problem == "" {
			return ""
		}
	}
	return fmt.Sprintf("node %d abandoned a leave and stayed a member; %d left later; after 5 s of the nodes' own periodic maintenance (2 ms stabilize, 3 ms finger repair, 5 ms predecessor check): %s (ring %v)", L, S, c.Problem, liveIDs(r.live()))
}

// soleMemberLeavesDuringFirstJoin: the only member A of a ring has granted the
// first join request (its predecessor already is the joiner J, it still is its
// own successor, its membership lock is held by the join) when it is asked to
// leave. The join's advisory that would make A learn J as successor is held on
// the wire meanwhile. Whatever the leave does - wait, retry, give up - after
// the quiet period the remaining nodes' pointers must be the true ring.
func soleMemberLeavesDuringFirstJoin() (problem string) {
	const (
		A = uint64(2) << 44
		J = uint64(1) << 44
	)
	r := newSimRing(ringsim.Config{Seed: 56})
	defer r.net.Close()
	if err := r.buildRing([]uint64{A}, func(i int) int { return 0 }); err != nil {
		return "precondition: " + err.Error()
	}
	gate := r.net.AddGate(&ringsim.Gate{Method: "FinishJoin", Arg: "stabilize", Caller: J, Callee: A, Nth: 1})
	joinDone := make(chan error, 1)
	go func() { _, err := r.join(J, A); joinDone <- err }()
	select {
	case <-gate.Reached():
	case err := <-joinDone:
		gate.Release()
		return fmt.Sprintf("precondition: join ended before its advisory was sent: %v", err)
	case <-time.After(10 * time.Second):
		gate.Release()
		return "precondition: advisory not reached"
	}
	a := r.members[A].Node
	if st := a.VerifState(); st != chord.Transferring {
		gate.Release()
		<-joinDone
		return "precondition: member is " + st.String() + ", not holding the join's membership lock"
	}
	leaveDone := make(chan struct{})
	go func() { a.Leave(); close(leaveDone) }()
	select {
	case <-leaveDone:
	case <-time.After(40 * time.Millisecond):
	}
	gate.Release()
	if err := <-joinDone; err != nil {
		return "precondition: join failed: " + err.Error()
	}
	select {
	case <-leaveDone:
	case <-time.After(30 * time.Second):
		return "Leave() of the member that had granted the join did not return"
	}
	// a node holds its membership lock for the join it granted: it cannot also have processed
	// its own leave in that state (C06)
	if h := a.VerifStateHistory(); len(h) >= 2 {
		for i := 1; i < len(h); i++ {
			if h[i-1] == chord.Transferring && h[i] != chord.Active {
				return fmt.Sprintf("member %d went from Transferring (it had granted the join of %d and held its membership lock for it) straight to %s: state history %v", A, J, h[i], h)
			}
		}
	}
	rounds, c := r.settle(60, true, nil, false)
	if c.Problem != "" {
		return fmt.Sprintf("after %d maintenance rounds: %s (member %d is %s with state history %v; remaining nodes %v)", rounds, c.Problem, A, a.VerifState(), a.VerifStateHistory(), liveIDs(r.live()))
	}
	return ""
}
