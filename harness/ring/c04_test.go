package ring

import (
	"context"
	"errors"
	"fmt"
	"math"
	"sort"
	"strings"
	"sync"
	"sync/atomic"
	"testing"
	"time"

	"go.miragespace.co/specter/spec/chord"
	"verifharness/internal/ev"

	"github.com/anishathalye/porcupine"
	"pgregory.net/rapid"
)

// ---- C04: DHT KV operations stay linearizable while the ring changes ----------

type linIn struct {
	Kind  string // put get delete append remove contains list
	Value string // put value / child
}

type linOut struct {
	Value    string // get: value; list: sorted children joined by ","
	Bool     bool   // contains
	Conflict bool   // append returned ErrKVPrefixConflict
}

type kvState struct {
	simple   string
	children string // sorted, comma separated
}

func childSet(s string) map[string]bool {
	out := map[string]bool{}
	if s == "" {
		return out
	}
	for _, c := range strings.Split(s, ",") {
		out[c] = true
	}
	return out
}

func setString(m map[string]bool) string {
	ks := make([]string, 0, len(m))
	for k := range m {
		ks = append(ks, k)
	}
	sort.Strings(ks)
	return strings.Join(ks, ",")
}

// kvLinModel is the sequential specification of ONE key: a register for the
// simple value and a set for the prefix children (independent keyspaces).
var kvLinModel = porcupine.Model{
	Init: func() interface{} { return kvState{} },
	Step: func(state, input, output interface{}) (bool, interface{}) {
		st := state.(kvState)
		in := input.(linIn)
		out := output.(linOut)
		switch in.Kind {
		case "put":
			st.simple = in.Value
			return true, st
		case "get":
			return out.Value == st.simple, st
		case "delete":
			st.simple = ""
			return true, st
		case "append":
			set := childSet(st.children)
			if out.Conflict {
				return set[in.Value], st
			}
			if set[in.Value] {
				return false, st
			}
			set[in.Value] = true
			st.children = setString(set)
			return true, st
		case "remove":
			set := childSet(st.children)
			delete(set, in.Value)
			st.children = setString(set)
			return true, st
		case "contains":
			return childSet(st.children)[in.Value] == out.Bool, st
		case "list":
			return out.Value == st.children, st
		}
		return false, st
	},
	Equal: func(a, b interface{}) bool { return a.(kvState) == b.(kvState) },
	DescribeOperation: func(input, output interface{}) string {
		return fmt.Sprintf("%+v -> %+v", input, output)
	},
}

type c04Op struct {
	Key   int    `json:"key"`
	Kind  string `json:"kind"`
	Child int    `json:"child"`
	Entry int    `json:"entry"`
}

type c04Plan struct {
	Churn   churnPlan `json:"churn"`
	Clients [][]c04Op `json:"clients"`
	NKeys   int       `json:"nkeys"`
}

type c04Rec struct {
	Client int    `json:"client"`
	Key    string `json:"key"`
	In     linIn  `json:"in"`
	Out    linOut `json:"out"`
	Call   int64  `json:"call"`
	Ret    int64  `json:"ret"`
	Err    string `json:"err,omitempty"`
	Entry  uint64 `json:"entry"`
}

var c04Keys = []string{"lin/a", "lin/b", "lin/c"}

func genC04Plan(maxInitial int) *rapid.Generator[c04Plan] {
	return rapid.Custom(func(t *rapid.T) c04Plan {
		anchors := make([]uint64, len(c04Keys))
		for i, k := range c04Keys {
			anchors[i] = chord.Hash([]byte(k))
		}
		p := c04Plan{Churn: genChurnPlan(maxInitial, 3, 3, anchors...).Draw(t, "churn"), NKeys: rapid.IntRange(2, 3).Draw(t, "nkeys")}
		genOp := rapid.Custom(func(t *rapid.T) c04Op {
			return c04Op{
				Key:   rapid.IntRange(0, 2).Draw(t, "key"),
				Kind:  rapid.SampledFrom([]string{"put", "get", "get", "delete", "append", "append", "remove", "contains", "list", "list"}).Draw(t, "kind"),
				Child: rapid.IntRange(0, 2).Draw(t, "child"),
				Entry: rapid.IntRange(0, 1<<16).Draw(t, "entry"),
			}
		})
		n := rapid.IntRange(2, 4).Draw(t, "clients")
		for c := 0; c < n; c++ {
			p.Clients = append(p.Clients, rapid.SliceOfN(genOp, 8, 20).Draw(t, "ops"))
		}
		return p
	})
}

func TestC04(t *testing.T) {
	rec := ev.New(t, "C04")
	rec.Rule("rapid-generated histories: 2..4 client goroutines x 8..20 operations over 2..3 keys (Put/Get/Delete/PrefixAppend/PrefixContains/PrefixRemove/PrefixList, unique put values, 3 children) issued ONCE each through generated live entry nodes (any node whose Join returned and that has not finished leaving), concurrently with a generated churn plan (1..3 phases of 1..3 concurrent joins/leaves, ids next to the keys' hashes, seeded call delays). Oracle: (1) every error is retryable or one of the two documented semantic conflicts; (2) per key, the history of SUCCESSFUL operations (failed ones must be no-ops, so they are left out: any effect they had makes a later read inexplicable; the one exception is a mutating operation given up by the transport with 'deadline exceeded' after the simulator's 2 s RPC timer - the owner may still carry it out - which is checked as 'never, or at some point after its invocation') is linearizable w.r.t. a register + set model (porcupine, 20 s budget, unknown = inconclusive). Non-trivial: >= 2 clients touched one key and >= 1 operation overlapped a membership action in time. Distinct = distinct plans.")
	rec.Assume("timestamps from the process-wide monotonic clock; porcupine v1.3.0 is trusted as the linearizability checker")
	// scenario tier: an operation that is inside the owner's storage when the membership lock is taken
	for _, kind := range []string{"put", "append", "delete"} {
		if p := opInFlightWhenLockTaken(kind); p != "" {
			if len(p) > 13 && p[:13] == "precondition:" {
				rec.Inconclusive("scenario-precondition")
				t.Logf("op-in-flight scenario (%s): %s", kind, p)
			} else {
				rec.Fail(t, "operation-result-disagrees-with-its-effect", map[string]any{"schedule": "ring {1<<44, 2<<44, 3<<44}; a " + kind + " on a key owned by 3<<44 is executing inside 3<<44's store when 2<<44's RequestToLeave takes 3<<44's membership lock", "problem": p}, "%s", p)
			}
		} else {
			k := kind
			rec.Case(true, "scenario:op-in-flight:"+k, func() any {
				return map[string]any{"scenario": "KV operation inside the owner's store while its membership lock is taken", "op": k}
			}, "scenario:op-in-flight-when-lock-taken")
		}
	}
	// scenario tier: a request parked between the owner lookup and the KV barrier while the owner leaves
	if p := opAcceptedJustBeforeOwnerLeaves(); p != "" {
		if len(p) > 13 && p[:13] == "precondition:" {
			rec.Inconclusive("scenario-precondition")
			t.Logf("accepted-before-leave scenario: %s", p)
		} else {
			rec.Fail(t, "operation-result-disagrees-with-its-effect", map[string]any{"schedule": "ring {1<<44, 2<<44, 3<<44}; a Put on a key owned by 2<<44 is parked inside 2<<44 after the owner lookup and before the KV barrier (at the per-request logger derivation); 2<<44 leaves gracefully; the Put resumes", "problem": p}, "%s", p)
		}
	} else {
		rec.Case(true, "scenario:accepted-before-leave", func() any {
			return map[string]any{"scenario": "Put parked between owner lookup and KV barrier while the owner leaves gracefully"}
		}, "scenario:op-accepted-just-before-owner-leaves")
	}
	// scenario tier: a notification computed from an older view completes after a join
	staleNotify := staleNotifyCompletesAfterJoin()
	for i := 0; i < 3 && len(staleNotify) > 13 && staleNotify[:13] == "precondition:"; i++ {
		staleNotify = staleNotifyCompletesAfterJoin() // a periodic predecessor check may take the held probe's place
	}
	if p := staleNotify; p != "" {
		if len(p) > 13 && p[:13] == "precondition:" {
			rec.Inconclusive("scenario-precondition")
			t.Logf("stale-notify scenario: %s", p)
		} else {
			rec.Fail(t, "stale-read-after-late-notification", map[string]any{"schedule": "ring {1<<44, 2<<44, 3<<44}; 2<<44 crashes; Notify(1<<44) #1 at 3<<44 is held at its Ping of 2<<44; Notify(1<<44) #2 completes; 5<<43 joins via 3<<44 and takes (1<<44, 5<<43]; the Ping is released; Get/Put of a key in (2<<44, 5<<43) entering at 3<<44", "problem": p}, "%s", p)
		}
	} else {
		rec.Case(true, "scenario:stale-notify-completes-after-join", func() any {
			return map[string]any{"scenario": "a notification stuck in the liveness probe of a dead predecessor completes after a join changed the pointers; requests entering at that node for a moved key"}
		}, "scenario:stale-notify-completes-after-join")
	}
	// scenario tier: the k-th transfer of a large leave hand-over fails; reads in the retry pause
	for k := 1; k <= 3; k++ {
		p, fired := leaveHandOverFailsAtKthImport(k)
		switch {
		case p != "" && len(p) > 13 && p[:13] == "precondition:":
			rec.Inconclusive("scenario-precondition")
			t.Logf("hand-over-fails scenario (k=%d): %s", k, p)
		case p != "":
			rec.Fail(t, "read-succeeds-with-nothing-after-failed-hand-over", map[string]any{"schedule": fmt.Sprintf("ring {1<<44, 9<<44, 13<<44}; 9<<44 owns 400 keys and leaves; Import call #%d from 9<<44 to 13<<44 fails before delivery; every key is read through 1<<44 before the leave is retried", k), "problem": p}, "%s", p)
		default:
			kk, f := k, fired
			rec.Case(f, fmt.Sprintf("scenario:hand-over-fails-at-import-%d", kk), func() any {
				return map[string]any{"scenario": "k-th Import of a 400-key leave hand-over fails; all keys read in the retry pause and after the leave", "k": kk, "fault_fired": f}
			}, "scenario:leave-hand-over-fails-midway", fmt.Sprintf("fault-fired:%v", f))
		}
	}
	// regression tier: the minimal schedule of a non-retryable failure found by the thorough tier
	for _, repair := range []bool{true, false} {
		how := map[bool]string{true: "fixes fingers and looks up a key in (2<<44, 3<<44] through its finger 2<<44", false: "does not repair its fingers (they name 3<<44) and looks up a key in (2<<44, 3<<44]: no finger precedes it, the lookup walks via the successor pointer 2<<44"}[repair]
		if p := joiningNodeKVWindow(repair); p != "" {
			if len(p) > 13 && p[:13] == "precondition:" {
				rec.Inconclusive("regression-schedule-precondition")
				t.Logf("joining-node regression: %s", p)
			} else {
				rec.Fail(t, "kv-request-routed-to-joining-node-fails-non-retryably", map[string]any{"schedule": "ring {1<<44, 3<<44}; 2<<44 joins via 3<<44; the RequestToJoin response is held; 1<<44 stabilizes, " + how, "problem": p}, "%s", p)
			}
		} else {
			rp := repair
			rec.Case(true, fmt.Sprintf("scenario:kv-request-reaches-joining-node:fingers-repaired=%v", rp), func() any {
				return map[string]any{"scenario": "request routed to a node whose join has been granted but has not returned", "entry_node_repaired_its_fingers": rp}
			}, "scenario:kv-request-reaches-joining-node")
		}
	}
	ev.RapidCheck(t, 30, 1000, func(t *rapid.T) {
		p := genC04Plan(ev.Pick(4, 6)).Draw(t, "plan")
		r := newChurnRing(p.Churn, false)
		defer r.net.Close()
		if err := r.buildRing(p.Churn.Initial, func(i int) int { return p.Churn.Vias[i] }); err != nil {
			rec.Inconclusive("initial-ring-build-failed")
			return
		}
		if _, c := r.settle(60, false, nil); c.Problem != "" {
			rec.Inconclusive("initial-ring-not-converged")
			return
		}
		var (
			mu      sync.Mutex
			history []c04Rec
			seq     atomic.Int64
			t0      = time.Now()
		)
		now := func() int64 { return int64(time.Since(t0)) }
		ctx := context.Background()
		var churnStart, churnEnd int64
		var wg sync.WaitGroup
		for c, ops := range p.Clients {
			c, ops := c, ops
			wg.Add(1)
			go func() {
				defer wg.Done()
				for _, op := range ops {
					live := r.live()
					if len(live) == 0 {
						return
					}
					entry := live[op.Entry%len(live)]
					key := c04Keys[op.Key%p.NKeys]
					child := fmt.Sprintf("c%d", op.Child)
					rc := c04Rec{Client: c, Key: key, Entry: entry.ID, In: linIn{Kind: op.Kind}}
					var err error
					rc.Call = now()
					switch op.Kind {
					case "put":
						rc.In.Value = fmt.Sprintf("v%d", seq.Add(1))
						err = entry.Node.Put(ctx, []byte(key), []byte(rc.In.Value))
					case "get":
						var v []byte
						v, err = entry.Node.Get(ctx, []byte(key))
						rc.Out.Value = string(v)
					case "delete":
						err = entry.Node.Delete(ctx, []byte(key))
					case "append":
						rc.In.Value = child
						err = entry.Node.PrefixAppend(ctx, []byte(key), []byte(child))
						if errors.Is(err, chord.ErrKVPrefixConflict) {
							rc.Out.Conflict, err = true, nil
						}
					case "remove":
						rc.In.Value = child
						err = entry.Node.PrefixRemove(ctx, []byte(key), []byte(child))
					case "contains":
						rc.In.Value = child
						rc.Out.Bool, err = entry.Node.PrefixContains(ctx, []byte(key), []byte(child))
					case "list":
						var l [][]byte
						l, err = entry.Node.PrefixList(ctx, []byte(key))
						set := map[string]bool{}
						for _, x := range l {
							set[string(x)] = true
						}
						rc.Out.Value = setString(set)
					}
					rc.Ret = now()
					if err != nil {
						rc.Err = err.Error()
						if chord.ErrorIsRetryable(err) {
							rc.Err = "retryable: " + rc.Err
						} else if errors.Is(err, chord.ErrKVSimpleConflict) {
							rc.Err = "retryable: (simple conflict) " + rc.Err
						}
					}
					mu.Lock()
					history = append(history, rc)
					mu.Unlock()
				}
			}()
		}
		var out churnOutcome
		churnStart = now()
		runChurn(r, p.Churn, &out)
		churnEnd = now()
		wg.Wait()

		// classification
		clientsPerKey := map[string]map[int]bool{}
		overlap := false
		okOps, failedOps := 0, 0
		for _, h := range history {
			if clientsPerKey[h.Key] == nil {
				clientsPerKey[h.Key] = map[int]bool{}
			}
			clientsPerKey[h.Key][h.Client] = true
			if h.Ret >= churnStart && h.Call <= churnEnd {
				overlap = true
			}
			if h.Err == "" {
				okOps++
			} else {
				failedOps++
			}
		}
		shared := false
		for _, cs := range clientsPerKey {
			if len(cs) >= 2 {
				shared = true
			}
		}
		doc := map[string]any{"plan": p, "churn_log": out.Log}
		labels := []string{}
		if p.Churn.LogJitterPct > 0 {
			labels = append(labels, "log-jitter")
		}
		if out.JoinLeaveConcurrent {
			labels = append(labels, "join||leave")
		}
		if failedOps > 0 {
			labels = append(labels, "has-retryable-failures")
		}
		rec.Case(shared && overlap && (out.JoinsOK+out.LeavesOK) > 0, fmt.Sprintf("%+v", p), func() any { return doc }, labels...)
		rec.Add("ops_ok", int64(okOps))
		rec.Add("ops_failed_retryable", int64(failedOps))
		rec.Add("joins_ok", int64(out.JoinsOK))
		rec.Add("leaves_ok", int64(out.LeavesOK))

		if n := r.net.Panics.Load(); n > 0 {
			rec.Fail(t, "handler-panic-during-churn", map[string]any{"plan": p, "panic": r.net.PanicLog[0]}, "handler panicked during churn: %s", firstLine(r.net.PanicLog[0]))
		}
		// (1) error classes
		for _, h := range history {
			if h.Err != "" && !strings.HasPrefix(h.Err, "retryable: ") {
				doc["op"] = h
				rec.Fail(t, "non-retryable-failure-during-churn", doc, "%s(%s) via node %d failed with non-retryable error %q during graceful churn", h.In.Kind, h.Key, h.Entry, h.Err)
			}
		}
		// (2) linearizability per key, successful operations only
		// A mutating operation that ended in "deadline exceeded" is the one kind of failure whose
		// effect is unknowable to the caller: the call was given up by the transport while the
		// owner may still carry it out, at any later time. It is checked as "either never took
		// effect, or took effect at some point after its invocation" (every combination over the
		// at most four such operations of a key is tried; one linearizable combination suffices).
		byKey := map[string][]porcupine.Operation{}
		ambiguous := map[string][]porcupine.Operation{}
		for _, h := range history {
			if h.Err != "" {
				if strings.Contains(h.Err, "deadline exceeded") {
					switch h.In.Kind {
					case "put", "delete", "append", "remove":
						ambiguous[h.Key] = append(ambiguous[h.Key], porcupine.Operation{ClientId: h.Client + 1000*(1+len(ambiguous[h.Key])), Input: h.In, Output: h.Out, Call: h.Call, Return: math.MaxInt64 - int64(len(ambiguous[h.Key]))})
						if _, ok := byKey[h.Key]; !ok {
							byKey[h.Key] = nil
						}
					}
				}
				continue
			}
			byKey[h.Key] = append(byKey[h.Key], porcupine.Operation{ClientId: h.Client, Input: h.In, Output: h.Out, Call: h.Call, Return: h.Ret})
		}
		for _, key := range sortedKeys(byKey) {
			amb := ambiguous[key]
			if len(amb) > 0 {
				rec.Add("keys_with_operations_of_unknowable_effect", 1)
			}
			if len(amb) > 4 {
				rec.Inconclusive("too-many-operations-of-unknowable-effect-on-one-key")
				continue
			}
			res := porcupine.Illegal
			for mask := 0; mask < 1<<len(amb) && res != porcupine.Ok; mask++ {
				ops := append([]porcupine.Operation{}, byKey[key]...)
				for i, a := range amb {
					if mask&(1<<i) != 0 {
						ops = append(ops, a)
					}
				}
				if r1 := porcupine.CheckOperationsTimeout(kvLinModel, ops, 20*time.Second); r1 == porcupine.Ok || (r1 == porcupine.Unknown && res == porcupine.Illegal) {
					res = r1
				}
			}
			switch res {
			case porcupine.Unknown:
				rec.Inconclusive("porcupine-timeout")
			case porcupine.Illegal:
				var hk []c04Rec
				for _, h := range history {
					if h.Key == key {
						hk = append(hk, h)
					}
				}
				sort.Slice(hk, func(i, j int) bool { return hk[i].Call < hk[j].Call })
				doc["key"], doc["history"] = key, hk
				rec.Fail(t, "history-not-linearizable", doc, "history of key %q (%d successful ops) is not linearizable", key, len(byKey[key]))
			}
		}
	})
}
