package ring

import (
	"context"
	"fmt"
	"time"

	"go.miragespace.co/specter/spec/chord"
	"verifharness/internal/ringsim"
)

// staleSuccessorLeave is the minimal schedule behind a data loss found by the
// thorough tier of C03 on an earlier tree: node B starts to leave and reads its
// successor S; before B's RequestToLeave reaches S, a node X joins between B
// and S (X becomes B's true successor and S's predecessor); S then grants the
// leave although the leaver is no longer its predecessor and receives B's
// keys, which belong to X. Returns "" when the data survived.
func staleSuccessorLeave() (problem string, keyHolder uint64, owner uint64) {
	const (
		// B is the largest id, its successor S the smallest (wrap-around): a leaver whose id is
		// larger than its successor's asks the successor for the lock BEFORE it locks itself, so
		// B stays Active (and answers pings) while the gate holds its request
		P = uint64(2) << 44
		B = uint64(3) << 44
		X = uint64(7) << 43
		S = uint64(1) << 44
	)
	r := newSimRing(ringsim.Config{Seed: 42})
	defer r.net.Close()
	if err := r.buildRing([]uint64{P, B, S}, func(i int) int { return 0 }); err != nil {
		return "precondition: " + err.Error(), 0, 0
	}
	if _, c := r.settle(60, true, nil); c.Problem != "" {
		return "precondition: " + c.Problem, 0, 0
	}
	r.fillLists(20)
	// a key owned by B: hash in (P, B]
	var key []byte
	for i := 0; ; i++ {
		k := []byte(fmt.Sprintf("stale-succ-%d", i))
		if h := chord.Hash(k); chord.Between(P, h, B, true) {
			key = k
			break
		}
		if i > 1<<16 {
			return "precondition: no key", 0, 0
		}
	}
	ctx := context.Background()
	if err := retryKV(func() error { return r.members[P].Node.Put(ctx, key, []byte("acked")) }); err != nil {
		return "precondition: put: " + err.Error(), 0, 0
	}
	gate := r.net.AddGate(&ringsim.Gate{Method: "RequestToLeave", Caller: B, Callee: S, Nth: 1})
	left := make(chan struct{})
	go func() { r.members[B].Node.Leave(); close(left) }()
	select {
	case <-gate.Reached():
	case <-left:
		return "precondition: leave finished before the gate", 0, 0
	case <-time.After(10 * time.Second):
		return "precondition: gate not reached", 0, 0
	}
	if _, err := r.join(X, S); err != nil {
		gate.Release()
		<-left
		return "precondition: join of X: " + err.Error(), 0, 0
	}
	gate.Release()
	select {
	case <-left:
	case <-time.After(30 * time.Second):
		return "precondition: leave did not return", 0, 0
	}
	if _, c := r.settle(80, false, nil, false); c.Problem != "" {
		return "precondition: not converged after the schedule: " + c.Problem, 0, 0
	}
	live := r.live()
	ids := liveIDs(live)
	owner = ownerOf(ids, chord.Hash(key))
	for _, m := range live {
		if ks, _ := m.KV.Inner().RangeKeys(ctx, 0, 0); len(ks) > 0 {
			for _, k := range ks {
				if string(k) == string(key) {
					keyHolder = m.ID
				}
			}
		}
	}
	for _, m := range live {
		var got []byte
		err := retryKV(func() (e error) { got, e = m.Node.Get(ctx, key); return })
		if err != nil || string(got) != "acked" {
			return fmt.Sprintf("Get(%q) via %d = %q, %v (members %v, key held by %d, owner %d)", key, m.ID, got, err, ids, keyHolder, owner), keyHolder, owner
		}
	}
	return "", keyHolder, owner
}

// joinAfterPredecessorLeft is the minimal schedule behind a second data loss
// found by C03 on an earlier tree: L (the predecessor of S) leaves gracefully and
// hands its keys to S; right afterwards, before stabilization has replaced S's
// predecessor pointer (still L), J joins between L and S. S delimits the range
// it hands over by its stale predecessor, i.e. (L, J] instead of (P, J], so the
// keys of L's former range stay on S although they now belong to J.
func joinAfterPredecessorLeft() (problem string, keyHolder uint64, owner uint64) {
	const (
		P = uint64(1) << 44
		L = uint64(2) << 44
		J = uint64(5) << 43
		S = uint64(3) << 44
	)
	// long maintenance intervals: nobody stabilizes or checks predecessors on its own during
	// the few milliseconds between the leave and the join
	r := newSimRing(ringsim.Config{Seed: 45, StabilizeInterval: time.Second, FixFingerInterval: time.Second, PredCheckInterval: time.Second})
	defer r.net.Close()
	if err := r.buildRing([]uint64{P, L, S}, func(i int) int { return 0 }); err != nil {
		return "precondition: " + err.Error(), 0, 0
	}
	if _, c := r.settle(60, true, nil); c.Problem != "" {
		return "precondition: " + c.Problem, 0, 0
	}
	r.fillLists(20)
	var key []byte
	for i := 0; i < 1<<16; i++ {
		k := []byte(fmt.Sprintf("pred-left-%d", i))
		if h := chord.Hash(k); chord.Between(P, h, L, true) {
			key = k
			break
		}
	}
	if key == nil {
		return "precondition: no key", 0, 0
	}
	ctx := context.Background()
	if err := retryKV(func() error { return r.members[P].Node.Put(ctx, key, []byte("acked")) }); err != nil {
		return "precondition: put: " + err.Error(), 0, 0
	}
	// Leave() also waits for the leaver's own background tasks to wake up and stop; the ring
	// is done with the leave as soon as the successor's lock has been released
	leaveDone := make(chan struct{})
	go func() { r.members[L].Node.Leave(); close(leaveDone) }()
	defer func() { <-leaveDone }()
	// S was never membership-locked while the ring was built (all joins were granted by P), so a
	// Transferring entry in its state history means the leave request has been granted
	lockedOnce := func() bool {
		for _, st := range r.members[S].Node.VerifStateHistory() {
			if st == chord.Transferring {
				return true
			}
		}
		return false
	}
	completed := false
	for deadline := time.Now().Add(15 * time.Second); time.Now().Before(deadline); {
		if r.members[L].Node.VerifState() == chord.Left && r.members[S].Node.VerifState() == chord.Active && lockedOnce() {
			completed = true
			break
		}
		time.Sleep(50 * time.Microsecond)
	}
	if !completed {
		return "precondition: leave did not complete: " + r.members[L].Node.VerifState().String(), 0, 0
	}
	if pre := r.members[S].Node.VerifPredecessor(); pre == nil || pre.ID() != L {
		return "precondition: successor already repaired its predecessor pointer", 0, 0
	}
	_, jerr := r.join(J, S)
	if _, c := r.settle(80, false, nil, false); c.Problem != "" {
		return "precondition: not converged after the schedule: " + c.Problem, 0, 0
	}
	live := r.live()
	ids := liveIDs(live)
	owner = ownerOf(ids, chord.Hash(key))
	for _, m := range live {
		ks, _ := m.KV.Inner().RangeKeys(ctx, 0, 0)
		for _, k := range ks {
			if string(k) == string(key) {
				keyHolder = m.ID
			}
		}
	}
	for _, m := range live {
		var got []byte
		err := retryKV(func() (e error) { got, e = m.Node.Get(ctx, key); return })
		if err != nil || string(got) != "acked" {
			return fmt.Sprintf("Get(%q) via %d = %q, %v (join result %v, members %v, key held by %d, owner %d)", key, m.ID, got, err, jerr, ids, keyHolder, owner), keyHolder, owner
		}
	}
	return "", keyHolder, owner
}
