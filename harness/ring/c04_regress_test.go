package ring

import (
	"context"
	"fmt"
	"time"

	"go.miragespace.co/specter/spec/chord"
	"verifharness/internal/ringsim"
)

// joiningNodeKVWindow is the minimal schedule behind a non-retryable KV
// failure found by the thorough tier of C04 on an earlier tree: joiner J has
// been granted its place by successor S (S already points to J as its
// predecessor) but J has not yet received the response, so J knows no
// neighbours; predecessor P stabilizes, learns J from S, repairs its fingers
// and routes the lookup of a key in (J, S] through its finger J, which has no
// successor yet. Returns the error the client saw ("" =
// success or retryable).
func joiningNodeKVWindow(repairFingers bool) (problem string) {
	const (
		P = uint64(1) << 44
		J = uint64(2) << 44
		S = uint64(3) << 44
	)
	r := newSimRing(ringsim.Config{Seed: 43})
	defer r.net.Close()
	if err := r.buildRing([]uint64{P, S}, func(i int) int { return 0 }); err != nil {
		return "precondition: " + err.Error()
	}
	if _, c := r.settle(60, true, nil); c.Problem != "" {
		return "precondition: " + c.Problem
	}
	r.fillLists(20)
	var key []byte
	for i := 0; i < 1<<16; i++ {
		k := []byte(fmt.Sprintf("joining-%d", i))
		if h := chord.Hash(k); chord.Between(J, h, S, true) {
			key = k
			break
		}
	}
	if key == nil {
		return "precondition: no key"
	}
	// hold the response of the granted RequestToJoin on its way back to J
	gate := r.net.AddGate(&ringsim.Gate{Method: "RequestToJoin", Caller: J, Callee: S, Nth: 1, After: true})
	joined := make(chan error, 1)
	go func() { _, err := r.join(J, S); joined <- err }()
	select {
	case <-gate.Reached():
	case err := <-joined:
		return fmt.Sprintf("precondition: join returned before the gate: %v", err)
	case <-time.After(10 * time.Second):
		return "precondition: gate not reached"
	}
	defer func() { gate.Release(); <-joined }()
	// P learns J through stabilization
	for i := 0; i < 5; i++ {
		r.members[P].Node.VerifStabilize()
	}
	if s := r.members[P].Node.VerifSuccessors(); len(s) == 0 || s[0].ID() != J {
		return fmt.Sprintf("precondition: P's successor is %v, not the joiner", vids(s))
	}
	// ... and repairs its fingers, some of which now point to the joiner - or does not get to it:
	// then no finger precedes a key in (J, S] and the lookup walks the ring via the successor
	// pointer, to a joiner that has no successors yet
	if repairFingers {
		r.members[P].Node.VerifFixFinger()
	}
	ctx := context.Background()
	err := r.members[P].Node.Put(ctx, key, []byte("v"))
	if err != nil && !chord.ErrorIsRetryable(err) {
		return fmt.Sprintf("Put(%q) via %d while %d is joining: non-retryable %q", key, P, J, err)
	}
	_, err = r.members[P].Node.Get(ctx, key)
	if err != nil && !chord.ErrorIsRetryable(err) {
		return fmt.Sprintf("Get(%q) via %d while %d is joining: non-retryable %q", key, P, J, err)
	}
	return ""
}

