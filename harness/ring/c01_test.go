package ring

import (
	"fmt"
	"testing"

	"go.miragespace.co/specter/spec/chord"
	"verifharness/internal/ev"
	"verifharness/internal/ringsim"

	"pgregory.net/rapid"
)

// C01: lookups on a stable ring return the first member at or clockwise after
// the identifier.
func TestC01(t *testing.T) {
	rec := ev.New(t, "C01")
	rec.Rule("rapid-generated rings: N in 1..12 (thorough 1..32) real LocalNodes with ids from layout generators (uniform, clustered, adjacent runs, extremes 0/1/2^48-2/2^48-1, small), built by Create + serial Join through a generated existing member over the RPC-emulating proxies, settled by synchronous maintenance rounds until predecessor/successor-list/all 48 fingers match the true ring order; (one case in eight is a ring of 1..3 members into which a member with an extreme identifier - 0, 1 or 2^48-1 - joins last; a ring that is still not in ring order 300 rounds after its serial fault-free build is asked the member queries anyway and a wrong answer is reported); then FindSuccessor from EVERY member for member ids, ids±1, 0, 2^48-1 and uniform identifiers. In two cases out of three the ring then SHRINKS: a generated subset of members (never all) leaves gracefully one after the other, the ring is settled again, and the same queries - plus the departed ids and their neighbours - are asked from every remaining member (rings that end with <= 4 members keep departed nodes in the tails of their successor lists, observation O1). Oracle: sorted-membership owner(x) = first id >= x else min id over the CURRENT members; no lookup may error. A case is one ring; non-trivial: N >= 3 and the query set contains an identifier equal to a member id and one that wraps past the largest id. Distinct = distinct (id set, join order, leavers).")
	rec.Assume("the ring has converged (checked with the C02 oracle before querying; unconverged rings are counted as inconclusive here and are C02's business)",
		"inter-node calls go through the harness proxy that emulates RemoteNode/Server (identity-only, error mapping through rpc.WrapError+chord.ErrorMapper)")
	maxN := ev.Pick(12, 32)
	ev.RapidCheck(t, 100, 1600, func(t *rapid.T) {
		ids := genLayoutIDs(1, maxN).Draw(t, "ids")
		if rapid.IntRange(0, 7).Draw(t, "extremeJoinsLast") == 0 {
			// a small ring into which a member with an extreme identifier (0, 1, 2^48-1) joins last
			small := genLayoutIDs(1, 3).Draw(t, "smallIds")
			ext := rapid.SampledFrom([]uint64{0, 0, 1, ringMax}).Draw(t, "extreme")
			ids = nil
			for _, v := range small {
				if v != ext {
					ids = append(ids, v)
				}
			}
			ids = append(ids, ext)
		}
		vias := rapid.SliceOfN(rapid.IntRange(0, 1<<20), len(ids), len(ids)).Draw(t, "vias")
		extra := rapid.SliceOfN(rapid.Uint64Range(0, ringMax), 8, 8).Draw(t, "queries")
		var leavers []int
		if len(ids) >= 2 && rapid.IntRange(0, 2).Draw(t, "shrink") > 0 {
			leavers = rapid.SliceOfNDistinct(rapid.IntRange(0, len(ids)-1), 1, len(ids)-1, rapid.ID[int]).Draw(t, "leavers")
		}
		r := newSimRing(ringsim.Config{Seed: int64(ids[0]) + 1})
		defer r.net.Close()
		if err := r.buildRing(ids, func(i int) int { return vias[i] }); err != nil {
			rec.Inconclusive("ring-build-failed")
			t.Logf("build failed: %v", err)
			return
		}
		rounds, c := r.settle(60, true, nil)
		if c.Problem != "" {
			// Convergence itself is C02's business. But "once the ring has stabilized" cannot mean
			// "never" for a ring built by serial, fault-free joins: give it 240 more rounds, and if
			// the pointers still differ from the ring order, ask the member queries anyway - a wrong
			// or failing answer that persists after such a quiet period is a lookup defect a user sees.
			if _, c = r.settle(240, true, nil, false); c.Problem != "" {
				sorted := sortedIDs(ids)
				for _, m := range r.live() {
					for _, q := range sorted {
						for _, x := range []uint64{q, (q + 1) & ringMax} {
							got, err := m.Node.FindSuccessor(x)
							want := ownerOf(sorted, x)
							if err == nil && got != nil && got.ID() == want {
								continue
							}
							var g any
							if got != nil {
								g = got.ID()
							}
							rec.Case(true, fmt.Sprint(ids, vias[:len(ids)], "never-converged"), nil, "ring-never-converged")
							rec.Fail(t, "wrong-owner-after-long-quiet-period", map[string]any{"ids": ids, "via": vias, "members": sorted, "start": m.ID, "key": x, "got": g, "err": fmt.Sprint(err), "want": want, "pointer_state": c.Problem},
								"ring %v built by serial fault-free joins, 300 maintenance rounds later (pointers still not in ring order: %s): FindSuccessor(%d) from %d = %v (%v), want %d", sorted, c.Problem, x, m.ID, g, err, want)
						}
					}
				}
				rec.Inconclusive("ring-not-converged")
				t.Logf("not converged after %d+240 rounds: %s", rounds, c.Problem)
				return
			}
		}
		allSorted := sortedIDs(ids)
		queries := append([]uint64{0, ringMax}, extra...)
		for _, id := range allSorted {
			queries = append(queries, id, (id+1)&ringMax, (id-1)&ringMax)
		}
		hasWrap := false
		for _, q := range queries {
			if q > allSorted[len(allSorted)-1] {
				hasWrap = true
			}
		}
		caseDoc := map[string]any{"ids": ids, "via": vias, "rounds_to_converge": rounds, "queries": len(queries) * len(ids), "leavers": leavers}
		labels := []string{fmt.Sprintf("N=%d", len(ids))}
		if c.StaleTails > 0 {
			labels = append(labels, "stale-tail")
		}
		if len(leavers) > 0 {
			labels = append(labels, "shrinks", fmt.Sprintf("members-after-shrink:%d", len(ids)-len(leavers)))
		}
		rec.Case(len(ids) >= 3 && hasWrap, fmt.Sprint(ids, vias[:len(ids)], leavers), func() any { return caseDoc }, labels...)
		lookups := 0
		// verify asks every remaining member every query; false = stop the case (inconclusive)
		verify := func(stage string) bool {
			sorted := liveIDs(r.live())
			for _, m := range r.live() {
				for _, q := range queries {
					got, err := m.Node.FindSuccessor(q)
					lookups++
					want := ownerOf(sorted, q)
					if err == nil && got != nil && got.ID() == want {
						continue
					}
					var g any = nil
					if got != nil {
						g = got.ID()
					}
					// "Once the ring has stabilized": a maintenance call that was computed from older
					// information and stored after the convergence check (two stabilizers run concurrently
					// by design) can transiently un-converge the ring. A wrong answer or an error counts
					// only if the ring is still converged right after the lookup AND the failure reproduces
					// on the re-settled ring (a stale write may have been repaired between the lookup and
					// the re-check; a genuine routing defect is persistent).
					if c2 := checkConverged(r.live(), true, false); c2.Problem != "" {
						rec.Inconclusive("ring-destabilised-by-in-flight-maintenance")
						t.Logf("lookup mismatch on a ring that is no longer converged: %s", c2.Problem)
						return false
					}
					persistent := true
					for try := 0; try < 3 && persistent; try++ {
						if _, c3 := r.settle(20, true, nil, false); c3.Problem != "" {
							persistent = false
							break
						}
						g2, e2 := m.Node.FindSuccessor(q)
						if e2 == nil && g2 != nil && g2.ID() == want {
							persistent = false
						}
					}
					if !persistent {
						rec.Inconclusive("transient-lookup-failure-not-reproducible-on-settled-ring")
						return false
					}
					if err != nil {
						rec.Fail(t, "lookup-error-on-stable-ring", map[string]any{"ids": ids, "via": vias, "leavers": leavers, "stage": stage, "members": sorted, "start": m.ID, "key": q, "err": err.Error()},
							"%s: FindSuccessor(%d) from %d on stable ring %v: error %v", stage, q, m.ID, sorted, err)
					}
					rec.Fail(t, "wrong-owner", map[string]any{"ids": ids, "via": vias, "leavers": leavers, "stage": stage, "members": sorted, "start": m.ID, "key": q, "got": g, "want": want},
						"%s: FindSuccessor(%d) from %d = %v, want %d (ring %v)", stage, q, m.ID, g, want, sorted)
				}
			}
			return true
		}
		if !verify("ring as built") {
			return
		}
		if len(leavers) > 0 {
			for _, li := range leavers {
				m := r.members[ids[li]]
				m.Node.Leave()
				if m.Node.VerifState() != chord.Left {
					rec.Inconclusive("leave-did-not-complete")
					return
				}
			}
			if _, c4 := r.settle(80, true, nil, false); c4.Problem != "" {
				rec.Inconclusive("ring-not-converged-after-shrinking")
				t.Logf("not converged after the leaves: %s", c4.Problem)
				return
			}
			if !verify(fmt.Sprintf("after %d graceful leaves", len(leavers))) {
				return
			}
		}
		rec.Add("lookups", int64(lookups))
	})
}
