package ring

import (
	"fmt"
	"sort"
	"sync"
	"time"

	"go.miragespace.co/specter/spec/chord"
	"verifharness/internal/ringsim"

	"pgregory.net/rapid"
)

const ringMax = uint64(1)<<48 - 1

// ---- id layouts --------------------------------------------------------------

// layoutAnchors, when set by a generator's caller, adds a layout mode that
// places ids just before/after the given identifiers (e.g. key hashes) so that
// the generated nodes split a given key set between them.
func genLayoutIDs(minN, maxN int, anchors ...uint64) *rapid.Generator[[]uint64] {
	return rapid.Custom(func(t *rapid.T) []uint64 {
		n := rapid.IntRange(minN, maxN).Draw(t, "n")
		seen := map[uint64]bool{}
		var out []uint64
		add := func(v uint64) {
			v &= ringMax
			if !seen[v] && len(out) < n {
				seen[v] = true
				out = append(out, v)
			}
		}
		for guard := 0; len(out) < n && guard < 200; guard++ {
			mode := rapid.IntRange(0, 4).Draw(t, "layout")
			if len(anchors) > 0 && rapid.IntRange(0, 2).Draw(t, "anchored") > 0 {
				mode = 5
			}
			switch mode {
			case 5: // next to an anchor (key hash): just at/after or before it
				a := anchors[rapid.IntRange(0, len(anchors)-1).Draw(t, "anchor")]
				off := rapid.SampledFrom([]int64{0, 1, -1, 2, 1 << 20, -(1 << 20), 1 << 36, -(1 << 36)}).Draw(t, "anchorOff")
				add(a + uint64(off))
			case 0: // uniform
				add(rapid.Uint64Range(0, ringMax).Draw(t, "u"))
			case 1: // clustered base+1..5
				base := rapid.Uint64Range(0, ringMax).Draw(t, "base")
				k := rapid.IntRange(1, 4).Draw(t, "k")
				for i := 0; i < k; i++ {
					add(base + uint64(rapid.IntRange(1, 5).Draw(t, "off")))
				}
			case 2: // adjacent run
				x := rapid.Uint64Range(0, ringMax).Draw(t, "x")
				k := rapid.IntRange(2, 3).Draw(t, "run")
				for i := 0; i < k; i++ {
					add(x + uint64(i))
				}
			case 3: // extremes
				add(rapid.SampledFrom([]uint64{0, 1, ringMax - 1, ringMax, 2, 1 << 47, 1<<47 - 1}).Draw(t, "ext"))
			case 4: // small ids
				add(rapid.Uint64Range(0, 64).Draw(t, "small"))
			}
		}
		for v := uint64(7); len(out) < n; v += 1000003 {
			add(v)
		}
		return out
	})
}

func sortedIDs(ids []uint64) []uint64 {
	out := append([]uint64{}, ids...)
	sort.Slice(out, func(i, j int) bool { return out[i] < out[j] })
	return out
}

// ownerOf is the sorted-membership oracle: first id >= x, else the smallest.
func ownerOf(sorted []uint64, x uint64) uint64 {
	i := sort.Search(len(sorted), func(i int) bool { return sorted[i] >= x })
	if i == len(sorted) {
		return sorted[0]
	}
	return sorted[i]
}

func idxOf(sorted []uint64, id uint64) int {
	for i, v := range sorted {
		if v == id {
			return i
		}
	}
	return -1
}

// ---- ring construction and settling -----------------------------------------

type simRing struct {
	net     *ringsim.Net
	members map[uint64]*ringsim.Member
	// retired: earlier incarnations of ids that were restarted (rejoin with the old identity)
	retired []*ringsim.Member
}

// live returns the members that are part of the ring by observed outcome:
// joined (Create/Join returned nil) and not (state Left or crashed).
func (r *simRing) live() []*ringsim.Member {
	var out []*ringsim.Member
	memberMapMu.Lock()
	all := make([]*ringsim.Member, 0, len(r.members))
	for _, m := range r.members {
		all = append(all, m)
	}
	memberMapMu.Unlock()
	for _, m := range all {
		if !m.Joined.Load() || m.Crashed() {
			continue
		}
		if m.Node.VerifState() == chord.Left {
			continue
		}
		out = append(out, m)
	}
	sort.Slice(out, func(i, j int) bool { return out[i].ID < out[j].ID })
	return out
}

func liveIDs(ms []*ringsim.Member) []uint64 {
	out := make([]uint64, len(ms))
	for i, m := range ms {
		out[i] = m.ID
	}
	return out
}

func (r *simRing) create(id uint64) (*ringsim.Member, error) {
	m := r.net.Add(id)
	memberMapMu.Lock()
	r.members[id] = m
	memberMapMu.Unlock()
	if err := m.Node.Create(); err != nil {
		return m, err
	}
	m.Joined.Store(true)
	return m, nil
}

func (r *simRing) join(id, via uint64) (*ringsim.Member, error) {
	return r.joinLocked(id, via)
}

// maintenanceRound runs one synchronous maintenance pass over the given
// members (order supplied by the caller) in addition to the background tasks.
func maintenanceRound(ms []*ringsim.Member) {
	for _, m := range ms {
		if m.Crashed() || m.Node.VerifState() == chord.Left {
			continue
		}
		m.Node.VerifCheckPredecessor()
		m.Node.VerifStabilize()
	}
	for _, m := range ms {
		if m.Crashed() || m.Node.VerifState() == chord.Left {
			continue
		}
		m.Node.VerifFixFinger()
	}
}

// convergence describes the first discrepancy between the nodes' pointers and
// the true ring order (DESIGN C02 oracle); "" means converged.
type convergence struct {
	Problem    string
	StaleTails int // departed nodes tolerated in list tails (rings with <= L members)
}

func checkConverged(ms []*ringsim.Member, fingers bool, checkState ...bool) convergence {
	var res convergence
	ids := liveIDs(ms)
	M := len(ids)
	if M == 0 {
		return res
	}
	isMember := map[uint64]bool{}
	for _, id := range ids {
		isMember[id] = true
	}
	L := chord.ExtendedSuccessorEntries
	for i, m := range ms {
		st := m.Node.VerifState()
		if st != chord.Active && (len(checkState) == 0 || checkState[0]) {
			res.Problem = fmt.Sprintf("node %d state %s (not Active)", m.ID, st)
			return res
		}
		wantPre := ids[(i-1+M)%M]
		pre := m.Node.VerifPredecessor()
		if pre == nil {
			res.Problem = fmt.Sprintf("node %d predecessor nil, want %d", m.ID, wantPre)
			return res
		}
		if pre.ID() != wantPre {
			res.Problem = fmt.Sprintf("node %d predecessor %d, want %d", m.ID, pre.ID(), wantPre)
			return res
		}
		succ := m.Node.VerifSuccessors()
		if len(succ) == 0 {
			res.Problem = fmt.Sprintf("node %d empty successor list", m.ID)
			return res
		}
		if succ[0].ID() != ids[(i+1)%M] {
			res.Problem = fmt.Sprintf("node %d successor %d, want %d (list %v)", m.ID, succ[0].ID(), ids[(i+1)%M], vids(succ))
			return res
		}
		// member entries must be consecutive true successors, in order
		next := 1
		for j, s := range succ {
			if isMember[s.ID()] {
				want := ids[(i+next)%M]
				if s.ID() != want {
					res.Problem = fmt.Sprintf("node %d successor list %v: entry %d is %d, want %d (ring %v)", m.ID, vids(succ), j, s.ID(), want, ids)
					return res
				}
				next++
			} else {
				if M > L {
					res.Problem = fmt.Sprintf("node %d successor list %v contains departed node %d (ring %v)", m.ID, vids(succ), s.ID(), ids)
					return res
				}
				res.StaleTails++
			}
		}
		if fingers {
			for k := 1; k <= chord.MaxFingerEntries; k++ {
				f := m.Node.VerifFinger(k)
				target := chord.ModuloSum(m.ID, uint64(1)<<(k-1))
				want := ownerOf(ids, target)
				if f == nil {
					res.Problem = fmt.Sprintf("node %d finger[%d] nil, want %d", m.ID, k, want)
					return res
				}
				if f.ID() != want {
					res.Problem = fmt.Sprintf("node %d finger[%d]=%d, want owner(%d)=%d (ring %v)", m.ID, k, f.ID(), target, want, ids)
					return res
				}
			}
		}
	}
	return res
}

func vids(vs []chord.VNode) []uint64 {
	out := make([]uint64, 0, len(vs))
	for _, v := range vs {
		if v != nil {
			out = append(out, v.ID())
		}
	}
	return out
}

// settle runs up to maxRounds maintenance rounds (quiet period defined in
// rounds, not seconds) and returns the number of rounds used and the final
// convergence verdict.
func (r *simRing) settle(maxRounds int, fingers bool, order func(ms []*ringsim.Member), checkState ...bool) (int, convergence) {
	var c convergence
	for round := 0; round <= maxRounds; round++ {
		ms := r.live()
		c = checkConverged(ms, fingers, checkState...)
		if c.Problem == "" {
			return round, c
		}
		if round == maxRounds {
			break
		}
		if order != nil {
			order(ms)
		}
		maintenanceRound(ms)
		if round > 10 {
			time.Sleep(time.Duration(round) * 200 * time.Microsecond) // let background tasks interleave too
		}
	}
	return maxRounds, c
}

// fillLists runs maintenance rounds until every live node's successor list has
// min(L, M) entries (a freshly joined node knows only its immediate successor;
// fault scenarios that remove that successor are only survivable once the list
// has been extended, which the protocol does within one stabilize interval).
func (r *simRing) fillLists(maxRounds int) bool {
	full := func() bool {
		ms := r.live()
		want := chord.ExtendedSuccessorEntries
		if len(ms) < want {
			want = len(ms)
		}
		for _, m := range ms {
			if len(m.Node.VerifSuccessors()) < want {
				return false
			}
		}
		return true
	}
	for i := 0; i < maxRounds && !full(); i++ {
		maintenanceRound(r.live())
	}
	return full()
}

// buildRing creates ids[0] and joins the others serially, each through a
// member picked by viaPick(i) among the already joined ones.
func (r *simRing) buildRing(ids []uint64, viaPick func(i int) int) error {
	if _, err := r.create(ids[0]); err != nil {
		return err
	}
	for i := 1; i < len(ids); i++ {
		via := ids[viaPick(i)%i]
		if _, err := r.join(ids[i], via); err != nil {
			return fmt.Errorf("join %d via %d: %w", ids[i], via, err)
		}
	}
	return nil
}

func newSimRing(cfg ringsim.Config) *simRing {
	return &simRing{net: ringsim.New(cfg), members: map[uint64]*ringsim.Member{}}
}

// runAll runs fns concurrently and waits for all of them.
func runAll(fns ...func()) {
	var wg sync.WaitGroup
	for _, f := range fns {
		wg.Add(1)
		go func() { defer wg.Done(); f() }()
	}
	wg.Wait()
}
