package ring

import (
	"context"
	"errors"
	"fmt"
	"math/rand"
	"os"
	"sort"
	"sync"
	"testing"
	"time"

	"go.miragespace.co/specter/kv/aof"
	"go.miragespace.co/specter/kv/memory"
	"go.miragespace.co/specter/kv/sqlite3"
	"go.miragespace.co/specter/spec/chord"
	"verifharness/internal/ev"
	"verifharness/internal/ringsim"

	"go.uber.org/zap"
	"pgregory.net/rapid"
)

// ---- data under churn (C03, C05) ------------------------------------------------

type dataOp struct {
	Key   int    `json:"key"`   // index into the client's own keys
	Kind  string `json:"kind"`  // put | delete | append | remove
	Child int    `json:"child"` // child alphabet index for append/remove
	Entry int    `json:"entry"` // entry node pick
}

type dataPlan struct {
	Churn    churnPlan  `json:"churn"`
	Clients  [][]dataOp `json:"clients"`
	Backends []int      `json:"backends"` // per node creation order: 0 memory, 1 aof, 2 sqlite
	Preload  []dataOp   `json:"preload"`
}

var dataKeys = []string{"k/alpha", "k/beta", "k/gamma", "k/delta", "k/epsilon", "k/zeta", "k/eta", "k/theta"}

func genDataPlan(maxInitial int, backends []int) *rapid.Generator[dataPlan] {
	return rapid.Custom(func(t *rapid.T) dataPlan {
		anchors := make([]uint64, len(dataKeys))
		for i, k := range dataKeys {
			anchors[i] = chord.Hash([]byte(k))
		}
		p := dataPlan{Churn: genChurnPlan(maxInitial, 4, 4, anchors...).Draw(t, "churn")}
		nClients := rapid.IntRange(2, 4).Draw(t, "clients")
		genOp := rapid.Custom(func(t *rapid.T) dataOp {
			return dataOp{
				Key:   rapid.IntRange(0, 1).Draw(t, "key"),
				Kind:  rapid.SampledFrom([]string{"put", "put", "delete", "append", "append", "remove"}).Draw(t, "kind"),
				Child: rapid.IntRange(0, 3).Draw(t, "child"),
				Entry: rapid.IntRange(0, 1<<16).Draw(t, "entry"),
			}
		})
		for c := 0; c < nClients; c++ {
			p.Clients = append(p.Clients, rapid.SliceOfN(genOp, 6, 30).Draw(t, "ops"))
		}
		p.Preload = rapid.SliceOfN(genOp, 0, 8).Draw(t, "preload")
		p.Backends = rapid.SliceOfN(rapid.SampledFrom(backends), 24, 24).Draw(t, "backends")
		return p
	})
}

// keyModel is the reference state of one key written by exactly one client.
type keyModel struct {
	simple        string
	hasSimple     bool
	children      map[string]bool
	indeterminate bool
	ackedWrites   int
	overwritten   bool // had >= 2 acknowledged simple writes or a delete/remove after data
}

type dataResult struct {
	models       map[string]*keyModel
	churn        churnOutcome
	nonRetryable []string // non-retryable, non-semantic client errors seen during churn (C04's business)
	opsAcked     int
	opsGaveUp    int
	retries      int
}

func isSemanticConflict(err error) bool {
	return errors.Is(err, chord.ErrKVPrefixConflict) || errors.Is(err, chord.ErrKVSimpleConflict)
}

// clientDo issues one op through random live entry nodes until it is
// acknowledged, fails non-retryably, or retries are exhausted.
func clientDo(r *simRing, rng *rand.Rand, res *dataResult, mu *sync.Mutex, key string, op dataOp, uniq string) {
	ctx := context.Background()
	var err error
	for attempt := 0; attempt < 50; attempt++ {
		live := r.live()
		if len(live) == 0 {
			break
		}
		entry := live[(op.Entry+attempt*7)%len(live)].Node
		switch op.Kind {
		case "put":
			err = entry.Put(ctx, []byte(key), []byte(uniq))
		case "delete":
			err = entry.Delete(ctx, []byte(key))
		case "append":
			err = entry.PrefixAppend(ctx, []byte(key), []byte(fmt.Sprintf("c%d", op.Child)))
		case "remove":
			err = entry.PrefixRemove(ctx, []byte(key), []byte(fmt.Sprintf("c%d", op.Child)))
		}
		if err == nil || !chord.ErrorIsRetryable(err) {
			break
		}
		mu.Lock()
		res.retries++
		mu.Unlock()
		time.Sleep(time.Duration(500+rng.Intn(2500)) * time.Microsecond)
	}
	mu.Lock()
	defer mu.Unlock()
	km := res.models[key]
	child := fmt.Sprintf("c%d", op.Child)
	switch {
	case err == nil:
		res.opsAcked++
		km.ackedWrites++
		switch op.Kind {
		case "put":
			if km.hasSimple {
				km.overwritten = true
			}
			km.simple, km.hasSimple = uniq, true
		case "delete":
			if km.hasSimple {
				km.overwritten = true
			}
			km.simple, km.hasSimple = "", false
		case "append":
			km.children[child] = true
		case "remove":
			if km.children[child] {
				km.overwritten = true
			}
			delete(km.children, child)
		}
	case op.Kind == "append" && errors.Is(err, chord.ErrKVPrefixConflict) && km.children[child] && !km.indeterminate:
		// documented outcome: the child is already in the set; state unchanged
		res.opsAcked++
	default:
		// never acknowledged: the effect is unknown -> key is indeterminate from here on
		res.opsGaveUp++
		km.indeterminate = true
		if !chord.ErrorIsRetryable(err) && !isSemanticConflict(err) {
			res.nonRetryable = append(res.nonRetryable, fmt.Sprintf("%s(%s): %v", op.Kind, key, err))
		}
	}
}

func kvFactory(t tfail, backends []int) (func(id uint64) (chord.KVProvider, func()), func()) {
	var (
		mu   sync.Mutex
		n    int
		dirs []string
	)
	return func(id uint64) (chord.KVProvider, func()) {
			mu.Lock()
			b := backends[n%len(backends)]
			n++
			mu.Unlock()
			switch b {
			case 1:
				dir, _ := os.MkdirTemp("", "verif-aof-")
				mu.Lock()
				dirs = append(dirs, dir)
				mu.Unlock()
				kv, err := aof.New(aof.Config{Logger: zap.NewNop(), HasnFn: chord.Hash, DataDir: dir, FlushInterval: time.Second})
				if err != nil {
					t.Fatalf("harness: aof.New: %v", err)
				}
				go kv.Start()
				return kv, func() { kv.Stop() }
			case 2:
				dir, _ := os.MkdirTemp("", "verif-sqlite-")
				mu.Lock()
				dirs = append(dirs, dir)
				mu.Unlock()
				kv, err := sqlite3.New(sqlite3.Config{Logger: zap.NewNop(), HashFn: chord.Hash, DataDir: dir})
				if err != nil {
					t.Fatalf("harness: sqlite3.New: %v", err)
				}
				return kv, func() { kv.Close() }
			}
			return memory.WithHashFn(chord.Hash), nil
		}, func() {
			for _, d := range dirs {
				os.RemoveAll(d)
			}
		}
}

// runDataChurn builds the ring, preloads, runs churn with concurrent clients
// and settles. ok=false means a set-up precondition failed (inconclusive).
func runDataChurn(t tfail, rec *ev.Recorder, p dataPlan) (r *simRing, res *dataResult, ok bool, cleanup func()) {
	newKV, rmDirs := kvFactory(t, p.Backends)
	r = &simRing{net: ringsim.New(ringsim.Config{
		Seed:       p.Churn.Seed,
		MaxDelay:   time.Duration(p.Churn.MaxDelay) * time.Microsecond,
		DelayProb:  float64(p.Churn.DelayPct) / 100,
		NewKV:      newKV,
		Logger:     churnLogger(p.Churn),
		SlowMethod: "Finish*", SlowArg: "release", SlowDelay: time.Duration(p.Churn.SlowReleaseMs) * time.Millisecond,
	}), members: map[uint64]*ringsim.Member{}}
	cleanup = func() { r.net.Close(); rmDirs() }
	res = &dataResult{models: map[string]*keyModel{}}
	for c := range p.Clients {
		for k := 0; k < 2; k++ {
			res.models[dataKeys[(c*2+k)%len(dataKeys)]] = &keyModel{children: map[string]bool{}}
		}
	}
	if err := r.buildRing(p.Churn.Initial, func(i int) int { return p.Churn.Vias[i] }); err != nil {
		rec.Inconclusive("initial-ring-build-failed")
		return r, res, false, cleanup
	}
	if _, c := r.settle(60, false, nil); c.Problem != "" {
		rec.Inconclusive("initial-ring-not-converged")
		return r, res, false, cleanup
	}
	var mu sync.Mutex
	rng0 := rand.New(rand.NewSource(p.Churn.Seed))
	seq := 0
	for _, op := range p.Preload {
		seq++
		clientDo(r, rng0, res, &mu, dataKeys[op.Key%2+2*(op.Child%len(p.Clients))%len(dataKeys)], op, fmt.Sprintf("pre-%d", seq))
	}
	// clients run while the churn plan executes
	stop := make(chan struct{})
	var wg sync.WaitGroup
	for c, ops := range p.Clients {
		c, ops := c, ops
		wg.Add(1)
		go func() {
			defer wg.Done()
			rng := rand.New(rand.NewSource(p.Churn.Seed + int64(c)*977))
			for i, op := range ops {
				select {
				case <-stop:
					return
				default:
				}
				key := dataKeys[(c*2+op.Key)%len(dataKeys)]
				clientDo(r, rng, res, &mu, key, op, fmt.Sprintf("v-c%d-%d", c, i))
			}
		}()
	}
	runChurn(r, p.Churn, &res.churn)
	// let the clients finish their streams (they are short), then quiesce
	wg.Wait()
	close(stop)
	if n := r.net.Timeouts.Load(); n > 0 {
		// a caller gave up on a call after the 10 s transport timer: a lost response (of a
		// hand-over, a lock grant, ...) is a fault, which is C07's subject
		rec.Add("rpc_timeouts", n)
		rec.Inconclusive("rpc-timeout-fired-during-churn")
		return r, res, false, cleanup
	}
	if _, c := r.settle(60, false, nil, false); c.Problem != "" {
		rec.Inconclusive("ring-not-converged-after-churn")
		return r, res, false, cleanup
	}
	return r, res, true, cleanup
}

func transfersMoved(r *simRing) (nodesWithImports int, movedKeys map[string]int) {
	movedKeys = map[string]int{}
	for _, m := range r.allMembers() {
		ik := m.KV.ImportedKeys()
		if len(ik) > 0 {
			nodesWithImports++
		}
		for k, n := range ik {
			movedKeys[k] += n
		}
	}
	return
}

func sortedKeys[V any](m map[string]V) []string {
	out := make([]string, 0, len(m))
	for k := range m {
		out = append(out, k)
	}
	sort.Strings(out)
	return out
}

// C03: acknowledged KV data survives graceful joins and leaves.
func TestC03(t *testing.T) {
	rec := ev.New(t, "C03")
	rec.Rule("rapid-generated churn history (as C02: concurrent joins/leaves, adversarial ids, seeded call delays) with 2..4 concurrent client goroutines; each key is written by exactly one client (so 'latest acknowledged' is well defined) with Put/Delete/PrefixAppend/PrefixRemove of unique values through generated live entry nodes, retrying retryable errors (<=50 attempts); node backends drawn from {memory, aof, sqlite}. After the quiet period every remaining node is asked Get/PrefixList for every key and the answers are compared with a per-key model of the ACKNOWLEDGED operations (a write that was never acknowledged makes its key indeterminate: excluded and counted). Non-trivial: a key with an overwritten/deleted value or removed child was moved by at least one key transfer (seen in the storage wrapper's Import log). Distinct = distinct plans.")
	rec.Assume("refusal to serve after quiescence is reported by C06/C07, not here; rings that do not converge are C02's business (counted inconclusive)")
	// regression tier: the minimal schedule of a data loss found by the thorough tier
	if p, holder, owner := staleSuccessorLeave(); p != "" {
		if len(p) > 13 && p[:13] == "precondition:" {
			rec.Inconclusive("regression-schedule-precondition")
			t.Logf("stale-successor regression: %s", p)
		} else {
			rec.Fail(t, "leave-through-stale-successor-misplaces-keys", map[string]any{"schedule": "ring {1000,2000,3000}; 2000 starts to leave (successor 3000); 2500 joins via 3000 before RequestToLeave is delivered; 3000 grants the leave", "holder": holder, "owner": owner, "problem": p},
				"acknowledged key lost after a leave that raced a join at the successor: %s", p)
		}
	}
	// scenario tier: hand-over of thousands of keys (values, children, leases) by a leave and a join
	for b, name := range []string{"memory", "aof", "sqlite"} {
		nKeys := ev.Pick(3000, 12000)
		if b > 0 {
			nKeys = ev.Pick(2400, 6000)
		}
		if p := bulkHandover(t, nKeys, b); p != "" {
			if len(p) > 13 && p[:13] == "precondition:" {
				rec.Inconclusive("scenario-precondition")
				t.Logf("bulk hand-over scenario (%s): %s", name, p)
			} else {
				rec.Fail(t, "bulk-handover-changes-data", map[string]any{"schedule": fmt.Sprintf("ring {1<<44, 9<<44, 13<<44} on %s stores, %d keys with their own value (every 7th with 1-3 children, every 41st leased); 9<<44 (owner of half of them) leaves gracefully; 7<<44 joins; every key is read back after each step", name, nKeys), "problem": p}, "%s", p)
			}
		} else {
			n, k := name, nKeys
			rec.Case(true, "scenario:bulk-handover:"+n, func() any {
				return map[string]any{"scenario": "graceful leave of the owner of half of the keys, then a join into the enlarged range; all keys, children and leases read back after each step", "backend": n, "keys": k}
			}, "scenario:bulk-handover")
		}
	}
	// scenario tier: a leave that exhausts its whole retry budget (successor membership-locked
	// for ~2 s of back-off) - too slow to be hit by the generated histories at their size
	if p, st := leaveGivesUpWhileSuccessorBusy(8 * time.Second); p != "" {
		if len(p) > 13 && p[:13] == "precondition:" {
			rec.Inconclusive("scenario-precondition")
			t.Logf("leave-gives-up scenario: %s", p)
		} else {
			rec.Fail(t, "data-lost-after-leave-gave-up", map[string]any{"schedule": "ring {1<<44, 2<<44, 3<<44}; 5<<43 joins via 3<<44 and its advisory to 2<<44 is held (3<<44 stays locked); 2<<44 tries to leave and runs out of attempts", "leaver_state": st.String(), "problem": p},
				"acknowledged data lost / node not serving after a leave attempt that ran out of retries: %s", p)
		}
	} else {
		rec.Case(true, "scenario:leave-gives-up", func() any {
			return map[string]any{"scenario": "leave exhausts its retries while the successor is membership-locked", "leaver_state_afterwards": st.String()}
		}, "scenario:leave-gave-up")
	}
	p, holder, owner := joinAfterPredecessorLeft()
	for i := 0; i < 3 && len(p) > 13 && p[:13] == "precondition:"; i++ {
		p, holder, owner = joinAfterPredecessorLeft() // the window (S has not noticed yet) is up to one check interval wide
	}
	if p != "" {
		if len(p) > 13 && p[:13] == "precondition:" {
			rec.Inconclusive("regression-schedule-precondition")
			t.Logf("join-after-predecessor-left regression: %s", p)
		} else {
			rec.Fail(t, "join-after-predecessor-left-leaves-keys-behind", map[string]any{"schedule": "ring {1<<44, 2<<44, 3<<44}; 2<<44 leaves gracefully; before 3<<44 has replaced its predecessor pointer, 5<<43 joins via 3<<44", "holder": holder, "owner": owner, "problem": p},
				"acknowledged key lost after a join that followed the leave of the successor's predecessor: %s", p)
		}
	}
	backs := ev.Pick([]int{0, 0, 0, 0, 0, 1, 2}, []int{0, 0, 1, 2})
	ev.RapidCheck(t, 30, 640, func(t *rapid.T) {
		p := genDataPlan(ev.Pick(4, 6), backs).Draw(t, "plan")
		r, res, ok, cleanup := runDataChurn(t, rec, p)
		defer cleanup()
		if !ok {
			return
		}
		_, moved := transfersMoved(r)
		nt := false
		indet := 0
		for k, km := range res.models {
			if km.indeterminate {
				indet++
				continue
			}
			if km.overwritten && moved[k] > 0 {
				nt = true
			}
		}
		labels := []string{fmt.Sprintf("indeterminate-keys:%d", indet)}
		if p.Churn.LogJitterPct > 0 {
			labels = append(labels, "log-jitter")
		}
		if res.churn.JoinLeaveConcurrent {
			labels = append(labels, "join||leave")
		}
		usedBack := map[int]bool{}
		for i := 0; i < len(r.allMembers()) && i < len(p.Backends); i++ {
			usedBack[p.Backends[i]] = true
		}
		for b, name := range []string{"memory", "aof", "sqlite"} {
			if usedBack[b] {
				labels = append(labels, "backend:"+name)
			}
		}
		doc := map[string]any{"plan": p, "churn_log": res.churn.Log, "members_at_end": liveIDs(r.live()), "acked_ops": res.opsAcked, "gave_up": res.opsGaveUp, "retries": res.retries, "moved_keys": moved}
		rec.Case(nt, fmt.Sprintf("%+v", p), func() any { return doc }, labels...)
		rec.Add("ops_acked", int64(res.opsAcked))
		rec.Add("ops_unacknowledged", int64(res.opsGaveUp))
		rec.Add("client_retries", int64(res.retries))
		if n := r.net.Panics.Load(); n > 0 {
			rec.Fail(t, "handler-panic-during-churn", map[string]any{"plan": p, "panic": r.net.PanicLog[0]}, "handler panicked during churn: %s", firstLine(r.net.PanicLog[0]))
		}
		ctx := context.Background()
		for _, m := range r.live() {
			for _, k := range sortedKeys(res.models) {
				km := res.models[k]
				if km.indeterminate {
					continue
				}
				var got []byte
				err := retryKV(func() (e error) { got, e = m.Node.Get(ctx, []byte(k)); return })
				if err != nil {
					rec.Inconclusive("read-refused-after-quiescence")
					continue
				}
				want := ""
				if km.hasSimple {
					want = km.simple
				}
				if string(got) != want {
					sig := "acknowledged-value-lost-or-stale"
					if want == "" {
						sig = "deleted-value-reappeared"
					}
					doc["key"], doc["entry"], doc["got"], doc["want"] = k, m.ID, string(got), want
					rec.Fail(t, sig, doc, "Get(%q) via node %d after churn = %q, latest acknowledged = %q", k, m.ID, got, want)
				}
				var list [][]byte
				err = retryKV(func() (e error) { list, e = m.Node.PrefixList(ctx, []byte(k)); return })
				if err != nil {
					rec.Inconclusive("read-refused-after-quiescence")
					continue
				}
				gotSet := map[string]bool{}
				for _, c := range list {
					gotSet[string(c)] = true
				}
				for c := range km.children {
					if !gotSet[c] {
						doc["key"], doc["entry"], doc["got"], doc["want"] = k, m.ID, sortedKeys(gotSet), sortedKeys(km.children)
						rec.Fail(t, "acknowledged-child-lost", doc, "PrefixList(%q) via %d = %v, acknowledged children %v", k, m.ID, sortedKeys(gotSet), sortedKeys(km.children))
					}
				}
				for c := range gotSet {
					if !km.children[c] {
						doc["key"], doc["entry"], doc["got"], doc["want"] = k, m.ID, sortedKeys(gotSet), sortedKeys(km.children)
						rec.Fail(t, "removed-child-reappeared", doc, "PrefixList(%q) via %d = %v, acknowledged children %v", k, m.ID, sortedKeys(gotSet), sortedKeys(km.children))
					}
				}
			}
		}
	})
}

// C05: each stored key lives only on its responsible node once the ring is stable.
func TestC05(t *testing.T) {
	rec := ev.New(t, "C05")
	rec.Rule("same generated churn + client histories as C03 (concurrent joins/leaves with concurrent single-writer clients, mixed backends). After the quiet period every remaining node's OWN store is listed (RangeKeys(0,0) on the provider the harness handed to the node) and every key found must hash into (predecessor, self] of the true ring; consequently no key is on two nodes. Non-trivial: at least two nodes hold data and at least one key transfer moved at least one key. Distinct = distinct plans.")
	rec.Assume("true ring = members by observed outcome; rings that do not converge are C02's business (inconclusive)")
	// scenario tier: writes into the range of a node whose leave attempts all fail
	if p := writesDuringLeaveThatFails(); p != "" {
		if len(p) > 13 && p[:13] == "precondition:" {
			rec.Inconclusive("scenario-precondition")
			t.Logf("failing-leave scenario: %s", p)
		} else {
			rec.Fail(t, "key-held-outside-ownership-range", map[string]any{"schedule": "ring {1<<44, 2<<44, 3<<44}; every Import from 2<<44 to 3<<44 fails after 60 ms on the wire; 2<<44 tries to leave (10 attempts, each keeping it in state Leaving for 60 ms) and gives up; meanwhile keys of (1<<44, 2<<44] are written through 1<<44 every 2 ms", "problem": p}, "%s", p)
		}
	} else {
		rec.Case(true, "scenario:writes-during-leave-that-fails", func() any {
			return map[string]any{"scenario": "writes into the range of a node while all its leave attempts fail at the hand-over; per-node range check after the quiet period"}
		}, "scenario:writes-during-leave-that-fails")
	}
	// scenario tier: two joiners into one gap, the first request stalls at the predecessor probe
	if p := twoJoinersOneStallsAtPredecessorProbe(); p != "" {
		if len(p) > 13 && p[:13] == "precondition:" {
			rec.Inconclusive("scenario-precondition")
			t.Logf("two-joiners scenario: %s", p)
		} else {
			rec.Fail(t, "key-held-outside-ownership-range", map[string]any{"schedule": "ring {1<<44, 9<<44}, 80 keys; 3<<44 asks 9<<44 to join and 9<<44's Ping of its predecessor is held on the wire; 6<<44 asks 9<<44 to join; the Ping is released after 150 ms", "problem": p}, "%s", p)
		}
	} else {
		rec.Case(true, "scenario:two-joiners-one-stalls-at-predecessor-probe", func() any {
			return map[string]any{"scenario": "two joiners into the same gap; the request of the lower one stalls at the contacted node's liveness probe of its predecessor"}
		}, "scenario:two-joiners-one-stalls-at-predecessor-probe")
	}
	// scenario tier: a node restarts with its old identity and its old store after the ring
	// has changed, once per backend
	for b, name := range []string{"memory", "aof", "sqlite"} {
		if p := restartWithOldStore(t, b); p != "" {
			if len(p) > 13 && p[:13] == "precondition:" {
				rec.Inconclusive("scenario-precondition")
				t.Logf("restart scenario (%s): %s", name, p)
			} else {
				rec.Fail(t, "restarted-node-holds-keys-it-does-not-own", map[string]any{"schedule": "ring {1<<44, 2<<44, 3<<44}, 60 keys; 2<<44 (" + name + " store) leaves; 3<<43 joins into its former range, 30 more keys; 2<<44 restarts with the old store and joins again", "problem": p}, "%s", p)
			}
		} else {
			n := name
			rec.Case(true, "scenario:restart-with-old-store:"+n, func() any {
				return map[string]any{"scenario": "leave, ring changes, restart with old identity and old store", "backend": n}
			}, "scenario:restart-with-old-store")
		}
	}
	// scenario tier: the hand-over range of a join wraps around identifier 0, per backend of the
	// node that hands over
	for b, name := range []string{"memory", "aof", "sqlite"} {
		for _, lowest := range []bool{true, false} {
			p := handOverAcrossZero(t, b, lowest)
			where := map[bool]string{true: "lowest", false: "highest"}[lowest]
			switch {
			case p == "":
				n := name
				rec.Case(true, "scenario:hand-over-across-zero:"+n+":"+where, func() any {
					return map[string]any{"scenario": "ring {4<<44, 9<<44} with 120 keys; a node joins and becomes the " + where + " id of the ring", "backend": n}
				}, "scenario:hand-over-across-zero")
			case len(p) > 13 && p[:13] == "precondition:":
				rec.Inconclusive("scenario-precondition")
				t.Logf("hand-over-across-zero scenario (%s, %s): %s", name, where, p)
			default:
				rec.Fail(t, "key-held-outside-ownership-range", map[string]any{"schedule": "ring {4<<44, 9<<44} (" + name + " stores), 120 keys; a node joins and becomes the " + where + " id of the ring", "problem": p}, "%s", p)
			}
		}
	}
	backs := ev.Pick([]int{0, 0, 0, 1, 2, 2}, []int{0, 0, 1, 2})
	ev.RapidCheck(t, 30, 640, func(t *rapid.T) {
		p := genDataPlan(ev.Pick(4, 6), backs).Draw(t, "plan")
		r, res, ok, cleanup := runDataChurn(t, rec, p)
		defer cleanup()
		if !ok {
			return
		}
		ctx := context.Background()
		live := r.live()
		ids := liveIDs(live)
		holders := map[string][]uint64{}
		nodesWithData := 0
		type misplaced struct {
			Node uint64 `json:"node"`
			Key  string `json:"key"`
			Hash uint64 `json:"hash"`
			Low  uint64 `json:"range_low"`
		}
		var bad []misplaced
		for i, m := range live {
			keys, err := m.KV.Inner().RangeKeys(ctx, 0, 0)
			if err != nil {
				t.Fatalf("harness: RangeKeys: %v", err)
			}
			if len(keys) > 0 {
				nodesWithData++
			}
			pre := ids[(i-1+len(ids))%len(ids)]
			for _, k := range keys {
				holders[string(k)] = append(holders[string(k)], m.ID)
				h := chord.Hash(k)
				in := len(ids) == 1 || chord.Between(pre, h, m.ID, true)
				if !in {
					bad = append(bad, misplaced{m.ID, string(k), h, pre})
				}
			}
		}
		_, moved := transfersMoved(r)
		nt := nodesWithData >= 2 && len(moved) > 0
		doc := map[string]any{"plan": p, "churn_log": res.churn.Log, "members_at_end": ids, "holders": holders, "moved_keys": moved}
		rec.Case(nt, fmt.Sprintf("%+v", p), func() any { return doc }, fmt.Sprintf("nodes-with-data:%d", nodesWithData), fmt.Sprintf("members:%d", len(ids)), fmt.Sprintf("log-jitter:%v", p.Churn.LogJitterPct > 0))
		if n := r.net.Panics.Load(); n > 0 {
			rec.Fail(t, "handler-panic-during-churn", map[string]any{"plan": p, "panic": r.net.PanicLog[0]}, "handler panicked during churn: %s", firstLine(r.net.PanicLog[0]))
		}
		if len(bad) > 0 {
			doc["misplaced"] = bad
			rec.Fail(t, "key-held-outside-ownership-range", doc, "node %d holds key %q (hash %d) outside (%d, %d]; ring %v", bad[0].Node, bad[0].Key, bad[0].Hash, bad[0].Low, bad[0].Node, ids)
		}
		for k, hs := range holders {
			if len(hs) > 1 {
				doc["dup_key"] = k
				rec.Fail(t, "key-held-by-two-nodes", doc, "key %q is held by nodes %v", k, hs)
			}
		}
	})
}
