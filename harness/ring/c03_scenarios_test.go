package ring

import (
	"context"
	"fmt"
	"time"

	"go.miragespace.co/specter/spec/chord"
	"verifharness/internal/ringsim"
)

// leaveGivesUpWhileSuccessorBusy: a graceful leave whose successor stays
// membership-locked for longer than the leaver's whole retry budget (a join
// behind the leaver whose FinishJoin(release) is delayed by `hold`). The leave
// attempt fails cleanly; afterwards every acknowledged key must still be
// readable and every remaining node must serve. keysPerNode keys are written
// into each node's range beforehand.
func leaveGivesUpWhileSuccessorBusy(hold time.Duration) (problem string, leaverState chord.State) {
	const (
		P = uint64(1) << 44
		L = uint64(2) << 44
		J = uint64(5) << 43
		S = uint64(3) << 44
	)
	r := newSimRing(ringsim.Config{Seed: 46})
	defer r.net.Close()
	if err := r.buildRing([]uint64{P, L, S}, func(i int) int { return 0 }); err != nil {
		return "precondition: " + err.Error(), 0
	}
	if _, c := r.settle(60, true, nil); c.Problem != "" {
		return "precondition: " + c.Problem, 0
	}
	r.fillLists(20)
	ctx := context.Background()
	want := map[string]string{}
	for i := 0; len(want) < 24 && i < 1<<16; i++ {
		k := fmt.Sprintf("busy-succ-%d", i)
		v := fmt.Sprintf("v%d", i)
		if err := retryKV(func() error { return r.members[P].Node.Put(ctx, []byte(k), []byte(v)) }); err != nil {
			return "precondition: put: " + err.Error(), 0
		}
		want[k] = v
	}
	// J joins between L and S; its advisory to its predecessor L is held back, and with it
	// the release of S's lock that follows: L keeps believing that S is its successor, and S
	// stays membership-locked
	gate := r.net.AddGate(&ringsim.Gate{Method: "FinishJoin", Arg: "stabilize", Caller: J, Callee: L, Nth: 1})
	joined := make(chan error, 1)
	go func() { _, err := r.join(J, S); joined <- err }()
	select {
	case <-gate.Reached():
	case err := <-joined:
		return fmt.Sprintf("precondition: join returned before the gate: %v", err), 0
	case <-time.After(10 * time.Second):
		return "precondition: gate not reached", 0
	}
	// L still believes S (or already J) is its successor; both are busy: S is locked, and a
	// leave towards J needs J's predecessor pointer, so L's attempts are refused
	left := make(chan struct{})
	go func() { r.members[L].Node.Leave(); close(left) }()
	select {
	case <-left:
	case <-time.After(hold):
	}
	gate.Release()
	<-joined
	select {
	case <-left:
	case <-time.After(60 * time.Second):
		return "precondition: leave did not return", 0
	}
	leaverState = r.members[L].Node.VerifState()
	if _, c := r.settle(80, false, nil, true); c.Problem != "" {
		if problemClass(c.Problem) == "state-not-active" {
			return "after the failed leave: " + c.Problem, leaverState
		}
		return "precondition: not converged after the schedule: " + c.Problem, leaverState
	}
	for _, m := range r.live() {
		for k, v := range want {
			var got []byte
			err := retryKV(func() (e error) { got, e = m.Node.Get(ctx, []byte(k)); return })
			if err != nil || string(got) != v {
				return fmt.Sprintf("Get(%q) via %d = %q, %v; want %q (leaver ended in state %s, members %v)", k, m.ID, got, err, v, leaverState, liveIDs(r.live())), leaverState
			}
		}
	}
	return "", leaverState
}
