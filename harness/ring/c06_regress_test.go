package ring

import (
	"fmt"
	"time"

	"go.miragespace.co/specter/spec/chord"
	"verifharness/internal/ringsim"
)

// joinRoutedThroughJoiningNode is the minimal schedule behind a non-retryable
// join refusal found by the thorough tier of C06 on an earlier tree: joiner J
// has been granted its place by S but has not received the response yet (it
// knows no successor); P has learned J and points fingers at it; a second
// joiner K whose id lies in (J, S) joins through P, P's lookup is routed
// through J and fails with ErrNodeNoSuccessor, which ended K's join at once.
func joinRoutedThroughJoiningNode() (problem string) {
	const (
		P = uint64(1) << 44
		J = uint64(2) << 44
		K = uint64(5) << 43
		S = uint64(3) << 44
	)
	r := newSimRing(ringsim.Config{Seed: 44, KeepLog: true})
	defer r.net.Close()
	if err := r.buildRing([]uint64{P, S}, func(i int) int { return 0 }); err != nil {
		return "precondition: " + err.Error()
	}
	if _, c := r.settle(60, true, nil); c.Problem != "" {
		return "precondition: " + c.Problem
	}
	r.fillLists(20)
	gate := r.net.AddGate(&ringsim.Gate{Method: "RequestToJoin", Caller: J, Callee: S, Nth: 1, After: true})
	joined := make(chan error, 1)
	go func() { _, err := r.join(J, S); joined <- err }()
	select {
	case <-gate.Reached():
	case err := <-joined:
		return fmt.Sprintf("precondition: join returned before the gate: %v", err)
	case <-time.After(10 * time.Second):
		return "precondition: gate not reached"
	}
	for i := 0; i < 5; i++ {
		r.members[P].Node.VerifStabilize()
	}
	r.members[P].Node.VerifFixFinger()
	if s := r.members[P].Node.VerifSuccessors(); len(s) == 0 || s[0].ID() != J {
		gate.Release()
		<-joined
		return fmt.Sprintf("precondition: P's successor is %v, not the joiner", vids(s))
	}
	// K's first attempt is answered while J is still waiting; release J shortly afterwards so
	// that a retrying K can complete
	go func() { time.Sleep(10 * time.Millisecond); gate.Release() }()
	_, err := r.join(K, P)
	<-joined
	if err != nil && !chord.ErrorIsRetryable(err) {
		return fmt.Sprintf("Join(%d via %d) while %d is joining: non-retryable %q", K, P, J, err)
	}
	return ""
}
