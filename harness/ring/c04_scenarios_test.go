package ring

import (
	"context"
	"fmt"
	"sync"
	"time"

	"go.miragespace.co/specter/spec/chord"
	"go.uber.org/zap"
	"go.uber.org/zap/zapcore"
	"verifharness/internal/ringsim"
)

// opInFlightWhenLockTaken: a mutating KV operation is executing inside the
// owner's storage (past every ownership check) at the moment the owner's
// membership lock is taken by its predecessor's leave request. Whatever the
// operation returns must agree with its effect: a retryable failure means
// "no effect", success means the effect is there. kind is put | append | delete.
func opInFlightWhenLockTaken(kind string) (problem string) {
	const (
		P = uint64(1) << 44
		L = uint64(2) << 44
		S = uint64(3) << 44
	)
	r := newSimRing(ringsim.Config{Seed: 48})
	defer r.net.Close()
	if err := r.buildRing([]uint64{P, L, S}, func(i int) int { return 0 }); err != nil {
		return "precondition: " + err.Error()
	}
	if _, c := r.settle(60, true, nil); c.Problem != "" {
		return "precondition: " + c.Problem
	}
	r.fillLists(20)
	var key []byte
	for i := 0; i < 1<<16; i++ {
		k := []byte(fmt.Sprintf("inflight-%s-%d", kind, i))
		if h := chord.Hash(k); chord.Between(L, h, S, true) {
			key = k
			break
		}
	}
	if key == nil {
		return "precondition: no key"
	}
	ctx := context.Background()
	sNode := r.members[S].Node
	if kind == "delete" {
		if err := retryKV(func() error { return sNode.Put(ctx, key, []byte("old")) }); err != nil {
			return "precondition: " + err.Error()
		}
	}
	entered := make(chan struct{})
	release := make(chan struct{})
	first := true
	r.members[S].KV.SetHook(func(op string, k []byte) {
		if string(k) == string(key) && first {
			first = false
			close(entered)
			<-release
		}
	})
	opDone := make(chan error, 1)
	go func() {
		switch kind {
		case "put":
			opDone <- sNode.Put(ctx, key, []byte("new"))
		case "append":
			opDone <- sNode.PrefixAppend(ctx, key, []byte("child"))
		case "delete":
			opDone <- sNode.Delete(ctx, key)
		}
	}()
	select {
	case <-entered:
	case err := <-opDone:
		return fmt.Sprintf("precondition: operation returned before reaching the store: %v", err)
	case <-time.After(10 * time.Second):
		return "precondition: store hook not reached"
	}
	// the predecessor's leave request takes S's membership lock while the operation is in the store
	lockErr := r.net.Proxy(L, S).RequestToLeave(r.net.Proxy(S, L))
	close(release)
	opErr := <-opDone
	r.members[S].KV.SetHook(nil)
	if lockErr == nil {
		r.net.Proxy(L, S).FinishLeave(false, true) // aborted leave: release the lock again
	}
	if opErr != nil && !chord.ErrorIsRetryable(opErr) {
		return fmt.Sprintf("%s(%q) failed non-retryably while the membership lock was taken: %v", kind, key, opErr)
	}
	// what is the effect?
	var (
		got  []byte
		list [][]byte
	)
	if err := retryKV(func() (e error) { got, e = sNode.Get(ctx, key); return }); err != nil {
		return "precondition: read back: " + err.Error()
	}
	if err := retryKV(func() (e error) { list, e = sNode.PrefixList(ctx, key); return }); err != nil {
		return "precondition: read back: " + err.Error()
	}
	applied := false
	switch kind {
	case "put":
		applied = string(got) == "new"
	case "append":
		applied = len(list) == 1
	case "delete":
		applied = len(got) == 0
	}
	if opErr != nil && applied {
		return fmt.Sprintf("%s(%q) returned the retryable error %q (lock request result: %v) although it took effect", kind, key, opErr, lockErr)
	}
	if opErr == nil && !applied {
		return fmt.Sprintf("%s(%q) was acknowledged but has no effect (lock request result: %v)", kind, key, lockErr)
	}
	return ""
}

// staleNotifyCompletesAfterJoin: S's predecessor L has crashed. P notifies S
// twice; the first notification is stuck in S's liveness probe of L (the Ping
// is held on the wire), the second one goes through and makes P the
// predecessor. Then J joins between P and S through S and takes over (P, J].
// Only now the first notification resumes - computed from a view in which L
// was still the predecessor. Requests entering at S for a key that moved to J
// must still be answered with the acknowledged value (or fail retryably).
func staleNotifyCompletesAfterJoin() (problem string) {
	const (
		P = uint64(1) << 44
		L = uint64(2) << 44
		J = uint64(5) << 43
		S = uint64(3) << 44
	)
	r := newSimRing(ringsim.Config{Seed: 61, StabilizeInterval: time.Second, FixFingerInterval: time.Second, PredCheckInterval: time.Second})
	defer r.net.Close()
	if err := r.buildRing([]uint64{P, L, S}, func(i int) int { return 0 }); err != nil {
		return "precondition: " + err.Error()
	}
	if _, c := r.settle(60, true, nil); c.Problem != "" {
		return "precondition: " + c.Problem
	}
	r.fillLists(20)
	var key []byte
	for i := 0; i < 1<<16; i++ {
		k := []byte(fmt.Sprintf("stale-notify-%d", i))
		if chord.Between(L, chord.Hash(k), J, false) {
			key = k
			break
		}
	}
	if key == nil {
		return "precondition: no key"
	}
	ctx := context.Background()
	sNode := r.members[S].Node
	if err := retryKV(func() error { return sNode.Put(ctx, key, []byte("v1")) }); err != nil {
		return "precondition: put: " + err.Error()
	}
	// (Crash also waits for the victim's tasks, which sleep for up to two seconds here; the node is
	// unreachable from the first instant, and S must not have noticed yet)
	go r.net.Crash(r.members[L])
	for i := 0; i < 1000 && !r.members[L].Crashed(); i++ {
		time.Sleep(100 * time.Microsecond)
	}
	if pre := sNode.VerifPredecessor(); pre == nil || pre.ID() != L {
		return "precondition: the crash was noticed before the schedule started"
	}
	probe := r.net.AddGate(&ringsim.Gate{Method: "Ping", Caller: S, Callee: L, Nth: 1})
	first := make(chan error, 1)
	go func() { first <- r.net.Proxy(P, S).Notify(r.net.Proxy(S, P)) }()
	select {
	case <-probe.Reached():
	case err := <-first:
		probe.Release()
		return fmt.Sprintf("precondition: first notification ended without probing the old predecessor: %v", err)
	case <-time.After(10 * time.Second):
		probe.Release()
		return "precondition: probe not reached"
	}
	if err := r.net.Proxy(P, S).Notify(r.net.Proxy(S, P)); err != nil {
		probe.Release()
		return "precondition: second notification: " + err.Error()
	}
	if pre := sNode.VerifPredecessor(); pre == nil || pre.ID() != P {
		probe.Release()
		<-first
		return "precondition: second notification did not install the predecessor"
	}
	if _, err := r.join(J, S); err != nil {
		probe.Release()
		<-first
		return "precondition: join: " + err.Error()
	}
	if pre := sNode.VerifPredecessor(); pre == nil || pre.ID() != J {
		probe.Release()
		<-first
		return "precondition: join did not install the joiner as predecessor"
	}
	probe.Release()
	select {
	case <-first:
	case <-time.After(20 * time.Second):
		return "precondition: first notification did not return"
	}
	got, err := sNode.Get(ctx, key)
	switch {
	case err != nil && chord.ErrorIsRetryable(err):
	case err != nil:
		return fmt.Sprintf("Get(%q) entering at %d right after a notification computed before the join of %d completed: %v", key, S, J, err)
	case string(got) != "v1":
		pre := sNode.VerifPredecessor()
		return fmt.Sprintf("Get(%q) entering at %d succeeds with %q, the acknowledged value is \"v1\" (the key moved to %d when it joined; a notification from %d that had been computed while %d was still recorded as predecessor completed after the join; %d now records %v as predecessor)", key, S, got, J, P, L, S, vidOf(pre))
	}
	if err := sNode.Put(ctx, key, []byte("v2")); err == nil {
		var got2 []byte
		if e := retryKV(func() (e error) { got2, e = r.members[J].Node.Get(ctx, key); return }); e == nil && string(got2) != "v2" {
			return fmt.Sprintf("Put(%q, \"v2\") entering at %d was acknowledged, Get through its owner %d returns %q", key, S, J, got2)
		}
	} else if !chord.ErrorIsRetryable(err) {
		return fmt.Sprintf("Put(%q) entering at %d failed non-retryably: %v", key, S, err)
	}
	return ""
}

// leaveHandOverFailsAtKthImport: a node that owns several hundred keys leaves
// gracefully and the k-th Import call of its hand-over fails before delivery
// (for k > 1 that call only exists if the hand-over is split into several
// transfers). The leave attempt is abandoned and retried after a pause; during
// that pause clients read every key through another node. Every read must
// return the value written or fail retryably - never succeed with nothing.
func leaveHandOverFailsAtKthImport(k int) (problem string, fired bool) {
	const (
		P = uint64(1) << 44
		S = uint64(9) << 44 // owns half of the identifier space, leaves
		N = uint64(13) << 44
	)
	// the pause between two leave attempts is one stabilization interval: long enough to read in
	r := newSimRing(ringsim.Config{Seed: 57, StabilizeInterval: 400 * time.Millisecond, FixFingerInterval: 400 * time.Millisecond, PredCheckInterval: 400 * time.Millisecond})
	defer r.net.Close()
	if err := r.buildRing([]uint64{P, S, N}, func(i int) int { return 0 }); err != nil {
		return "precondition: " + err.Error(), false
	}
	if _, c := r.settle(60, true, nil); c.Problem != "" {
		return "precondition: " + c.Problem, false
	}
	r.fillLists(20)
	ctx := context.Background()
	want := map[string]string{}
	var keys []string
	for i := 0; len(keys) < 400 && i < 1<<16; i++ {
		key := fmt.Sprintf("handover-%d", i)
		if chord.Between(P, chord.Hash([]byte(key)), S, true) {
			v := fmt.Sprintf("value-%d", i)
			if err := retryKV(func() error { return r.members[S].Node.Put(ctx, []byte(key), []byte(v)) }); err != nil {
				return "precondition: put: " + err.Error(), false
			}
			want[key] = v
			keys = append(keys, key)
		}
	}
	rule := r.net.AddRule(&ringsim.FaultRule{Method: "Import", Caller: S, Callee: N, Mode: ringsim.FailBefore, From: k, To: k})
	leaveDone := make(chan struct{})
	go func() { r.members[S].Node.Leave(); close(leaveDone) }()
	// wait for the fault (or for the leave to finish without ever making a k-th call)
	for deadline := time.Now().Add(10 * time.Second); time.Now().Before(deadline); {
		if r.net.RuleFired(rule) > 0 {
			fired = true
			break
		}
		select {
		case <-leaveDone:
			deadline = time.Now()
		default:
			time.Sleep(200 * time.Microsecond)
		}
	}
	read := func(stage string, retry bool) string {
		via := r.members[P].Node
		for _, key := range keys {
			var got []byte
			var err error
			if retry {
				err = retryKV(func() (e error) { got, e = via.Get(ctx, []byte(key)); return })
			} else {
				got, err = via.Get(ctx, []byte(key))
			}
			switch {
			case err != nil && chord.ErrorIsRetryable(err) && !retry:
			case err != nil:
				return fmt.Sprintf("%s: Get(%q) via %d failed: %v", stage, key, P, err)
			case string(got) != want[key]:
				return fmt.Sprintf("%s: Get(%q) via %d succeeded with %q; the value written (and never deleted) is %q", stage, key, P, got, want[key])
			}
		}
		return ""
	}
	if fired {
		if p := read(fmt.Sprintf("in the pause after Import call #%d of the leave's hand-over had failed", k), false); p != "" {
			r.net.ClearRules()
			<-leaveDone
			return p, true
		}
	}
	r.net.ClearRules()
	select {
	case <-leaveDone:
	case <-time.After(60 * time.Second):
		return "precondition: leave did not return", fired
	}
	if _, c := r.settle(60, false, nil, false); c.Problem != "" {
		return "precondition: not converged after the leave: " + c.Problem, fired
	}
	return read("after the leave", true), fired
}

// parkCore is a zap core used as a schedule point INSIDE a function of the
// code under test: the KV request path derives a per-request logger
// (logger.With(key=...)) after the owner lookup and before it takes the node's
// KV barrier; With() on this core parks the first request for the watched key.
type parkCore struct {
	key     string
	once    *sync.Once
	entered chan struct{}
	release chan struct{}
}

func (c *parkCore) Enabled(zapcore.Level) bool { return false }
func (c *parkCore) With(fields []zapcore.Field) zapcore.Core {
	for _, f := range fields {
		if f.Key == "key" && f.String == c.key {
			hit := false
			c.once.Do(func() { hit = true })
			if hit {
				close(c.entered)
				<-c.release
			}
		}
	}
	return c
}
func (c *parkCore) Check(zapcore.Entry, *zapcore.CheckedEntry) *zapcore.CheckedEntry { return nil }
func (c *parkCore) Write(zapcore.Entry, []zapcore.Field) error                       { return nil }
func (c *parkCore) Sync() error                                                      { return nil }

// opAcceptedJustBeforeOwnerLeaves: a Put has been routed to the key's owner S
// and has passed the owner lookup, but has not yet entered S's KV barrier when
// S leaves gracefully (hands all its keys to its successor) - the request is
// parked at the per-request logger derivation. When it resumes, its result
// must agree with its effect as seen through the remaining nodes.
func opAcceptedJustBeforeOwnerLeaves() (problem string) {
	const (
		P = uint64(1) << 44
		S = uint64(2) << 44 // owner, leaves
		N = uint64(3) << 44 // its successor
	)
	var key []byte
	for i := 0; i < 1<<16; i++ {
		k := []byte(fmt.Sprintf("parked-%d", i))
		if h := chord.Hash(k); chord.Between(P, h, S, true) {
			key = k
			break
		}
	}
	if key == nil {
		return "precondition: no key"
	}
	core := &parkCore{key: string(key), once: &sync.Once{}, entered: make(chan struct{}), release: make(chan struct{})}
	r := newSimRing(ringsim.Config{Seed: 53, Logger: zap.New(core)})
	defer r.net.Close()
	if err := r.buildRing([]uint64{P, S, N}, func(i int) int { return 0 }); err != nil {
		return "precondition: " + err.Error()
	}
	if _, c := r.settle(60, true, nil); c.Problem != "" {
		return "precondition: " + c.Problem
	}
	r.fillLists(20)
	ctx := context.Background()
	sNode := r.members[S].Node
	opDone := make(chan error, 1)
	go func() { opDone <- sNode.Put(ctx, key, []byte("accepted")) }()
	select {
	case <-core.entered:
	case err := <-opDone:
		return fmt.Sprintf("precondition: request was not parked (returned %v)", err)
	case <-time.After(10 * time.Second):
		return "precondition: park point not reached"
	}
	sNode.Leave()
	if sNode.VerifState() != chord.Left {
		close(core.release)
		<-opDone
		return "precondition: owner did not leave"
	}
	close(core.release)
	opErr := <-opDone
	if opErr != nil && !chord.ErrorIsRetryable(opErr) {
		return fmt.Sprintf("Put(%q) accepted just before its owner left failed non-retryably: %v", key, opErr)
	}
	if _, c := r.settle(60, false, nil, false); c.Problem != "" {
		return "precondition: not converged after the leave: " + c.Problem
	}
	for _, m := range r.live() {
		var got []byte
		if err := retryKV(func() (e error) { got, e = m.Node.Get(ctx, key); return }); err != nil {
			return "precondition: read back: " + err.Error()
		}
		if opErr == nil && string(got) != "accepted" {
			return fmt.Sprintf("Put(%q) was acknowledged by its owner %d, which left right afterwards; Get via %d returns %q", key, S, m.ID, got)
		}
		if opErr != nil && string(got) == "accepted" {
			return fmt.Sprintf("Put(%q) returned the retryable error %q although it took effect (Get via %d)", key, opErr, m.ID)
		}
	}
	return ""
}
