package ring

import (
	"context"
	"fmt"
	"time"

	"go.miragespace.co/specter/spec/chord"
	"verifharness/internal/ringsim"
)

// opInFlightWhenLockTaken: a mutating KV operation is executing inside the
// owner's storage (past every ownership check) at the moment the owner's
// membership lock is taken by its predecessor's leave request. Whatever the
// operation returns must agree with its effect: a retryable failure means
// "no effect", success means the effect is there. kind is put | append | delete.
func opInFlightWhenLockTaken(kind string) (problem string) {
	const (
		P = uint64(1) << 44
		L = uint64(2) << 44
		S = uint64(3) << 44
	)
	r := newSimRing(ringsim.Config{Seed: 48})
	defer r.net.Close()
	if err := r.buildRing([]uint64{P, L, S}, func(i int) int { return 0 }); err != nil {
		return "precondition: " + err.Error()
	}
	if _, c := r.settle(60, true, nil); c.Problem != "" {
		return "precondition: " + c.Problem
	}
	r.fillLists(20)
	var key []byte
	for i := 0; i < 1<<16; i++ {
		k := []byte(fmt.Sprintf("inflight-%s-%d", kind, i))
		if h := chord.Hash(k); chord.Between(L, h, S, true) {
			key = k
			break
		}
	}
	if key == nil {
		return "precondition: no key"
	}
	ctx := context.Background()
	sNode := r.members[S].Node
	if kind == "delete" {
		if err := retryKV(func() error { return sNode.Put(ctx, key, []byte("old")) }); err != nil {
			return "precondition: " + err.Error()
		}
	}
	entered := make(chan struct{})
	release := make(chan struct{})
	first := true
	r.members[S].KV.SetHook(func(op string, k []byte) {
		if string(k) == string(key) && first {
			first = false
			close(entered)
			<-release
		}
	})
	opDone := make(chan error, 1)
	go func() {
		switch kind {
		case "put":
			opDone <- sNode.Put(ctx, key, []byte("new"))
		case "append":
			opDone <- sNode.PrefixAppend(ctx, key, []byte("child"))
		case "delete":
			opDone <- sNode.Delete(ctx, key)
		}
	}()
	select {
	case <-entered:
	case err := <-opDone:
		return fmt.Sprintf("precondition: operation returned before reaching the store: %v", err)
	case <-time.After(10 * time.Second):
		return "precondition: store hook not reached"
	}
	// the predecessor's leave request takes S's membership lock while the operation is in the store
	lockErr := r.net.Proxy(L, S).RequestToLeave(r.net.Proxy(S, L))
	close(release)
	opErr := <-opDone
	r.members[S].KV.SetHook(nil)
	if lockErr == nil {
		r.net.Proxy(L, S).FinishLeave(false, true) // aborted leave: release the lock again
	}
	if opErr != nil && !chord.ErrorIsRetryable(opErr) {
		return fmt.Sprintf("%s(%q) failed non-retryably while the membership lock was taken: %v", kind, key, opErr)
	}
	// what is the effect?
	var (
		got  []byte
		list [][]byte
	)
	if err := retryKV(func() (e error) { got, e = sNode.Get(ctx, key); return }); err != nil {
		return "precondition: read back: " + err.Error()
	}
	if err := retryKV(func() (e error) { list, e = sNode.PrefixList(ctx, key); return }); err != nil {
		return "precondition: read back: " + err.Error()
	}
	applied := false
	switch kind {
	case "put":
		applied = string(got) == "new"
	case "append":
		applied = len(list) == 1
	case "delete":
		applied = len(got) == 0
	}
	if opErr != nil && applied {
		return fmt.Sprintf("%s(%q) returned the retryable error %q (lock request result: %v) although it took effect", kind, key, opErr, lockErr)
	}
	if opErr == nil && !applied {
		return fmt.Sprintf("%s(%q) was acknowledged but has no effect (lock request result: %v)", kind, key, lockErr)
	}
	return ""
}
