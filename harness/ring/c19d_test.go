package ring

import (
	"context"
	"errors"
	"fmt"
	"math/rand"
	"sync"
	"testing"
	"time"

	"go.miragespace.co/specter/spec/chord"
	"verifharness/internal/ev"
	"verifharness/internal/kvmodel"
	"verifharness/internal/ringsim"
)

// C19 (through-the-DHT part): leases are exclusive and tokens honoured only
// while current, also when joins/leaves move the lease key between nodes.

type c19Step struct {
	Kind   string        `json:"kind"` // acquire renew release sleep join leave
	Holder int           `json:"holder,omitempty"`
	TTL    time.Duration `json:"ttl,omitempty"`
	Tok    string        `json:"tok,omitempty"` // current | stale | forged
	Sleep  time.Duration `json:"sleep,omitempty"`
	Off    int64         `json:"off,omitempty"`
	// filled at run time
	Outcome string `json:"outcome,omitempty"`
	Expect  string `json:"expect,omitempty"`
}

type c19Case struct {
	IDs   []uint64  `json:"ids"`
	Lease string    `json:"lease"`
	Steps []c19Step `json:"steps"`
	Seed  int64     `json:"seed"`
}

func classifyLease(err error) kvmodel.LeaseOutcome {
	switch {
	case err == nil:
		return kvmodel.LeaseOK
	case errors.Is(err, chord.ErrKVLeaseConflict):
		return kvmodel.LeaseConflict
	case errors.Is(err, chord.ErrKVLeaseExpired):
		return kvmodel.LeaseExpired
	case errors.Is(err, chord.ErrKVLeaseInvalidTTL):
		return kvmodel.LeaseInvalidTTL
	}
	return kvmodel.LeaseOther
}

func genC19Case(rng *rand.Rand, n int) c19Case {
	lease := fmt.Sprintf("lease/%d", rng.Intn(1000))
	h := chord.Hash([]byte(lease))
	cs := c19Case{Lease: lease, Seed: rng.Int63()}
	// ring of 2..3 nodes around the lease key's hash
	nn := 2 + rng.Intn(2)
	offs := []int64{1 << 30, -(1 << 30), 1 << 44}
	for i := 0; i < nn; i++ {
		cs.IDs = append(cs.IDs, (h+uint64(offs[i]))&ringMax)
	}
	ttls := []time.Duration{0, 999 * time.Millisecond, time.Second, 1500 * time.Millisecond, 2 * time.Second, 30 * time.Second}
	joinOffs := []int64{0, 1, 1 << 10, 1 << 20, 1 << 29}
	steps := 8 + rng.Intn(8)
	sleeps := 0
	for i := 0; i < steps; i++ {
		p := rng.Intn(100)
		st := c19Step{Holder: rng.Intn(3), TTL: ttls[rng.Intn(len(ttls))]}
		switch {
		case p < 28:
			st.Kind = "acquire"
		case p < 50:
			st.Kind = "renew"
			st.Tok = []string{"current", "current", "stale", "forged"}[rng.Intn(4)]
		case p < 66:
			st.Kind = "release"
			st.Tok = []string{"current", "current", "stale", "forged"}[rng.Intn(4)]
		case p < 78 && sleeps < 3:
			st.Kind = "sleep"
			st.Sleep = time.Duration(300+rng.Intn(1000)) * time.Millisecond
			sleeps++
		case p < 90:
			st.Kind = "join"
			st.Off = joinOffs[rng.Intn(len(joinOffs))]
		default:
			st.Kind = "leave"
		}
		if st.Kind == "" {
			st.Kind = "acquire"
		}
		cs.Steps = append(cs.Steps, st)
	}
	return cs
}

type c19Result struct {
	sig, msg     string
	movedHeld    bool
	hasForged    bool
	staleAfterEx bool
	boundary     int
	steps        int
	inconclusive string
}

func runC19Case(cs *c19Case) (res c19Result) {
	r := newSimRing(ringsim.Config{Seed: cs.Seed})
	defer r.net.Close()
	if err := r.buildRing(cs.IDs, func(i int) int { return 0 }); err != nil {
		res.inconclusive = "ring-build-failed"
		return
	}
	if _, c := r.settle(60, false, nil); c.Problem != "" {
		res.inconclusive = "ring-not-converged"
		return
	}
	r.fillLists(20)
	ctx := context.Background()
	rng := rand.New(rand.NewSource(cs.Seed))
	model := &kvmodel.Lease{Eps: int64(5 * time.Millisecond)}
	tokens := map[int][]uint64{}
	key := []byte(cs.Lease)
	h := chord.Hash(key)
	importsBefore := func() int {
		n := 0
		for _, m := range r.allMembers() {
			n += m.KV.ImportedKeys()[cs.Lease]
		}
		return n
	}
	lastImports := 0
	expiredSeen := false
	pickTok := func(st *c19Step) uint64 {
		own := tokens[st.Holder]
		switch st.Tok {
		case "current":
			if model.Token != 0 {
				return model.Token
			}
			if len(own) > 0 {
				return own[len(own)-1]
			}
		case "stale":
			for i := len(own) - 1; i >= 0; i-- {
				if own[i] != model.Token {
					return own[i]
				}
			}
		}
		return uint64(rng.Int63n(1<<62)) + 12345 // forged, never zero
	}
	for i := range cs.Steps {
		st := &cs.Steps[i]
		switch st.Kind {
		case "sleep":
			time.Sleep(st.Sleep)
			continue
		case "join":
			live := r.live()
			if len(live) >= 5 {
				continue
			}
			id := (h + uint64(st.Off)) & ringMax
			for r.hasMember(id) {
				id = (id + 1) & ringMax
			}
			_, err := r.join(id, live[rng.Intn(len(live))].ID)
			st.Outcome = fmt.Sprintf("join %d: %v", id, err)
			maintenanceRound(r.live())
			continue
		case "leave":
			live := r.live()
			if len(live) < 2 {
				continue
			}
			// leave of the current owner of the lease key
			owner := ownerOf(liveIDs(live), h)
			r.members[owner].Node.Leave()
			st.Outcome = fmt.Sprintf("leave %d: %s", owner, r.members[owner].Node.VerifState())
			maintenanceRound(r.live())
			continue
		}
		// a lease call through a random live node, retried on retryable errors
		var (
			tok  uint64
			err  error
			prev uint64
		)
		if st.Kind != "acquire" {
			prev = pickTok(st)
			if st.Tok == "forged" {
				res.hasForged = true
			}
			if st.Tok == "stale" && expiredSeen {
				res.staleAfterEx = true
			}
		}
		t0 := time.Now().UnixNano()
		for attempt := 0; attempt < 60; attempt++ {
			live := r.live()
			entry := live[rng.Intn(len(live))].Node
			switch st.Kind {
			case "acquire":
				tok, err = entry.Acquire(ctx, key, st.TTL)
			case "renew":
				tok, err = entry.Renew(ctx, key, st.TTL, prev)
			case "release":
				err = entry.Release(ctx, key, prev)
			}
			if err == nil || !chord.ErrorIsRetryable(err) {
				break
			}
			time.Sleep(time.Duration(1+attempt/4) * time.Millisecond)
		}
		t1 := time.Now().UnixNano()
		if err != nil && chord.ErrorIsRetryable(err) {
			res.inconclusive = "lease-call-refused-after-retries"
			return
		}
		var exp kvmodel.Expectation
		switch st.Kind {
		case "acquire":
			exp = model.ExpectAcquire(t0, t1, st.TTL)
		case "renew":
			exp = model.ExpectRenew(t0, t1, st.TTL, prev)
		case "release":
			exp = model.ExpectRelease(prev)
		}
		got := classifyLease(err)
		st.Outcome, st.Expect = got.String(), fmt.Sprintf("%v (%s)", exp.Allowed, exp.Why)
		if model.Token != 0 && model.ExpHi < t0 {
			expiredSeen = true
		}
		res.steps++
		if exp.Boundary {
			res.boundary++
		}
		if n := importsBefore(); n > lastImports {
			if model.Token != 0 {
				res.movedHeld = true
			}
			lastImports = n
		}
		if !exp.Allows(got) {
			res.sig = fmt.Sprintf("dht-%s-%s-where-%s-expected", st.Kind, got, exp.Allowed[0])
			res.msg = fmt.Sprintf("step %d %s(holder %d, ttl %s, token %s=%d): got %s (%v), contract allows %v because %s; model %s", i, st.Kind, st.Holder, st.TTL, st.Tok, prev, got, err, exp.Allowed, exp.Why, model)
			return
		}
		if got == kvmodel.LeaseOK {
			switch st.Kind {
			case "acquire", "renew":
				if tok == 0 {
					res.sig, res.msg = "dht-zero-token-granted", fmt.Sprintf("step %d: %s returned token 0", i, st.Kind)
					return
				}
				model.Granted(t0, t1, st.TTL, tok)
				tokens[st.Holder] = append(tokens[st.Holder], tok)
			case "release":
				model.Released()
			}
		}
	}
	if r.net.Panics.Load() > 0 {
		res.sig, res.msg = "handler-panic", firstLine(r.net.PanicLog[0])
	}
	return
}

func TestC19D(t *testing.T) {
	rec := ev.New(t, "C19")
	rec.Rule("DHT part: seeded-PRNG scripts (8..15 steps) on a simulated ring of 2..3 real LocalNodes whose ids surround the lease key's hash: acquire/renew/release by 3 holders with TTL in {0, 999ms, 1s, 1.5s, 2s, 30s}, current / stale / forged (non-zero) tokens, real sleeps of 0.3-1.3 s, and membership actions that move the lease key (join of a node that takes over the key's hash, leave of the key's current owner); every lease call goes through a random live node and is bracketed by clock readings, retryable errors are retried. Oracle: the interval-tolerant lease model of internal/kvmodel (outcome prescribed only if it is the same for every instant in the bracket +/- 5 ms; documented error class per failure; TTL < 1 s rejected; failed calls change nothing). Non-trivial: the lease key was transferred between nodes while held, or a forged token / a stale token after an expiry was used. Distinct = distinct scripts.")
	rec.Assume("real time: the wall clock does not jump; behaviour exactly at the expiry instant is not decided (boundary outcomes accepted and counted)")
	n := ev.N(96, 1600)
	rng := rand.New(rand.NewSource(ev.ShardSeed()))
	cases := make([]c19Case, n)
	for i := range cases {
		cases[i] = genC19Case(rng, i)
	}
	var (
		wg     sync.WaitGroup
		mu     sync.Mutex
		sem    = make(chan struct{}, 48)
		failed *c19Case
		fres   c19Result
	)
	for i := range cases {
		wg.Add(1)
		sem <- struct{}{}
		go func(cs *c19Case) {
			defer wg.Done()
			defer func() { <-sem }()
			res := runC19Case(cs)
			mu.Lock()
			defer mu.Unlock()
			if res.inconclusive != "" {
				rec.Inconclusive(res.inconclusive)
				return
			}
			labels := []string{}
			if res.movedHeld {
				labels = append(labels, "lease-moved-while-held")
			}
			if res.hasForged {
				labels = append(labels, "forged-token")
			}
			if res.staleAfterEx {
				labels = append(labels, "stale-token-after-expiry")
			}
			rec.Case(res.movedHeld || res.hasForged || res.staleAfterEx, fmt.Sprintf("%+v", *cs), func() any { return cs }, labels...)
			rec.Add("lease_calls", int64(res.steps))
			rec.Add("boundary_calls", int64(res.boundary))
			if res.sig != "" && failed == nil {
				failed, fres = cs, res
			}
		}(&cases[i])
	}
	wg.Wait()
	if failed != nil {
		rec.Fail(t, fres.sig, failed, "%s", fres.msg)
	}
}
