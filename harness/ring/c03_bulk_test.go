package ring

import (
	"context"
	"fmt"
	"sort"
	"time"

	"go.miragespace.co/specter/spec/chord"
	"verifharness/internal/ringsim"
)

// bulkHandover: a node that owns MANY keys (half of nKeys; every key has its
// own value, some have children, some a lease) leaves gracefully, then a node
// joins into the middle of the enlarged range of the node that received them.
// After each step every key must read back with ITS value, children and lease
// through every remaining node, and after the quiet period every node's own
// store must hold only keys of its own range. Size-dependent behaviour of the
// hand-over (batching, limits, timeouts that scale with the amount of data)
// only shows with key sets far larger than the random histories use.
func bulkHandover(t tfail, nKeys, backend int) (problem string) {
	const (
		P = uint64(1) << 44
		J = uint64(7) << 44 // joins later into S's enlarged range (P, S]
		L = uint64(9) << 44 // owns (P, L]: half of the identifier space
		S = uint64(13) << 44
	)
	newKV, rmDirs := kvFactory(t, []int{backend, backend, backend, backend})
	r := &simRing{net: ringsim.New(ringsim.Config{Seed: 54, NewKV: newKV}), members: map[uint64]*ringsim.Member{}}
	defer func() { r.net.Close(); rmDirs() }()
	if err := r.buildRing([]uint64{P, L, S}, func(i int) int { return 0 }); err != nil {
		return "precondition: " + err.Error()
	}
	if _, c := r.settle(60, true, nil); c.Problem != "" {
		return "precondition: " + c.Problem
	}
	r.fillLists(20)
	ctx := context.Background()
	type want struct {
		val      string
		children []string
		token    uint64
		leased   bool
	}
	model := map[string]*want{}
	keys := make([]string, 0, nKeys)
	for i := 0; i < nKeys; i++ {
		k := fmt.Sprintf("bulk-%d", i)
		w := &want{val: fmt.Sprintf("value-of-%d", i)}
		entry := r.live()[i%3].Node
		if err := retryKV(func() error { return entry.Put(ctx, []byte(k), []byte(w.val)) }); err != nil {
			return "precondition: put: " + err.Error()
		}
		if i%7 == 0 {
			for c := 0; c <= i%3; c++ {
				child := fmt.Sprintf("child-%d-%d", i, c)
				if err := retryKV(func() error { return entry.PrefixAppend(ctx, []byte(k), []byte(child)) }); err != nil {
					return "precondition: append: " + err.Error()
				}
				w.children = append(w.children, child)
			}
		}
		if i%41 == 0 {
			var tok uint64
			if err := retryKV(func() (e error) { tok, e = entry.Acquire(ctx, []byte(k), time.Hour); return }); err != nil {
				return "precondition: acquire: " + err.Error()
			}
			w.token, w.leased = tok, true
		}
		model[k] = w
		keys = append(keys, k)
	}
	held := func(id uint64) int {
		ks, _ := r.members[id].KV.Inner().RangeKeys(ctx, 0, 0)
		return len(ks)
	}
	verify := func(step string) string {
		live := r.live()
		for i, k := range keys {
			w := model[k]
			via := live[i%len(live)]
			var got []byte
			if err := retryKV(func() (e error) { got, e = via.Node.Get(ctx, []byte(k)); return }); err != nil {
				return fmt.Sprintf("%s: Get(%q) via %d: %v", step, k, via.ID, err)
			}
			if string(got) != w.val {
				return fmt.Sprintf("%s: Get(%q) via %d returns %q, the value written was %q", step, k, via.ID, got, w.val)
			}
			if i%7 == 0 {
				var list [][]byte
				if err := retryKV(func() (e error) { list, e = via.Node.PrefixList(ctx, []byte(k)); return }); err != nil {
					return fmt.Sprintf("%s: PrefixList(%q) via %d: %v", step, k, via.ID, err)
				}
				gotC := make([]string, 0, len(list))
				for _, c := range list {
					gotC = append(gotC, string(c))
				}
				sort.Strings(gotC)
				exp := append([]string(nil), w.children...)
				sort.Strings(exp)
				if fmt.Sprint(gotC) != fmt.Sprint(exp) {
					return fmt.Sprintf("%s: PrefixList(%q) via %d returns %v, the children appended were %v", step, k, via.ID, gotC, exp)
				}
			}
			if w.leased {
				var tok uint64
				if err := retryKV(func() (e error) { tok, e = via.Node.Renew(ctx, []byte(k), time.Hour, w.token); return }); err != nil {
					return fmt.Sprintf("%s: Renew(%q) with the token of the lease holder via %d: %v", step, k, via.ID, err)
				}
				w.token = tok
			}
		}
		return ""
	}
	if p := verify("before any hand-over"); p != "" {
		return "precondition: " + p
	}
	nL := held(L)
	if nL < nKeys/3 {
		return fmt.Sprintf("precondition: leaving node holds only %d of %d keys", nL, nKeys)
	}
	r.members[L].Node.Leave()
	if r.members[L].Node.VerifState() != chord.Left {
		return "precondition: leave did not complete"
	}
	if _, c := r.settle(60, false, nil, false); c.Problem != "" {
		return "precondition: not converged after the leave: " + c.Problem
	}
	if p := verify(fmt.Sprintf("after node %d left gracefully holding %d keys", L, nL)); p != "" {
		return p
	}
	if _, err := r.join(J, P); err != nil {
		return "precondition: join: " + err.Error()
	}
	if _, c := r.settle(60, false, nil, false); c.Problem != "" {
		return "precondition: not converged after the join: " + c.Problem
	}
	if p := verify(fmt.Sprintf("after node %d joined and took over %d keys", J, held(J))); p != "" {
		return p
	}
	live := r.live()
	ids := liveIDs(live)
	total := 0
	for i, m := range live {
		ks, err := m.KV.Inner().RangeKeys(ctx, 0, 0)
		if err != nil {
			return "precondition: RangeKeys: " + err.Error()
		}
		total += len(ks)
		pre := ids[(i-1+len(ids))%len(ids)]
		for _, k := range ks {
			if h := chord.Hash(k); !chord.Between(pre, h, m.ID, true) {
				return fmt.Sprintf("after the hand-overs node %d holds key %q (hash %d) outside its range (%d, %d]", m.ID, k, h, pre, m.ID)
			}
		}
	}
	if total != nKeys {
		return fmt.Sprintf("after the hand-overs the nodes hold %d keys in total, %d were written", total, nKeys)
	}
	return ""
}
