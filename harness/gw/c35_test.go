package gw

import (
	"bufio"
	"context"
	"crypto/tls"
	"fmt"
	"io"
	"net"
	"net/http"
	"net/http/httptest"
	"sort"
	"strings"
	"sync"
	"testing"
	"time"

	"go.miragespace.co/specter/gateway"
	"go.miragespace.co/specter/spec/protocol"
	"verifharness/internal/ev"

	"pgregory.net/rapid"
)

// ---- C35: forwarded requests carry only gateway-asserted client headers ----

type hdrLine struct {
	Name  string `json:"name"`
	Value string `json:"value"`
}

type c35Case struct {
	Proto       string    `json:"proto"` // HTTP/1.1, HTTP/2.0, HTTP/3.0
	Host        string    `json:"host"`  // without port
	HostPort    string    `json:"host_header"`
	Peer        string    `json:"peer"`
	GatewayPort int       `json:"gateway_port"`
	Method      string    `json:"method"`
	Headers     []hdrLine `json:"headers"`
	// SNI: server name of the TLS connection the request arrived on, when it differs from the
	// requested host (HTTP/2 and HTTP/3 clients reuse one connection for several hosts of the
	// same certificate); "" = the requested host
	SNI string `json:"connection_sni,omitempty"`
}

var (
	c35Protected = []string{"X-Forwarded-For", "X-Forwarded-Host", "X-Forwarded-Proto", "True-Client-IP", "X-Real-IP"}
	c35OtherFwd  = []string{"Forwarded", "X-Forwarded-Port", "X-Forwarded-Server", "X-Forwarded-Ssl", "X-Forwarded-Scheme"}
	c35Benign    = []string{"User-Agent", "Accept", "X-Request-Id", "Cookie", "X-Forwarded", "X-Real-Ip-Extra"}
)

const spoofMark = "spoof"

func oddCase(t *rapid.T, name string) string {
	switch rapid.IntRange(0, 4).Draw(t, "nameCase") {
	case 0:
		return strings.ToLower(name)
	case 1:
		return strings.ToUpper(name)
	case 2:
		b := []byte(name)
		for i := range b {
			if rapid.Bool().Draw(t, "flip") && ((b[i] >= 'a' && b[i] <= 'z') || (b[i] >= 'A' && b[i] <= 'Z')) {
				b[i] ^= 0x20
			}
		}
		return string(b)
	}
	return name
}

func spoofValue(t *rapid.T, name string, n int) string {
	switch strings.ToLower(name) {
	case "x-forwarded-for", "true-client-ip", "x-real-ip":
		vals := []string{}
		for i := 0; i < rapid.IntRange(1, 3).Draw(t, "nIPs"); i++ {
			if rapid.Bool().Draw(t, "v6") {
				vals = append(vals, fmt.Sprintf("2001:db8:bad::%x", n*16+i))
			} else {
				vals = append(vals, fmt.Sprintf("66.6.%d.%d", n, i))
			}
		}
		return strings.Join(vals, ", ")
	case "x-forwarded-host":
		return fmt.Sprintf("%s-%d.evil.test", spoofMark, n)
	case "x-forwarded-proto", "x-forwarded-scheme":
		return rapid.SampledFrom([]string{"http", "ws", "gopher", "HTTP"}).Draw(t, "proto")
	case "forwarded":
		return fmt.Sprintf("for=66.6.%d.1;host=%s-%d.evil.test;proto=http", n, spoofMark, n)
	}
	return fmt.Sprintf("%s-%d", spoofMark, n)
}

func genC35(t *rapid.T) c35Case {
	c := c35Case{
		Proto:       rapid.SampledFrom([]string{"HTTP/1.1", "HTTP/2.0", "HTTP/3.0"}).Draw(t, "proto"),
		GatewayPort: rapid.SampledFrom([]int{443, 443, 8443, 4433, 1, 65535}).Draw(t, "gwPort"),
		Method:      rapid.SampledFrom([]string{"GET", "POST", "HEAD", "DELETE", "PROPFIND"}).Draw(t, "method"),
	}
	label := genLabel(rapid.IntRange(0, 4).Draw(t, "upperLabel") == 0, 1, 8).Draw(t, "label")
	root := rapid.SampledFrom([]string{"example.com", "a.b.c.d.com"}).Draw(t, "root")
	switch rapid.IntRange(0, 5).Draw(t, "hostKind") {
	case 0:
		c.Host = "custom." + label + ".org" // a custom hostname (whole host is the tunnel name)
	default:
		c.Host = label + "." + root
	}
	if c.Proto != "HTTP/1.1" && rapid.IntRange(0, 2).Draw(t, "coalesced") == 0 {
		// connection coalescing: the connection was opened for another host of the gateway
		c.SNI = "first-" + genLabel(false, 1, 6).Draw(t, "sniLabel") + "." + root
	}
	c.HostPort = c.Host
	if rapid.IntRange(0, 2).Draw(t, "hostHasPort") == 0 {
		c.HostPort = fmt.Sprintf("%s:%d", c.Host, rapid.SampledFrom([]int{443, 8443, 80, 1}).Draw(t, "hostPort"))
	}
	if rapid.Bool().Draw(t, "peer6") {
		c.Peer = fmt.Sprintf("[fd00::%x:%x]:%d", rapid.IntRange(0, 0xffff).Draw(t, "p6a"), rapid.IntRange(1, 0xffff).Draw(t, "p6b"), rapid.IntRange(1, 65535).Draw(t, "pport"))
	} else {
		c.Peer = fmt.Sprintf("10.%d.%d.%d:%d", rapid.IntRange(0, 255).Draw(t, "p4a"), rapid.IntRange(0, 255).Draw(t, "p4b"), rapid.IntRange(1, 254).Draw(t, "p4c"), rapid.IntRange(1, 65535).Draw(t, "pport"))
	}
	// Per spoofable header 0..3 occurrences, every occurrence with its own
	// value kind (empty, whitespace only, typed valid value, list "a, b",
	// garbage, the legitimate value itself); then all lines in a generated
	// order, so the first occurrence of a header can be any of them.
	var lines []hdrLine
	seq := 0
	for _, name := range c35Protected {
		for k := rapid.IntRange(0, 3).Draw(t, "occurrences-"+name); k > 0; k-- {
			lines = append(lines, hdrLine{Name: oddCase(t, name), Value: genHeaderValue(t, &c, name, seq)})
			seq++
		}
	}
	for _, name := range c35OtherFwd {
		if rapid.IntRange(0, 3).Draw(t, "other-"+name) == 0 {
			lines = append(lines, hdrLine{Name: oddCase(t, name), Value: genHeaderValue(t, &c, name, seq)})
			seq++
		}
	}
	for k := rapid.IntRange(0, 2).Draw(t, "nBenign"); k > 0; k-- {
		name := rapid.SampledFrom(c35Benign).Draw(t, "benign")
		lines = append(lines, hdrLine{Name: oddCase(t, name), Value: " " + spoofValue(t, name, seq)})
		seq++
	}
	if rapid.IntRange(0, 3).Draw(t, "connection") == 0 {
		// a hop-by-hop declaration naming a protected header
		lines = append(lines, hdrLine{Name: oddCase(t, "Connection"), Value: " " + rapid.SampledFrom(c35Protected).Draw(t, "connTarget")})
	}
	if len(lines) > 1 {
		lines = rapid.Permutation(lines).Draw(t, "lineOrder")
	}
	c.Headers = lines
	return c
}

// genHeaderValue returns the raw text after the colon of one header line.
func genHeaderValue(t *rapid.T, c *c35Case, name string, n int) string {
	lname := strings.ToLower(name)
	switch rapid.IntRange(0, 8).Draw(t, "valueKind") {
	case 0:
		return "" // "Name:" and nothing else
	case 1:
		return rapid.SampledFrom([]string{" ", "\t", "   ", " \t "}).Draw(t, "blank")
	case 2: // garbage
		return " " + rapid.SampledFrom([]string{"not-an-ip", "999.999.1.1", "::gg", "unknown", "_hidden", "'; DROP TABLE t;--", "1.2.3", "[::1]:80", "a b c"}).Draw(t, "garbage")
	case 3: // the value the gateway itself would assert
		switch lname {
		case "x-forwarded-for", "true-client-ip", "x-real-ip":
			ip, _, _ := net.SplitHostPort(c.Peer)
			return " " + ip
		case "x-forwarded-host":
			return " " + c.Host
		case "x-forwarded-proto":
			return " https"
		}
	case 4: // a list "a, b"
		return " " + spoofValue(t, name, n) + ", " + spoofValue(t, name, n+50)
	}
	return rapid.SampledFrom([]string{" ", "", "  "}).Draw(t, "sep") + spoofValue(t, name, n) // a typed valid value
}

func isProtected(name string) bool {
	for _, p := range c35Protected {
		if strings.EqualFold(p, name) {
			return true
		}
	}
	return false
}

type arrived struct {
	Host   string      `json:"host"`
	Header http.Header `json:"header"`
}

func runC35(t failT, rec *ev.Recorder, c c35Case) {
	var raw strings.Builder
	fmt.Fprintf(&raw, "%s /p/a/t/h?x=1 HTTP/1.1\r\nHost: %s\r\n", c.Method, c.HostPort)
	spoofed := 0
	labels := map[string]bool{"proto:" + c.Proto: true}
	seenHdr, firstBlank := map[string]bool{}, map[string]bool{}
	for _, h := range c.Headers {
		fmt.Fprintf(&raw, "%s:%s\r\n", h.Name, h.Value)
		if isProtected(h.Name) {
			spoofed++
			ck := http.CanonicalHeaderKey(h.Name)
			labels["spoofed:"+ck] = true
			blank := strings.TrimSpace(h.Value) == ""
			if blank {
				labels["spoofed-value:empty-or-blank"] = true
			}
			switch {
			case !seenHdr[ck]:
				firstBlank[ck] = blank
			case firstBlank[ck] && !blank:
				labels["repeated-header:first-occurrence-empty,later-not"] = true
			}
			if seenHdr[ck] {
				labels["repeated-header"] = true
			}
			seenHdr[ck] = true
		}
		if strings.EqualFold(h.Name, "Connection") {
			labels["connection-names-protected-header"] = true
		}
	}
	raw.WriteString("\r\n")
	doc := map[string]any{"case": c}
	req, err := http.ReadRequest(bufio.NewReader(strings.NewReader(raw.String())))
	if err != nil {
		panic(fmt.Sprintf("harness: generated request does not parse: %v\n%s", err, raw.String()))
	}
	req.RemoteAddr = c.Peer
	req.TLS = &tls.ConnectionState{ServerName: c.Host, NegotiatedProtocol: "http/1.1"}
	if c.SNI != "" {
		req.TLS.ServerName = c.SNI
		labels["connection-sni-differs-from-requested-host"] = true
	}
	switch c.Proto {
	case "HTTP/2.0":
		req.Proto, req.ProtoMajor, req.ProtoMinor = c.Proto, 2, 0
		req.TLS.NegotiatedProtocol = "h2"
	case "HTTP/3.0":
		req.Proto, req.ProtoMajor, req.ProtoMinor = c.Proto, 3, 0
		req.TLS.NegotiatedProtocol = "h3"
	}

	var mu sync.Mutex
	var seen []arrived
	ts := &fakeTunServer{dial: func(ctx context.Context, link *protocol.Link) (net.Conn, error) {
		c1, c2 := net.Pipe()
		go func() {
			defer c2.Close()
			c2.SetDeadline(time.Now().Add(watchdog))
			r, err := http.ReadRequest(bufio.NewReader(c2))
			if err != nil {
				return
			}
			io.Copy(io.Discard, r.Body)
			mu.Lock()
			seen = append(seen, arrived{Host: r.Host, Header: r.Header.Clone()})
			mu.Unlock()
			io.WriteString(c2, "HTTP/1.1 200 OK\r\nContent-Length: 2\r\nConnection: close\r\n\r\nok")
		}()
		return c1, nil
	}}
	g := newGateway(ts, []string{"example.com", "a.b.c.d.com"}, c.GatewayPort, "", "", gateway.InternalHandlers{})
	h := g.VerifProxyHandler()
	if c.Proto == "HTTP/3.0" {
		h = g.VerifH3ProxyHandler()
	}
	w := httptest.NewRecorder()
	var pn any
	func() {
		defer func() { pn = recover() }()
		h.ServeHTTP(w, req)
	}()
	mu.Lock()
	got := append([]arrived(nil), seen...)
	mu.Unlock()
	doc["arrived"], doc["status"] = got, w.Code

	ls := make([]string, 0, len(labels))
	for l := range labels {
		ls = append(ls, l)
	}
	if c.GatewayPort == 443 {
		ls = append(ls, "gateway-port:443")
	} else {
		ls = append(ls, "gateway-port:other")
	}
	if strings.HasPrefix(c.Peer, "[") {
		ls = append(ls, "peer:ipv6")
	} else {
		ls = append(ls, "peer:ipv4")
	}
	sort.Strings(ls)
	rec.Case(spoofed > 0, fmt.Sprintf("%+v", c), func() any { return doc }, ls...)

	if pn != nil && pn != http.ErrAbortHandler {
		rec.Fail(t, "proxy-handler-panic", doc, "proxy handler panicked: %v", pn)
	}
	if len(got) != 1 || w.Code != 200 {
		rec.Fail(t, "request-not-forwarded", doc, "request was not forwarded exactly once (arrived %d times, status %d)", len(got), w.Code)
	}
	a := got[0]
	peerIP, _, _ := net.SplitHostPort(c.Peer)
	wantHost := c.Host
	if c.GatewayPort != 443 {
		wantHost = fmt.Sprintf("%s:%d", c.Host, c.GatewayPort)
	}
	values := func(name string) []string {
		var out []string
		for k, v := range a.Header {
			if strings.EqualFold(k, name) {
				out = append(out, v...)
			}
		}
		return out
	}
	if v := values("X-Forwarded-For"); len(v) != 1 || v[0] != peerIP {
		rec.Fail(t, "x-forwarded-for-not-peer-only", doc, "X-Forwarded-For arrived as %q, want exactly [%q]", v, peerIP)
	}
	if v := values("X-Forwarded-Proto"); len(v) != 1 || v[0] != "https" {
		rec.Fail(t, "x-forwarded-proto-not-https", doc, "X-Forwarded-Proto arrived as %q, want [https]", v)
	}
	if v := values("X-Forwarded-Host"); len(v) != 1 || !strings.EqualFold(v[0], wantHost) {
		rec.Fail(t, "x-forwarded-host-wrong", doc, "X-Forwarded-Host arrived as %q, want [%q]", v, wantHost)
	}
	for _, name := range []string{"True-Client-IP", "X-Real-IP"} {
		if v := values(name); len(v) != 0 {
			rec.Fail(t, "client-ip-header-passed-through", doc, "%s arrived as %q, must not be forwarded", name, v)
		}
	}
	// no client-supplied value of a protected header survives anywhere in them
	legit := map[string]bool{peerIP: true, "https": true, strings.ToLower(wantHost): true}
	for _, hl := range c.Headers {
		if !isProtected(hl.Name) {
			continue
		}
		for _, part := range strings.Split(hl.Value, ",") {
			part = strings.TrimSpace(part)
			if part == "" || legit[strings.ToLower(part)] {
				continue
			}
			for _, p := range c35Protected {
				for _, v := range values(p) {
					for _, vp := range strings.Split(v, ",") {
						if strings.TrimSpace(vp) == part {
							rec.Fail(t, "spoofed-value-survives", doc, "client value %q of %s survives in forwarded %s: %q", part, hl.Name, p, v)
						}
					}
				}
			}
		}
	}
	// informational only: other X-Forwarded-* names and Forwarded
	for _, name := range c35OtherFwd {
		sent := false
		for _, hl := range c.Headers {
			sent = sent || strings.EqualFold(hl.Name, name)
		}
		if sent && len(values(name)) > 0 {
			rec.Add("info_passed_through_"+name, 1)
		} else if sent {
			rec.Add("info_stripped_"+name, 1)
		}
	}
}

func TestC35(t *testing.T) {
	rec := ev.New(t, "C35")
	rec.Rule("rapid-generated requests written as raw HTTP/1.1 text and parsed with http.ReadRequest (header keys canonical exactly as a Go server delivers them), presented as HTTP/1.1 (TLS SNI = host), HTTP/2 and HTTP/3 requests (proto fields, negotiated protocol h2 / h3; for one in three of these the connection's SNI names ANOTHER host of the same gateway - connection coalescing - and the requested host is the one in the request), Host with or without a port, label.root and custom hosts, peers IPv4/IPv6, gateway ports {443, 8443, 4433, 1, 65535}; header lines: for each of X-Forwarded-For/-Host/-Proto, True-Client-IP, X-Real-IP 0..3 occurrences (odd name casing per line), each occurrence with its own value kind out of {nothing after the colon, blanks/tabs only, a typed valid value with 0..2 leading blanks, a list 'a, b', garbage, the very value the gateway would assert (peer IP / host / https)}; optionally other X-Forwarded-*/Forwarded lines, Connection: <protected header>, 0..2 benign headers; all lines in a generated permutation, so any occurrence (e.g. an empty one) can come first. The text is parsed by net/http, so real parsing decides what the handler sees (an empty first value followed by a forged one included). Each case: fresh Gateway, real tunnel proxy handler, fake tun.Server whose conn ends in a harness HTTP/1.1 peer that records the arriving request. Oracle: X-Forwarded-For = [peer IP], X-Forwarded-Proto = [https], X-Forwarded-Host = [host(:gateway port unless 443)], no True-Client-IP / X-Real-IP, no client-supplied value inside those headers. Non-trivial: >=1 spoofed protected header line present. Distinct = distinct generated requests.")
	rec.Assume("for HTTP/1.1 the Host header equals the TLS server name (the requested host is then unambiguous)",
		"other X-Forwarded-* names (Port, Server, Ssl, Scheme) and Forwarded are recorded as informational only: the statement's first sentence enumerates For/Proto/Host",
		"header keys are canonical as produced by net/http servers; non-canonical map keys cannot arrive from a real listener")

	// a few fixed cases first
	runC35(t, rec, c35Case{Proto: "HTTP/1.1", Host: "hello.example.com", HostPort: "hello.example.com", Peer: "10.1.2.3:5555", GatewayPort: 443, Method: "GET",
		Headers: []hdrLine{{"x-forwarded-for", "66.6.0.1, 66.6.0.2"}, {"X-Real-IP", "66.6.0.3"}, {"TRUE-CLIENT-IP", "66.6.0.4"}, {"X-Forwarded-Host", "spoof-0.evil.test"}, {"X-Forwarded-Proto", "http"}}})
	runC35(t, rec, c35Case{Proto: "HTTP/2.0", Host: "hello.example.com", HostPort: "hello.example.com:8443", Peer: "[fd00::1:2]:5555", GatewayPort: 8443, Method: "POST",
		Headers: []hdrLine{{"Connection", "X-Forwarded-For"}, {"X-Forwarded-For", "66.6.1.1"}, {"Forwarded", "for=66.6.1.2"}}})

	for _, proto := range []string{"HTTP/1.1", "HTTP/2.0", "HTTP/3.0"} {
		// repeated headers whose first occurrence is empty / blank
		runC35(t, rec, c35Case{Proto: proto, Host: "hello.example.com", HostPort: "hello.example.com", Peer: "10.1.2.3:5555", GatewayPort: 443, Method: "GET",
			Headers: []hdrLine{{"X-Real-IP", ""}, {"True-Client-IP", " \t"}, {"X-Forwarded-For", ""}, {"X-Real-IP", " 66.6.0.9"}, {"true-client-ip", " 66.6.0.8"}, {"X-Forwarded-For", " 66.6.0.7"}, {"X-Real-IP", ""}}})
	}

	ev.RapidCheck(t, 1200, 40000, func(t *rapid.T) {
		runC35(t, rec, genC35(t))
	})
}
