package gw

import (
	"fmt"
	"net/netip"
	"slices"
	"strings"
	"testing"

	"go.miragespace.co/specter/gateway"
	"verifharness/internal/ev"

	"pgregory.net/rapid"
)

// ---- C34: request host -> tunnel name --------------------------------------

const sigC34Case = "root-match-is-case-sensitive"

func asciiLower(s string) string {
	b := []byte(s)
	for i, c := range b {
		if c >= 'A' && c <= 'Z' {
			b[i] = c + 'a' - 'A'
		}
	}
	return string(b)
}

func hasUpper(s string) bool {
	for i := 0; i < len(s); i++ {
		if s[i] >= 'A' && s[i] <= 'Z' {
			return true
		}
	}
	return false
}

// refResolve is the statement, evaluated on the lower-cased host: IP literals
// and hosts with fewer than three labels are refused, label.root resolves to
// label, everything else to the whole host.
func refResolve(host string, roots []string) (string, bool) {
	h := asciiLower(host)
	if _, err := netip.ParseAddr(h); err == nil {
		return "", false
	}
	labels := strings.Split(h, ".")
	if len(labels) < 3 {
		return "", false
	}
	if slices.Contains(roots, strings.Join(labels[1:], ".")) {
		return labels[0], true
	}
	return h, true
}

type c34Result struct {
	Name string `json:"name"`
	Err  string `json:"err,omitempty"`
	OK   bool   `json:"ok"`
}

func resolveC34(g *gateway.Gateway, host string) (res c34Result, panicked any) {
	defer func() {
		if p := recover(); p != nil {
			panicked = p
		}
	}()
	name, err := g.VerifExtractHostname(host)
	if err != nil {
		return c34Result{Err: err.Error()}, nil
	}
	return c34Result{Name: name, OK: true}, nil
}

// inKnownC34Class: the host's tail equals a configured root only after
// lower-casing, the reference wants the label, the gateway answered with the
// whole (lower-cased) host.
func inKnownC34Class(host string, roots []string, got c34Result) bool {
	i := strings.IndexByte(host, '.')
	if i < 0 {
		return false
	}
	tail := host[i+1:]
	want, ok := refResolve(host, roots)
	return ok && hasUpper(tail) && slices.Contains(roots, asciiLower(tail)) &&
		want == asciiLower(host[:i]) && got.OK && got.Name == asciiLower(host)
}

// checkC34 evaluates one (roots, host, recased host) case. It returns true
// when the case fell into the listed known-finding class (and was excluded).
func checkC34(t failT, rec *ev.Recorder, roots []string, host, recased string) {
	g := &gateway.Gateway{GatewayConfig: gateway.GatewayConfig{RootDomains: roots}}
	got, pn := resolveC34(g, host)
	want, wantOK := refResolve(host, roots)
	doc := map[string]any{"roots": roots, "host": host, "recased": recased, "got": got, "want": want, "want_ok": wantOK}

	i := strings.IndexByte(host, '.')
	tailIsRoot := i >= 0 && slices.Contains(roots, asciiLower(host[i+1:]))
	_, ipErr := netip.ParseAddr(asciiLower(host))
	isIP := ipErr == nil
	nt := isIP || (tailIsRoot && hasUpper(host))
	labels := []string{}
	switch {
	case isIP:
		labels = append(labels, "ip-literal")
	case !wantOK:
		labels = append(labels, "too-few-labels")
	case tailIsRoot:
		labels = append(labels, "label.root")
		if hasUpper(host[i+1:]) {
			labels = append(labels, "label.root:upper-in-root")
		}
		if hasUpper(host[:i]) {
			labels = append(labels, "label.root:upper-in-label")
		}
	default:
		labels = append(labels, "whole-host")
		if hasUpper(host) {
			labels = append(labels, "whole-host:upper")
		}
	}
	rec.Case(nt, fmt.Sprintf("%q|%q", roots, host), func() any { return doc }, labels...)

	if pn != nil {
		rec.Fail(t, "extract-hostname-panic", doc, "extractHostname(%q) panicked: %v", host, pn)
	}
	excluded := false
	switch {
	case got.OK != wantOK:
		rec.Fail(t, "refusal-mismatch", doc, "host %q roots %v: resolved=%v (%q, err %q), reference resolved=%v (%q)", host, roots, got.OK, got.Name, got.Err, wantOK, want)
	case got.OK && got.Name != want:
		if inKnownC34Class(host, roots, got) {
			if ev.Known("C34", sigC34Case) {
				rec.Excluded(sigC34Case)
				excluded = true
			} else {
				rec.Fail(t, sigC34Case, doc, "host %q roots %v resolves to %q, want the label %q: the root comparison is case-sensitive", host, roots, got.Name, want)
			}
		} else {
			rec.Fail(t, "name-mismatch", doc, "host %q roots %v resolves to %q, want %q", host, roots, got.Name, want)
		}
	}

	// metamorphic: letter case of the host never matters
	if recased != host {
		got2, pn2 := resolveC34(g, recased)
		doc["got_recased"] = got2
		if pn2 != nil {
			rec.Fail(t, "extract-hostname-panic", doc, "extractHostname(%q) panicked: %v", recased, pn2)
		}
		if got2 != got && !(got.OK == got2.OK && !got.OK) {
			if excluded || inKnownC34Class(recased, roots, got2) {
				if ev.Known("C34", sigC34Case) {
					rec.Excluded(sigC34Case)
					return
				}
				rec.Fail(t, sigC34Case, doc, "hosts %q and %q differ only in letter case but resolve to %q and %q", host, recased, got.Name, got2.Name)
			}
			rec.Fail(t, "case-changes-resolution", doc, "hosts %q and %q differ only in letter case but resolve to %+v and %+v", host, recased, got, got2)
		}
	}
}

var c34RootPool = []string{"example.com", "specter.dev", "a.b.c.d.com", "x.y.z.net", "ex-ample.co.uk", "1.example.org", "com.example.com", "b.example.com"}

func genLabel(upper bool, min, max int) *rapid.Generator[string] {
	alpha := "abcdefghijklmnopqrstuvwxyz0123456789-"
	if upper {
		alpha += "ABCDEFGHIJKLMNOPQRSTUVWXYZ"
	}
	return rapid.StringOfN(rapid.SampledFrom([]rune(alpha)), min, max, -1)
}

func recase(t *rapid.T, s string, label string) string {
	mode := rapid.IntRange(0, 3).Draw(t, label+"Mode")
	b := []byte(s)
	switch mode {
	case 0: // all upper
		return strings.ToUpper(s)
	case 1: // all lower
		return asciiLower(s)
	case 2: // one letter flipped
		idx := []int{}
		for i, c := range b {
			if (c >= 'a' && c <= 'z') || (c >= 'A' && c <= 'Z') {
				idx = append(idx, i)
			}
		}
		if len(idx) == 0 {
			return s
		}
		i := idx[rapid.IntRange(0, len(idx)-1).Draw(t, label+"Idx")]
		b[i] ^= 0x20
		return string(b)
	default: // every letter independently
		flips := rapid.SliceOfN(rapid.Bool(), len(b), len(b)).Draw(t, label+"Flips")
		for i, c := range b {
			if flips[i] && ((c >= 'a' && c <= 'z') || (c >= 'A' && c <= 'Z')) {
				b[i] ^= 0x20
			}
		}
		return string(b)
	}
}

func genRoots(t *rapid.T) []string {
	n := rapid.IntRange(1, 3).Draw(t, "nRoots")
	roots := make([]string, 0, n)
	for len(roots) < n {
		var r string
		if rapid.IntRange(0, 3).Draw(t, "rootKind") == 0 {
			// a generated lower-case root of 2..4 non-empty labels
			k := rapid.IntRange(2, 4).Draw(t, "rootLabels")
			ls := make([]string, k)
			for i := range ls {
				ls[i] = genLabel(false, 1, 5).Draw(t, "rootLabel")
			}
			r = strings.Join(ls, ".")
		} else {
			r = rapid.SampledFrom(c34RootPool).Draw(t, "root")
		}
		if !slices.Contains(roots, r) {
			roots = append(roots, r)
		}
	}
	return roots
}

func genHost(t *rapid.T, roots []string) string {
	root := rapid.SampledFrom(roots).Draw(t, "pickRoot")
	switch rapid.IntRange(0, 11).Draw(t, "hostKind") {
	case 0, 1, 2:
		return genLabel(true, 1, 8).Draw(t, "label") + "." + recase(t, root, "rootCase")
	case 3:
		return genLabel(true, 1, 6).Draw(t, "l1") + "." + genLabel(true, 1, 6).Draw(t, "l2") + "." + recase(t, root, "rootCase")
	case 4:
		return recase(t, root, "rootCase")
	case 5: // near misses of a root
		l := genLabel(true, 1, 6).Draw(t, "label")
		switch rapid.IntRange(0, 3).Draw(t, "near") {
		case 0:
			return l + ".x" + root
		case 1:
			return l + "." + root + "x"
		case 2:
			return l + "." + root + "."
		default:
			return l + ".." + root
		}
	case 6: // IPv4
		p := rapid.SliceOfN(rapid.IntRange(0, 255), 4, 4).Draw(t, "v4")
		return fmt.Sprintf("%d.%d.%d.%d", p[0], p[1], p[2], p[3])
	case 7: // IPv6 (letter case of the hex digits varies)
		var a [16]byte
		bs := rapid.SliceOfN(rapid.Byte(), 16, 16).Draw(t, "v6")
		copy(a[:], bs)
		if rapid.Bool().Draw(t, "v6zeros") {
			for i := 2; i < 12; i++ {
				a[i] = 0
			}
		}
		addr := netip.AddrFrom16(a)
		s := addr.String()
		if rapid.IntRange(0, 4).Draw(t, "v4mapped") == 0 {
			s = "::ffff:" + netip.AddrFrom4([4]byte{a[12], a[13], a[14], a[15]}).String()
		}
		return recase(t, s, "v6Case")
	case 8: // few labels
		if rapid.Bool().Draw(t, "one") {
			return genLabel(true, 0, 8).Draw(t, "label")
		}
		return genLabel(true, 0, 8).Draw(t, "l1") + "." + genLabel(true, 0, 4).Draw(t, "l2")
	case 9: // IPv4-looking but not an address
		p := rapid.SliceOfN(rapid.IntRange(0, 300), 3, 5).Draw(t, "v4ish")
		ss := make([]string, len(p))
		for i := range p {
			ss[i] = fmt.Sprint(p[i])
		}
		return strings.Join(ss, ".")
	default: // arbitrary host over the alphabet, empty labels allowed
		k := rapid.IntRange(1, 6).Draw(t, "labels")
		ls := make([]string, k)
		for i := range ls {
			ls[i] = genLabel(true, 0, 6).Draw(t, "anyLabel")
		}
		return strings.Join(ls, ".")
	}
}

func TestC34(t *testing.T) {
	rec := ev.New(t, "C34")
	rec.Rule("rapid-generated (root list, host, re-cased host): 1..3 lower-case roots (pool + generated, 2..4 labels); hosts = label.root / l1.l2.root / root / near misses of a root / IPv4 / IPv6 (hex case varies, v4-mapped) / few labels / IPv4-look-alikes / arbitrary labels (empty labels allowed) over [A-Za-z0-9-.], with generated letter case. Oracle: the statement evaluated on the lower-cased host (netip for IP literals) plus the metamorphic relation f(host)=f(recase(host)). Non-trivial: the host is an IP literal, or its tail is a configured root and the host has >=1 upper-case letter. Distinct = distinct (roots, host).")
	rec.Assume("root domains are configured in lower case with at least two labels (as cmd/specter passes them); hosts are ASCII")

	// witness of the listed finding (DESIGN §5 item 4)
	{
		roots := []string{"example.com"}
		g := &gateway.Gateway{GatewayConfig: gateway.GatewayConfig{RootDomains: roots}}
		got, _ := resolveC34(g, "Label.EXAMPLE.com")
		low, _ := resolveC34(g, "label.example.com")
		rec.Witnessed(sigC34Case, low.OK && low.Name == "label" && inKnownC34Class("Label.EXAMPLE.com", roots, got))
		checkC34(t, rec, roots, "Label.EXAMPLE.com", "label.example.com")
		checkC34(t, rec, roots, "label.example.com", "LABEL.example.com")
		checkC34(t, rec, roots, "192.168.1.1", "192.168.1.1")
		checkC34(t, rec, roots, "2001:DB8::1", "2001:db8::1")
	}

	ev.RapidCheck(t, 20000, 1000000, func(t *rapid.T) {
		roots := genRoots(t)
		host := genHost(t, roots)
		recased := recase(t, host, "recase")
		checkC34(t, rec, roots, host, recased)
	})
}

// FuzzC34 is the byte-level companion (thorough tier): arbitrary host bytes
// restricted to the statement's alphabet, a root list picked from the pool.
func FuzzC34(f *testing.F) {
	f.Add("Label.EXAMPLE.com", uint8(0), uint64(5))
	f.Add("a.b.c.d.e.com", uint8(2), uint64(0))
	f.Add("::FFFF:1.2.3.4", uint8(1), uint64(3))
	f.Add("1.2.3.4", uint8(1), uint64(0))
	f.Add("hello.x.y.z.NET", uint8(3), ^uint64(0))
	rec := ev.New(f, "C34fuzz")
	f.Fuzz(func(t *testing.T, host string, sel uint8, flips uint64) {
		if len(host) > 80 {
			return
		}
		for i := 0; i < len(host); i++ {
			c := host[i]
			if !((c >= 'a' && c <= 'z') || (c >= 'A' && c <= 'Z') || (c >= '0' && c <= '9') || c == '-' || c == '.' || c == ':') {
				return
			}
		}
		roots := []string{c34RootPool[int(sel)%len(c34RootPool)], c34RootPool[int(sel/8)%len(c34RootPool)]}
		if roots[0] == roots[1] {
			roots = roots[:1]
		}
		b := []byte(host)
		for i, c := range b {
			if flips&(1<<(uint(i)%64)) != 0 && ((c >= 'a' && c <= 'z') || (c >= 'A' && c <= 'Z')) {
				b[i] ^= 0x20
			}
		}
		checkC34(t, rec, roots, host, string(b))
	})
}
