package gw

import (
	"bufio"
	"context"
	"encoding/binary"
	"errors"
	"fmt"
	"io"
	"net"
	"net/http"
	"net/http/httptest"
	"net/url"
	"os"
	"strings"
	"testing"
	"time"

	"crypto/tls"

	"go.miragespace.co/specter/gateway"
	"go.miragespace.co/specter/spec/protocol"
	"go.miragespace.co/specter/spec/transport"
	"go.miragespace.co/specter/spec/tun"
	"verifharness/internal/ev"
)

// ---- C36: failure statuses for HTTP / raw TCP / CONNECT --------------------

const sigC36WrappedNetTimeout = "http-wrapped-net-timeout-answered-502"

type c36Err struct {
	Name     string
	Err      error
	HTTPWant int  // status the statement demands for the HTTP proxy
	Timeout  bool // class "timeout"
}

// notTimeoutNetErr is a net.Error that says Timeout()==false about itself
// and (optionally) wraps a cause, like *net.OpError / *url.Error around an
// error they do not look into.
type notTimeoutNetErr struct{ cause error }

func (e notTimeoutNetErr) Error() string {
	if e.cause == nil {
		return "verif: connection refused"
	}
	return "verif: overlay dial: " + e.cause.Error()
}
func (e notTimeoutNetErr) Timeout() bool   { return false }
func (e notTimeoutNetErr) Temporary() bool { return false }
func (e notTimeoutNetErr) Unwrap() error   { return e.cause }

var _ net.Error = notTimeoutNetErr{}

// The causes. Class "timeout" = the three ways Go spells a timeout: the
// context deadline sentinel, the os deadline sentinel, and a net.Error whose
// Timeout() is true.
func c36Errors() []c36Err {
	return []c36Err{
		{Name: "not-found", Err: tun.ErrDestinationNotFound, HTTPWant: 404},
		{Name: "not-connected", Err: tun.ErrTunnelClientNotConnected, HTTPWant: 503},
		{Name: "lookup-failed", Err: tun.ErrLookupFailed, HTTPWant: 502},
		{Name: "no-direct", Err: transport.ErrNoDirect, HTTPWant: 502},
		{Name: "deadline", Err: context.DeadlineExceeded, HTTPWant: 504, Timeout: true},
		{Name: "net-timeout", Err: netTimeoutErr{}, HTTPWant: 504, Timeout: true},
		{Name: "os-deadline", Err: os.ErrDeadlineExceeded, HTTPWant: 504, Timeout: true},
		{Name: "other", Err: errors.New("verif: something else broke"), HTTPWant: 502},
		{Name: "closed-pipe", Err: io.ErrClosedPipe, HTTPWant: 502},
		// the tunnel died in the middle of a message: NOT one of the two causes the handler
		// documents as expected (context.Canceled, io.EOF), although it sounds like one
		{Name: "unexpected-eof", Err: io.ErrUnexpectedEOF, HTTPWant: 502},
		{Name: "short-write", Err: io.ErrShortWrite, HTTPWant: 502},
		{Name: "no-progress", Err: io.ErrNoProgress, HTTPWant: 502},
		{Name: "net-error-not-timeout", Err: notTimeoutNetErr{}, HTTPWant: 502},
	}
}

// The wrappers a cause can travel in. A shape is a sequence of 0, 1 or 2
// wrappers (applied innermost first), i.e. 1 + 6 + 36 = 43 shapes.
type c36Wrapper struct {
	Name string
	Fn   func(error) error
}

var c36Wrappers = []c36Wrapper{
	{"%w", func(e error) error { return fmt.Errorf("dial client: %w", e) }},
	{"net.OpError", func(e error) error { return &net.OpError{Op: "dial", Net: "udp", Err: e} }},
	{"url.Error", func(e error) error { return &url.Error{Op: "Get", URL: "https://tunnel", Err: e} }},
	{"net.Error(timeout=false)", func(e error) error { return notTimeoutNetErr{cause: e} }},
	{"join(other,·)", func(e error) error { return errors.Join(errors.New("verif: an earlier failure"), e) }},
	{"join(·,other)", func(e error) error { return errors.Join(e, errors.New("verif: a later failure")) }},
}

type c36Shape struct {
	Name  string
	Depth int
	Apply func(error) error
}

func c36Shapes(maxDepth int) []c36Shape {
	out := []c36Shape{{Name: "bare", Apply: func(e error) error { return e }}}
	if maxDepth >= 1 {
		for _, w := range c36Wrappers {
			out = append(out, c36Shape{Name: w.Name, Depth: 1, Apply: w.Fn})
		}
	}
	if maxDepth >= 2 {
		for _, outer := range c36Wrappers {
			for _, inner := range c36Wrappers {
				o, i := outer.Fn, inner.Fn
				out = append(out, c36Shape{Name: outer.Name + "(" + inner.Name + ")", Depth: 2, Apply: func(e error) error { return o(i(e)) }})
			}
		}
	}
	return out
}

// c36DefinitelyTimeout is the timeout class the check is strict about:
// (T1) the context deadline sentinel is anywhere in the error tree (no wrapper
// can contradict the sentinel), or (T2) the net.Error that errors.As reports
// for the chain - the outermost one - says Timeout()==true. T2 covers
// os.ErrDeadlineExceeded and net timeouts bare, %w-wrapped, joined and
// directly inside *net.OpError / *url.Error (which then report true
// themselves). What is left are chains in which an outer net.Error says
// Timeout()==false about itself while an os / net timeout sits deeper: two
// parts of the chain contradict each other and the statement does not say
// which wins.
func c36DefinitelyTimeout(err error) bool {
	if errors.Is(err, context.DeadlineExceeded) {
		return true
	}
	var ne net.Error
	return errors.As(err, &ne) && ne.Timeout()
}

var c36ShapeByName = func() map[string]c36Shape {
	m := map[string]c36Shape{}
	for _, sh := range c36Shapes(2) {
		m[sh.Name] = sh
	}
	return m
}()

func wrapErr(e error, shape string) error {
	sh, ok := c36ShapeByName[shape]
	if !ok {
		panic("harness: unknown error shape " + shape)
	}
	return sh.Apply(e)
}

// chainHasTimeoutCause walks the whole error tree (Unwrap() error and
// Unwrap() []error): true when any node is one of the deadline sentinels or
// reports Timeout()==true. This is the harness' definition of "a timeout".
func chainHasTimeoutCause(err error) bool {
	if err == nil {
		return false
	}
	if err == context.DeadlineExceeded || err == os.ErrDeadlineExceeded {
		return true
	}
	if t, ok := err.(interface{ Timeout() bool }); ok && t.Timeout() {
		return true
	}
	switch u := err.(type) {
	case interface{ Unwrap() error }:
		return chainHasTimeoutCause(u.Unwrap())
	case interface{ Unwrap() []error }:
		for _, e := range u.Unwrap() {
			if chainHasTimeoutCause(e) {
				return true
			}
		}
	}
	return false
}

const c36Root = "example.com"
const c36Host = "label.example.com"

// clientStatus: what the fake tunnel client writes on a successful dial.
var c36ClientStatuses = []string{"OK", "NO_DIRECT", "UNKNOWN_ERROR"}

// serveFakeClient plays the tunnel client on its end of the dialled conn: it
// sends the status frame with the repo's own SendStatusProto and, when OK,
// echoes what it receives.
func serveFakeClient(c net.Conn, status string) {
	defer c.Close()
	c.SetDeadline(time.Now().Add(watchdog))
	switch status {
	case "OK":
		tun.SendStatusProto(c, nil)
	case "NO_DIRECT":
		tun.SendStatusProto(c, transport.ErrNoDirect)
		return
	default:
		tun.SendStatusProto(c, errors.New("verif: client cannot reach its target"))
		return
	}
	buf := make([]byte, 64)
	for {
		n, err := c.Read(buf)
		if n > 0 {
			if _, werr := c.Write(buf[:n]); werr != nil {
				return
			}
		}
		if err != nil {
			return
		}
	}
}

// readStatusFrame decodes one length-prefixed TunnelStatus by hand.
func readStatusFrame(r io.Reader) (*protocol.TunnelStatus, error) {
	var lb [4]byte
	if _, err := io.ReadFull(r, lb[:]); err != nil {
		return nil, err
	}
	n := binary.BigEndian.Uint32(lb[:])
	if n > 4096 {
		return nil, fmt.Errorf("status frame of %d bytes", n)
	}
	body := make([]byte, n)
	if _, err := io.ReadFull(r, body); err != nil {
		return nil, err
	}
	st := &protocol.TunnelStatus{}
	if err := st.UnmarshalVT(body); err != nil {
		return nil, err
	}
	return st, nil
}

func isDeadline(err error) bool {
	var ne net.Error
	return errors.As(err, &ne) && ne.Timeout()
}

type c36Case struct {
	Proto        string `json:"protocol"` // http/1.1 http/2 http/3 tcp connect
	Err          string `json:"dial_error,omitempty"`
	Wrap         string `json:"wrap,omitempty"` // shape name: outer(inner)
	ClientStatus string `json:"client_status,omitempty"`
	BadHost      bool   `json:"bad_host,omitempty"`
}

func (c c36Case) key() string {
	return fmt.Sprintf("%s|%s|%s|%s|%v", c.Proto, c.Err, c.Wrap, c.ClientStatus, c.BadHost)
}

// dialFn returns the DialClient behaviour of a case.
func c36DialFn(e error, clientStatus string) func(context.Context, *protocol.Link) (net.Conn, error) {
	return func(ctx context.Context, link *protocol.Link) (net.Conn, error) {
		if e != nil {
			return nil, e
		}
		c1, c2 := net.Pipe()
		go serveFakeClient(c2, clientStatus)
		return c1, nil
	}
}

func runC36HTTP(t *testing.T, rec *ev.Recorder, c c36Case, e *c36Err) {
	var derr error
	if e != nil {
		derr = wrapErr(e.Err, c.Wrap)
	}
	ts := &fakeTunServer{}
	if derr != nil {
		ts.dial = c36DialFn(derr, "")
	} else {
		// control: a client that answers the forwarded request
		ts.dial = func(ctx context.Context, link *protocol.Link) (net.Conn, error) {
			c1, c2 := net.Pipe()
			go func() {
				defer c2.Close()
				c2.SetDeadline(time.Now().Add(watchdog))
				br := bufio.NewReader(c2)
				req, err := http.ReadRequest(br)
				if err != nil {
					return
				}
				io.Copy(io.Discard, req.Body)
				io.WriteString(c2, "HTTP/1.1 200 OK\r\nContent-Length: 2\r\nConnection: close\r\n\r\nok")
			}()
			return c1, nil
		}
	}
	g := newGateway(ts, []string{c36Root}, 443, "", "", gateway.InternalHandlers{})
	req := httptest.NewRequest("GET", "https://"+c36Host+"/some/path?q=1", nil)
	req.RemoteAddr = "203.0.113.9:40000"
	req.TLS = &tls.ConnectionState{ServerName: c36Host}
	switch c.Proto {
	case "http/2":
		req.Proto, req.ProtoMajor, req.ProtoMinor = "HTTP/2.0", 2, 0
	case "http/3":
		req.Proto, req.ProtoMajor, req.ProtoMinor = "HTTP/3.0", 3, 0
	}
	w := httptest.NewRecorder()
	var pn any
	func() {
		defer func() { pn = recover() }()
		g.VerifProxyHandler().ServeHTTP(w, req)
	}()
	doc := map[string]any{"case": c, "status": w.Code, "body": strings.TrimSpace(w.Body.String()), "dial_calls": len(ts.dialed())}
	labels := []string{"proto:" + c.Proto}
	if e != nil {
		labels = append(labels, "dial-error:"+e.Name, "wrap:"+c.Wrap, fmt.Sprintf("http-status:%d", w.Code))
		if e.Timeout && !c36DefinitelyTimeout(derr) {
			labels = append(labels, "timeout:contradicted-by-outer-net-error(502-or-504-accepted)")
		}
	} else {
		labels = append(labels, "control:client-answers")
	}
	rec.Case(e != nil, c.key(), func() any { return doc }, labels...)
	if pn != nil && pn != http.ErrAbortHandler {
		rec.Fail(t, "proxy-handler-panic", doc, "proxy handler panicked: %v", pn)
	}
	if len(ts.dialed()) == 0 {
		rec.Fail(t, "harness-dial-not-reached", doc, "DialClient was not called: the case did not exercise the failure path")
	}
	if e == nil {
		if w.Code != 200 || w.Body.String() != "ok" {
			rec.Fail(t, "http-control-not-forwarded", doc, "control request got %d %q, want 200 ok", w.Code, w.Body.String())
		}
		return
	}
	if e.Timeout != chainHasTimeoutCause(derr) {
		panic(fmt.Sprintf("harness: cause %s in shape %s: class mismatch", e.Name, c.Wrap))
	}
	if e.Timeout && !c36DefinitelyTimeout(derr) {
		// contradictory chain (see the rule): 502 and 504 are both accepted
		rec.Add("timeout_rows_contradicted_by_outer_net_error", 1)
		rec.Add(fmt.Sprintf("timeout_rows_contradicted_by_outer_net_error_answered_%d", w.Code), 1)
		if w.Code == 502 || w.Code == 504 {
			return
		}
	}
	if w.Code == e.HTTPWant {
		return
	}
	if e.Timeout && c.Wrap != "bare" && w.Code == 502 && !errors.Is(derr, context.DeadlineExceeded) {
		// a wrapped net.Error timeout: tun.IsTimeout type-asserted instead of errors.As (repaired)
		if ev.Known("C36", sigC36WrappedNetTimeout) {
			rec.Excluded(sigC36WrappedNetTimeout)
			return
		}
		rec.Fail(t, sigC36WrappedNetTimeout, doc, "%s: dial error %q (a wrapped net.Error timeout, shape %s) answered with %d, want 504", c.Proto, derr, c.Wrap, w.Code)
	}
	rec.Fail(t, "http-wrong-status-for-"+e.Name, doc, "%s: dial error %q (%s in shape %s) answered with %d, want %d", c.Proto, derr, e.Name, c.Wrap, w.Code, e.HTTPWant)
}

func runC36TCP(t *testing.T, rec *ev.Recorder, c c36Case, e *c36Err) {
	var derr error
	if e != nil {
		derr = wrapErr(e.Err, c.Wrap)
	}
	ts := &fakeTunServer{dial: c36DialFn(derr, c.ClientStatus)}
	g := newGateway(ts, []string{c36Root}, 443, "", "", gateway.InternalHandlers{})
	host := c36Host
	if c.BadHost {
		host = "10.1.2.3" // an SNI the gateway refuses to map to a tunnel
	}
	caller, gwEnd := net.Pipe()
	done := make(chan error, 1)
	go func() {
		var err error
		defer func() {
			if p := recover(); p != nil {
				err = fmt.Errorf("forwardTCP panicked: %v", p)
			}
			done <- err
		}()
		g.VerifForwardTCP(context.Background(), host, "203.0.113.9:40000", gwEnd)
	}()
	defer caller.Close()
	caller.SetDeadline(time.Now().Add(watchdog))
	doc := map[string]any{"case": c}
	labels := []string{"proto:tcp"}
	nt := e != nil || c.BadHost || c.ClientStatus != "OK"
	record := func(extra ...string) {
		rec.Case(nt, c.key(), func() any { return doc }, append(labels, extra...)...)
	}
	// the caller pokes the gateway with an empty status frame first
	if _, err := caller.Write([]byte{0, 0, 0, 0}); err != nil {
		record()
		if isDeadline(err) {
			rec.Inconclusive("tcp-watchdog")
			return
		}
		rec.Fail(t, "tcp-poke-not-read", doc, "gateway did not read the caller's poke: %v", err)
	}
	st, err := readStatusFrame(caller)
	if err != nil {
		doc["status_err"] = err.Error()
		record("tcp-status:none")
		if isDeadline(err) {
			rec.Inconclusive("tcp-watchdog")
			return
		}
		rec.Fail(t, "tcp-closed-without-status", doc, "no status frame readable before the stream ended: %v", err)
	}
	doc["status"], doc["status_error"] = st.GetStatus().String(), st.GetError()
	doc["dial_calls"] = len(ts.dialed())
	record("tcp-status:" + st.GetStatus().String())
	failing := e != nil || c.BadHost || c.ClientStatus != "OK"
	if failing {
		if st.GetStatus() == protocol.TunnelStatusCode_STATUS_OK {
			rec.Fail(t, "tcp-ok-status-on-failure", doc, "caller received STATUS_OK although the tunnel failed")
		}
		// after the failure status the stream ends
		n, rerr := io.Copy(io.Discard, caller)
		if rerr != nil && isDeadline(rerr) {
			rec.Inconclusive("tcp-watchdog")
			return
		}
		doc["bytes_after_status"] = n
		return
	}
	if st.GetStatus() != protocol.TunnelStatusCode_STATUS_OK {
		if len(ts.dialed()) == 0 {
			rec.Inconclusive("tcp-poke-drain-deadline") // the gateway's 3 s drain deadline fired on a starved machine
			return
		}
		rec.Fail(t, "tcp-failure-status-on-success", doc, "client connection exists and reported OK but the caller received %v", st.GetStatus())
	}
	// success: bytes flow both ways
	msg := []byte("ping-through-tunnel")
	if _, err := caller.Write(msg); err != nil {
		rec.Fail(t, "tcp-success-no-data", doc, "write after OK failed: %v", err)
	}
	got := make([]byte, len(msg))
	if _, err := io.ReadFull(caller, got); err != nil || string(got) != string(msg) {
		if isDeadline(err) {
			rec.Inconclusive("tcp-watchdog")
			return
		}
		rec.Fail(t, "tcp-success-no-data", doc, "echo through the tunnel = %q, %v", got, err)
	}
	caller.Close()
	select {
	case <-done:
	case <-time.After(watchdog):
		rec.Inconclusive("tcp-watchdog")
	}
}

func runC36Connect(t *testing.T, rec *ev.Recorder, c c36Case, e *c36Err) {
	var derr error
	if e != nil {
		derr = wrapErr(e.Err, c.Wrap)
	}
	ts := &fakeTunServer{dial: c36DialFn(derr, c.ClientStatus)}
	g := newGateway(ts, []string{c36Root}, 443, "", "", gateway.InternalHandlers{})
	l := newPipeListener()
	srv := &http.Server{Handler: g.VerifHTTPHandler()}
	go srv.Serve(l)
	defer srv.Close()
	conn := l.dial()
	defer conn.Close()
	conn.SetDeadline(time.Now().Add(watchdog))

	target := c36Host + ":443"
	if c.BadHost {
		target = "10.1.2.3:443"
	}
	doc := map[string]any{"case": c}
	nt := e != nil || c.BadHost || c.ClientStatus != "OK"
	labels := []string{"proto:connect"}
	werrc := make(chan error, 1)
	go func() {
		_, err := fmt.Fprintf(conn, "CONNECT %s HTTP/1.1\r\nHost: %s\r\n\r\n", target, target)
		werrc <- err
	}()
	br := bufio.NewReader(conn)
	resp, err := http.ReadResponse(br, &http.Request{Method: http.MethodConnect})
	if err != nil {
		rec.Case(nt, c.key(), func() any { return doc }, append(labels, "connect-status:none")...)
		if isDeadline(err) {
			rec.Inconclusive("connect-watchdog")
			return
		}
		doc["read_err"] = err.Error()
		rec.Fail(t, "connect-closed-without-status", doc, "no HTTP response to CONNECT before the stream ended: %v", err)
	}
	<-werrc
	doc["status"] = resp.StatusCode
	doc["dial_calls"] = len(ts.dialed())
	rec.Case(nt, c.key(), func() any { return doc }, append(labels, fmt.Sprintf("connect-status:%d", resp.StatusCode))...)
	ok2xx := resp.StatusCode >= 200 && resp.StatusCode < 300
	if nt {
		if ok2xx {
			rec.Fail(t, "connect-2xx-on-failure", doc, "CONNECT answered %d although the tunnel failed", resp.StatusCode)
		}
		return
	}
	if !ok2xx {
		rec.Fail(t, "connect-failure-status-on-success", doc, "client connection exists and reported OK but CONNECT answered %d", resp.StatusCode)
	}
	msg := []byte("ping-through-connect")
	go conn.Write(msg)
	got := make([]byte, len(msg))
	if _, err := io.ReadFull(br, got); err != nil || string(got) != string(msg) {
		if isDeadline(err) {
			rec.Inconclusive("connect-watchdog")
			return
		}
		rec.Fail(t, "connect-success-no-data", doc, "echo through the CONNECT tunnel = %q, %v", got, err)
	}
}

func TestC36(t *testing.T) {
	rec := ev.New(t, "C36")
	rec.Exhaustive(true)
	rec.Rule("exhaustive product, enumerated completely in both tiers. Causes (10): not-found, not-connected, lookup-failed, no-direct, context.DeadlineExceeded, a net.Error with Timeout()==true, os.ErrDeadlineExceeded, other, closed-pipe, a net.Error with Timeout()==false. Shapes: sequences of 0..2 wrappers out of {%w, *net.OpError{Err:.}, *url.Error{Err:.}, custom net.Error with Timeout()==false and Unwrap, errors.Join(other,.), errors.Join(.,other)} = 1+6+36 = 43 shapes. Entry points: HTTP proxy as HTTP/1.1 request x all 43 shapes; HTTP/2 and HTTP/3 requests, raw TCP stream and HTTP CONNECT x the 7 shapes of depth <= 1; for TCP and CONNECT also a successful dial x client status frame {OK, NO_DIRECT, UNKNOWN_ERROR} and a host the gateway refuses; one forwarding control per HTTP protocol. A fresh Gateway per case. Oracle, HTTP: the class of the cause contained in the chain decides: not-found 404, not-connected 503, timeout 504, everything else 502. Timeout class (strict 504): the context deadline sentinel is anywhere in the error tree (errors.Is; nothing can contradict the sentinel), or the outermost net.Error of the chain (errors.As) reports Timeout()==true - i.e. all three timeout causes bare, %w, %w%w, joined, directly inside OpError/url.Error, and the context sentinel under ANY wrapper incl. %w inside OpError / url.Error / a net.Error that says Timeout()==false. Not decided (502 or 504 accepted, rows counted in evidence): os.ErrDeadlineExceeded or a net timeout below a net.Error that itself reports Timeout()==false (36 of the 129 timeout rows) - the chain contradicts itself and the statement does not say which part wins. TCP: a status frame other than OK is readable before the stream ends, OK only with a client connection that said OK (then bytes flow); CONNECT: a non-2xx response on failure, 2xx only with a client connection that said OK. Non-trivial: a failure is injected (controls are trivial). Distinct = distinct product elements.")
	rec.Assume("context.Canceled and io.EOF are excluded from the HTTP classes (the handler documents them as expected, nothing is written)",
		"raw TCP is driven through forwardTCP (accessor) with a net.Pipe stream, CONNECT through the real plain-HTTP router on an in-memory listener, HTTP through the real tunnel proxy handler")

	errs := c36Errors()

	// witness for the listed finding: a %w-wrapped net.Error timeout is a timeout
	{
		werr := fmt.Errorf("dial client: %w", netTimeoutErr{})
		ts := &fakeTunServer{dial: c36DialFn(werr, "")}
		g := newGateway(ts, []string{c36Root}, 443, "", "", gateway.InternalHandlers{})
		req := httptest.NewRequest("GET", "https://"+c36Host+"/", nil)
		req.TLS = &tls.ConnectionState{ServerName: c36Host}
		w := httptest.NewRecorder()
		g.VerifProxyHandler().ServeHTTP(w, req)
		bare := &fakeTunServer{dial: c36DialFn(netTimeoutErr{}, "")}
		g2 := newGateway(bare, []string{c36Root}, 443, "", "", gateway.InternalHandlers{})
		w2 := httptest.NewRecorder()
		req2 := httptest.NewRequest("GET", "https://"+c36Host+"/", nil)
		req2.TLS = &tls.ConnectionState{ServerName: c36Host}
		g2.VerifProxyHandler().ServeHTTP(w2, req2)
		rec.Witnessed(sigC36WrappedNetTimeout, w.Code == 502 && w2.Code == 504)
	}

	// HTTP/1.1 carries the full shape product (depth <= 2); the other entry
	// points share the same errorHandler / status-frame code and carry the
	// depth <= 1 shapes.
	full, shallow := c36Shapes(2), c36Shapes(1)
	for _, proto := range []string{"http/1.1", "http/2", "http/3"} {
		runC36HTTP(t, rec, c36Case{Proto: proto}, nil)
		shapes := shallow
		if proto == "http/1.1" {
			shapes = full
		}
		for i := range errs {
			for _, sh := range shapes {
				runC36HTTP(t, rec, c36Case{Proto: proto, Err: errs[i].Name, Wrap: sh.Name}, &errs[i])
			}
		}
	}
	for _, proto := range []string{"tcp", "connect"} {
		run := runC36TCP
		if proto == "connect" {
			run = runC36Connect
		}
		for i := range errs {
			for _, sh := range shallow {
				run(t, rec, c36Case{Proto: proto, Err: errs[i].Name, Wrap: sh.Name}, &errs[i])
			}
		}
		for _, cs := range c36ClientStatuses {
			run(t, rec, c36Case{Proto: proto, ClientStatus: cs}, nil)
		}
		run(t, rec, c36Case{Proto: proto, BadHost: true, ClientStatus: "OK"}, nil)
	}
}
