package gw

import (
	"bytes"
	"context"
	"fmt"
	"sync"
	"time"

	"go.miragespace.co/specter/kv/memory"
	"go.miragespace.co/specter/spec/chord"
	"verifharness/internal/ev"

	"pgregory.net/rapid"
)

// heldReadKV answers the FIRST read (Get) of an armed key only after the harness lets it: the
// value has been read at the owner, the reply is still on its way. Everything else passes.
type heldReadKV struct {
	chord.KV
	mu      sync.Mutex
	armed   string
	reading chan struct{} // closed when the armed read has taken its value
	release chan struct{}
}

func (h *heldReadKV) arm(key string) {
	h.mu.Lock()
	h.armed, h.reading, h.release = key, make(chan struct{}), make(chan struct{})
	h.mu.Unlock()
}

func (h *heldReadKV) Get(ctx context.Context, key []byte) ([]byte, error) {
	val, err := h.KV.Get(ctx, key)
	h.mu.Lock()
	hold := h.armed != "" && bytes.HasSuffix(key, []byte(h.armed))
	var reading, release chan struct{}
	if hold {
		h.armed, reading, release = "", h.reading, h.release
	}
	h.mu.Unlock()
	if hold {
		close(reading)
		<-release
	}
	return val, err
}

// c49ReadsInFlight: a read that STARTS after a Store or Delete has returned reports that
// write, also while an older read of the same key (issued before the write, through the same
// or the other storage instance) has not been answered yet.
func c49ReadsInFlight(t failT, rec *ev.Recorder, rt *rapid.T) {
	ctx := context.Background()
	kv := &heldReadKV{KV: memory.WithHashFn(chord.Hash)}
	inst := []interface {
		Store(context.Context, string, []byte) error
		Load(context.Context, string) ([]byte, error)
		Delete(context.Context, string) error
		Exists(context.Context, string) bool
	}{newStorage(kv, time.Second), newStorage(kv, time.Second)}

	key := genC49Key(rt, "key")
	hadOld := rapid.Bool().Draw(rt, "keyExistedBefore")
	slowReader := rapid.IntRange(0, 1).Draw(rt, "slowReaderInstance")
	slowKind := rapid.SampledFrom([]string{"load", "load", "exists"}).Draw(rt, "slowRead")
	writer := rapid.IntRange(0, 1).Draw(rt, "writerInstance")
	write := "store"
	if hadOld && rapid.Bool().Draw(rt, "delete") {
		write = "delete"
	}
	lateReader := rapid.IntRange(0, 1).Draw(rt, "lateReaderInstance")
	lateKind := rapid.SampledFrom([]string{"load", "load", "exists"}).Draw(rt, "lateRead")
	doc := map[string]any{"key": key, "keyExistedBefore": hadOld, "slowRead": fmt.Sprintf("%s via instance %d, started before the write, answered after everything else", slowKind, slowReader),
		"write": fmt.Sprintf("%s via instance %d", write, writer), "lateRead": fmt.Sprintf("%s via instance %d, started after the write returned", lateKind, lateReader)}

	if hadOld {
		if err := inst[0].Store(ctx, key, []byte("old")); err != nil {
			rec.Fail(t, "store-error", doc, "Store returned %v", err)
		}
	}
	kv.arm(key)
	reading, release := kv.reading, kv.release
	slowDone := make(chan struct{})
	go func() {
		defer close(slowDone)
		if slowKind == "load" {
			inst[slowReader].Load(ctx, key)
		} else {
			inst[slowReader].Exists(ctx, key)
		}
	}()
	select {
	case <-reading:
	case <-time.After(10 * time.Second):
		close(release)
		rec.Inconclusive("slow-read-never-reached-the-store")
		return
	}
	var werr error
	if write == "store" {
		werr = inst[writer].Store(ctx, key, []byte("new"))
	} else {
		werr = inst[writer].Delete(ctx, key)
	}
	if werr != nil {
		close(release)
		<-slowDone
		rec.Fail(t, write+"-error", doc, "%s returned %v", write, werr)
	}
	type lateResult struct {
		val    []byte
		err    error
		exists bool
	}
	lateDone := make(chan lateResult, 1)
	go func() {
		var r lateResult
		if lateKind == "load" {
			r.val, r.err = inst[lateReader].Load(ctx, key)
		} else {
			r.exists = inst[lateReader].Exists(ctx, key)
		}
		lateDone <- r
	}()
	var r lateResult
	waited := false
	select {
	case r = <-lateDone:
		close(release)
	case <-time.After(300 * time.Millisecond):
		// it waits for the older read: let that one finish, then judge what the late read says
		waited = true
		close(release)
		r = <-lateDone
	}
	<-slowDone
	doc["lateReadWaitedForTheOlderRead"] = waited
	doc["lateReadResult"] = fmt.Sprintf("val=%q err=%v exists=%v", r.val, r.err, r.exists)
	labels := []string{"read-in-flight-across-write", "write:" + write, "late:" + lateKind}
	if slowReader == lateReader {
		labels = append(labels, "same-instance")
	}
	rec.Case(true, fmt.Sprintf("inflight|%s|%v|%d%s|%d%s|%d%s", key, hadOld, slowReader, slowKind, writer, write, lateReader, lateKind), func() any { return doc }, labels...)
	switch {
	case write == "store" && lateKind == "load" && (r.err != nil || string(r.val) != "new"):
		rec.Fail(t, "load-not-last-stored-value", doc, "Load started after Store(%q, \"new\") had returned = (%q, %v)", key, r.val, r.err)
	case write == "store" && lateKind == "exists" && !r.exists:
		rec.Fail(t, "exists-mismatch", doc, "Exists started after Store(%q) had returned = false", key)
	case write == "delete" && lateKind == "load" && r.err == nil:
		rec.Fail(t, "load-of-absent-key-succeeds", doc, "Load started after Delete(%q) had returned = %q without error", key, r.val)
	case write == "delete" && lateKind == "exists" && r.exists:
		rec.Fail(t, "exists-mismatch", doc, "Exists started after Delete(%q) had returned = true", key)
	}
}
