package gw

import (
	"bytes"
	"context"
	"errors"
	"fmt"
	"math/rand"
	"slices"
	"sort"
	"strings"
	"sync"
	"sync/atomic"
	"testing"
	"time"

	"go.miragespace.co/specter/acme"
	"go.miragespace.co/specter/kv/memory"
	"go.miragespace.co/specter/spec/chord"
	"verifharness/internal/ev"

	"go.uber.org/zap"
	"pgregory.net/rapid"
)

// ---- C49: certificate storage over the DHT ---------------------------------

const sigC49List = "list-bogus-entry-from-key-outside-directory"

// ---- file-store part -------------------------------------------------------

type fsOp struct {
	Op        string `json:"op"`
	Inst      int    `json:"inst"`
	Key       string `json:"key"`
	Val       string `json:"val,omitempty"`
	Recursive bool   `json:"recursive,omitempty"`
	Got       string `json:"got,omitempty"`
}

var (
	c49Dirs  = []string{"certs/a", "certs/ab", "certs/a.b", "certs/abc", "certs/a/b", "certs/a/bc", "certs", "a", "ab", "acme/ca-1", "acme/ca-10", "orders", "orders/pending"}
	c49Files = []string{"x.pem", "y.pem", "x.pem.json", "x", "a", "ab", "b", "pending", "0001"}
)

func underDir(key, dir string) bool {
	if dir == "" {
		return true
	}
	return strings.HasPrefix(key, dir+"/")
}

// keyAndDirectory: key is stored and is also a proper path prefix of another
// stored key (a name that is both a "file" and a "directory"). The KV allows
// it; a listing must still show the name once.
func keyAndDirectory(model map[string][]byte, key string) bool {
	if _, ok := model[key]; !ok {
		return false
	}
	for k := range model {
		if k != key && underDir(k, key) {
			return true
		}
	}
	return false
}

func genC49Key(t *rapid.T, label string) string {
	return rapid.SampledFrom(c49Dirs).Draw(t, label+"Dir") + "/" + rapid.SampledFrom(c49Files).Draw(t, label+"File")
}

// immediateChildren is the file-store meaning of a non-recursive listing.
func immediateChildren(model map[string][]byte, dir string) []string {
	set := map[string]bool{}
	for k := range model {
		if !underDir(k, dir) {
			continue
		}
		rest := k
		pre := ""
		if dir != "" {
			rest = k[len(dir)+1:]
			pre = dir + "/"
		}
		seg, _, _ := strings.Cut(rest, "/")
		set[pre+seg] = true
	}
	out := make([]string, 0, len(set))
	for k := range set {
		out = append(out, k)
	}
	sort.Strings(out)
	return out
}

type listVerdict struct {
	extra, missing, dups []string
}

func compareList(got, want []string) listVerdict {
	var v listVerdict
	seen := map[string]int{}
	for _, g := range got {
		seen[g]++
		if seen[g] == 2 {
			v.dups = append(v.dups, g)
		}
	}
	for g := range seen {
		if !slices.Contains(want, g) {
			v.extra = append(v.extra, g)
		}
	}
	for _, w := range want {
		if seen[w] == 0 {
			v.missing = append(v.missing, w)
		}
	}
	sort.Strings(v.extra)
	return v
}

// inKnownC49Class: the only discrepancy of a non-recursive List(dir) is one
// extra entry "dir/", and a stored key matches dir as a *string* prefix while
// lying outside the directory (a sibling such as dir+"b/…", or dir itself).
func inKnownC49Class(model map[string][]byte, prefix string, v listVerdict) bool {
	if prefix == "" || strings.HasSuffix(prefix, "/") {
		return false
	}
	if len(v.missing) != 0 || len(v.dups) != 0 || len(v.extra) != 1 || v.extra[0] != prefix+"/" {
		return false
	}
	for k := range model {
		if strings.HasPrefix(k, prefix) && !underDir(k, prefix) {
			return true
		}
	}
	return false
}

func newStorage(kv chord.KV, ttl time.Duration) *acme.ChordStorage {
	s, err := acme.NewChordStorage(zap.NewNop(), kv, acme.StorageConfig{RetryInterval: 100 * time.Millisecond, LeaseTTL: ttl})
	if err != nil {
		panic(err)
	}
	return s
}

// runFsHistory executes ops against two storage instances that share one KV
// and checks every result against the file-store model.
func runFsHistory(t failT, rec *ev.Recorder, ops []fsOp) {
	ctx := context.Background()
	kv := memory.WithHashFn(chord.Hash)
	inst := []*acme.ChordStorage{newStorage(kv, time.Second), newStorage(kv, time.Second)}
	model := map[string][]byte{}
	touched := map[string]bool{} // keys overwritten or deleted at least once
	nt := false
	labels := map[string]bool{}
	doc := map[string]any{"ops": ops}
	fail := func(sig string, i int, format string, args ...any) {
		doc["failed_at"] = i
		rec.Fail(t, sig, doc, "op %d %+v: %s", i, ops[i], fmt.Sprintf(format, args...))
	}
	excluded := 0
	for i := range ops {
		op := &ops[i]
		s := inst[op.Inst]
		switch op.Op {
		case "store":
			if err := s.Store(ctx, op.Key, []byte(op.Val)); err != nil {
				fail("store-error", i, "Store returned %v", err)
			}
			if _, ok := model[op.Key]; ok {
				touched[op.Key] = true
			}
			model[op.Key] = []byte(op.Val)
		case "delete":
			err := s.Delete(ctx, op.Key)
			if _, ok := model[op.Key]; ok {
				if err != nil {
					fail("delete-error", i, "Delete of a stored key returned %v", err)
				}
				touched[op.Key] = true
				delete(model, op.Key)
			}
		case "load":
			val, err := s.Load(ctx, op.Key)
			want, ok := model[op.Key]
			if touched[op.Key] {
				nt = true
				labels["load:after-overwrite-or-delete"] = true
			}
			op.Got = fmt.Sprintf("%q,%v", val, err)
			if ok && (err != nil || !bytes.Equal(val, want)) {
				fail("load-not-last-stored-value", i, "Load = (%q, %v), last stored value %q", val, err, want)
			}
			if !ok && err == nil {
				fail("load-of-absent-key-succeeds", i, "Load of a key that does not exist returned %q without error", val)
			}
		case "exists":
			got := s.Exists(ctx, op.Key)
			_, ok := model[op.Key]
			if touched[op.Key] {
				nt = true
				labels["exists:after-overwrite-or-delete"] = true
			}
			op.Got = fmt.Sprint(got)
			if got != ok {
				fail("exists-mismatch", i, "Exists = %v, model says %v", got, ok)
			}
		case "stat":
			info, err := s.Stat(ctx, op.Key)
			want, ok := model[op.Key]
			op.Got = fmt.Sprintf("%+v,%v", info, err)
			if ok && (err != nil || info.Size != int64(len(want)) || info.Key != op.Key || !info.IsTerminal) {
				fail("stat-mismatch", i, "Stat = (%+v, %v), stored value has %d bytes", info, err, len(want))
			}
			if !ok && err == nil {
				fail("stat-of-absent-key-succeeds", i, "Stat of a key that does not exist returned %+v without error", info)
			}
		case "list":
			got, err := s.List(ctx, op.Key, op.Recursive)
			op.Got = fmt.Sprintf("%q,%v", got, err)
			dir := strings.TrimSuffix(op.Key, "/")
			if _, isFile := model[dir]; isFile {
				labels["list:prefix-is-a-file"] = true
			}
			if op.Recursive {
				// the statement is silent about recursive listing: only
				// demand stored descendants ⊆ result ⊆ stored keys
				if err != nil {
					continue
				}
				for _, g := range got {
					if _, ok := model[g]; !ok {
						fail("recursive-list-invents-key", i, "recursive List returned %q which is not stored", g)
					}
				}
				for k := range model {
					if underDir(k, dir) && !slices.Contains(got, k) {
						fail("recursive-list-misses-key", i, "recursive List misses stored descendant %q", k)
					}
				}
				continue
			}
			want := immediateChildren(model, dir)
			sibling := false
			for k := range model {
				if dir != "" && strings.HasPrefix(k, dir) && !underDir(k, dir) {
					sibling = true
				}
			}
			if len(want) > 0 {
				nt = true
				labels["list:non-empty"] = true
			}
			for _, w := range want {
				if keyAndDirectory(model, w) {
					nt = true
					labels["list:child-is-both-key-and-directory"] = true
				}
			}
			if keyAndDirectory(model, dir) {
				labels["list:prefix-is-both-key-and-directory"] = true
			}
			if sibling {
				nt = true
				labels["list:string-prefix-sibling-stored"] = true
			}
			if err != nil {
				if len(want) > 0 {
					fail("list-error", i, "List returned %v, want %q", err, want)
				}
				continue // an error for a directory without entries is what a file store does
			}
			v := compareList(got, want)
			if len(v.extra)+len(v.missing)+len(v.dups) == 0 {
				continue
			}
			if inKnownC49Class(model, op.Key, v) {
				if ev.Known("C49", sigC49List) {
					rec.Excluded(sigC49List)
					excluded++
					continue
				}
				fail(sigC49List, i, "non-recursive List(%q) = %q, immediate children are %q: bogus entry %q produced by a stored key that only shares the string prefix", op.Key, got, want, v.extra[0])
			}
			switch {
			case len(v.dups) > 0:
				fail("list-duplicate-entry", i, "non-recursive List(%q) = %q lists %q more than once", op.Key, got, v.dups)
			case len(v.missing) > 0:
				fail("list-missing-child", i, "non-recursive List(%q) = %q misses %q", op.Key, got, v.missing)
			default:
				fail("list-extra-entry", i, "non-recursive List(%q) = %q, immediate children are %q (extra %q)", op.Key, got, want, v.extra)
			}
		}
	}
	ls := make([]string, 0, len(labels)+1)
	for l := range labels {
		ls = append(ls, l)
	}
	ls = append(ls, "fs-history")
	sort.Strings(ls)
	var key strings.Builder
	for _, op := range ops {
		fmt.Fprintf(&key, "%s %d %s %s %v;", op.Op, op.Inst, op.Key, op.Val, op.Recursive)
	}
	rec.Case(nt, key.String(), func() any { return doc }, ls...)
}

func genFsOps(t *rapid.T) []fsOp {
	n := rapid.IntRange(4, 30).Draw(t, "nOps")
	ops := make([]fsOp, 0, n)
	var used []string
	pickKey := func() string {
		if len(used) > 0 && rapid.IntRange(0, 3).Draw(t, "reuse") != 0 {
			return rapid.SampledFrom(used).Draw(t, "usedKey")
		}
		switch rapid.IntRange(0, 3).Draw(t, "keyKind") {
		case 0: // a directory name stored as a key (certs/a, orders/pending, a …)
			return rapid.SampledFrom(c49Dirs).Draw(t, "dirAsKey")
		case 1: // a key below an existing key
			if len(used) > 0 {
				return rapid.SampledFrom(used).Draw(t, "parentKey") + "/" + rapid.SampledFrom(c49Files).Draw(t, "childFile")
			}
		}
		return genC49Key(t, "key")
	}
	for i := 0; i < n; i++ {
		op := fsOp{Inst: rapid.IntRange(0, 1).Draw(t, "inst")}
		switch rapid.IntRange(0, 11).Draw(t, "opKind") {
		case 0, 1, 2, 3:
			op.Op, op.Key = "store", pickKey()
			op.Val = rapid.StringOfN(rapid.SampledFrom([]rune("abcXYZ019-\n")), 1, 12, -1).Draw(t, "val")
			used = append(used, op.Key)
		case 4:
			op.Op, op.Key = "delete", pickKey()
		case 5, 6:
			op.Op, op.Key = "load", pickKey()
		case 7:
			op.Op, op.Key = "exists", pickKey()
		case 8:
			op.Op, op.Key = "stat", pickKey()
		default:
			op.Op = "list"
			op.Recursive = rapid.IntRange(0, 4).Draw(t, "recursive") == 0
			switch rapid.IntRange(0, 12).Draw(t, "listKind") {
			case 10, 11, 12: // the parent (or grandparent) directory of a key used so far
				if len(used) == 0 {
					op.Key = rapid.SampledFrom(c49Dirs).Draw(t, "listDir")
					break
				}
				d := rapid.SampledFrom(used).Draw(t, "listParentOf")
				for up := rapid.IntRange(1, 2).Draw(t, "up"); up > 0; up-- {
					if j := strings.LastIndexByte(d, '/'); j > 0 {
						d = d[:j]
					}
				}
				op.Key = d
			case 0:
				op.Key = ""
			case 1:
				op.Key = rapid.SampledFrom(c49Dirs).Draw(t, "listDir") + "/"
			case 2:
				op.Key = pickKey() // a file, not a directory
			case 3:
				d := rapid.SampledFrom(c49Dirs).Draw(t, "listDir")
				if j := strings.LastIndexByte(d, '/'); j > 0 {
					d = d[:j]
				}
				op.Key = d
			default:
				op.Key = rapid.SampledFrom(c49Dirs).Draw(t, "listDir")
			}
		}
		ops = append(ops, op)
	}
	return ops
}

// ---- lock part ---------------------------------------------------------------

type lockStep struct {
	Key     string `json:"key"`
	PreMs   int    `json:"pre_ms"`
	HoldMs  int    `json:"hold_ms"`
	Abandon bool   `json:"abandon,omitempty"` // stop renewing and never unlock (a crashed holder)
	// Ctx: lifetime of the context passed to Lock - "" = lives on; "cancel-after-lock" =
	// cancelled as soon as Lock has returned (a request-scoped context); "deadline" = expires
	// 300 ms after Lock was called. The holder itself stays alive and connected and unlocks
	// with a fresh context after HoldMs.
	Ctx string `json:"lock_ctx,omitempty"`
}

type lockProgramme struct {
	TTLs  int          `json:"ttl_s"`
	Insts [][]lockStep `json:"instances"`
}

type leaseEvent struct {
	Inst   int    `json:"inst"`
	Key    string `json:"key"`
	Op     string `json:"op"`
	Invoke int64  `json:"invoke_ns"`
	Return int64  `json:"return_ns"`
	Err    string `json:"err,omitempty"`
}

// leaseTap sits between one ChordStorage instance and the shared KV: it only
// timestamps lease calls (monotonic ns since programme start) and can cut the
// instance's renewals off (a crashed/partitioned holder).
type leaseTap struct {
	chord.KV
	inst      int
	start     time.Time
	mu        *sync.Mutex
	events    *[]leaseEvent
	conflicts *atomic.Int64
	cutRenew  atomic.Bool
}

func (l *leaseTap) log(key []byte, op string, t0 int64, err error) {
	e := leaseEvent{Inst: l.inst, Key: string(key), Op: op, Invoke: t0, Return: int64(time.Since(l.start))}
	if err != nil {
		e.Err = err.Error()
	}
	l.mu.Lock()
	*l.events = append(*l.events, e)
	l.mu.Unlock()
}

func (l *leaseTap) Acquire(ctx context.Context, lease []byte, ttl time.Duration) (uint64, error) {
	t0 := int64(time.Since(l.start))
	tok, err := l.KV.Acquire(ctx, lease, ttl)
	if errors.Is(err, chord.ErrKVLeaseConflict) {
		l.conflicts.Add(1)
	}
	l.log(lease, "acquire", t0, err)
	return tok, err
}

func (l *leaseTap) Renew(ctx context.Context, lease []byte, ttl time.Duration, prev uint64) (uint64, error) {
	t0 := int64(time.Since(l.start))
	if l.cutRenew.Load() {
		err := errors.New("verif: holder cut off from the DHT")
		l.log(lease, "renew", t0, err)
		return 0, err
	}
	tok, err := l.KV.Renew(ctx, lease, ttl, prev)
	l.log(lease, "renew", t0, err)
	return tok, err
}

func (l *leaseTap) Release(ctx context.Context, lease []byte, token uint64) error {
	t0 := int64(time.Since(l.start))
	err := l.KV.Release(ctx, lease, token)
	l.log(lease, "release", t0, err)
	return err
}

type holdEpisode struct {
	Inst      int    `json:"inst"`
	Key       string `json:"key"`
	LockCall  int64  `json:"lock_call_ns"`
	LockRet   int64  `json:"lock_return_ns"`
	EndCall   int64  `json:"unlock_call_ns"` // Unlock invoked (or the moment the holder was cut off)
	Abandoned bool   `json:"abandoned,omitempty"`
	UnlockErr string `json:"unlock_err,omitempty"`
	LockCtx   string `json:"lock_ctx,omitempty"`
	// CertainEnd = min(EndCall, invoke time of the last successful
	// Acquire/Renew of this episode + TTL): up to here the instance holds the
	// lease no matter how the machine scheduled the renewals. For a holder
	// that was cut off without unlocking it is that invoke time + TTL (the
	// lease is only freed by expiry).
	CertainEnd int64 `json:"certain_end_ns"`
}

func genLockProgramme(r *rand.Rand, forceCutOff bool, forceLongLive ...bool) lockProgramme {
	p := lockProgramme{TTLs: 1}
	n := 2 + r.Intn(2)
	keys := []string{"issue_cert_example.com", "issue_cert_example.com.lock"}
	if len(forceLongLive) > 0 && forceLongLive[0] {
		// a live, connected holder keeps the lock for several lease periods after the context
		// it passed to Lock has ended; a second instance wants the same lock all the time
		mode := []string{"cancel-after-lock", "deadline"}[r.Intn(2)]
		p.Insts = [][]lockStep{
			{{Key: keys[0], HoldMs: 2200 + r.Intn(500), Ctx: mode}},
			{{Key: keys[0], PreMs: 100 + r.Intn(200), HoldMs: 30}},
		}
		return p
	}
	for i := 0; i < n; i++ {
		steps := make([]lockStep, 1+r.Intn(2))
		for j := range steps {
			k := keys[0]
			if r.Intn(4) == 0 {
				k = keys[1]
			}
			steps[j] = lockStep{Key: k, PreMs: r.Intn(60), HoldMs: 30 + r.Intn(270)}
			if r.Intn(5) == 0 {
				steps[j].Ctx = []string{"cancel-after-lock", "deadline"}[r.Intn(2)]
				steps[j].HoldMs = 1200 + r.Intn(1200)
			}
		}
		if r.Intn(4) == 0 || (forceCutOff && i == 0) {
			if forceCutOff && i == 0 {
				steps = steps[:1]
				steps[0].Key, steps[0].PreMs = keys[0], 0
			}
			steps[len(steps)-1].Abandon = true
			steps[len(steps)-1].HoldMs = 30 + r.Intn(100)
		}
		p.Insts = append(p.Insts, steps)
	}
	return p
}

type lockOutcome struct {
	prog      lockProgramme
	episodes  []holdEpisode
	events    []leaseEvent
	conflicts int64
	timedOut  bool
	lockErr   string
	// maxStallNs: longest gap a 20 ms heartbeat of the harness observed while the programme
	// ran (a measure of how badly the machine starved this process' timers and goroutines)
	maxStallNs int64
}

func runLockProgramme(p lockProgramme) lockOutcome {
	out := lockOutcome{prog: p}
	shared := memory.WithHashFn(chord.Hash)
	start := time.Now()
	ttl := time.Duration(p.TTLs) * time.Second
	var mu sync.Mutex
	var events []leaseEvent
	var conflicts atomic.Int64
	var episodes []holdEpisode
	var lockErr atomic.Value
	var wg sync.WaitGroup
	for i, steps := range p.Insts {
		tap := &leaseTap{KV: shared, inst: i, start: start, mu: &mu, events: &events, conflicts: &conflicts}
		st := newStorage(tap, ttl)
		wg.Add(1)
		go func(i int, steps []lockStep) {
			defer wg.Done()
			ctx := context.Background()
			for _, s := range steps {
				time.Sleep(time.Duration(s.PreMs) * time.Millisecond)
				ep := holdEpisode{Inst: i, Key: s.Key, LockCall: int64(time.Since(start)), LockCtx: s.Ctx}
				lockCtx, cancel := ctx, context.CancelFunc(func() {})
				switch s.Ctx {
				case "cancel-after-lock":
					lockCtx, cancel = context.WithCancel(ctx)
				case "deadline":
					lockCtx, cancel = context.WithTimeout(ctx, 300*time.Millisecond)
				}
				err := st.Lock(lockCtx, s.Key)
				if s.Ctx == "cancel-after-lock" {
					cancel()
				}
				defer cancel()
				if err != nil {
					if s.Ctx == "deadline" && errors.Is(err, context.DeadlineExceeded) {
						continue // did not get the lock within its own deadline: no episode
					}
					lockErr.Store(fmt.Sprintf("instance %d Lock(%q): %v", i, s.Key, err))
					return
				}
				ep.LockRet = int64(time.Since(start))
				time.Sleep(time.Duration(s.HoldMs) * time.Millisecond)
				ep.EndCall = int64(time.Since(start))
				if s.Abandon {
					tap.cutRenew.Store(true)
					ep.Abandoned = true
				} else if err := st.Unlock(ctx, s.Key); err != nil {
					ep.UnlockErr = err.Error()
				}
				mu.Lock()
				episodes = append(episodes, ep)
				mu.Unlock()
				if s.Abandon {
					return
				}
			}
		}(i, steps)
	}
	done := make(chan struct{})
	go func() { wg.Wait(); close(done) }()
	var maxStall atomic.Int64
	go func() {
		tk := time.NewTicker(20 * time.Millisecond)
		defer tk.Stop()
		last := time.Now()
		for {
			select {
			case <-done:
				return
			case <-tk.C:
				now := time.Now()
				if g := int64(now.Sub(last)); g > maxStall.Load() {
					maxStall.Store(g)
				}
				last = now
			}
		}
	}()
	select {
	case <-done:
	case <-time.After(90 * time.Second):
		out.timedOut = true
		return out
	}
	out.maxStallNs = maxStall.Load()
	if v := lockErr.Load(); v != nil {
		out.lockErr = v.(string)
	}
	mu.Lock()
	defer mu.Unlock()
	out.events = append(out.events, events...)
	out.conflicts = conflicts.Load()
	for _, ep := range episodes {
		lastOK := int64(-1)
		kvKey := acme.VerifKVKeyName(ep.Key)
		for _, e := range events {
			if e.Inst != ep.Inst || e.Key != kvKey || e.Err != "" || (e.Op != "acquire" && e.Op != "renew") {
				continue
			}
			if e.Invoke >= ep.LockCall && e.Invoke <= ep.EndCall && e.Invoke > lastOK {
				lastOK = e.Invoke
			}
		}
		switch {
		case lastOK < 0: // cannot happen after a successful Lock; keep the interval empty
			ep.CertainEnd = ep.LockRet - 1
		case ep.Abandoned: // nobody releases: the lease stays valid until it expires
			ep.CertainEnd = lastOK + int64(ttl)
		default:
			ep.CertainEnd = min(ep.EndCall, lastOK+int64(ttl))
		}
		out.episodes = append(out.episodes, ep)
	}
	sort.Slice(out.episodes, func(a, b int) bool { return out.episodes[a].LockRet < out.episodes[b].LockRet })
	return out
}

func checkLockOutcome(t failT, rec *ev.Recorder, o lockOutcome) {
	doc := map[string]any{"programme": o.prog, "episodes": o.episodes, "lease_calls": o.events}
	var key strings.Builder
	for _, in := range o.prog.Insts {
		fmt.Fprintf(&key, "%v|", in)
	}
	if o.timedOut {
		rec.Inconclusive("lock-programme-watchdog-90s")
		return
	}
	abandon := false
	for _, in := range o.prog.Insts {
		for _, s := range in {
			abandon = abandon || s.Abandon
		}
	}
	labels := []string{"lock-programme", fmt.Sprintf("lock-programme:instances=%d", len(o.prog.Insts))}
	if abandon {
		labels = append(labels, "lock-programme:holder-cut-off(lease-expiry)")
	}
	for _, ep := range o.episodes {
		if ep.LockCtx != "" && ep.EndCall-ep.LockRet > int64(time.Duration(o.prog.TTLs)*time.Second) {
			labels = append(labels, "lock-programme:live-holder-outlasts-lock-context-and-ttl")
			break
		}
	}
	if o.conflicts > 0 {
		labels = append(labels, "lock-programme:contended")
	}
	rec.Case(o.conflicts > 0, "lock "+key.String(), func() any {
		return map[string]any{"programme": o.prog, "episodes": o.episodes, "acquire_conflicts": o.conflicts}
	}, labels...)
	rec.Add("lock_hold_episodes", int64(len(o.episodes)))
	rec.Add("lock_acquire_conflicts_observed", o.conflicts)
	if o.lockErr != "" {
		rec.Fail(t, "lock-returns-error", doc, "%s", o.lockErr)
	}
	for i, a := range o.episodes {
		for _, b := range o.episodes[i+1:] {
			if a.Inst == b.Inst || a.Key != b.Key {
				continue
			}
			// a live, connected holder (never cut off, every lease call of it succeeded) that has
			// not unlocked yet keeps the lock however long it holds it and whatever became of the
			// context it passed to Lock: the renewal is the storage's job. Judged only when the
			// harness' own 20 ms heartbeat never stalled for a renewal period (TTL/4) - otherwise
			// late renewals are the machine's doing.
			if !a.Abandoned && b.LockRet > a.LockRet && b.LockRet < a.EndCall && a.CertainEnd < b.LockRet {
				ttl := int64(time.Duration(o.prog.TTLs) * time.Second)
				holderFailed := false
				for _, e := range o.events {
					if e.Inst == a.Inst && e.Err != "" && e.Op == "renew" && e.Invoke >= a.LockRet && e.Invoke <= a.EndCall {
						holderFailed = true
					}
				}
				switch {
				case holderFailed:
				case o.maxStallNs >= ttl/4:
					rec.Inconclusive("machine-stalled-during-lock-programme")
				default:
					doc["overlap"] = []holdEpisode{a, b}
					doc["max_heartbeat_gap_ms"] = float64(o.maxStallNs) / 1e6
					rec.Fail(t, "lock-lost-by-live-holder", doc,
						"instance %d obtained lock %q at %.1f ms although instance %d, alive and connected, holds it since %.1f ms and only unlocked at %.1f ms (context passed to Lock: %q; last successful lease call + TTL = %.1f ms; longest harness heartbeat gap %.1f ms)",
						b.Inst, b.Key, float64(b.LockRet)/1e6, a.Inst, float64(a.LockRet)/1e6, float64(a.EndCall)/1e6, a.LockCtx, float64(a.CertainEnd)/1e6, float64(o.maxStallNs)/1e6)
				}
			}
			// a.LockRet <= b.LockRet; a certainly still holds at a.CertainEnd
			if a.CertainEnd >= a.LockRet && b.LockRet <= a.CertainEnd {
				doc["overlap"] = []holdEpisode{a, b}
				rec.Fail(t, "lock-held-by-two-instances", doc,
					"instance %d obtained lock %q at %.1f ms while instance %d certainly held it from %.1f ms to %.1f ms (unlock call / last successful renewal + TTL)",
					b.Inst, b.Key, float64(b.LockRet)/1e6, a.Inst, float64(a.LockRet)/1e6, float64(a.CertainEnd)/1e6)
			}
		}
	}
}

func TestC49(t *testing.T) {
	rec := ev.New(t, "C49")
	rec.Rule("(1) rapid-generated histories of 4..30 store/load/delete/exists/stat/list operations issued through two ChordStorage instances sharing one memory KV, over path-like keys with directories that share string prefixes (certs/a, certs/ab, certs/a.b, certs/a/b, acme/ca-1, acme/ca-10 …) and key sets in which a name is both a stored key and the parent of deeper keys (orders/pending and orders/pending/0001; directory names stored as keys; keys stored below existing keys), lists on directories, parents, the root, trailing-slash forms and on file keys, non-empty values; oracle = map-backed file-store model (non-recursive list = set of immediate children, each once, nothing else; recursive list only bracketed). Non-trivial history: it contains a non-recursive list with >=1 expected child (incl. a child that is both key and directory) or with a stored string-prefix sibling, or a load/exists of a key overwritten or deleted earlier. (1b) reads in flight (class read-in-flight-across-write): a Load/Exists of a key is issued and its answer is held back after the value was read; a Store or Delete of the key through either instance completes; then a second Load/Exists is started through either instance and must report that write (only then is the first read released). (2) seeded lock programmes: 2..3 instances over one KV, TTL 1 s, each runs 1..2 lock/hold/unlock steps (optionally ends by being cut off from the KV without unlocking); oracle = hold intervals [Lock returned, min(Unlock called, last successful acquire/renew invoked + TTL)] of different instances on the same key are disjoint. Non-trivial programme: >=1 acquire conflict was observed (real contention). Distinct = distinct histories / programmes.")
	rec.Assume("keys may be both a stored key and a path prefix of other stored keys (the KV allows it); an immediate child is then still listed exactly once",
		"the DHT behind the storage is a single in-process kv/memory store (routing and replication are other properties)",
		"lock intervals are judged on the harness' monotonic clock; the KV judges lease expiry on the wall clock of the same process (no clock steps during a run)")

	// witness of the listed finding (DESIGN §5 item 9)
	{
		ctx := context.Background()
		kv := memory.WithHashFn(chord.Hash)
		s := newStorage(kv, time.Second)
		for _, k := range []string{"certs/a/x.pem", "certs/a/y.pem", "certs/ab/z.pem"} {
			if err := s.Store(ctx, k, []byte("v")); err != nil {
				t.Fatalf("witness store: %v", err)
			}
		}
		got, err := s.List(ctx, "certs/a", false)
		sort.Strings(got)
		rec.Witnessed(sigC49List, err == nil && slices.Equal(got, []string{"certs/a/", "certs/a/x.pem", "certs/a/y.pem"}))
		runFsHistory(t, rec, []fsOp{
			{Op: "store", Key: "certs/a/x.pem", Val: "1"}, {Op: "store", Key: "certs/a/y.pem", Val: "2"},
			{Op: "store", Inst: 1, Key: "certs/ab/z.pem", Val: "3"}, {Op: "list", Key: "certs/a"}, {Op: "list", Key: "certs/ab"},
			{Op: "list", Key: "certs"}, {Op: "store", Key: "certs/a/x.pem", Val: "4"}, {Op: "load", Inst: 1, Key: "certs/a/x.pem"},
			{Op: "delete", Key: "certs/a/y.pem"}, {Op: "exists", Inst: 1, Key: "certs/a/y.pem"}, {Op: "load", Key: "certs/a/y.pem"},
		})
		// a name that is both a stored key and the parent of deeper keys
		runFsHistory(t, rec, []fsOp{
			{Op: "store", Key: "orders/pending", Val: "p"}, {Op: "store", Inst: 1, Key: "orders/pending/0001", Val: "1"},
			{Op: "store", Key: "orders/README", Val: "r"}, {Op: "store", Key: "orders/done/0001", Val: "d"},
			{Op: "list", Key: "orders"}, {Op: "list", Inst: 1, Key: "orders/pending"}, {Op: "list", Key: ""},
			{Op: "load", Inst: 1, Key: "orders/pending"}, {Op: "delete", Key: "orders/pending"}, {Op: "list", Key: "orders"},
			{Op: "store", Key: "orders", Val: "o"}, {Op: "list", Key: ""}, {Op: "list", Key: "orders/"},
		})
	}

	ev.RapidCheck(t, 1500, 60000, func(t *rapid.T) {
		runFsHistory(t, rec, genFsOps(t))
	})

	// reads in flight across a write
	ev.RapidCheck(t, 300, 8000, func(rt *rapid.T) {
		c49ReadsInFlight(rt, rec, rt)
	})

	// lock programmes run in real time, a few at once (each has its own KV)
	nProg := ev.N(4, 40)
	rng := rand.New(rand.NewSource(ev.ShardSeed()))
	progs := make([]lockProgramme, nProg)
	for i := range progs {
		// every run has >= 1 holder that is cut off and >= 1 live holder that outlasts its Lock context
		progs[i] = genLockProgramme(rng, i == 0, i == 1)
	}
	outs := make([]lockOutcome, nProg)
	var wg sync.WaitGroup
	sem := make(chan struct{}, 4)
	for i := range progs {
		wg.Add(1)
		sem <- struct{}{}
		go func(i int) {
			defer wg.Done()
			defer func() { <-sem }()
			outs[i] = runLockProgramme(progs[i])
		}(i)
	}
	wg.Wait()
	for _, o := range outs {
		checkLockOutcome(t, rec, o)
	}
}
