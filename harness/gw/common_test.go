package gw

import (
	"context"
	"errors"
	"net"
	"sync"
	"time"

	"go.miragespace.co/specter/gateway"
	"go.miragespace.co/specter/spec/protocol"
	"go.miragespace.co/specter/spec/tun"

	"go.uber.org/zap"
)

// failT is what ev.Recorder.Fail needs (both *testing.T and *rapid.T have it).
type failT interface {
	Fatalf(string, ...any)
	Helper()
}

// watchdog is a liveness budget for in-memory exchanges (never a verdict:
// when it expires the case is counted as inconclusive).
const watchdog = 30 * time.Second

// fakeTunServer is the M6 fake behind tun.Server: every DialClient /
// DialInternal is recorded and answered by the function given by the case.
type fakeTunServer struct {
	mu        sync.Mutex
	links     []*protocol.Link
	internals []*protocol.Node
	dial      func(ctx context.Context, link *protocol.Link) (net.Conn, error)
	internal  func(ctx context.Context, node *protocol.Node) (net.Conn, error)
}

var _ tun.Server = (*fakeTunServer)(nil)

func (f *fakeTunServer) Identity() *protocol.Node {
	return &protocol.Node{Id: 42, Address: "127.0.0.1:4242"}
}

func (f *fakeTunServer) DialClient(ctx context.Context, link *protocol.Link) (net.Conn, error) {
	f.mu.Lock()
	f.links = append(f.links, link)
	d := f.dial
	f.mu.Unlock()
	if d == nil {
		return nil, errors.New("fakeTunServer: no dial function")
	}
	return d(ctx, link)
}

func (f *fakeTunServer) DialInternal(ctx context.Context, node *protocol.Node) (net.Conn, error) {
	f.mu.Lock()
	f.internals = append(f.internals, node)
	d := f.internal
	f.mu.Unlock()
	if d == nil {
		return nil, errors.New("fakeTunServer: no internal dial function")
	}
	return d(ctx, node)
}

func (f *fakeTunServer) dialed() []*protocol.Link {
	f.mu.Lock()
	defer f.mu.Unlock()
	return append([]*protocol.Link(nil), f.links...)
}

func (f *fakeTunServer) internalDialed() int {
	f.mu.Lock()
	defer f.mu.Unlock()
	return len(f.internals)
}

// newGateway builds a fresh Gateway the way cmd/specter does (gateway.New),
// without listeners: the harness drives the handlers directly.
func newGateway(ts tun.Server, roots []string, port int, user, pass string, h gateway.InternalHandlers) *gateway.Gateway {
	return gateway.New(gateway.GatewayConfig{
		Logger:       zap.NewNop(),
		TunnelServer: ts,
		RootDomains:  roots,
		GatewayPort:  port,
		AdminUser:    user,
		AdminPass:    pass,
		Handlers:     h,
		Options: gateway.Options{
			TransportBufferSize: 8 << 10,
			ProxyBufferSize:     8 << 10,
		},
	})
}

// pipeListener is an in-memory net.Listener fed with net.Pipe ends.
type pipeListener struct {
	ch     chan net.Conn
	closed chan struct{}
	once   sync.Once
}

func newPipeListener() *pipeListener {
	return &pipeListener{ch: make(chan net.Conn, 16), closed: make(chan struct{})}
}

func (l *pipeListener) Accept() (net.Conn, error) {
	select {
	case c := <-l.ch:
		return c, nil
	case <-l.closed:
		return nil, net.ErrClosed
	}
}
func (l *pipeListener) Close() error   { l.once.Do(func() { close(l.closed) }); return nil }
func (l *pipeListener) Addr() net.Addr { return pipeAddr{} }

// dial hands one end of a fresh pipe to the server and returns the other.
func (l *pipeListener) dial() net.Conn {
	c1, c2 := net.Pipe()
	l.ch <- c2
	return c1
}

type pipeAddr struct{}

func (pipeAddr) Network() string { return "pipe" }
func (pipeAddr) String() string  { return "10.9.8.7:5555" }

// netTimeoutErr is a net.Error whose Timeout() is true (what a timed-out
// transport dial returns).
type netTimeoutErr struct{}

func (netTimeoutErr) Error() string   { return "fake: i/o timeout" }
func (netTimeoutErr) Timeout() bool   { return true }
func (netTimeoutErr) Temporary() bool { return true }

var _ net.Error = netTimeoutErr{}
