package gw

import (
	"context"
	"crypto/tls"
	"encoding/base64"
	"errors"
	"fmt"
	"net"
	"net/http"
	"net/http/httptest"
	"sort"
	"strings"
	"sync"
	"testing"

	"go.miragespace.co/specter/gateway"
	"go.miragespace.co/specter/spec/protocol"
	"verifharness/internal/ev"

	"pgregory.net/rapid"
)

// ---- C37: internal admin endpoints always require the admin credentials ----

const (
	hdrProxyNode      = "x-internal-proxy-node-address"
	hdrProxyForwarded = "x-internal-proxy-forwarded"
	c37Root           = "apex.example.com"
)

type c37Req struct {
	Method    string `json:"method"`
	Path      string `json:"path"`
	Auth      string `json:"auth"`        // description of the credential variant
	AuthHdr   string `json:"auth_header"` // the Authorization header sent ("" = none)
	ProxyNode string `json:"proxy_node,omitempty"`
	Forwarded string `json:"proxy_forwarded,omitempty"`
	// results
	Status   int      `json:"status,omitempty"`
	Reached  []string `json:"reached,omitempty"`
	Internal int      `json:"dial_internal,omitempty"`
}

type c37Case struct {
	User    string   `json:"user"`
	Pass    string   `json:"pass"`
	Mounted []string `json:"mounted"`
	Reqs    []c37Req `json:"requests"`
}

var c37Fingerprints = []string{"MARKER-", "Specter Internal Gateway Endpoints", "Types of profiles available", "memstats", "goroutine profile:"}

// decodeBasic is RFC 7617: scheme case-insensitive, base64(user ":" pass).
func decodeBasic(h string) (user, pass string, ok bool) {
	if len(h) < 6 || !strings.EqualFold(h[:6], "basic ") {
		return "", "", false
	}
	b, err := base64.StdEncoding.DecodeString(h[6:])
	if err != nil {
		return "", "", false
	}
	u, p, found := strings.Cut(string(b), ":")
	return u, p, found
}

func basic(u, p string) string {
	return "Basic " + base64.StdEncoding.EncodeToString([]byte(u+":"+p))
}

var c37Paths = []string{
	"/_internal", "/_internal/", "/_internal/acme", "/_internal/acme/", "/_internal/acme/clients", "/_internal/chord/stats", "/_internal/chord/graph",
	"/_internal/tun/", "/_internal/tun/x/y", "/_internal/migrator", "/_internal/migrator/run", "/_internal/debug", "/_internal/debug/", "/_internal/debug/pprof/",
	"/_internal/debug/pprof/cmdline", "/_internal/debug/pprof/goroutine?debug=1", "/_internal/debug/vars", "/_internal/anything", "/_internal/stats",
	"/_internal//chord/stats", "/_internal/./chord/stats", "/_internal/../_internal/chord/stats", "/_internal/chord/../acme/x", "/_internal/%63hord/stats",
	"/_internal/chord%2Fstats", "/_internal%2Fchord/stats", "/_INTERNAL/chord/stats", "//_internal/chord/stats", "/x/../_internal/chord/stats", "/_internalx/chord", "/_internal.", "/_internal;x=1/chord/stats",
}

func genC37(t *rapid.T) c37Case {
	c := c37Case{}
	switch rapid.IntRange(0, 9).Draw(t, "cfg") {
	case 0:
		c.User, c.Pass = "admin", ""
	case 1:
		c.User, c.Pass = "", "s3cret"
	case 2:
		c.User, c.Pass = "", ""
	case 3, 4:
		c.User, c.Pass = "zzzAdminzzz", "p:ss w0rd"
	default:
		c.User, c.Pass = "admin", "s3cret"
	}
	for _, m := range []string{"acme", "chord", "tun", "migrator"} {
		if rapid.IntRange(0, 3).Draw(t, "mount-"+m) != 0 {
			c.Mounted = append(c.Mounted, m)
		}
	}
	n := rapid.IntRange(1, 6).Draw(t, "nReqs")
	for i := 0; i < n; i++ {
		r := c37Req{
			Method: rapid.SampledFrom([]string{"GET", "GET", "POST", "PUT", "DELETE", "HEAD", "OPTIONS", "PATCH", "PROPFIND"}).Draw(t, "method"),
			Path:   rapid.SampledFrom(c37Paths).Draw(t, "path"),
		}
		if rapid.IntRange(0, 5).Draw(t, "suffix") == 0 && !strings.Contains(r.Path, "?") && !strings.Contains(r.Path, "debug") {
			r.Path += "/" + genLabel(true, 1, 6).Draw(t, "seg")
		}
		u, p := c.User, c.Pass
		switch rapid.IntRange(0, 18).Draw(t, "auth") {
		case 16, 17, 18:
			// the right characters, split at the wrong place between user and password (or all of
			// them in one field): equal as a concatenation, not as a credential pair
			all := u + p
			if len(all) >= 2 {
				cut := rapid.IntRange(0, len(all)).Draw(t, "resplit")
				if cut == len(u) {
					cut = (cut + 1) % (len(all) + 1)
				}
				r.Auth, r.AuthHdr = "user+password-split-elsewhere", basic(all[:cut], all[cut:])
			} else {
				r.Auth = "none"
			}
		case 0, 1:
			r.Auth = "none"
		case 2, 3, 4:
			r.Auth, r.AuthHdr = "right", basic(u, p)
		case 5:
			r.Auth, r.AuthHdr = "right,lower-case-scheme", "basic"+basic(u, p)[5:]
		case 6:
			r.Auth, r.AuthHdr = "wrong-user", basic(u+"x", p)
		case 7:
			r.Auth, r.AuthHdr = "wrong-user-case", basic(strings.ToUpper(u), p)
		case 8:
			r.Auth, r.AuthHdr = "wrong-pass", basic(u, p+"x")
		case 9:
			r.Auth, r.AuthHdr = "empty-pass", basic(u, "")
		case 10:
			r.Auth, r.AuthHdr = "empty-user", basic("", p)
		case 11:
			r.Auth, r.AuthHdr = "pass-prefix", basic(u, p[:len(p)/2])
		case 12:
			r.Auth, r.AuthHdr = "swapped", basic(p, u)
		case 13:
			r.Auth, r.AuthHdr = "malformed", rapid.SampledFrom([]string{"Basic !!!", "Bearer " + base64.StdEncoding.EncodeToString([]byte(u+":"+p)), "Basic " + base64.StdEncoding.EncodeToString([]byte(u+p)), "Basic", u + ":" + p, "Digest username=\"" + u + "\""}).Draw(t, "malformed")
		case 14:
			r.Auth, r.AuthHdr = "empty-both", basic("", "")
		default:
			r.Auth, r.AuthHdr = "wrong-both", basic("root", "toor")
		}
		switch rapid.IntRange(0, 5).Draw(t, "proxy") {
		case 0, 1:
			r.ProxyNode = "10.0.0.5:4444"
		case 2:
			r.ProxyNode, r.Forwarded = "10.0.0.5:4444", "true"
		case 3:
			r.Forwarded = "true"
		}
		c.Reqs = append(c.Reqs, r)
	}
	return c
}

func underInternal(escapedPath string) bool {
	return escapedPath == "/_internal" || strings.HasPrefix(escapedPath, "/_internal/")
}

func runC37(t failT, rec *ev.Recorder, c c37Case) {
	var mu sync.Mutex
	var reached []string
	marker := func(name string) http.Handler {
		return http.HandlerFunc(func(w http.ResponseWriter, r *http.Request) {
			mu.Lock()
			reached = append(reached, name)
			mu.Unlock()
			fmt.Fprintf(w, "MARKER-%s", name)
		})
	}
	h := gateway.InternalHandlers{}
	for _, m := range c.Mounted {
		switch m {
		case "acme":
			h.Acme = marker(m)
		case "chord":
			h.Chord = marker(m)
		case "tun":
			h.TunnelServer = marker(m)
		case "migrator":
			h.Migrator = marker(m)
		}
	}
	ts := &fakeTunServer{internal: func(ctx context.Context, n *protocol.Node) (net.Conn, error) {
		return nil, errors.New("verif: no such node")
	}}
	g := newGateway(ts, []string{c37Root}, 443, c.User, c.Pass, h)
	apex := g.VerifApexHandler()
	credsSet := c.User != "" && c.Pass != ""

	nt := !credsSet
	labels := map[string]bool{}
	if credsSet {
		labels["config:credentials-set"] = true
	} else {
		labels["config:user-or-pass-empty"] = true
	}
	doc := map[string]any{"case": &c}
	type verdict struct {
		sig, msg string
	}
	var bad *verdict
	for i := range c.Reqs {
		r := &c.Reqs[i]
		req := httptest.NewRequest(r.Method, "https://"+c37Root+r.Path, nil)
		req.TLS = &tls.ConnectionState{ServerName: c37Root}
		req.RemoteAddr = "203.0.113.7:50000"
		if r.AuthHdr != "" {
			req.Header.Set("Authorization", r.AuthHdr)
		}
		if r.ProxyNode != "" {
			req.Header.Set(hdrProxyNode, r.ProxyNode)
		}
		if r.Forwarded != "" {
			req.Header.Set(hdrProxyForwarded, r.Forwarded)
		}
		mu.Lock()
		reached = nil
		mu.Unlock()
		before := ts.internalDialed()
		w := httptest.NewRecorder()
		var pn any
		func() {
			defer func() { pn = recover() }()
			apex.ServeHTTP(w, req)
		}()
		mu.Lock()
		r.Reached = append([]string(nil), reached...)
		mu.Unlock()
		r.Status = w.Code
		r.Internal = ts.internalDialed() - before

		u, p, ok := decodeBasic(r.AuthHdr)
		authorized := credsSet && ok && u == c.User && p == c.Pass
		under := underInternal(req.URL.EscapedPath())
		proxyAsk := r.ProxyNode != "" && r.Forwarded == ""
		if !authorized && (r.ProxyNode != "" || r.Forwarded != "") {
			nt = true
			labels["bad-credentials+proxy-headers"] = true
		}
		if authorized {
			labels["authorized"] = true
			if proxyAsk && under {
				labels["authorized:proxied"] = true
			}
		} else {
			labels["unauthorized:"+r.Auth] = true
		}
		if under {
			labels["path:under-prefix"] = true
		} else {
			labels["path:look-alike-outside-prefix"] = true
		}
		body := w.Body.String()
		leaked := ""
		for _, f := range c37Fingerprints {
			if strings.Contains(body, f) {
				leaked = f
			}
		}
		set := func(sig, format string, args ...any) {
			if bad == nil {
				doc["failed_request"] = i
				bad = &verdict{sig, fmt.Sprintf("request %d %s %s auth=%s proxy=%q/%q (config user=%q pass=%q): ", i, r.Method, r.Path, r.Auth, r.ProxyNode, r.Forwarded, c.User, c.Pass) + fmt.Sprintf(format, args...)}
			}
		}
		if pn != nil {
			set("apex-handler-panic", "handler panicked: %v", pn)
		}
		switch {
		case !credsSet:
			// the prefix must not be served at all, whatever the credentials
			if len(r.Reached) > 0 || r.Internal > 0 || leaked != "" {
				set("internal-served-without-configured-credentials", "reached %v, DialInternal x%d, body fingerprint %q although no credentials are configured", r.Reached, r.Internal, leaked)
			}
			if under && w.Code != http.StatusNotFound {
				set("internal-prefix-not-404-without-configured-credentials", "status %d, want 404 (prefix must not be served when credentials are unset)", w.Code)
			}
		case !authorized:
			if len(r.Reached) > 0 || leaked != "" {
				set("internal-served-without-credentials", "reached %v, body fingerprint %q without the admin credentials", r.Reached, leaked)
			}
			if r.Internal > 0 {
				set("internal-proxied-without-credentials", "DialInternal called %d time(s) without the admin credentials", r.Internal)
			}
			if under && w.Code != http.StatusUnauthorized {
				set("internal-not-401-without-credentials", "status %d, want 401", w.Code)
			}
			if !under && w.Code >= 200 && w.Code < 300 {
				set("internal-look-alike-path-served", "look-alike path answered %d", w.Code)
			}
		default:
			if under && w.Code == http.StatusUnauthorized {
				set("correct-credentials-refused", "status 401 although the configured credentials were sent")
			}
			if under {
				rec.Add("authorized_requests_under_prefix", 1)
				if len(r.Reached) > 0 {
					rec.Add("authorized_requests_reaching_a_mounted_handler", 1)
				}
				if r.Internal > 0 {
					rec.Add("authorized_requests_proxied", 1)
				}
			}
		}
	}
	ls := make([]string, 0, len(labels))
	for l := range labels {
		ls = append(ls, l)
	}
	sort.Strings(ls)
	rec.Case(nt, fmt.Sprintf("%+v", c), func() any { return doc }, ls...)
	if bad != nil {
		rec.Fail(t, bad.sig, doc, "%s", bad.msg)
	}
}

func TestC37(t *testing.T) {
	rec := ev.New(t, "C37")
	rec.Rule("rapid-generated (configuration, 1..6 requests) bundles, a fresh Gateway per bundle (<= 6 requests, below the 10 req/s apex limiter): configurations = admin user/password set (two variants, password with ':' and space) or user/password/both empty; mounted handlers = generated subset of {acme, chord, tun, migrator} as harness markers, plus the built-in /debug profiler and catch-all document; paths = 32 paths under /_internal (mount points, debug, catch-all, //, ./, ../, %-escapes) and look-alikes outside it, optional extra segment; 9 methods; credentials in {none, right, right with lower-case scheme, wrong user, user in other case, wrong pass, empty pass, empty user, pass prefix, swapped, malformed x6, empty both, wrong both}; proxy headers {none, node address, node address + forwarded marker, forwarded marker only}. Oracle: without the exact configured credentials no marker handler, profiler page, endpoints document or DialInternal is reached and paths under the prefix answer 401; with user or password unset every path under the prefix answers 404 and nothing is reached for any credential; correct credentials are not answered 401. Non-trivial: a request with bad credentials carries a proxy header, or the configuration has an empty user or password. Distinct = distinct bundles.")
	rec.Assume("the apex handler is driven directly (no TLS listener); /debug/pprof/profile and /trace are not requested (they block for 30 s)")

	runC37(t, rec, c37Case{User: "admin", Pass: "s3cret", Mounted: []string{"chord"}, Reqs: []c37Req{
		{Method: "GET", Path: "/_internal/chord/stats", Auth: "none"},
		{Method: "GET", Path: "/_internal/chord/stats", Auth: "none", ProxyNode: "10.0.0.5:4444"},
		{Method: "GET", Path: "/_internal/chord/stats", Auth: "right", AuthHdr: basic("admin", "s3cret")},
		{Method: "GET", Path: "/_internal/chord/stats", Auth: "right", AuthHdr: basic("admin", "s3cret"), ProxyNode: "10.0.0.5:4444"},
		{Method: "GET", Path: "/_internal/debug/pprof/", Auth: "wrong-pass", AuthHdr: basic("admin", "s3cre")},
	}})
	runC37(t, rec, c37Case{User: "admin", Pass: "", Mounted: []string{"chord"}, Reqs: []c37Req{
		{Method: "GET", Path: "/_internal/chord/stats", Auth: "right", AuthHdr: basic("admin", "")},
		{Method: "GET", Path: "/_internal/", Auth: "none"},
	}})

	ev.RapidCheck(t, 600, 24000, func(t *rapid.T) {
		runC37(t, rec, genC37(t))
	})
}
