package gw

import (
	"context"
	"crypto/sha256"
	"encoding/base64"
	"errors"
	"fmt"
	"net"
	"sort"
	"strings"
	"sync/atomic"
	"testing"

	"go.miragespace.co/specter/acme"
	"go.miragespace.co/specter/kv/memory"
	acmeSpec "go.miragespace.co/specter/spec/acme"
	"go.miragespace.co/specter/spec/chord"
	"go.miragespace.co/specter/spec/protocol"
	"go.miragespace.co/specter/spec/tun"
	"verifharness/internal/ev"

	acmez "github.com/mholt/acmez/v3/acme"
	"github.com/miekg/dns"
	"go.uber.org/zap"
	"pgregory.net/rapid"
)

// ---- C48: the ACME DNS responder answers exactly the stored challenges -----

// failKV is the storage behind the responder: a memory KV whose PrefixList
// can be made to fail (storage failure) and is counted.
type failKV struct {
	chord.KV
	fail  atomic.Bool
	lists atomic.Int64
}

func (f *failKV) PrefixList(ctx context.Context, prefix []byte) ([][]byte, error) {
	f.lists.Add(1)
	if f.fail.Load() {
		return nil, errors.New("verif: storage unavailable")
	}
	return f.KV.PrefixList(ctx, prefix)
}

// captureWriter is the dns.ResponseWriter fake (M6).
type captureWriter struct{ msg *dns.Msg }

func (c *captureWriter) LocalAddr() net.Addr {
	return &net.UDPAddr{IP: net.IPv4(127, 0, 0, 1), Port: 53}
}
func (c *captureWriter) RemoteAddr() net.Addr {
	return &net.UDPAddr{IP: net.IPv4(127, 0, 0, 1), Port: 40000}
}
func (c *captureWriter) WriteMsg(m *dns.Msg) error   { c.msg = m; return nil }
func (c *captureWriter) Write(b []byte) (int, error) { return len(b), nil }
func (c *captureWriter) Close() error                { return nil }
func (c *captureWriter) TsigStatus() error           { return nil }
func (c *captureWriter) TsigTimersOnly(bool)         {}
func (c *captureWriter) Hijack()                     {}

type c48Op struct {
	Op    string `json:"op"` // present cleanup append remove fail query
	Name  string `json:"name,omitempty"`
	Value string `json:"value,omitempty"`
	Qtype string `json:"qtype,omitempty"`
	Edns  bool   `json:"edns,omitempty"`
	Fail  bool   `json:"fail,omitempty"`
	// results (queries)
	Rcode   string   `json:"rcode,omitempty"`
	Auth    bool     `json:"aa,omitempty"`
	Answers []string `json:"answers,omitempty"`
	NsSOA   bool     `json:"soa_in_authority,omitempty"`
}

type c48Case struct {
	Zone string  `json:"zone"`
	Ops  []c48Op `json:"ops"`
}

var (
	c48Zones   = []string{"acme.example.com", "dns.specter.test", "a.b.c"}
	c48Qtypes  = map[string]uint16{"TXT": dns.TypeTXT, "A": dns.TypeA, "AAAA": dns.TypeAAAA, "NS": dns.TypeNS, "SOA": dns.TypeSOA, "ANY": dns.TypeANY, "MX": dns.TypeMX, "CNAME": dns.TypeCNAME}
	c48Managed = "managed.example.org"
	c48Customs = []string{"custom-one.example.net", "custom-two.example.net"}
	c48Labels  = []string{"managed", "abc123", "x.managed", "deep.abc123", "ns1", "other"}
)

func c48Token(host string) []byte { return []byte("token-of-" + host) }

func dns01(keyAuth string) string {
	h := sha256.Sum256([]byte(keyAuth))
	return base64.RawURLEncoding.EncodeToString(h[:])
}

func recaseBy(t *rapid.T, s, label string) string {
	if rapid.IntRange(0, 2).Draw(t, label+"Keep") == 0 {
		return s
	}
	return recase(t, s, label)
}

func genC48(t *rapid.T) c48Case {
	c := c48Case{Zone: rapid.SampledFrom(c48Zones).Draw(t, "zone")}
	labelOf := map[string]string{c48Managed: acmeSpec.ManagedDelegation}
	for _, h := range c48Customs {
		labelOf[h] = acmeSpec.EncodeClientToken(c48Token(h))
	}
	allLabels := append([]string{}, c48Labels...)
	for _, l := range labelOf {
		allLabels = append(allLabels, l)
	}
	sort.Strings(allLabels)
	n := rapid.IntRange(3, 24).Draw(t, "nOps")
	for i := 0; i < n; i++ {
		switch rapid.IntRange(0, 15).Draw(t, "op") {
		case 0, 1, 2:
			dom := rapid.SampledFrom(append([]string{c48Managed}, c48Customs...)).Draw(t, "domain")
			c.Ops = append(c.Ops, c48Op{Op: "present", Name: dom, Value: fmt.Sprintf("keyauth-%d", rapid.IntRange(0, 3).Draw(t, "ka"))})
		case 3:
			dom := rapid.SampledFrom(append([]string{c48Managed}, c48Customs...)).Draw(t, "domain")
			c.Ops = append(c.Ops, c48Op{Op: "cleanup", Name: dom, Value: fmt.Sprintf("keyauth-%d", rapid.IntRange(0, 3).Draw(t, "ka"))})
		case 4, 5:
			v := rapid.SampledFrom([]string{"", "v1", "v2", "a value with spaces", "UPPER-lower"}).Draw(t, "value")
			c.Ops = append(c.Ops, c48Op{Op: "append", Name: rapid.SampledFrom(allLabels).Draw(t, "label"), Value: v})
		case 6:
			v := rapid.SampledFrom([]string{"", "v1", "v2", "a value with spaces", "UPPER-lower"}).Draw(t, "value")
			c.Ops = append(c.Ops, c48Op{Op: "remove", Name: rapid.SampledFrom(allLabels).Draw(t, "label"), Value: v})
		case 7:
			c.Ops = append(c.Ops, c48Op{Op: "fail", Fail: rapid.IntRange(0, 2).Draw(t, "failOn") == 0})
		default:
			var name string
			zone := c.Zone
			switch rapid.IntRange(0, 11).Draw(t, "qname") {
			case 0:
				name = zone
			case 1, 2, 3, 4, 5:
				name = rapid.SampledFrom(allLabels).Draw(t, "qlabel") + "." + zone
			case 6:
				name = genLabel(false, 1, 5).Draw(t, "l2") + "." + rapid.SampledFrom(allLabels).Draw(t, "qlabel") + "." + zone
			case 7:
				name = "a.b." + rapid.SampledFrom(allLabels).Draw(t, "qlabel") + "." + zone
			case 8: // shares a string suffix with the zone but is not below it
				name = rapid.SampledFrom([]string{"x", "managed.x", "managedx"}).Draw(t, "sfx") + zone
			case 9:
				name = rapid.SampledFrom([]string{"ns1", "ns2"}).Draw(t, "ns") + "." + zone
			case 10: // a different zone altogether
				name = "managed.example.net"
			default:
				name = genLabel(false, 1, 8).Draw(t, "rnd") + "." + zone
			}
			name = recaseBy(t, name, "qcase") + "."
			qt := rapid.SampledFrom([]string{"TXT", "TXT", "TXT", "TXT", "A", "AAAA", "NS", "SOA", "ANY", "MX", "CNAME"}).Draw(t, "qtype")
			c.Ops = append(c.Ops, c48Op{Op: "query", Name: name, Qtype: qt, Edns: rapid.IntRange(0, 3).Draw(t, "edns") == 0})
		}
	}
	return c
}

func rrStrings(rrs []dns.RR) []string {
	out := make([]string, len(rrs))
	for i, rr := range rrs {
		out[i] = rr.String()
	}
	sort.Strings(out)
	return out
}

func runC48(t failT, rec *ev.Recorder, c c48Case) {
	ctx := context.Background()
	kv := &failKV{KV: memory.WithHashFn(chord.Hash)}
	zoneF := c.Zone + "."
	ns := map[string][]string{"ns1." + c.Zone: {"192.0.2.1", "2001:db8::1"}, "ns2." + c.Zone: {"192.0.2.2"}}
	d := acme.NewDNS(ctx, zap.NewNop(), kv, "hostmaster@example.com", c.Zone, ns)
	solver := &acme.ChordSolver{KV: kv, ManagedDomains: []string{c48Managed}}
	labelOf := map[string]string{c48Managed: acmeSpec.ManagedDelegation}
	for _, h := range c48Customs {
		if err := tun.SaveCustomHostname(ctx, kv, h, &protocol.CustomHostname{ClientToken: &protocol.ClientToken{Token: c48Token(h)}}); err != nil {
			panic(err)
		}
		labelOf[h] = acmeSpec.EncodeClientToken(c48Token(h))
	}
	// static records as configured
	static := map[string]map[uint16][]string{
		zoneF:          {dns.TypeNS: nil, dns.TypeSOA: nil},
		"ns1." + zoneF: {dns.TypeA: {"192.0.2.1"}, dns.TypeAAAA: {"2001:db8::1"}},
		"ns2." + zoneF: {dns.TypeA: {"192.0.2.2"}},
	}
	model := map[string]map[string]bool{} // label -> stored values (may contain "")
	failing := false
	doc := map[string]any{"case": &c}
	zl := strings.Split(c.Zone, ".")

	for i := range c.Ops {
		op := &c.Ops[i]
		fail := func(sig, format string, args ...any) {
			doc["failed_at"] = i
			rec.Fail(t, sig, doc, "op %d %s %q %s: %s", i, op.Op, op.Name, op.Qtype, fmt.Sprintf(format, args...))
		}
		switch op.Op {
		case "present", "cleanup":
			chal := acmez.Challenge{Type: "dns-01", Identifier: acmez.Identifier{Type: "dns", Value: op.Name}, KeyAuthorization: op.Value}
			label, val := labelOf[op.Name], dns01(op.Value)
			if op.Op == "present" {
				err := solver.Present(ctx, chal)
				if err != nil && !(errors.Is(err, chord.ErrKVPrefixConflict) && model[label][val]) {
					fail("present-error", "Present returned %v", err)
				}
				if model[label] == nil {
					model[label] = map[string]bool{}
				}
				model[label][val] = true
			} else {
				if err := solver.CleanUp(ctx, chal); err != nil {
					fail("cleanup-error", "CleanUp returned %v", err)
				}
				delete(model[label], val)
			}
		case "append":
			err := kv.PrefixAppend(ctx, []byte(acme.VerifDNSKeyName(op.Name)), []byte(op.Value))
			if err != nil && !errors.Is(err, chord.ErrKVPrefixConflict) {
				panic(err)
			}
			if model[op.Name] == nil {
				model[op.Name] = map[string]bool{}
			}
			model[op.Name][op.Value] = true
		case "remove":
			if err := kv.PrefixRemove(ctx, []byte(acme.VerifDNSKeyName(op.Name)), []byte(op.Value)); err != nil {
				panic(err)
			}
			delete(model[op.Name], op.Value)
		case "fail":
			failing = op.Fail
			kv.fail.Store(op.Fail)
		case "query":
			qt := c48Qtypes[op.Qtype]
			q := new(dns.Msg)
			q.SetQuestion(op.Name, qt)
			if op.Edns {
				q.SetEdns0(1232, false)
			}
			w := &captureWriter{}
			var pn any
			func() {
				defer func() { pn = recover() }()
				d.ServeDNS(w, q)
			}()
			if pn != nil {
				fail("serve-dns-panic", "ServeDNS panicked: %v", pn)
			}
			m := w.msg
			if m == nil {
				fail("no-response", "ServeDNS wrote no response")
			}
			op.Rcode, op.Auth, op.Answers = dns.RcodeToString[m.Rcode], m.Authoritative, rrStrings(m.Answer)
			for _, rr := range m.Ns {
				if _, ok := rr.(*dns.SOA); ok {
					op.NsSOA = true
				}
			}
			// classify the name label-wise
			lname := asciiLower(strings.TrimSuffix(op.Name, "."))
			ql := strings.Split(lname, ".")
			depth := -1 // outside the zone
			if len(ql) >= len(zl) && strings.Join(ql[len(ql)-len(zl):], ".") == c.Zone {
				depth = len(ql) - len(zl)
			}
			shares := depth < 0 && strings.HasSuffix(lname, c.Zone)
			var txts []string
			txtShape := true
			for _, rr := range m.Answer {
				if tx, ok := rr.(*dns.TXT); ok {
					if len(tx.Txt) != 1 {
						txtShape = false
					}
					txts = append(txts, strings.Join(tx.Txt, "\x00"))
				}
			}
			sort.Strings(txts)
			var stored []string
			label := ""
			if depth == 1 {
				label = ql[0]
				for v := range model[label] {
					if v != "" {
						stored = append(stored, v)
					}
				}
				sort.Strings(stored)
			}
			labels := []string{"qtype:" + op.Qtype, fmt.Sprintf("depth:%d", min(depth, 3)), "rcode:" + op.Rcode}
			nt := false
			if hasUpper(op.Name) {
				labels = append(labels, "qname:mixed-case")
			}
			if shares {
				labels = append(labels, "qname:shares-string-suffix-only")
				nt = true
			}
			if depth >= 2 || qt == dns.TypeANY {
				nt = true
			}
			if depth == 1 && qt == dns.TypeTXT && (len(stored) > 0 || failing) {
				nt = true
				if len(stored) > 0 {
					labels = append(labels, "txt:stored-values")
				}
				if _, has := model[label][""]; has {
					labels = append(labels, "txt:empty-value-stored")
				}
			}
			if failing {
				labels = append(labels, "storage:failing")
			}
			var st strings.Builder
			ks := make([]string, 0, len(model))
			for k := range model {
				ks = append(ks, k)
			}
			sort.Strings(ks)
			for _, k := range ks {
				vs := make([]string, 0)
				for v := range model[k] {
					vs = append(vs, v)
				}
				sort.Strings(vs)
				fmt.Fprintf(&st, "%s=%q;", k, vs)
			}
			rec.Case(nt, fmt.Sprintf("%s|%s|%v|%s|%s", c.Zone, st.String(), failing, op.Name, op.Qtype), func() any {
				return map[string]any{"zone": c.Zone, "stored": st.String(), "storage_failing": failing, "query": op}
			}, labels...)

			switch {
			case depth < 0:
				// not below the zone: the statement is silent (and the
				// production ServeMux never routes such names to this
				// handler); informational only
				if len(txts) > 0 {
					rec.Add("info_txt_data_returned_for_name_outside_zone", 1)
				}
			case depth >= 2:
				nxd := m.Rcode == dns.RcodeNameError && m.Authoritative && op.NsSOA && len(m.Answer) == 0
				notimp := qt == dns.TypeANY && m.Rcode == dns.RcodeNotImplemented && len(m.Answer) == 0
				if !nxd && !notimp {
					fail("deep-name-not-authoritative-nxdomain", "name %d labels below the zone: rcode %s aa=%v soa-in-authority=%v answers %q, want authoritative NXDOMAIN with the SOA and no answers", depth, op.Rcode, m.Authoritative, op.NsSOA, op.Answers)
				}
			case qt == dns.TypeANY:
				if m.Rcode != dns.RcodeNotImplemented || len(m.Answer) != 0 {
					fail("any-query-not-notimp", "ANY query answered rcode %s with %d answers, want NOTIMP", op.Rcode, len(m.Answer))
				}
			case qt == dns.TypeTXT && depth == 1:
				if failing {
					if m.Rcode != dns.RcodeServerFailure {
						fail("storage-failure-not-servfail", "storage fails but rcode is %s (answers %q), want SERVFAIL", op.Rcode, op.Answers)
					}
					break
				}
				if !txtShape || strings.Join(txts, "\x01") != strings.Join(stored, "\x01") {
					fail("txt-answer-not-stored-values", "TXT answers %q, values stored for label %q are %q", txts, label, stored)
				}
				if len(m.Answer) != len(txts) {
					fail("txt-answer-not-stored-values", "non-TXT records in the answer to a TXT query: %q", op.Answers)
				}
				if len(stored) > 0 && m.Rcode != dns.RcodeSuccess {
					fail("txt-answer-wrong-rcode", "stored values answered with rcode %s", op.Rcode)
				}
				if len(stored) == 0 && m.Rcode != dns.RcodeNameError && m.Rcode != dns.RcodeSuccess {
					fail("txt-answer-wrong-rcode", "no stored values but rcode %s", op.Rcode)
				}
			default:
				// static records (or nothing) at depth 0/1
				want, hasType := static[lname+"."][qt]
				if !hasType {
					if len(m.Answer) != 0 {
						fail("answer-without-record", "no %s record is configured at %s but got %q", op.Qtype, lname, op.Answers)
					}
					if m.Rcode == dns.RcodeServerFailure && !(failing && qt == dns.TypeTXT) {
						fail("unexpected-servfail", "rcode SERVFAIL without a storage failure")
					}
					break
				}
				if m.Rcode != dns.RcodeSuccess {
					fail("static-record-not-returned", "configured %s record at %s answered with rcode %s", op.Qtype, lname, op.Rcode)
				}
				var gotVals []string
				for _, rr := range m.Answer {
					if rr.Header().Rrtype != qt || asciiLower(rr.Header().Name) != lname+"." {
						fail("static-record-not-returned", "answer %q does not match the question", rr.String())
					}
					switch v := rr.(type) {
					case *dns.A:
						gotVals = append(gotVals, v.A.String())
					case *dns.AAAA:
						gotVals = append(gotVals, v.AAAA.String())
					case *dns.NS:
						gotVals = append(gotVals, v.Ns)
					case *dns.SOA:
						gotVals = append(gotVals, "soa:"+v.Ns+":"+v.Mbox)
					}
				}
				sort.Strings(gotVals)
				switch qt {
				case dns.TypeNS:
					want = []string{"ns1." + zoneF, "ns2." + zoneF}
				case dns.TypeSOA:
					want = []string{"soa:ns1." + zoneF + ":hostmaster.example.com."}
				}
				if strings.Join(gotVals, " ") != strings.Join(want, " ") {
					fail("static-record-not-returned", "%s records at %s = %q, configured %q", op.Qtype, lname, gotVals, want)
				}
			}
		}
	}
}

func TestC48(t *testing.T) {
	rec := ev.New(t, "C48")
	rec.Rule("(b) queries in flight (class query-in-flight-across-change): the storage listing of a TXT query is held back, a value of that label is stored or removed, and a second TXT query for the label (any letter case) started afterwards must answer the set as it is then. (a) rapid-generated state machines of 3..24 steps over a responder for one of 3 zones with 2 name servers: Present/CleanUp through the real ChordSolver (managed domain -> label 'managed', two custom hostnames -> hashed client token labels, 4 key authorizations), direct PrefixAppend/PrefixRemove of values (incl. the empty value) under labels incl. dotted ones (x.managed), storage failure on/off, and queries: zone apex, label.zone, names 2 and 3 labels below the zone, names that only share a string suffix with the zone, name-server names, another zone; generated letter case; types TXT/A/AAAA/NS/SOA/ANY/MX/CNAME; EDNS on/off. Each query is one evaluated case, compared with a model (label -> set of values) and the configured static records. Non-trivial query: TXT at label.zone with stored values or failing storage, a name >= 2 labels below the zone, an ANY query, or a name sharing only a string suffix with the zone. Distinct = distinct (zone, stored state, failing flag, query name, type).")
	rec.Assume("zones do not overlap themselves (no zone like a.a where label.zone contains the zone string twice); labels are lower case as the solver writes them; names outside the zone are informational only (statement silent; cmd/dns routes them elsewhere through a label-wise ServeMux); TXT at the zone apex must return no data",
		"ANY for a name >= 2 labels below the zone may be answered NOTIMP or authoritative NXDOMAIN (the statement gives both rules)")

	runC48(t, rec, c48Case{Zone: "acme.example.com", Ops: []c48Op{
		{Op: "present", Name: c48Managed, Value: "keyauth-0"},
		{Op: "present", Name: c48Customs[0], Value: "keyauth-1"},
		{Op: "append", Name: "managed", Value: ""},
		{Op: "append", Name: "x.managed", Value: "v1"},
		{Op: "query", Name: "managed.acme.example.com.", Qtype: "TXT"},
		{Op: "query", Name: "MANAGED.Acme.Example.COM.", Qtype: "TXT"},
		{Op: "query", Name: "x.managed.acme.example.com.", Qtype: "TXT"},
		{Op: "query", Name: "acme.example.com.", Qtype: "SOA"},
		{Op: "query", Name: "ns1.acme.example.com.", Qtype: "AAAA"},
		{Op: "query", Name: "managed.acme.example.com.", Qtype: "ANY"},
		{Op: "fail", Fail: true},
		{Op: "query", Name: "managed.acme.example.com.", Qtype: "TXT"},
		{Op: "fail", Fail: false},
		{Op: "cleanup", Name: c48Managed, Value: "keyauth-0"},
		{Op: "query", Name: "managed.acme.example.com.", Qtype: "TXT"},
	}})

	ev.RapidCheck(t, 200, 5000, func(rt *rapid.T) {
		c48QueriesInFlight(rt, rec, rt)
	})
	ev.RapidCheck(t, 1500, 60000, func(t *rapid.T) {
		runC48(t, rec, genC48(t))
	})
}
