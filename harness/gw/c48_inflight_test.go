package gw

import (
	"context"
	"fmt"
	"sort"
	"strings"
	"sync"
	"time"

	"go.miragespace.co/specter/acme"
	"go.miragespace.co/specter/kv/memory"
	"go.miragespace.co/specter/spec/chord"
	"verifharness/internal/ev"

	"github.com/miekg/dns"
	"go.uber.org/zap"
	"pgregory.net/rapid"
)

// heldListKV answers the FIRST listing after arming only when the harness lets it (the listing
// has been taken, the reply is on its way).
type heldListKV struct {
	chord.KV
	mu      sync.Mutex
	armed   bool
	reading chan struct{}
	release chan struct{}
}

func (h *heldListKV) arm() {
	h.mu.Lock()
	h.armed, h.reading, h.release = true, make(chan struct{}), make(chan struct{})
	h.mu.Unlock()
}

func (h *heldListKV) PrefixList(ctx context.Context, prefix []byte) ([][]byte, error) {
	out, err := h.KV.PrefixList(ctx, prefix)
	h.mu.Lock()
	hold := h.armed
	var reading, release chan struct{}
	if hold {
		h.armed, reading, release = false, h.reading, h.release
	}
	h.mu.Unlock()
	if hold {
		close(reading)
		<-release
	}
	return out, err
}

// c48QueriesInFlight: a TXT query that STARTS after a challenge value was stored or removed
// answers with the set as it is then, also while an older query for the same label (in any
// letter case) has not been answered yet.
func c48QueriesInFlight(t failT, rec *ev.Recorder, rt *rapid.T) {
	ctx := context.Background()
	zone := "acme.example.com"
	kv := &heldListKV{KV: memory.WithHashFn(chord.Hash)}
	d := acme.NewDNS(ctx, zap.NewNop(), kv, "hostmaster@example.com", zone, map[string][]string{"ns1." + zone: {"192.0.2.1"}})
	label := rapid.SampledFrom([]string{"managed", "abcdef0123456789", "label-x"}).Draw(rt, "label")
	before := rapid.SliceOfNDistinct(rapid.SampledFrom([]string{"v1", "v2", "v3"}), 0, 2, rapid.ID[string]).Draw(rt, "storedBefore")
	change := rapid.SampledFrom([]string{"append", "append", "remove"}).Draw(rt, "change")
	if len(before) == 0 {
		change = "append"
	}
	val := "v-new"
	if change == "remove" {
		val = before[0]
	}
	recase := func(s string) string {
		if rapid.Bool().Draw(rt, "upper") {
			return strings.ToUpper(s)
		}
		return s
	}
	qname1, qname2 := recase(label)+"."+zone+".", recase(label)+"."+zone+"."
	key := []byte(acme.VerifDNSKeyName(label))
	for _, v := range before {
		kv.KV.PrefixAppend(ctx, key, []byte(v))
	}
	query := func(name string) []string {
		q := new(dns.Msg)
		q.SetQuestion(name, dns.TypeTXT)
		w := &captureWriter{}
		d.ServeDNS(w, q)
		var out []string
		if w.msg != nil {
			for _, rr := range w.msg.Answer {
				if x, ok := rr.(*dns.TXT); ok {
					out = append(out, strings.Join(x.Txt, ""))
				}
			}
		}
		sort.Strings(out)
		return out
	}
	kv.arm()
	reading, release := kv.reading, kv.release
	slow := make(chan struct{})
	go func() { defer close(slow); query(qname1) }()
	select {
	case <-reading:
	case <-time.After(10 * time.Second):
		close(release)
		rec.Inconclusive("slow-query-never-reached-the-store")
		return
	}
	want := map[string]bool{}
	for _, v := range before {
		want[v] = true
	}
	if change == "append" {
		kv.KV.PrefixAppend(ctx, key, []byte(val))
		want[val] = true
	} else {
		kv.KV.PrefixRemove(ctx, key, []byte(val))
		delete(want, val)
	}
	late := make(chan []string, 1)
	go func() { late <- query(qname2) }()
	var got []string
	waited := false
	select {
	case got = <-late:
		close(release)
	case <-time.After(300 * time.Millisecond):
		waited = true
		close(release)
		got = <-late
	}
	<-slow
	var exp []string
	for v := range want {
		exp = append(exp, v)
	}
	sort.Strings(exp)
	doc := map[string]any{"label": label, "stored_before": before, "change": change + " " + val, "first_query": qname1 + " TXT (its storage listing is held back)", "second_query": qname2 + " TXT, started after the change",
		"second_query_waited_for_the_first": waited, "answered": got, "stored_now": exp}
	rec.Case(true, fmt.Sprintf("inflight|%s|%v|%s|%s|%s", label, before, change, qname1, qname2), func() any { return doc }, "query-in-flight-across-change", "change:"+change)
	if fmt.Sprint(got) != fmt.Sprint(exp) {
		rec.Fail(t, "txt-answer-differs-from-stored-values", doc, "TXT %s asked after %s of %q answered %v, stored values are %v (an older query for %s was still waiting for the storage)", qname2, change, val, got, exp, qname1)
	}
}
