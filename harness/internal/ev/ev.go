// Package ev is the evidence / violation plumbing shared by every harness
// test. A test creates one Recorder per property, reports every generated
// case with Case (class labels, whether it is non-trivial by the property's
// stated rule, and a key that identifies the case for distinct counting),
// reports oracle failures with Fail (which writes the replay file *before*
// failing the test) and the driver (/verif/check) folds the per-shard summary
// files into /verif/evidence/<id>.json.
package ev

import (
	"encoding/json"
	"flag"
	"fmt"
	"hash/fnv"
	"os"
	"path/filepath"
	"sort"
	"strconv"
	"strings"
	"sync"
	"testing"
	"time"

	"pgregory.net/rapid"
)

const maxHashes = 400000

type failer interface {
	Fatalf(format string, args ...any)
	Helper()
}

type Recorder struct {
	mu           sync.Mutex
	id           string
	start        time.Time
	evals        int64
	nontrivial   int64
	hashes       map[uint64]struct{}
	saturated    bool
	classes      map[string]int64
	samples      []any
	trivSamples  []any
	excluded     map[string]int64
	inconclusive map[string]int64
	notes        map[string]any
	rule         string
	assumptions  []string
	exhaustive   bool
	violations   int
	witnessed    map[string]bool
	flushed      bool
}

func envInt(name string, def int64) int64 {
	if v := os.Getenv(name); v != "" {
		if n, err := strconv.ParseInt(v, 10, 64); err == nil {
			return n
		}
	}
	return def
}

// Tier is "quick" or "thorough".
func Tier() string {
	if os.Getenv("VERIF_TIER") == "thorough" {
		return "thorough"
	}
	return "quick"
}

func Thorough() bool { return Tier() == "thorough" }

// Seed is the VERIF_SEED value (0 is remapped to 1), before shard mixing.
func Seed() int64 {
	s := envInt("VERIF_SEED", 1)
	if s == 0 {
		s = 1
	}
	return s
}

func Shard() int  { return int(envInt("VERIF_SHARD", 0)) }
func Shards() int { return int(max(envInt("VERIF_SHARDS", 1), 1)) }

// ShardSeed mixes seed and shard into a non-zero PRNG seed.
func ShardSeed() int64 {
	s := Seed()*1000003 + int64(Shard())*7919 + 17
	if s < 0 {
		s = -s
	}
	if s == 0 {
		s = 1
	}
	return s
}

// N picks a per-tier count; the thorough count is divided over the shards.
func N(quick, thorough int) int {
	if v := envInt("VERIF_CASES", 0); v > 0 {
		return int(v)
	}
	if Thorough() {
		n := thorough / Shards()
		if n < 1 {
			n = 1
		}
		return n
	}
	return quick
}

// Pick returns quick or thorough unchanged (sizes, not counts).
func Pick[T any](quick, thorough T) T {
	if Thorough() {
		return thorough
	}
	return quick
}

func outDir() string {
	if d := os.Getenv("VERIF_OUT"); d != "" {
		return d
	}
	return os.TempDir()
}

func replayDir(id string) string {
	d := os.Getenv("VERIF_REPLAY_DIR")
	if d == "" {
		d = filepath.Join(os.TempDir(), "verif-replays")
	}
	d = filepath.Join(d, id)
	os.MkdirAll(d, 0o755)
	return d
}

// ReplayPath is the file named by --replay (VERIF_REPLAY), if any.
func ReplayPath() string { return os.Getenv("VERIF_REPLAY") }

func New(t testing.TB, id string) *Recorder {
	r := &Recorder{
		id:           id,
		start:        time.Now(),
		hashes:       map[uint64]struct{}{},
		classes:      map[string]int64{},
		excluded:     map[string]int64{},
		inconclusive: map[string]int64{},
		notes:        map[string]any{},
		witnessed:    map[string]bool{},
	}
	t.Cleanup(r.Flush)
	return r
}

func (r *Recorder) Rule(s string)        { r.mu.Lock(); r.rule = s; r.mu.Unlock() }
func (r *Recorder) Assume(s ...string)   { r.mu.Lock(); r.assumptions = append(r.assumptions, s...); r.mu.Unlock() }
func (r *Recorder) Exhaustive(b bool)    { r.mu.Lock(); r.exhaustive = b; r.mu.Unlock() }
func (r *Recorder) Note(k string, v any) { r.mu.Lock(); r.notes[k] = v; r.mu.Unlock() }
func (r *Recorder) Add(k string, d int64) {
	r.mu.Lock()
	cur, _ := r.notes[k].(int64)
	r.notes[k] = cur + d
	r.mu.Unlock()
}

func hashKey(s string) uint64 {
	h := fnv.New64a()
	h.Write([]byte(s))
	return h.Sum64()
}

// Case records one generated case. key identifies the case for distinct
// counting (use a canonical rendering of the input); sample, if non-nil, is
// called only when the recorder still wants samples.
func (r *Recorder) Case(nontrivial bool, key string, sample func() any, labels ...string) {
	r.mu.Lock()
	defer r.mu.Unlock()
	r.evals++
	for _, l := range labels {
		r.classes[l]++
	}
	if nontrivial {
		r.nontrivial++
		if len(r.hashes) < maxHashes {
			r.hashes[hashKey(key)] = struct{}{}
		} else {
			r.saturated = true
		}
		if sample != nil && len(r.samples) < 6 {
			r.samples = append(r.samples, sample())
		}
	} else if sample != nil && len(r.trivSamples) < 2 {
		r.trivSamples = append(r.trivSamples, sample())
	}
}

// Excluded counts a case (or sub-case) skipped because it falls in a listed
// known finding's class.
func (r *Recorder) Excluded(sig string) { r.mu.Lock(); r.excluded[sig]++; r.mu.Unlock() }

// Inconclusive counts a budget hit / unmet set-up precondition.
func (r *Recorder) Inconclusive(reason string) {
	r.mu.Lock()
	r.inconclusive[reason]++
	r.mu.Unlock()
}

// Witnessed records that the one-case witness of a known finding reproduced.
func (r *Recorder) Witnessed(sig string, ok bool) {
	r.mu.Lock()
	r.witnessed[sig] = ok
	r.mu.Unlock()
	fmt.Printf("VERIF-WITNESS property=%s sig=%s reproduced=%v\n", r.id, sig, ok)
}

func sanitize(s string) string {
	var b strings.Builder
	for _, c := range s {
		switch {
		case c >= 'a' && c <= 'z', c >= 'A' && c <= 'Z', c >= '0' && c <= '9', c == '-', c == '_', c == '.':
			b.WriteRune(c)
		default:
			b.WriteByte('_')
		}
	}
	out := b.String()
	if len(out) > 80 {
		out = out[:80]
	}
	return out
}

// WriteReplay stores a replay document and returns its path.
func (r *Recorder) WriteReplay(sig string, replay any) string {
	doc := map[string]any{"property": r.id, "signature": sig, "seed": Seed(), "shard": Shard(), "tier": Tier(), "case": replay}
	b, err := json.MarshalIndent(doc, "", " ")
	if err != nil {
		b = []byte(fmt.Sprintf("{\"property\":%q,\"signature\":%q,\"case\":%q}", r.id, sig, fmt.Sprint(replay)))
	}
	name := fmt.Sprintf("%s-%016x.json", sanitize(sig), hashKey(string(b)))
	p := filepath.Join(replayDir(r.id), name)
	os.WriteFile(p, b, 0o644)
	return p
}

// Fail writes the replay file, prints the marker the driver looks for and
// fails the test. sig is the stable signature of the failing class.
func (r *Recorder) Fail(t failer, sig string, replay any, format string, args ...any) {
	t.Helper()
	r.mu.Lock()
	r.violations++
	r.mu.Unlock()
	p := r.WriteReplay(sig, replay)
	msg := fmt.Sprintf(format, args...)
	fmt.Printf("VERIF-VIOLATION property=%s sig=%s replay=%s :: %s\n", r.id, sig, p, oneLine(msg))
	t.Fatalf("VIOLATION-SIG[%s] replay=%s :: %s", sig, p, msg)
}

// Report is like Fail but does not stop the test (for checks that want to
// enumerate the rest of a fault space); the caller must fail the test later.
func (r *Recorder) Report(sig string, replay any, format string, args ...any) string {
	r.mu.Lock()
	r.violations++
	r.mu.Unlock()
	p := r.WriteReplay(sig, replay)
	msg := fmt.Sprintf(format, args...)
	fmt.Printf("VERIF-VIOLATION property=%s sig=%s replay=%s :: %s\n", r.id, sig, p, oneLine(msg))
	return p
}

func oneLine(s string) string {
	s = strings.ReplaceAll(s, "\n", " | ")
	if len(s) > 600 {
		s = s[:600] + "…"
	}
	return s
}

type summary struct {
	Property     string           `json:"property"`
	Tier         string           `json:"tier"`
	Seed         int64            `json:"seed"`
	Shard        int              `json:"shard"`
	Evaluations  int64            `json:"evaluations"`
	Nontrivial   int64            `json:"nontrivial"`
	Hashes       []string         `json:"hashes"`
	Saturated    bool             `json:"saturated"`
	Classes      map[string]int64 `json:"classes"`
	Samples      []any            `json:"samples"`
	Excluded     map[string]int64 `json:"excluded"`
	Inconclusive map[string]int64 `json:"inconclusive"`
	Notes        map[string]any   `json:"notes"`
	Rule         string           `json:"rule"`
	Assumptions  []string         `json:"assumptions"`
	Exhaustive   bool             `json:"exhaustive"`
	Violations   int              `json:"violations"`
	Witnessed    map[string]bool  `json:"witnessed"`
	WallS        float64          `json:"wall_s"`
}

func (r *Recorder) Flush() {
	r.mu.Lock()
	defer r.mu.Unlock()
	if r.flushed {
		return
	}
	r.flushed = true
	hs := make([]string, 0, len(r.hashes))
	for h := range r.hashes {
		hs = append(hs, strconv.FormatUint(h, 16))
	}
	sort.Strings(hs)
	s := summary{
		Property: r.id, Tier: Tier(), Seed: Seed(), Shard: Shard(),
		Evaluations: r.evals, Nontrivial: r.nontrivial, Hashes: hs, Saturated: r.saturated,
		Classes: r.classes, Samples: append(append([]any{}, r.samples...), r.trivSamples...),
		Excluded: r.excluded, Inconclusive: r.inconclusive, Notes: r.notes, Rule: r.rule,
		Assumptions: r.assumptions, Exhaustive: r.exhaustive, Violations: r.violations,
		Witnessed: r.witnessed, WallS: time.Since(r.start).Seconds(),
	}
	b, _ := json.Marshal(s)
	p := filepath.Join(outDir(), fmt.Sprintf("%s.part%d.shard%d.json", r.id, envInt("VERIF_PART", 0), Shard()))
	os.WriteFile(p, b, 0o644)
}

// RapidCheck runs prop under rapid with a per-tier number of checks and a
// PRNG seed derived from VERIF_SEED and the shard; when VERIF_REPLAY names a
// rapid fail file only that file is replayed.
func RapidCheck(t *testing.T, quick, thorough int, prop func(*rapid.T)) {
	t.Helper()
	n := N(quick, thorough)
	flag.Set("rapid.checks", strconv.Itoa(n))
	flag.Set("rapid.seed", strconv.FormatInt(ShardSeed(), 10))
	if st := os.Getenv("VERIF_SHRINKTIME"); st != "" {
		flag.Set("rapid.shrinktime", st)
	}
	if p := ReplayPath(); p != "" && strings.HasSuffix(p, ".fail") {
		flag.Set("rapid.failfile", p)
	}
	rapid.Check(t, prop)
}

// Known-findings file -------------------------------------------------------

type Finding struct {
	Property  string `json:"property"`
	Signature string `json:"signature"`
	Status    string `json:"status"` // "known" | "fixed"
	What      string `json:"what"`
	Commit    string `json:"commit,omitempty"`
}

var (
	knownOnce sync.Once
	known     []Finding
)

func loadKnown() {
	p := os.Getenv("VERIF_KNOWN")
	if p == "" {
		p = "/verif/known_findings.json"
	}
	paths := []string{p}
	more, _ := filepath.Glob(filepath.Join(filepath.Dir(p), "known_findings.d", "*.json"))
	sort.Strings(more)
	paths = append(paths, more...)
	for _, p := range paths {
		b, err := os.ReadFile(p)
		if err != nil {
			continue
		}
		var doc struct {
			Findings []Finding `json:"findings"`
		}
		if json.Unmarshal(b, &doc) == nil {
			known = append(known, doc.Findings...)
		}
	}
}

// Known reports whether sig is listed as an unrepaired known finding for
// property id ("fixed" entries suppress nothing).
func Known(id, sig string) bool {
	knownOnce.Do(loadKnown)
	for _, f := range known {
		if f.Property == id && f.Signature == sig && f.Status == "known" {
			return true
		}
	}
	return false
}
