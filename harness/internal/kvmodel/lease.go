package kvmodel

import (
	"fmt"
	"time"
)

// Interval-tolerant timed lease model (DESIGN §3 C19).
//
// The harness brackets every call with its own clock readings [t0, t1]
// (UnixNano); the implementation's "now" lies somewhere in between.  The model
// keeps, for the current grant, an *interval* [ExpLo, ExpHi] that is known to
// contain the grant's expiry instant.  A call's outcome is prescribed only when
// it is the same for every now ∈ [t0−Eps, t1+Eps] and every expiry in the
// interval; otherwise both outcomes are allowed ("boundary").
//
// Outcome classes of the lease API:

type LeaseOutcome int

const (
	LeaseOK         LeaseOutcome = iota // nil error (Acquire/Renew return a token)
	LeaseConflict                       // chord.ErrKVLeaseConflict
	LeaseExpired                        // chord.ErrKVLeaseExpired
	LeaseInvalidTTL                     // chord.ErrKVLeaseInvalidTTL
	LeaseOther                          // any other error (never allowed)
)

func (o LeaseOutcome) String() string {
	return [...]string{"ok", "ErrKVLeaseConflict", "ErrKVLeaseExpired", "ErrKVLeaseInvalidTTL", "other-error"}[o]
}

// DefaultLeaseEps is the slack added on both sides of a call bracket.
const DefaultLeaseEps = int64(2 * time.Millisecond)

// Lease is the timed state of one lease key.
type Lease struct {
	Token uint64 // 0 = free (never granted, or released)
	ExpLo int64  // earliest possible expiry of the current grant (UnixNano)
	ExpHi int64  // latest possible expiry
	Eps   int64  // bracket slack; 0 means DefaultLeaseEps
}

func (l *Lease) eps() int64 {
	if l.Eps > 0 {
		return l.Eps
	}
	return DefaultLeaseEps
}

// Expectation is what the contract allows for one call.
type Expectation struct {
	Allowed  []LeaseOutcome // one entry = prescribed, two = boundary
	Boundary bool
	Why      string
}

func (e Expectation) Allows(o LeaseOutcome) bool {
	for _, a := range e.Allowed {
		if a == o {
			return true
		}
	}
	return false
}

func must(o LeaseOutcome, why string) Expectation {
	return Expectation{Allowed: []LeaseOutcome{o}, Why: why}
}

func either(a, b LeaseOutcome, why string) Expectation {
	return Expectation{Allowed: []LeaseOutcome{a, b}, Boundary: true, Why: why}
}

// ValidTTL: the contract rejects TTLs below one second.
func ValidTTL(ttl time.Duration) bool { return ttl >= time.Second }

// expiry classification of the current grant relative to a call bracket
func (l *Lease) definitelyExpired(t0 int64) bool   { return l.ExpHi < t0-l.eps() }
func (l *Lease) definitelyUnexpired(t1 int64) bool { return l.ExpLo > t1+l.eps() }

// ExpectAcquire: free or expired → ok; held and unexpired → conflict.
func (l *Lease) ExpectAcquire(t0, t1 int64, ttl time.Duration) Expectation {
	if !ValidTTL(ttl) {
		return must(LeaseInvalidTTL, "ttl below one second")
	}
	switch {
	case l.Token == 0:
		return must(LeaseOK, "lease is free")
	case l.definitelyExpired(t0):
		return must(LeaseOK, "previous grant has expired")
	case l.definitelyUnexpired(t1):
		return must(LeaseConflict, "previous grant is still current")
	}
	return either(LeaseOK, LeaseConflict, "call overlaps the expiry instant")
}

// ExpectRenew: only the current, unexpired token renews.
func (l *Lease) ExpectRenew(t0, t1 int64, ttl time.Duration, prev uint64) Expectation {
	if !ValidTTL(ttl) {
		return must(LeaseInvalidTTL, "ttl below one second")
	}
	switch {
	case l.Token == 0:
		return must(LeaseExpired, "lease is free")
	case prev != l.Token:
		return must(LeaseExpired, "token is not the current one")
	case l.definitelyExpired(t0):
		return must(LeaseExpired, "current token has expired")
	case l.definitelyUnexpired(t1):
		return must(LeaseOK, "current unexpired token")
	}
	return either(LeaseOK, LeaseExpired, "call overlaps the expiry instant")
}

// ExpectRelease: only the current token releases (expiry does not matter as
// long as nobody else acquired in between). token must be non-zero.
func (l *Lease) ExpectRelease(token uint64) Expectation {
	if l.Token != 0 && token == l.Token {
		return must(LeaseOK, "current token")
	}
	return must(LeaseExpired, "token is not the current one")
}

// Granted records a successful Acquire/Renew that returned token for ttl during
// [t0, t1]. The implementation may grant the TTL truncated to whole seconds;
// the expiry therefore lies in [t0+trunc(ttl), t1+ttl], and when the token
// itself is a UnixNano instant inside that window it *is* the expiry (both
// backends issue token = expiry), which makes the interval exact.
// tokenIsExpiry reports which of the two happened.
func (l *Lease) Granted(t0, t1 int64, ttl time.Duration, token uint64) (tokenIsExpiry bool) {
	lo := t0 + int64(ttl.Truncate(time.Second))
	hi := t1 + int64(ttl)
	l.Token = token
	l.ExpLo, l.ExpHi = lo, hi
	if tk := int64(token); tk >= lo && tk <= hi {
		l.ExpLo, l.ExpHi = tk, tk
		return true
	}
	return false
}

// Released records a successful Release.
func (l *Lease) Released() { l.Token, l.ExpLo, l.ExpHi = 0, 0, 0 }

// Imported records that a transfer installed token as the lease (the DHT moves
// leases between nodes this way); the expiry is taken from the token when
// tokenIsExpiry, otherwise [lo, hi] must be supplied by the caller afterwards.
func (l *Lease) Imported(token uint64) {
	l.Token = token
	l.ExpLo, l.ExpHi = int64(token), int64(token)
}

func (l *Lease) String() string {
	if l.Token == 0 {
		return "free"
	}
	return fmt.Sprintf("token=%d expiry∈[%d,%d]", l.Token, l.ExpLo, l.ExpHi)
}
