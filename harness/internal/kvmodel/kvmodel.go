// Package kvmodel is the reference model (DESIGN §2 M2) of the chord KV
// contract (spec/chord/kv.go): per key a simple value, a set of prefix
// children and a lease token, three independent keyspaces; listings by kind;
// hash-range listing over a circular identifier space with an injected hash;
// export / import / remove.  It is deliberately naive (maps and sorted slices)
// and depends on nothing but the standard library, so every harness package can
// import it as an oracle or as the sequential specification for porcupine.
//
// Conventions
//   - An empty simple value is absent: Get returns nil for it, it does not make
//     a key "hold data" and it is not listed as SIMPLE.  The model still
//     remembers that an empty value was *stored* (EmptyStored) so that a check
//     can scope a known finding to exactly that class.
//   - Lists are returned sorted; callers compare as sets.
//   - The lease token is plain bookkeeping here (0 = free). The timed rules are
//     in lease.go (type Lease).
//   - The model is not safe for concurrent use.
package kvmodel

import (
	"bytes"
	"fmt"
	"hash/fnv"
	"sort"
	"strings"
)

// Kind of data a key can hold (mirrors protocol.KeyComposite_Type values).
type Kind int

const (
	KindSimple Kind = 0
	KindPrefix Kind = 1
	KindLease  Kind = 2
)

func (k Kind) String() string {
	switch k {
	case KindSimple:
		return "SIMPLE"
	case KindPrefix:
		return "PREFIX"
	case KindLease:
		return "LEASE"
	}
	return fmt.Sprintf("KIND(%d)", int(k))
}

// KeyKind is one entry of a ListKeys result.
type KeyKind struct {
	Key  string
	Kind Kind
}

func (k KeyKind) String() string { return fmt.Sprintf("%s:%q", k.Kind, k.Key) }

// Transfer is the model's protocol.KVTransfer: everything one key holds.
type Transfer struct {
	Simple   []byte   // nil when absent or empty
	Children []string // sorted
	Lease    uint64   // 0 = none
}

// Equal compares two transfers (empty ≡ nil, children as sets).
func (t Transfer) Equal(o Transfer) bool {
	if !bytes.Equal(t.Simple, o.Simple) || t.Lease != o.Lease || len(t.Children) != len(o.Children) {
		return false
	}
	a, b := sortedCopy(t.Children), sortedCopy(o.Children)
	for i := range a {
		if a[i] != b[i] {
			return false
		}
	}
	return true
}

func (t Transfer) String() string {
	return fmt.Sprintf("{simple=%s children=%q lease=%d}", Brief(t.Simple), t.Children, t.Lease)
}

// IsZero reports whether the transfer carries nothing.
func (t Transfer) IsZero() bool { return len(t.Simple) == 0 && len(t.Children) == 0 && t.Lease == 0 }

type entry struct {
	simple      []byte // len 0 = absent
	emptyStored bool   // the last write to the simple keyspace stored an empty value
	children    map[string]struct{}
	lease       uint64
}

func (e *entry) holds() bool { return len(e.simple) > 0 || len(e.children) > 0 || e.lease != 0 }

// HashFn maps a key to its ring identifier.
type HashFn func([]byte) uint64

// Model is one store.
type Model struct {
	hash HashFn
	m    map[string]*entry
}

// New returns an empty store that places keys with hash.
func New(hash HashFn) *Model { return &Model{hash: hash, m: map[string]*entry{}} }

// Hash returns the identifier of key under the store's hash function.
func (m *Model) Hash(key []byte) uint64 { return m.hash(key) }

// Clone returns a deep copy.
func (m *Model) Clone() *Model {
	c := New(m.hash)
	for k, e := range m.m {
		ne := &entry{simple: append([]byte(nil), e.simple...), emptyStored: e.emptyStored, lease: e.lease}
		if len(e.children) > 0 {
			ne.children = make(map[string]struct{}, len(e.children))
			for ch := range e.children {
				ne.children[ch] = struct{}{}
			}
		}
		c.m[k] = ne
	}
	return c
}

func (m *Model) get(key []byte) *entry { return m.m[string(key)] }

func (m *Model) ensure(key []byte) *entry {
	e := m.m[string(key)]
	if e == nil {
		e = &entry{}
		m.m[string(key)] = e
	}
	return e
}

func (m *Model) gc(key []byte) {
	if e := m.m[string(key)]; e != nil && !e.holds() && !e.emptyStored {
		delete(m.m, string(key))
	}
}

// ---- simple keyspace --------------------------------------------------------

// Put overwrites the simple value; an empty value is the same as absent.
func (m *Model) Put(key, value []byte) {
	e := m.ensure(key)
	e.simple = append([]byte(nil), value...)
	e.emptyStored = len(value) == 0
	m.gc(key)
}

// Get returns the simple value, nil when absent (or empty).
func (m *Model) Get(key []byte) []byte {
	if e := m.get(key); e != nil && len(e.simple) > 0 {
		return append([]byte(nil), e.simple...)
	}
	return nil
}

// Delete removes the simple value only; children and lease stay.
func (m *Model) Delete(key []byte) {
	if e := m.get(key); e != nil {
		e.simple, e.emptyStored = nil, false
		m.gc(key)
	}
}

// EmptyStored reports that the simple keyspace of key currently holds a value
// that was stored explicitly and is empty (Put/Import of a zero-length value,
// not deleted since). Contractually that is "absent"; the flag exists only so
// that checks can delimit the empty-value known findings exactly.
func (m *Model) EmptyStored(key []byte) bool {
	e := m.get(key)
	return e != nil && e.emptyStored && len(e.simple) == 0
}

// ---- prefix keyspace --------------------------------------------------------

// PrefixAppend adds child; false means it was already there (ErrKVPrefixConflict,
// state unchanged).
func (m *Model) PrefixAppend(key, child []byte) bool {
	e := m.ensure(key)
	if _, dup := e.children[string(child)]; dup {
		return false
	}
	if e.children == nil {
		e.children = map[string]struct{}{}
	}
	e.children[string(child)] = struct{}{}
	return true
}

// PrefixRemove removes child if present (idempotent).
func (m *Model) PrefixRemove(key, child []byte) {
	if e := m.get(key); e != nil {
		delete(e.children, string(child))
		m.gc(key)
	}
}

func (m *Model) PrefixContains(key, child []byte) bool {
	if e := m.get(key); e != nil {
		_, ok := e.children[string(child)]
		return ok
	}
	return false
}

// PrefixList returns the children, sorted.
func (m *Model) PrefixList(key []byte) []string {
	e := m.get(key)
	if e == nil {
		return []string{}
	}
	out := make([]string, 0, len(e.children))
	for c := range e.children {
		out = append(out, c)
	}
	sort.Strings(out)
	return out
}

// ---- lease token bookkeeping ------------------------------------------------

// LeaseToken returns the stored token (0 = free). Expiry is not modelled here.
func (m *Model) LeaseToken(key []byte) uint64 {
	if e := m.get(key); e != nil {
		return e.lease
	}
	return 0
}

// SetLease stores token (0 releases).
func (m *Model) SetLease(key []byte, token uint64) {
	if token == 0 {
		if e := m.get(key); e != nil {
			e.lease = 0
			m.gc(key)
		}
		return
	}
	m.ensure(key).lease = token
}

// ---- listings ---------------------------------------------------------------

// HoldsData: a non-empty simple value, at least one child, or a lease token.
func (m *Model) HoldsData(key []byte) bool {
	e := m.get(key)
	return e != nil && e.holds()
}

// Kinds lists the kinds of data key holds.
func (m *Model) Kinds(key []byte) []Kind {
	e := m.get(key)
	if e == nil {
		return nil
	}
	var out []Kind
	if len(e.simple) > 0 {
		out = append(out, KindSimple)
	}
	if len(e.children) > 0 {
		out = append(out, KindPrefix)
	}
	if e.lease != 0 {
		out = append(out, KindLease)
	}
	return out
}

// Keys returns every key holding data, sorted.
func (m *Model) Keys() []string {
	out := []string{}
	for k, e := range m.m {
		if e.holds() {
			out = append(out, k)
		}
	}
	sort.Strings(out)
	return out
}

// ListKeys returns one entry per (key, kind present) for keys starting with
// prefix (nil/empty prefix = all), sorted by key then kind.
func (m *Model) ListKeys(prefix []byte) []KeyKind {
	out := []KeyKind{}
	for _, k := range m.Keys() {
		if !strings.HasPrefix(k, string(prefix)) {
			continue
		}
		for _, kind := range m.Kinds([]byte(k)) {
			out = append(out, KeyKind{Key: k, Kind: kind})
		}
	}
	return out
}

// RingBits is the width of chord identifiers.
const RingBits = 48

// RingMod is 2^48.
const RingMod = uint64(1) << RingBits

// Between reports x ∈ (low, high] on the circle of the given modulus
// (0 = plain uint64 wrap-around); low == high is the whole circle.
func Between(low, x, high uint64) bool { return BetweenMod(low, x, high, 0) }

// BetweenMod is Between on a circle of size mod (mod 0 means 2^64).
func BetweenMod(low, x, high, mod uint64) bool {
	if low == high {
		return true
	}
	d := func(v uint64) uint64 { // clockwise distance from low
		if mod == 0 {
			return v - low
		}
		return ((v % mod) + mod - (low % mod)) % mod
	}
	dx, dh := d(x), d(high)
	return dx > 0 && dx <= dh
}

// RangeKeys returns the keys holding data whose hash lies in (low, high]
// (everything when low == high), sorted.
func (m *Model) RangeKeys(low, high uint64) []string {
	out := []string{}
	for _, k := range m.Keys() {
		if Between(low, m.hash([]byte(k)), high) {
			out = append(out, k)
		}
	}
	return out
}

// ---- transfer ---------------------------------------------------------------

// Export returns what each key holds (zero Transfer for a key holding nothing).
func (m *Model) Export(keys [][]byte) []Transfer {
	out := make([]Transfer, len(keys))
	for i, k := range keys {
		out[i] = m.ExportOne(k)
	}
	return out
}

func (m *Model) ExportOne(key []byte) Transfer {
	return Transfer{Simple: m.Get(key), Children: m.PrefixList(key), Lease: m.LeaseToken(key)}
}

// Import applies transfers: the simple value and the lease token of each key
// are replaced by the transferred ones (also by "nothing"), children are
// unioned.  Importing into a store that does not hold the keys reproduces the
// exported data exactly, which is all the properties demand; for keys that
// already hold data this is what the memory backend does (the sqlite backend
// keeps the old simple value / lease when the transfer carries none) — checks
// must not rely on the overlapping case across backends.
func (m *Model) Import(keys [][]byte, vals []Transfer) {
	for i, k := range keys {
		e := m.ensure(k)
		e.simple = append([]byte(nil), vals[i].Simple...)
		e.emptyStored = len(vals[i].Simple) == 0
		e.lease = vals[i].Lease
		for _, c := range vals[i].Children {
			if e.children == nil {
				e.children = map[string]struct{}{}
			}
			e.children[c] = struct{}{}
		}
		m.gc(k)
	}
}

// RemoveKeys deletes everything the keys hold.
func (m *Model) RemoveKeys(keys [][]byte) {
	for _, k := range keys {
		delete(m.m, string(k))
	}
}

// ---- snapshots --------------------------------------------------------------

// Digest is a canonical rendering of the values and children (and, when
// withLease, lease tokens) of the given keys; long values are hashed. Two
// stores agree on those keys iff their digests are equal.
func (m *Model) Digest(keys []string, withLease bool) string {
	var b strings.Builder
	for _, k := range keys {
		t := m.ExportOne([]byte(k))
		if !withLease {
			t.Lease = 0
		}
		b.WriteString(DigestOne(k, t))
	}
	return b.String()
}

// DigestOne renders one key's data canonically (see Digest).
func DigestOne(key string, t Transfer) string {
	if t.IsZero() {
		return ""
	}
	return fmt.Sprintf("%q=%s|%q|%d;", key, Brief(t.Simple), sortedCopy(t.Children), t.Lease)
}

// Brief renders a value: short ones verbatim, long ones as length + hash.
func Brief(v []byte) string {
	if len(v) == 0 {
		return "-"
	}
	if len(v) <= 24 {
		return fmt.Sprintf("%q", v)
	}
	h := fnv.New64a()
	h.Write(v)
	return fmt.Sprintf("<%dB:%016x>", len(v), h.Sum64())
}

func sortedCopy(s []string) []string {
	c := append([]string{}, s...)
	sort.Strings(c)
	return c
}
