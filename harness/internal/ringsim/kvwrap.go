package ringsim

import (
	"errors"
	"context"
	"fmt"
	"sync"
	"sync/atomic"
	"time"

	"go.miragespace.co/specter/spec/chord"
	"go.miragespace.co/specter/spec/protocol"
)

// KVWrap wraps a node's KVProvider: it logs the key-transfer primitives (which
// keys moved, when a transfer window is open) and lets a fault rule fail
// Import on the storage level. All other calls pass straight through.
type KVWrap struct {
	inner chord.KVProvider
	net   *Net
	owner uint64

	mu          sync.Mutex
	Imports     int
	ImportedKey map[string]int
	Exports     int
	Removes     int
	openWindows atomic.Int32 // RangeKeys(non-empty)→RemoveKeys/abort windows currently open
	MaxWindows  atomic.Int32
	hook        func(op string, key []byte)
	failExports atomic.Int32 // the next n Export calls fail on the storage level
	failImports atomic.Int32
}

// ErrStorage is what an injected storage-level failure returns.
var ErrStorage = errors.New("ringsim: injected storage failure")

// FailNextExports makes the next n Export calls of this store fail with ErrStorage.
func (k *KVWrap) FailNextExports(n int) { k.failExports.Store(int32(n)) }

// ExportFailuresLeft is the number of injected export failures that have not fired yet.
func (k *KVWrap) ExportFailuresLeft() int { return int(max(k.failExports.Load(), 0)) }

// FailNextImports makes the next n Import calls of this store fail with ErrStorage.
func (k *KVWrap) FailNextImports(n int) { k.failImports.Store(int32(n)) }

var _ chord.KVProvider = (*KVWrap)(nil)

func (k *KVWrap) Inner() chord.KVProvider { return k.inner }

// Hook, when set, runs at the start of every mutating client operation on this
// store (Put, Delete, PrefixAppend, PrefixRemove) - i.e. inside the node's
// KV handler, while the node holds its surrogate read lock. A harness uses it
// as a schedule point inside a storage operation.
func (k *KVWrap) SetHook(h func(op string, key []byte)) {
	k.mu.Lock()
	k.hook = h
	k.mu.Unlock()
}

func (k *KVWrap) runHook(op string, key []byte) {
	k.mu.Lock()
	h := k.hook
	k.mu.Unlock()
	if h != nil {
		h(op, key)
	}
	k.net.delay()
}

func (k *KVWrap) Put(ctx context.Context, key, value []byte) error {
	k.runHook("Put", key)
	return k.inner.Put(ctx, key, value)
}
func (k *KVWrap) Get(ctx context.Context, key []byte) ([]byte, error) {
	return k.inner.Get(ctx, key)
}
func (k *KVWrap) Delete(ctx context.Context, key []byte) error {
	k.runHook("Delete", key)
	return k.inner.Delete(ctx, key)
}
func (k *KVWrap) PrefixAppend(ctx context.Context, prefix, child []byte) error {
	k.runHook("PrefixAppend", prefix)
	return k.inner.PrefixAppend(ctx, prefix, child)
}
func (k *KVWrap) PrefixList(ctx context.Context, prefix []byte) ([][]byte, error) {
	return k.inner.PrefixList(ctx, prefix)
}
func (k *KVWrap) PrefixContains(ctx context.Context, prefix, child []byte) (bool, error) {
	return k.inner.PrefixContains(ctx, prefix, child)
}
func (k *KVWrap) PrefixRemove(ctx context.Context, prefix, child []byte) error {
	k.runHook("PrefixRemove", prefix)
	return k.inner.PrefixRemove(ctx, prefix, child)
}
func (k *KVWrap) Acquire(ctx context.Context, lease []byte, ttl time.Duration) (uint64, error) {
	return k.inner.Acquire(ctx, lease, ttl)
}
func (k *KVWrap) Renew(ctx context.Context, lease []byte, ttl time.Duration, prev uint64) (uint64, error) {
	return k.inner.Renew(ctx, lease, ttl, prev)
}
func (k *KVWrap) Release(ctx context.Context, lease []byte, token uint64) error {
	return k.inner.Release(ctx, lease, token)
}
func (k *KVWrap) ListKeys(ctx context.Context, prefix []byte) ([]*protocol.KeyComposite, error) {
	return k.inner.ListKeys(ctx, prefix)
}

func (k *KVWrap) Import(ctx context.Context, keys [][]byte, values []*protocol.KVTransfer) error {
	k.net.logEvent(Event{Kind: "kv", Caller: k.owner, Callee: k.owner, Method: "kv.Import", Arg: fmt.Sprintf("%q", keys)})
	k.net.delay()
	if k.failImports.Load() > 0 && k.failImports.Add(-1) >= 0 {
		return ErrStorage
	}
	err := k.inner.Import(ctx, keys, values)
	if err == nil {
		k.mu.Lock()
		k.Imports++
		if k.ImportedKey == nil {
			k.ImportedKey = map[string]int{}
		}
		for _, key := range keys {
			k.ImportedKey[string(key)]++
		}
		k.mu.Unlock()
	}
	return err
}

func (k *KVWrap) Export(ctx context.Context, keys [][]byte) ([]*protocol.KVTransfer, error) {
	k.net.logEvent(Event{Kind: "kv", Caller: k.owner, Callee: k.owner, Method: "kv.Export", Arg: fmt.Sprintf("%q", keys)})
	k.mu.Lock()
	k.Exports++
	k.mu.Unlock()
	k.net.delay()
	if k.failExports.Load() > 0 && k.failExports.Add(-1) >= 0 {
		return nil, ErrStorage
	}
	return k.inner.Export(ctx, keys)
}

func (k *KVWrap) RangeKeys(ctx context.Context, low, high uint64) ([][]byte, error) {
	keys, err := k.inner.RangeKeys(ctx, low, high)
	k.net.logEvent(Event{Kind: "kv", Caller: k.owner, Callee: k.owner, Method: "kv.RangeKeys", Arg: fmt.Sprintf("(%d,%d]", low, high), Result: fmt.Sprintf("%q", keys)})
	return keys, err
}

func (k *KVWrap) RemoveKeys(ctx context.Context, keys [][]byte) error {
	k.net.logEvent(Event{Kind: "kv", Caller: k.owner, Callee: k.owner, Method: "kv.RemoveKeys", Arg: fmt.Sprintf("%q", keys)})
	k.mu.Lock()
	k.Removes++
	k.mu.Unlock()
	k.net.delay()
	return k.inner.RemoveKeys(ctx, keys)
}

// ImportedKeys returns how often each key was imported into this store.
func (k *KVWrap) ImportedKeys() map[string]int {
	k.mu.Lock()
	defer k.mu.Unlock()
	out := map[string]int{}
	for a, b := range k.ImportedKey {
		out[a] = b
	}
	return out
}
