// Package ringsim wires real chord.LocalNode instances to each other through
// proxyVNode, an in-process stand-in for RemoteNode+Server (DESIGN §2 M1).
// Every inter-node call passes through Net.invoke, which is the schedule /
// fault / gate / logging point.
package ringsim

import (
	"context"
	"fmt"
	"math/rand"
	"runtime"
	"sync"
	"sync/atomic"
	"time"

	rchord "go.miragespace.co/specter/chord"
	"go.miragespace.co/specter/kv/memory"
	"go.miragespace.co/specter/spec/chord"
	"go.miragespace.co/specter/spec/mocks"
	"go.miragespace.co/specter/spec/protocol"
	"go.miragespace.co/specter/spec/rpc"
	"go.miragespace.co/specter/spec/rtt"

	"github.com/twitchtv/twirp"
	"go.uber.org/zap"
)

// ErrUnreachable is what a proxy returns when the target is crash-stopped or
// a fault rule drops the request before delivery (a transport-level failure).
type transportError struct{ msg string }

func (e *transportError) Error() string { return e.msg }

var ErrUnreachable error = &transportError{"ringsim: peer unreachable (transport error)"}
var ErrRoutingLoop error = &transportError{"ringsim: too many in-flight forwarded calls (routing loop?)"}

type FaultMode int

const (
	FailBefore   FaultMode = iota // request never delivered; caller sees a transport error
	LoseResponse                  // request delivered and executed; caller sees a deadline error
)

func (m FaultMode) String() string {
	if m == FailBefore {
		return "fail-before-delivery"
	}
	return "deliver-lose-response"
}

// FaultRule matches calls by method (and optionally caller/callee; 0 = any is
// expressed with AnyCaller/AnyCallee) and fires on occurrences [From, To].
type FaultRule struct {
	Method    string
	AnyCaller bool
	Caller    uint64
	AnyCallee bool
	Callee    uint64
	Mode      FaultMode
	From, To  int // 1-based inclusive occurrence window among matching calls
	// Filter, when non-nil, further restricts matches by the argument summary
	// (e.g. FinishJoin "stabilize" vs "release").
	Arg   string
	seen  int
	Fired int
}

// Gate blocks the first matching call until Release is called.
type Gate struct {
	Method    string
	AnyCaller bool
	Caller    uint64
	AnyCallee bool
	Callee    uint64
	Arg       string
	Nth       int // fire on the Nth matching call (1-based)
	seen      int
	reached   chan struct{}
	release   chan struct{}
	fired     bool
	After     bool // block after the call was executed (before returning) instead of before delivery
}

func (g *Gate) Reached() <-chan struct{} { return g.reached }
func (g *Gate) Release() {
	select {
	case <-g.release:
	default:
		close(g.release)
	}
}

type Event struct {
	Seq    int64  `json:"seq"`
	Kind   string `json:"kind"` // "call" | "ret" | "kv" | "note"
	Caller uint64 `json:"caller"`
	Callee uint64 `json:"callee"`
	Method string `json:"method"`
	Arg    string `json:"arg,omitempty"`
	Err    string `json:"err,omitempty"`
	CallID int64  `json:"call_id,omitempty"`
	Result string `json:"result,omitempty"`
}

type Member struct {
	ID      uint64
	Node    *rchord.LocalNode
	KV      *KVWrap
	net     *Net
	crashed atomic.Bool
	// harness bookkeeping (set by Net.Create/Join/Leave)
	Joined   atomic.Bool
	LeftDone atomic.Bool
	JoinErr  error
	stopped  atomic.Bool
}

func (m *Member) Crashed() bool { return m.crashed.Load() }

type Config struct {
	Seed              int64
	StabilizeInterval time.Duration
	FixFingerInterval time.Duration
	PredCheckInterval time.Duration
	MaxDelay          time.Duration // per-call random delay upper bound (0 = only Gosched bursts)
	// SlowMethod/SlowArg/SlowDelay: every call of that method (and argument summary, if set)
	// is delivered only after SlowDelay - e.g. a slow FinishJoin("release") keeps the
	// membership lock of a node held long enough for other attempts to exhaust their retries
	SlowMethod string
	SlowArg    string
	SlowDelay  time.Duration
	DelayProb  float64 // probability that a call is delayed at all
	Logger     *zap.Logger
	// RPCTimeout: how long a caller waits for an answer (default 10 s, like the real client:
	// long enough not to fire on a loaded machine or under the race detector, short enough to
	// break the lock cycles that only this timer ever breaks). A timeout that fires is a lost
	// response - fault territory (C07) - so checks of fault-free behaviour count a case in
	// which Timeouts > 0 as inconclusive.
	RPCTimeout time.Duration
	KeepLog    bool
	NewKV      func(id uint64) (chord.KVProvider, func()) // nil = memory
}

type Net struct {
	cfg      Config
	mu       sync.Mutex
	members  map[uint64]*Member
	rng      *rand.Rand
	rules    []*FaultRule
	gates    []*Gate
	events   []Event
	seq      atomic.Int64
	callID   atomic.Int64
	inflight atomic.Int64
	cleanup  []func()
	Panics   atomic.Int64
	Timeouts atomic.Int64 // calls given up by the caller after RPCTimeout
	panicMu  sync.Mutex
	PanicLog []string
}

func New(cfg Config) *Net {
	if cfg.StabilizeInterval == 0 {
		cfg.StabilizeInterval = 2 * time.Millisecond
	}
	if cfg.FixFingerInterval == 0 {
		cfg.FixFingerInterval = 3 * time.Millisecond
	}
	if cfg.PredCheckInterval == 0 {
		cfg.PredCheckInterval = 5 * time.Millisecond
	}
	if cfg.Logger == nil {
		cfg.Logger = zap.NewNop()
	}
	if cfg.RPCTimeout == 0 {
		cfg.RPCTimeout = 10 * time.Second
	}
	return &Net{cfg: cfg, members: map[uint64]*Member{}, rng: rand.New(rand.NewSource(cfg.Seed))}
}

type nopRecorder struct{}

func (nopRecorder) Snapshot(string, time.Duration) *rtt.Statistics { return nil }
func (nopRecorder) RecordLatency(string, float64)                  {}
func (nopRecorder) RecordSent(string)                              {}
func (nopRecorder) RecordLost(string)                              {}
func (nopRecorder) Drop(string)                                    {}

// Add constructs a LocalNode (Inactive) with the given id.
func (n *Net) Add(id uint64) *Member { return n.AddWithKV(id, nil) }

// AddWithKV is Add with a given storage provider: a node that restarts with
// its old identity keeps its old store (reuse != nil).
func (n *Net) AddWithKV(id uint64, reuse chord.KVProvider) *Member {
	var (
		kv   chord.KVProvider
		done func()
	)
	if reuse != nil {
		kv = reuse
	} else if n.cfg.NewKV != nil {
		kv, done = n.cfg.NewKV(id)
	} else {
		kv = memory.WithHashFn(chord.Hash)
	}
	m := &Member{ID: id, net: n}
	m.KV = &KVWrap{inner: kv, net: n, owner: id}
	m.Node = rchord.NewLocalNode(rchord.NodeConfig{
		KVProvider:               m.KV,
		ChordClient:              new(mocks.ChordClient),
		BaseLogger:               n.cfg.Logger,
		Identity:                 &protocol.Node{Id: id, Address: fmt.Sprintf("sim-%d", id)},
		NodesRTT:                 nopRecorder{},
		StabilizeInterval:        n.cfg.StabilizeInterval,
		FixFingerInterval:        n.cfg.FixFingerInterval,
		PredecessorCheckInterval: n.cfg.PredCheckInterval,
	})
	n.mu.Lock()
	n.members[id] = m
	if done != nil {
		n.cleanup = append(n.cleanup, done)
	}
	n.mu.Unlock()
	return m
}

// Restore makes m the member that answers for its id again (after a restart of that id
// failed: the new process gave up and exited, nothing replaced the old state of affairs).
func (n *Net) Restore(m *Member) {
	n.mu.Lock()
	n.members[m.ID] = m
	n.mu.Unlock()
}

func (n *Net) Member(id uint64) *Member {
	n.mu.Lock()
	defer n.mu.Unlock()
	return n.members[id]
}

func (n *Net) Members() []*Member {
	n.mu.Lock()
	defer n.mu.Unlock()
	out := make([]*Member, 0, len(n.members))
	for _, m := range n.members {
		out = append(out, m)
	}
	return out
}

// Proxy returns the VNode through which `owner` talks to `target`.
func (n *Net) Proxy(owner, target uint64) chord.VNode {
	return &proxy{net: n, owner: owner, target: target, ident: &protocol.Node{Id: target, Address: fmt.Sprintf("sim-%d", target)}}
}

// Client is the owner id used for calls issued by the harness itself
// (KV clients, probes); it never matches a node id (ids are < 2^48).
const Client uint64 = 1 << 60

func (n *Net) AddRule(r *FaultRule) *FaultRule {
	if r.From == 0 {
		r.From = 1
	}
	if r.To == 0 {
		r.To = r.From
	}
	n.mu.Lock()
	n.rules = append(n.rules, r)
	n.mu.Unlock()
	return r
}

func (n *Net) ClearRules() { n.mu.Lock(); n.rules = nil; n.mu.Unlock() }

func (n *Net) AddGate(g *Gate) *Gate {
	if g.Nth == 0 {
		g.Nth = 1
	}
	g.reached = make(chan struct{})
	g.release = make(chan struct{})
	n.mu.Lock()
	n.gates = append(n.gates, g)
	n.mu.Unlock()
	return g
}

func (n *Net) ReleaseAllGates() {
	n.mu.Lock()
	gs := append([]*Gate{}, n.gates...)
	n.mu.Unlock()
	for _, g := range gs {
		g.Release()
	}
}

func (n *Net) logEvent(e Event) int64 {
	e.Seq = n.seq.Add(1)
	if n.cfg.KeepLog {
		n.mu.Lock()
		n.events = append(n.events, e)
		n.mu.Unlock()
	}
	return e.Seq
}

func (n *Net) Note(format string, args ...any) {
	n.logEvent(Event{Kind: "note", Method: fmt.Sprintf(format, args...)})
}

func (n *Net) Events() []Event {
	n.mu.Lock()
	defer n.mu.Unlock()
	return append([]Event{}, n.events...)
}

func (n *Net) delay() {
	n.mu.Lock()
	p := n.rng.Float64()
	k := n.rng.Intn(4)
	var d time.Duration
	if n.cfg.MaxDelay > 0 {
		d = time.Duration(n.rng.Int63n(int64(n.cfg.MaxDelay)))
	}
	n.mu.Unlock()
	if p >= n.cfg.DelayProb {
		return
	}
	if k == 0 && d > 0 {
		time.Sleep(d)
		return
	}
	for i := 0; i < k*2; i++ {
		runtime.Gosched()
	}
}

// wire emulates what happens to an error that crosses the RPC boundary: the
// server wraps it in a twirp error (code + message only survive the wire) and
// the client maps it back with the repository's own ErrorMapper.
func wire(err error) error {
	if err == nil {
		return nil
	}
	te, ok := rpc.WrapError(err).(twirp.Error)
	if !ok {
		return chord.ErrorMapper(twirp.NewError(twirp.Internal, err.Error()))
	}
	// what survives the wire: code, message and metadata (not the Go wrap chain)
	onWire := twirp.NewError(te.Code(), te.Msg())
	for k, v := range te.MetaMap() {
		onWire = onWire.WithMeta(k, v)
	}
	return chord.ErrorMapper(onWire)
}

type matchInfo struct {
	caller, callee uint64
	method, arg    string
}

func ruleMatches(method string, anyCaller bool, caller uint64, anyCallee bool, callee uint64, arg string, mi matchInfo) bool {
	if method != mi.method {
		return false
	}
	if !anyCaller && caller != mi.caller {
		return false
	}
	if !anyCallee && callee != mi.callee {
		return false
	}
	if arg != "" && arg != mi.arg {
		return false
	}
	return true
}

// invoke delivers one call from owner to target. fn runs on the target's
// LocalNode in a fresh goroutine (like an RPC server goroutine).
func (n *Net) invoke(owner, target uint64, method, arg string, fn func(t *rchord.LocalNode) (string, error)) error {
	mi := matchInfo{owner, target, method, arg}
	id := n.callID.Add(1)
	n.logEvent(Event{Kind: "call", Caller: owner, Callee: target, Method: method, Arg: arg, CallID: id})
	finish := func(res string, err error) error {
		e := Event{Kind: "ret", Caller: owner, Callee: target, Method: method, Arg: arg, CallID: id, Result: res}
		if err != nil {
			e.Err = err.Error()
		}
		n.logEvent(e)
		return err
	}

	n.delay()
	if n.cfg.SlowDelay > 0 && (n.cfg.SlowMethod == method || (n.cfg.SlowMethod == "Finish*" && (method == "FinishJoin" || method == "FinishLeave"))) && (n.cfg.SlowArg == "" || n.cfg.SlowArg == arg) {
		time.Sleep(n.cfg.SlowDelay)
	}

	// fault rules and gates
	var (
		mode   FaultMode
		faulty bool
		gate   *Gate
	)
	n.mu.Lock()
	for _, r := range n.rules {
		if ruleMatches(r.Method, r.AnyCaller, r.Caller, r.AnyCallee, r.Callee, r.Arg, mi) {
			r.seen++
			if r.seen >= r.From && r.seen <= r.To && !faulty {
				faulty, mode = true, r.Mode
				r.Fired++
			}
		}
	}
	for _, g := range n.gates {
		if !g.fired && ruleMatches(g.Method, g.AnyCaller, g.Caller, g.AnyCallee, g.Callee, g.Arg, mi) {
			g.seen++
			if g.seen == g.Nth {
				g.fired = true
				gate = g
			}
		}
	}
	m := n.members[target]
	n.mu.Unlock()

	if gate != nil && !gate.After {
		close(gate.reached)
		<-gate.release
	}
	if faulty && mode == FailBefore {
		return finish("", ErrUnreachable)
	}
	if m == nil || m.crashed.Load() {
		return finish("", ErrUnreachable)
	}
	if n.inflight.Add(1) > 5000 {
		n.inflight.Add(-1)
		return finish("", ErrRoutingLoop)
	}
	type result struct {
		res string
		err error
	}
	ch := make(chan result, 1)
	go func() {
		defer n.inflight.Add(-1)
		defer func() {
			if r := recover(); r != nil {
				buf := make([]byte, 16384)
				buf = buf[:runtime.Stack(buf, false)]
				n.Panics.Add(1)
				n.panicMu.Lock()
				n.PanicLog = append(n.PanicLog, fmt.Sprintf("panic in %s(%s) %d->%d: %v\n%s", method, arg, owner, target, r, buf))
				n.panicMu.Unlock()
				// the real server has middleware.Recoverer: the caller sees an internal error
				ch <- result{"", &transportError{fmt.Sprintf("ringsim: remote handler panicked: %v", r)}}
			}
		}()
		res, err := fn(m.Node)
		ch <- result{res, err}
	}()
	// The real client gives up after rpcTimeout (10 s) while the server goes on processing the
	// request. Some lock cycles of the code under test are only ever broken by that timeout
	// (a KV request forwarded to the surrogate is sent while the forwarding node holds its KV
	// barrier; if the surrogate is handing its keys back to that node at the same moment, both
	// wait for each other until the forwarded call times out). Without it the simulated ring
	// would hang for ever where the real one stalls for a while.
	var r result
	tm := time.NewTimer(n.cfg.RPCTimeout)
	select {
	case r = <-ch:
		tm.Stop()
	case <-tm.C:
		n.Timeouts.Add(1)
		return finish("", context.DeadlineExceeded)
	}
	if gate != nil && gate.After {
		close(gate.reached)
		<-gate.release
	}
	n.delay()
	if faulty && mode == LoseResponse {
		return finish("", context.DeadlineExceeded)
	}
	if r.err != nil {
		if _, ok := r.err.(*transportError); ok {
			return finish("", r.err)
		}
		return finish("", wire(r.err))
	}
	return finish(r.res, nil)
}

// RuleFired reports how often a fault rule has fired so far.
func (n *Net) RuleFired(r *FaultRule) int {
	n.mu.Lock()
	defer n.mu.Unlock()
	return r.Fired
}

// Crash crash-stops a member: its tasks are stopped and it becomes unreachable.
func (n *Net) Crash(m *Member) {
	m.crashed.Store(true)
	// Stopping waits for the member's periodic tasks. One of them may be inside a call to a
	// node whose locks a scenario keeps held on purpose (parked request): do not wait for
	// ever - from the ring's point of view the node is gone as of now, its tasks end as soon
	// as their current call returns.
	done := make(chan struct{})
	go func() { m.Stop(); close(done) }()
	select {
	case <-done:
	case <-time.After(2 * time.Second):
	}
}

// Stop force-stops the member's background tasks (teardown / crash).
func (m *Member) Stop() {
	if m.stopped.Swap(true) {
		return
	}
	st := m.Node.VerifState()
	if st == chord.Inactive && !m.Joined.Load() {
		return // tasks never started
	}
	if st == chord.Left {
		return // Leave() already stopped them
	}
	m.Node.VerifStop()
}

// Close tears the whole network down; no goroutine of a case survives it.
func (n *Net) Close() {
	n.ReleaseAllGates()
	for _, m := range n.Members() {
		m.crashed.Store(true)
	}
	for _, m := range n.Members() {
		m.Stop()
	}
	n.mu.Lock()
	cl := n.cleanup
	n.cleanup = nil
	n.mu.Unlock()
	for _, f := range cl {
		f()
	}
}
