package ringsim

import (
	"context"
	"fmt"
	"strings"
	"time"

	rchord "go.miragespace.co/specter/chord"
	"go.miragespace.co/specter/spec/chord"
	"go.miragespace.co/specter/spec/protocol"
)

// proxy is what RemoteNode is in production: it carries only the identity of
// the target, every call is resolved in the registry at call time, VNode
// arguments are re-wrapped as proxies owned by the callee and VNode results
// as proxies owned by the caller.
type proxy struct {
	net    *Net
	owner  uint64
	target uint64
	ident  *protocol.Node
}

var _ chord.VNode = (*proxy)(nil)

func (p *proxy) ID() uint64               { return p.target }
func (p *proxy) Identity() *protocol.Node { return p.ident }

// toOwner re-wraps a VNode returned by the callee for the caller.
func (p *proxy) toOwner(v chord.VNode) chord.VNode {
	if v == nil {
		return nil
	}
	if v.ID() == p.target {
		return p
	}
	return p.net.Proxy(p.owner, v.ID())
}

// toCallee re-wraps a VNode argument for the callee (Server.Factory).
func (p *proxy) toCallee(v chord.VNode) chord.VNode {
	return p.net.Proxy(p.target, v.ID())
}

func ids(vs []chord.VNode) string {
	var b strings.Builder
	for i, v := range vs {
		if i > 0 {
			b.WriteByte(',')
		}
		if v == nil {
			b.WriteString("nil")
		} else {
			fmt.Fprintf(&b, "%d", v.ID())
		}
	}
	return b.String()
}

func (p *proxy) Ping() error {
	return p.net.invoke(p.owner, p.target, "Ping", "", func(t *rchord.LocalNode) (string, error) { return "", t.Ping() })
}

func (p *proxy) Notify(pre chord.VNode) error {
	return p.net.invoke(p.owner, p.target, "Notify", fmt.Sprint(pre.ID()), func(t *rchord.LocalNode) (string, error) {
		return "", t.Notify(p.toCallee(pre))
	})
}

func (p *proxy) FindSuccessor(key uint64) (chord.VNode, error) {
	var out chord.VNode
	err := p.net.invoke(p.owner, p.target, "FindSuccessor", fmt.Sprint(key), func(t *rchord.LocalNode) (string, error) {
		r, err := t.FindSuccessor(key)
		if err != nil {
			return "", err
		}
		if r == nil {
			return "nil", nil
		}
		out = p.toOwner(r)
		return fmt.Sprint(r.ID()), nil
	})
	if err != nil {
		return nil, err
	}
	return out, nil
}

func (p *proxy) GetSuccessors() ([]chord.VNode, error) {
	var out []chord.VNode
	err := p.net.invoke(p.owner, p.target, "GetSuccessors", "", func(t *rchord.LocalNode) (string, error) {
		r, err := t.GetSuccessors()
		if err != nil {
			return "", err
		}
		out = make([]chord.VNode, 0, len(r))
		for _, v := range r {
			if v == nil {
				continue
			}
			// RemoteNode.GetSuccessors always builds fresh RemoteNodes
			out = append(out, p.net.Proxy(p.owner, v.ID()))
		}
		return ids(r), nil
	})
	if err != nil {
		return nil, err
	}
	return out, nil
}

func (p *proxy) GetPredecessor() (chord.VNode, error) {
	var out chord.VNode
	err := p.net.invoke(p.owner, p.target, "GetPredecessor", "", func(t *rchord.LocalNode) (string, error) {
		r, err := t.GetPredecessor()
		if err != nil {
			return "", err
		}
		if r == nil {
			return "nil", nil
		}
		out = p.toOwner(r)
		return fmt.Sprint(r.ID()), nil
	})
	if err != nil {
		return nil, err
	}
	return out, nil
}

func (p *proxy) RequestToJoin(joiner chord.VNode) (chord.VNode, []chord.VNode, error) {
	var (
		pre  chord.VNode
		list []chord.VNode
	)
	err := p.net.invoke(p.owner, p.target, "RequestToJoin", fmt.Sprint(joiner.ID()), func(t *rchord.LocalNode) (string, error) {
		rp, rl, err := t.RequestToJoin(p.toCallee(joiner))
		if err != nil {
			return "", err
		}
		if rp == nil {
			// Server.RequestToJoin would dereference pre.Identity(); surface as a handler panic
			panic("RequestToJoin returned nil predecessor without error")
		}
		pre = p.net.Proxy(p.owner, rp.ID())
		for _, v := range rl {
			if v == nil {
				continue
			}
			list = append(list, p.net.Proxy(p.owner, v.ID()))
		}
		return fmt.Sprintf("pre=%d succ=%s", rp.ID(), ids(rl)), nil
	})
	if err != nil {
		return nil, nil, err
	}
	return pre, list, nil
}

func boolArg(stabilize, release bool) string {
	switch {
	case stabilize && release:
		return "stabilize+release"
	case stabilize:
		return "stabilize"
	case release:
		return "release"
	}
	return "none"
}

func (p *proxy) FinishJoin(stabilize, release bool) error {
	return p.net.invoke(p.owner, p.target, "FinishJoin", boolArg(stabilize, release), func(t *rchord.LocalNode) (string, error) {
		return "", t.FinishJoin(stabilize, release)
	})
}

func (p *proxy) RequestToLeave(leaver chord.VNode) error {
	return p.net.invoke(p.owner, p.target, "RequestToLeave", fmt.Sprint(leaver.ID()), func(t *rchord.LocalNode) (string, error) {
		return "", t.RequestToLeave(p.toCallee(leaver))
	})
}

func (p *proxy) FinishLeave(stabilize, release bool) error {
	return p.net.invoke(p.owner, p.target, "FinishLeave", boolArg(stabilize, release), func(t *rchord.LocalNode) (string, error) {
		return "", t.FinishLeave(stabilize, release)
	})
}

// ---- KV ---------------------------------------------------------------------

func (p *proxy) Put(ctx context.Context, key, value []byte) error {
	return p.net.invoke(p.owner, p.target, "Put", string(key), func(t *rchord.LocalNode) (string, error) {
		return "", t.Put(ctx, key, value)
	})
}

func (p *proxy) Get(ctx context.Context, key []byte) ([]byte, error) {
	var out []byte
	err := p.net.invoke(p.owner, p.target, "Get", string(key), func(t *rchord.LocalNode) (string, error) {
		v, err := t.Get(ctx, key)
		out = v
		return string(v), err
	})
	if err != nil {
		return nil, err
	}
	return out, nil
}

func (p *proxy) Delete(ctx context.Context, key []byte) error {
	return p.net.invoke(p.owner, p.target, "Delete", string(key), func(t *rchord.LocalNode) (string, error) {
		return "", t.Delete(ctx, key)
	})
}

func (p *proxy) PrefixAppend(ctx context.Context, prefix, child []byte) error {
	return p.net.invoke(p.owner, p.target, "PrefixAppend", string(prefix)+"/"+string(child), func(t *rchord.LocalNode) (string, error) {
		return "", t.PrefixAppend(ctx, prefix, child)
	})
}

func (p *proxy) PrefixList(ctx context.Context, prefix []byte) ([][]byte, error) {
	var out [][]byte
	err := p.net.invoke(p.owner, p.target, "PrefixList", string(prefix), func(t *rchord.LocalNode) (string, error) {
		v, err := t.PrefixList(ctx, prefix)
		out = v
		return fmt.Sprintf("%q", v), err
	})
	if err != nil {
		return nil, err
	}
	return out, nil
}

func (p *proxy) PrefixContains(ctx context.Context, prefix, child []byte) (bool, error) {
	var out bool
	err := p.net.invoke(p.owner, p.target, "PrefixContains", string(prefix)+"/"+string(child), func(t *rchord.LocalNode) (string, error) {
		v, err := t.PrefixContains(ctx, prefix, child)
		out = v
		return fmt.Sprint(v), err
	})
	if err != nil {
		return false, err
	}
	return out, nil
}

func (p *proxy) PrefixRemove(ctx context.Context, prefix, child []byte) error {
	return p.net.invoke(p.owner, p.target, "PrefixRemove", string(prefix)+"/"+string(child), func(t *rchord.LocalNode) (string, error) {
		return "", t.PrefixRemove(ctx, prefix, child)
	})
}

func (p *proxy) Acquire(ctx context.Context, lease []byte, ttl time.Duration) (uint64, error) {
	var out uint64
	err := p.net.invoke(p.owner, p.target, "Acquire", string(lease), func(t *rchord.LocalNode) (string, error) {
		v, err := t.Acquire(ctx, lease, ttl)
		out = v
		return fmt.Sprint(v), err
	})
	if err != nil {
		return 0, err
	}
	return out, nil
}

func (p *proxy) Renew(ctx context.Context, lease []byte, ttl time.Duration, prev uint64) (uint64, error) {
	var out uint64
	err := p.net.invoke(p.owner, p.target, "Renew", string(lease), func(t *rchord.LocalNode) (string, error) {
		v, err := t.Renew(ctx, lease, ttl, prev)
		out = v
		return fmt.Sprint(v), err
	})
	if err != nil {
		return 0, err
	}
	return out, nil
}

func (p *proxy) Release(ctx context.Context, lease []byte, token uint64) error {
	return p.net.invoke(p.owner, p.target, "Release", string(lease), func(t *rchord.LocalNode) (string, error) {
		return "", t.Release(ctx, lease, token)
	})
}

func (p *proxy) Import(ctx context.Context, keys [][]byte, values []*protocol.KVTransfer) error {
	return p.net.invoke(p.owner, p.target, "Import", fmt.Sprintf("%q", keys), func(t *rchord.LocalNode) (string, error) {
		return "", t.Import(ctx, keys, values)
	})
}

func (p *proxy) ListKeys(ctx context.Context, prefix []byte) ([]*protocol.KeyComposite, error) {
	var out []*protocol.KeyComposite
	err := p.net.invoke(p.owner, p.target, "ListKeys", string(prefix), func(t *rchord.LocalNode) (string, error) {
		v, err := t.ListKeys(ctx, prefix)
		out = v
		return fmt.Sprint(len(v)), err
	})
	if err != nil {
		return nil, err
	}
	return out, nil
}
