package ringsim

import (
	"runtime"
	"sync/atomic"
	"time"

	"go.uber.org/zap"
	"go.uber.org/zap/zapcore"
)

// jitterCore turns every log statement (and every derivation of a child
// logger) of the code under test into a schedule point INSIDE its functions:
// the proxy owns the schedule only at inter-node calls, but the chord code logs
// between its checks and its critical sections (request path: logger.With
// between owner lookup and KV barrier; membership: Info/Debug around lock
// acquisition and hand-over). Enabled() is consulted by zap for every log call
// and reports false afterwards, so nothing is formatted or written.
type jitterCore struct {
	seed     uint64
	pct      uint64
	maxSleep uint64 // ns
	ctr      *atomic.Uint64
	Yields   *atomic.Int64
}

func (c *jitterCore) yield() {
	n := c.ctr.Add(1)
	h := splitmix64(c.seed + n*0x9e3779b97f4a7c15)
	if h%100 >= c.pct {
		return
	}
	c.Yields.Add(1)
	switch (h >> 8) % 4 {
	case 0, 1:
		runtime.Gosched()
	case 2:
		for i := 0; i < 4; i++ {
			runtime.Gosched()
		}
	default:
		if c.maxSleep > 0 {
			time.Sleep(time.Duration((h >> 16) % c.maxSleep))
		}
	}
}

func splitmix64(x uint64) uint64 {
	x += 0x9e3779b97f4a7c15
	x = (x ^ (x >> 30)) * 0xbf58476d1ce4e5b9
	x = (x ^ (x >> 27)) * 0x94d049bb133111eb
	return x ^ (x >> 31)
}

func (c *jitterCore) Enabled(zapcore.Level) bool                                       { c.yield(); return false }
func (c *jitterCore) With([]zapcore.Field) zapcore.Core                                { c.yield(); return c }
func (c *jitterCore) Check(zapcore.Entry, *zapcore.CheckedEntry) *zapcore.CheckedEntry { return nil }
func (c *jitterCore) Write(zapcore.Entry, []zapcore.Field) error                       { return nil }
func (c *jitterCore) Sync() error                                                      { return nil }

// JitterLogger returns a logger whose every use yields (Gosched burst or a
// sleep below maxSleep) with probability pct/100, decided by a counter hash of
// seed, and the counter of yields taken.
func JitterLogger(seed int64, pct int, maxSleep time.Duration) (*zap.Logger, *atomic.Int64) {
	c := &jitterCore{seed: uint64(seed), pct: uint64(pct), maxSleep: uint64(maxSleep), ctr: &atomic.Uint64{}, Yields: &atomic.Int64{}}
	return zap.New(c), c.Yields
}
