package rpcx

import (
	"bytes"
	"context"
	"errors"
	"fmt"
	"reflect"
	"sync"
	"testing"
	"time"

	"go.miragespace.co/specter/spec/chord"
	"go.miragespace.co/specter/spec/protocol"
	"verifharness/internal/ev"

	"google.golang.org/protobuf/proto"
	"pgregory.net/rapid"
)

// ---- C15: the retrying KV client ---------------------------------------------
//
// chord.WrapRetryKV(node, interval, attempts) around a scripted node whose
// i-th call of the method under test returns script[i]. The library adds up
// to 100 ms of random jitter per retry, therefore a rapid check is a *batch*
// of independent cases that run concurrently; the oracle only looks at call
// counts, arguments and returned values, never at time.

const (
	c15OK = iota
	c15Retryable
	c15Fatal
)

type c15Step struct {
	Kind int    `json:"kind"` // c15OK | c15Retryable | c15Fatal
	Err  string `json:"err,omitempty"`
	err  error
}

type c15Case struct {
	Method   string    `json:"method"`
	Attempts uint      `json:"attempts"`
	Script   []c15Step `json:"script"`
}

func (c c15Case) key() string {
	s := fmt.Sprintf("%s/%d/", c.Method, c.Attempts)
	for _, st := range c.Script {
		s += fmt.Sprintf("%d:%s;", st.Kind, st.Err)
	}
	return s
}

// c15Node is the scripted inner node. The embedded nil VNode makes any method
// the wrapper is not expected to call panic (a harness failure, not a verdict).
type c15Node struct {
	chord.VNode
	mu     sync.Mutex
	script []c15Step
	calls  []string // rendered (method, args) of each underlying call
}

func (n *c15Node) next(method string, args ...any) (int, error) {
	n.mu.Lock()
	defer n.mu.Unlock()
	i := len(n.calls)
	n.calls = append(n.calls, fmt.Sprint(append([]any{method}, args...)...))
	if i >= len(n.script) {
		return i, errors.New("harness: script exhausted") // non-retryable, ends any loop
	}
	return i, n.script[i].err
}

func c15Bytes(i int) []byte  { return []byte(fmt.Sprintf("value-of-call-%d", i)) }
func c15Token(i int) uint64  { return 1000 + uint64(i) }
func c15List(i int) [][]byte { return [][]byte{[]byte(fmt.Sprintf("child-%d", i)), []byte("x")} }
func c15Bool(i int) bool     { return i%2 == 0 }
func c15Keys(i int) []*protocol.KeyComposite {
	return []*protocol.KeyComposite{{Key: []byte(fmt.Sprintf("key-%d", i))}}
}

func (n *c15Node) Put(_ context.Context, k, v []byte) error {
	_, err := n.next("Put", k, v)
	return err
}
func (n *c15Node) Get(_ context.Context, k []byte) ([]byte, error) {
	i, err := n.next("Get", k)
	if err != nil {
		return nil, err
	}
	return c15Bytes(i), nil
}
func (n *c15Node) Delete(_ context.Context, k []byte) error {
	_, err := n.next("Delete", k)
	return err
}
func (n *c15Node) PrefixAppend(_ context.Context, p, c []byte) error {
	_, err := n.next("PrefixAppend", p, c)
	return err
}
func (n *c15Node) PrefixList(_ context.Context, p []byte) ([][]byte, error) {
	i, err := n.next("PrefixList", p)
	if err != nil {
		return nil, err
	}
	return c15List(i), nil
}
func (n *c15Node) PrefixContains(_ context.Context, p, c []byte) (bool, error) {
	i, err := n.next("PrefixContains", p, c)
	if err != nil {
		return false, err
	}
	return c15Bool(i), nil
}
func (n *c15Node) PrefixRemove(_ context.Context, p, c []byte) error {
	_, err := n.next("PrefixRemove", p, c)
	return err
}
func (n *c15Node) Acquire(_ context.Context, l []byte, ttl time.Duration) (uint64, error) {
	i, err := n.next("Acquire", l, ttl)
	if err != nil {
		return 0, err
	}
	return c15Token(i), nil
}
func (n *c15Node) Renew(_ context.Context, l []byte, ttl time.Duration, prev uint64) (uint64, error) {
	i, err := n.next("Renew", l, ttl, prev)
	if err != nil {
		return 0, err
	}
	return c15Token(i), nil
}
func (n *c15Node) Release(_ context.Context, l []byte, tok uint64) error {
	_, err := n.next("Release", l, tok)
	return err
}
func (n *c15Node) ListKeys(_ context.Context, p []byte) ([]*protocol.KeyComposite, error) {
	i, err := n.next("ListKeys", p)
	if err != nil {
		return nil, err
	}
	return c15Keys(i), nil
}

type c15Method struct {
	name string
	// call invokes the method on w with fixed arguments; rendered is what the
	// inner node must see on every (re-)issue; value(i) is the success value of
	// underlying call i (nil for error-only methods).
	call     func(w chord.VNode) (any, error)
	rendered string
	value    func(i int) any
}

func c15Methods() []c15Method {
	ctx := context.Background()
	k, v := []byte("the-key"), []byte("the-value")
	ttl, tok := 7*time.Second, uint64(77)
	r := func(a ...any) string { return fmt.Sprint(a...) }
	return []c15Method{
		{"Put", func(w chord.VNode) (any, error) { return nil, w.Put(ctx, k, v) }, r("Put", k, v), nil},
		{"Get", func(w chord.VNode) (any, error) { return w.Get(ctx, k) }, r("Get", k), func(i int) any { return c15Bytes(i) }},
		{"Delete", func(w chord.VNode) (any, error) { return nil, w.Delete(ctx, k) }, r("Delete", k), nil},
		{"PrefixAppend", func(w chord.VNode) (any, error) { return nil, w.PrefixAppend(ctx, k, v) }, r("PrefixAppend", k, v), nil},
		{"PrefixList", func(w chord.VNode) (any, error) { return w.PrefixList(ctx, k) }, r("PrefixList", k), func(i int) any { return c15List(i) }},
		{"PrefixContains", func(w chord.VNode) (any, error) { return w.PrefixContains(ctx, k, v) }, r("PrefixContains", k, v), func(i int) any { return c15Bool(i) }},
		{"PrefixRemove", func(w chord.VNode) (any, error) { return nil, w.PrefixRemove(ctx, k, v) }, r("PrefixRemove", k, v), nil},
		{"Acquire", func(w chord.VNode) (any, error) { return w.Acquire(ctx, k, ttl) }, r("Acquire", k, ttl), func(i int) any { return c15Token(i) }},
		{"Renew", func(w chord.VNode) (any, error) { return w.Renew(ctx, k, ttl, tok) }, r("Renew", k, ttl, tok), func(i int) any { return c15Token(i) }},
		{"Release", func(w chord.VNode) (any, error) { return nil, w.Release(ctx, k, tok) }, r("Release", k, tok), nil},
		{"ListKeys", func(w chord.VNode) (any, error) { return w.ListKeys(ctx, k) }, r("ListKeys", k), func(i int) any { return c15Keys(i) }},
	}
}

type c15Result struct {
	val      any
	err      error
	calls    []string
	panicked any
}

func c15Run(m c15Method, c c15Case) (res c15Result) {
	node := &c15Node{script: c.Script}
	w := chord.WrapRetryKV(node, time.Microsecond, c.Attempts)
	func() {
		defer func() { res.panicked = recover() }()
		res.val, res.err = m.call(w)
	}()
	node.mu.Lock()
	res.calls = append([]string(nil), node.calls...)
	node.mu.Unlock()
	return res
}

func c15Judge(m c15Method, c c15Case, res c15Result) (sig, msg string) {
	// reference: stop at the first success or non-retryable error, or after
	// `attempts` calls.
	want := 0
	for want < int(c.Attempts) {
		st := c.Script[want]
		want++
		if st.Kind != c15Retryable {
			break
		}
	}
	last := c.Script[want-1]
	if res.panicked != nil {
		return "wrapper-panicked", fmt.Sprintf("panic: %v", res.panicked)
	}
	if len(res.calls) != want {
		switch {
		case len(res.calls) > int(c.Attempts):
			return "more-calls-than-configured-attempts", fmt.Sprintf("%d underlying calls with attempts=%d", len(res.calls), c.Attempts)
		case len(res.calls) > want:
			return "reissued-after-final-outcome", fmt.Sprintf("%d underlying calls, expected %d (outcome %d of the script is final)", len(res.calls), want, want-1)
		default:
			return "gave-up-before-final-outcome", fmt.Sprintf("%d underlying calls, expected %d", len(res.calls), want)
		}
	}
	for i, got := range res.calls {
		if got != m.rendered {
			return "reissued-with-different-arguments", fmt.Sprintf("call %d saw %s, want %s", i, got, m.rendered)
		}
	}
	if last.Kind == c15OK {
		if res.err != nil {
			return "success-not-returned", fmt.Sprintf("call %d succeeded but the wrapper returned error %v", want-1, res.err)
		}
		if m.value != nil {
			if w := m.value(want - 1); !c15Equal(res.val, w) {
				return "wrong-success-value", fmt.Sprintf("returned %v, the successful call %d returned %v", res.val, want-1, w)
			}
		}
		return "", ""
	}
	if res.err == nil {
		return "error-swallowed", fmt.Sprintf("last outcome is error %q but the wrapper returned nil", last.Err)
	}
	if !errors.Is(res.err, last.err) {
		return "last-error-not-returned", fmt.Sprintf("returned %q, last error was %q", res.err, last.err)
	}
	for i := 0; i < want-1; i++ {
		if e := c.Script[i].err; e != nil && !errors.Is(last.err, e) && errors.Is(res.err, e) {
			return "earlier-error-returned", fmt.Sprintf("returned error %q also matches the error of call %d (%q), which is not the last one (%q)", res.err, i, e, last.err)
		}
	}
	return "", ""
}

func TestC15(t *testing.T) {
	rec := ev.New(t, "C15")
	rec.Rule("rapid-generated (method of the 11 wrapped KV methods, attempts 1..5, script of attempts+1 outcomes over {success(value), retryable error, non-retryable error}); retryable errors = every registered retryable chord error and context.DeadlineExceeded, bare or wrapped per call; non-retryable = registered non-retryable chord errors, context.Canceled, arbitrary errors. Oracle: number of underlying calls = min(index of first success/non-retryable + 1, attempts), identical arguments on each re-issue, result = value of the first success or the last error (and no earlier, different error). Non-trivial: at least one re-issue is expected (first outcome retryable and attempts >= 2). Distinct = distinct (method, attempts, script). Concurrency dimension (class shared-wrapper): groups of 4..16 goroutines share ONE wrapper; after a barrier each issues 1500 (thorough 3000) calls back to back, every call with its own context (live: background / cancellable / far deadline; dead: cancelled / expired, 10-50% of the calls) and its own script (PRNG seeded from the shard seed); the same per-call oracle applies to every call whose own context is live (it must reach the node and follow its own script regardless of the contexts of the other callers); calls with a dead context are counted but not judged. Non-trivial there: the own context of the call is live. Enumerated dimension (class enumerated:retryable-then-final): every method x every retryable first error x (no / every retryable second error) x every final outcome (success, each non-retryable error), bare and wrapped, once each, same oracle.")
	rec.Assume("retry interval 1 microsecond; the library's random jitter (<= 100 ms per retry) is irrelevant to the oracle; cases of a batch run concurrently",
		"attempts = 0 (retry-go: retry forever) is outside the domain")

	methods := c15Methods()
	var retryable, fatal []error
	for _, e := range chord.VerifRetryableErrs() {
		retryable = append(retryable, e)
	}
	for _, e := range chord.VerifErrorDefs() {
		if !chord.ErrorIsRetryable(e) {
			fatal = append(fatal, e)
		}
	}
	sortErrs(retryable)
	sortErrs(fatal)
	fatal = append(fatal, context.Canceled, errors.New("some storage failure"), errors.New(""))
	if len(retryable) < 2 || len(fatal) < 4 {
		t.Fatalf("harness: registry too small (%d retryable, %d fatal)", len(retryable), len(fatal))
	}
	for _, e := range retryable {
		if !chord.ErrorIsRetryable(e) {
			t.Fatalf("harness: %v listed as retryable but ErrorIsRetryable is false", e)
		}
	}

	// concurrency dimension: many goroutines, one wrapper, different contexts
	c15Concurrent(t, rec, retryable, fatal, ev.Pick(4, 12), ev.Pick(1500, 3000))

	// exhaustive dimension: a wrapper that treated one particular (earlier error, later outcome)
	// combination of one method specially is a 1-in-thousands case for the random scripts below,
	// so every method x every retryable error x (every retryable error | nothing) x every final
	// outcome (success, each non-retryable error) is enumerated once, wrapped and bare.
	{
		type outcome struct {
			kind int
			err  error
		}
		finals := []outcome{{c15OK, nil}}
		for _, e := range fatal {
			finals = append(finals, outcome{c15Fatal, e})
		}
		mids := []outcome{{-1, nil}}
		for _, e := range retryable {
			mids = append(mids, outcome{c15Retryable, e})
		}
		mk := func(o outcome, i int, wrap bool) c15Step {
			st := c15Step{Kind: o.kind, err: o.err}
			if st.err != nil && wrap {
				st.err = fmt.Errorf("call %d: %w", i, st.err)
			}
			if st.err != nil {
				st.Err = st.err.Error()
			}
			return st
		}
		var cases []c15Case
		var cms []c15Method
		for _, m := range methods {
			for _, first := range retryable {
				for _, mid := range mids {
					for _, fin := range finals {
						for _, wrap := range []bool{false, true} {
							script := []c15Step{mk(outcome{c15Retryable, first}, 0, wrap)}
							if mid.kind >= 0 {
								script = append(script, mk(mid, 1, wrap))
							}
							script = append(script, mk(fin, len(script), wrap))
							script = append(script, c15Step{Kind: c15OK})
							cases = append(cases, c15Case{Method: m.name, Attempts: uint(len(script) - 1), Script: script})
							cms = append(cms, m)
						}
					}
				}
			}
		}
		results := make([]c15Result, len(cases))
		var wg sync.WaitGroup
		sem := make(chan struct{}, 64)
		for b := range cases {
			wg.Add(1)
			sem <- struct{}{}
			go func(b int) {
				defer func() { <-sem; wg.Done() }()
				results[b] = c15Run(cms[b], cases[b])
			}(b)
		}
		wg.Wait()
		for b, c := range cases {
			rec.Case(true, c.key(), func() any { return c }, "enumerated:retryable-then-final", "method:"+c.Method)
			if sig, msg := c15Judge(cms[b], c, results[b]); sig != "" {
				rec.Fail(t, sig, map[string]any{"case": c, "observed_calls": results[b].calls, "returned_error": fmt.Sprint(results[b].err), "returned_value": fmt.Sprint(results[b].val)},
					"%s attempts=%d script=%s: %s", c.Method, c.Attempts, c.key(), msg)
			}
		}
	}

	batch := ev.Pick(40, 32)
	ev.RapidCheck(t, 10, 600, func(rt *rapid.T) {
		cases := make([]c15Case, batch)
		ms := make([]c15Method, batch)
		for b := range cases {
			ms[b] = methods[rapid.IntRange(0, len(methods)-1).Draw(rt, "method")]
			att := uint(rapid.IntRange(1, 5).Draw(rt, "attempts"))
			// bias towards long retryable prefixes so that the attempts bound is reached
			pRetry := rapid.SampledFrom([]int{2, 5, 8}).Draw(rt, "pRetry")
			script := make([]c15Step, att+1)
			for i := range script {
				var st c15Step
				x := rapid.IntRange(0, 9).Draw(rt, "outcome")
				switch {
				case x < pRetry:
					st.Kind = c15Retryable
					st.err = rapid.SampledFrom(retryable).Draw(rt, "rerr")
				case x < pRetry+(10-pRetry)/2:
					st.Kind = c15OK
				default:
					st.Kind = c15Fatal
					st.err = rapid.SampledFrom(fatal).Draw(rt, "ferr")
				}
				if st.err != nil && rapid.Bool().Draw(rt, "wrapPerCall") {
					st.err = fmt.Errorf("call %d: %w", i, st.err)
				}
				if st.err != nil {
					st.Err = st.err.Error()
					if chord.ErrorIsRetryable(st.err) != (st.Kind == c15Retryable) {
						rt.Fatalf("harness: outcome class of %q inconsistent", st.Err)
					}
				}
				script[i] = st
			}
			cases[b] = c15Case{Method: ms[b].name, Attempts: att, Script: script}
		}

		results := make([]c15Result, batch)
		var wg sync.WaitGroup
		for b := range cases {
			wg.Add(1)
			go func(b int) {
				defer wg.Done()
				results[b] = c15Run(ms[b], cases[b])
			}(b)
		}
		wg.Wait()

		for b, c := range cases {
			nt := c.Attempts >= 2 && c.Script[0].Kind == c15Retryable
			labels := []string{"method:" + c.Method, fmt.Sprintf("attempts:%d", c.Attempts), fmt.Sprintf("calls:%d", len(results[b].calls))}
			exhausted := true
			for i := 0; i < int(c.Attempts); i++ {
				if c.Script[i].Kind != c15Retryable {
					exhausted = false
				}
			}
			if exhausted {
				labels = append(labels, "attempts-exhausted")
			}
			rec.Case(nt, c.key(), func() any { return c }, labels...)
			if sig, msg := c15Judge(ms[b], c, results[b]); sig != "" {
				rec.Fail(rt, sig, map[string]any{"case": c, "observed_calls": results[b].calls, "returned_error": fmt.Sprint(results[b].err), "returned_value": fmt.Sprint(results[b].val)},
					"%s attempts=%d script=%s: %s", c.Method, c.Attempts, c.key(), msg)
			}
		}
	})
}

// c15Equal compares returned values; protobuf messages carry internal state
// that printing them initialises, so they are compared with proto.Equal.
func c15Equal(a, b any) bool {
	ka, ok1 := a.([]*protocol.KeyComposite)
	kb, ok2 := b.([]*protocol.KeyComposite)
	if ok1 || ok2 {
		if !ok1 || !ok2 || len(ka) != len(kb) {
			return false
		}
		for i := range ka {
			if !proto.Equal(ka[i], kb[i]) {
				return false
			}
		}
		return true
	}
	return reflect.DeepEqual(a, b)
}

func sortErrs(es []error) {
	for i := range es {
		for j := i + 1; j < len(es); j++ {
			if bytes.Compare([]byte(es[j].Error()), []byte(es[i].Error())) < 0 {
				es[i], es[j] = es[j], es[i]
			}
		}
	}
}
