package rpcx

import (
	"errors"
	"bytes"
	"encoding/binary"
	"fmt"
	"io"
	"math"
	"strings"
	"testing"

	"go.miragespace.co/specter/spec/protocol"
	"go.miragespace.co/specter/spec/rpc"
	"verifharness/internal/ev"

	pool "github.com/libp2p/go-buffer-pool"
	"google.golang.org/protobuf/proto"
	"pgregory.net/rapid"
)

// ---- C38: length-prefixed framing (spec/rpc/rpc.go Send/Receive/BoundedReceive)

type framed interface {
	rpc.VTMarshaler
	proto.Message
}

var c38Types = []struct {
	name  string
	fresh func() framed
}{
	{"Stream", func() framed { return &protocol.Stream{} }},
	{"Connection", func() framed { return &protocol.Connection{} }},
	{"TunnelStatus", func() framed { return &protocol.TunnelStatus{} }},
	{"TunnelRoute", func() framed { return &protocol.TunnelRoute{} }},
	{"Link", func() framed { return &protocol.Link{} }},
}

func genStr() *rapid.Generator[string] {
	return rapid.Custom(func(t *rapid.T) string {
		switch rapid.IntRange(0, 9).Draw(t, "strKind") {
		case 0:
			return ""
		case 1: // around the 1- / 2-byte varint length boundary and pool size classes
			n := rapid.SampledFrom([]int{119, 120, 125, 126, 127, 128, 129, 255, 256, 1020, 1024, 4090, 16380, 16384, 16390}).Draw(t, "len")
			return strings.Repeat(rapid.StringN(1, 1, 1).Draw(t, "ch"), n)
		case 2:
			return rapid.String().Draw(t, "s")
		default:
			return rapid.StringN(0, 40, 80).Draw(t, "s")
		}
	})
}

func genEnum() *rapid.Generator[int32] {
	return rapid.OneOf(rapid.Int32Range(0, 12), rapid.SampledFrom([]int32{-1, math.MaxInt32, math.MinInt32, 127, 128, 300}))
}

func genNode() *rapid.Generator[*protocol.Node] {
	return rapid.Custom(func(t *rapid.T) *protocol.Node {
		if rapid.IntRange(0, 4).Draw(t, "nilNode") == 0 {
			return nil
		}
		return &protocol.Node{
			Id:         rapid.OneOf(rapid.Uint64(), rapid.SampledFrom([]uint64{0, 1, 127, 128, 1<<48 - 1, 1 << 48, math.MaxUint64})).Draw(t, "id"),
			Address:    genStr().Draw(t, "addr"),
			Unknown:    rapid.Bool().Draw(t, "unknown"),
			Rendezvous: rapid.Bool().Draw(t, "rdv"),
		}
	})
}

func genFramed() *rapid.Generator[framed] {
	return rapid.Custom(func(t *rapid.T) framed {
		switch rapid.IntRange(0, 4).Draw(t, "type") {
		case 0:
			return &protocol.Stream{Type: protocol.Stream_Type(genEnum().Draw(t, "e")), Target: genNode().Draw(t, "n")}
		case 1:
			return &protocol.Connection{Identity: genNode().Draw(t, "n"), CacheState: protocol.Connection_State(genEnum().Draw(t, "e1")),
				CacheDirection: protocol.Connection_Direction(genEnum().Draw(t, "e2")), Version: genStr().Draw(t, "v")}
		case 2:
			return &protocol.TunnelStatus{Status: protocol.TunnelStatusCode(genEnum().Draw(t, "e")), Error: genStr().Draw(t, "err")}
		case 3:
			return &protocol.TunnelRoute{ClientDestination: genNode().Draw(t, "n1"), ChordDestination: genNode().Draw(t, "n2"),
				TunnelDestination: genNode().Draw(t, "n3"), Hostname: genStr().Draw(t, "h")}
		default:
			return &protocol.Link{Alpn: protocol.Link_ALPN(genEnum().Draw(t, "e")), Hostname: genStr().Draw(t, "h"), Remote: genStr().Draw(t, "r")}
		}
	})
}

func typeName(m framed) string { return string(m.ProtoReflect().Descriptor().Name()) }

func freshLike(m framed) framed { return m.ProtoReflect().New().Interface().(framed) }

// chunkReader hands out the stream in generated chunk sizes (short reads) and
// counts what was consumed.
type chunkReader struct {
	data   []byte
	pos    int
	chunks []int
	i      int
}

func (r *chunkReader) Read(p []byte) (int, error) {
	if r.pos >= len(r.data) {
		return 0, io.EOF
	}
	n := len(p)
	if len(r.chunks) > 0 {
		if c := r.chunks[r.i%len(r.chunks)]; c < n {
			n = c
		}
		r.i++
	}
	if rem := len(r.data) - r.pos; rem < n {
		n = rem
	}
	copy(p, r.data[r.pos:r.pos+n])
	r.pos += n
	return n, nil
}

// spy wraps the destination message: it counts decodes and, before delegating,
// behaves like a concurrent user of the shared buffer pool (takes a buffer of
// the same size class and overwrites it). If receive had already given its
// buffer back, that buffer is the one being decoded.
type spy struct {
	framed
	decodes int
}

func (s *spy) UnmarshalVT(b []byte) error {
	s.decodes++
	q := pool.Get(len(b))
	for i := range q {
		q[i] = 0xA5
	}
	err := s.framed.UnmarshalVT(b)
	pool.Put(q)
	return err
}

// scribblePool overwrites whatever buffers of the relevant size classes are
// currently sitting in the pool (what any later user of the pool would do).
func scribblePool(sizes ...int) {
	for _, n := range sizes {
		if n <= 0 {
			continue
		}
		var held [][]byte
		for k := 0; k < 4; k++ {
			q := pool.Get(n)
			for i := range q {
				q[i] = 0x5A
			}
			held = append(held, q)
		}
		for _, q := range held {
			pool.Put(q)
		}
	}
}

type c38T interface {
	Fatalf(string, ...any)
	Helper()
}

func frameOf(t c38T, rec *ev.Recorder, m framed) []byte {
	t.Helper()
	var buf bytes.Buffer
	if err := rpc.Send(&buf, m); err != nil {
		rec.Fail(t, "send-failed", map[string]any{"type": typeName(m), "message": fmt.Sprint(m)}, "Send(%s) into a bytes.Buffer failed: %v", typeName(m), err)
	}
	return buf.Bytes()
}

func guarded(f func() error) (err error, panicked any) {
	defer func() { panicked = recover() }()
	return f(), nil
}

func hexHead(b []byte) string {
	if len(b) > 96 {
		return fmt.Sprintf("%x…(%d bytes)", b[:96], len(b))
	}
	return fmt.Sprintf("%x", b)
}

func TestC38(t *testing.T) {
	rec := ev.New(t, "C38")
	rec.Rule("rapid-generated sequences of 1..3 messages of the 5 framed types (Stream, Connection, TunnelStatus, TunnelRoute, Link; random fields incl. nil sub-messages, out-of-range enums, strings around varint/size-class boundaries up to 16 KiB) written with rpc.Send into one stream followed by random trailing bytes, read back through a reader with generated short-read chunking by Receive or BoundedReceive(bound in {size-1,size,size+1,0,size/2,2*size,MaxUint32}); or the stream truncated at a generated offset; or a frame with a declared length larger than what follows (declared <= 1 MiB). or a Send into a stream that accepts only k bytes of the frame and then fails (it must report the failure) followed by 1..3 Sends of other messages into healthy streams, each of which must carry exactly its own frame. Oracle: decoded message proto.Equal to the sent one, also after the shared buffer pool was overwritten and a further frame was sent/received; exactly prefix+size bytes consumed (rest intact, next frames decode); bound < size => error and the destination is never decoded into; truncated => error, no panic. Non-trivial: something follows the frame (trailing bytes or another frame), or the bound is within 1 of the frame size, or the stream is truncated. Distinct = distinct (stream bytes, mode, bound/cut, chunking).")
	rec.Assume("for the unbounded Receive, declared lengths are capped at 1 MiB (an arbitrary 4-byte prefix only exercises the allocator)",
		"whether a rejected oversized frame's body is left unread is recorded (class reject:body-left-unread) but not asserted: the statement only requires rejection without decoding")

	ev.RapidCheck(t, 5000, 200000, func(rt *rapid.T) {
		scenario := rapid.IntRange(0, 10).Draw(rt, "scenario")
		switch {
		case scenario == 10:
			c38SendAfterFailedSend(rt, rec)
		case scenario <= 5:
			c38RoundTrip(rt, rec)
		case scenario <= 7:
			c38Truncated(rt, rec)
		default:
			c38ShortBody(rt, rec)
		}
	})
}

func c38RoundTrip(rt *rapid.T, rec *ev.Recorder) {
	n := rapid.IntRange(1, 3).Draw(rt, "nmsgs")
	msgs := make([]framed, n)
	frames := make([][]byte, n)
	var stream []byte
	for i := range msgs {
		msgs[i] = genFramed().Draw(rt, "msg")
		frames[i] = frameOf(rt, rec, msgs[i])
		stream = append(stream, frames[i]...)
	}
	trailing := rapid.SliceOfN(rapid.Byte(), 0, 48).Draw(rt, "trailing")
	stream = append(stream, trailing...)
	chunks := rapid.SliceOfN(rapid.IntRange(1, 9), 0, 5).Draw(rt, "chunks")
	rd := &chunkReader{data: stream, chunks: chunks}

	decoded := make([]*spy, 0, n)
	offset := 0
	for i, m := range msgs {
		size := len(frames[i]) - rpc.LengthSize
		mode := rapid.IntRange(0, 7).Draw(rt, "mode")
		bounded := mode != 0
		var bound uint32
		switch mode {
		case 1:
			bound = uint32(max(size-1, 0))
		case 2:
			bound = uint32(size)
		case 3:
			bound = uint32(size + 1)
		case 4:
			bound = 0
		case 5:
			bound = uint32(size / 2)
		case 6:
			bound = uint32(2*size + 1)
		case 7:
			bound = math.MaxUint32
		}
		reject := bounded && uint64(bound) < uint64(size)
		follows := len(trailing) > 0 || i < n-1
		near := bounded && (int64(bound) >= int64(size)-1 && int64(bound) <= int64(size)+1)
		labels := []string{"roundtrip", "type:" + typeName(m)}
		if bounded {
			labels = append(labels, "bounded")
		} else {
			labels = append(labels, "unbounded")
		}
		if reject {
			labels = append(labels, "bound<size")
		}
		if near {
			labels = append(labels, fmt.Sprintf("bound=size%+d", int64(bound)-int64(size)))
		}
		if size == 0 {
			labels = append(labels, "empty-frame")
		}
		if len(chunks) > 0 {
			labels = append(labels, "short-reads")
		}
		doc := func() any {
			return map[string]any{"scenario": "roundtrip", "index": i, "type": typeName(m), "message": fmt.Sprint(m), "frame": hexHead(frames[i]), "size": size,
				"bounded": bounded, "bound": bound, "trailing": hexHead(trailing), "messages_in_stream": n, "chunks": chunks}
		}
		rec.Case(follows || near, fmt.Sprintf("RT %x|%d|%d|%v|%d|%v", stream, i, mode, bounded, bound, chunks), doc, labels...)

		dst := &spy{framed: freshLike(m)}
		before := rd.pos
		err, pan := guarded(func() error {
			if bounded {
				return rpc.BoundedReceive(rd, dst, bound)
			}
			return rpc.Receive(rd, dst)
		})
		if pan != nil {
			rec.Fail(rt, "receive-panicked", doc(), "receive panicked: %v", pan)
		}
		if reject {
			if err == nil {
				rec.Fail(rt, "oversized-frame-accepted", doc(), "BoundedReceive(bound=%d) accepted a %d-byte %s frame", bound, size, typeName(m))
			}
			if dst.decodes != 0 || !proto.Equal(dst.framed, freshLike(m)) {
				rec.Fail(rt, "oversized-frame-decoded", doc(), "BoundedReceive(bound=%d) rejected a %d-byte frame but decoded it first (decodes=%d, dst=%v)", bound, size, dst.decodes, dst.framed)
			}
			if rd.pos-before == rpc.LengthSize {
				rec.Add("reject:body-left-unread", 1)
			} else {
				rec.Add("reject:body-consumed", 1)
			}
			return // the stream position after a rejection is not specified
		}
		if err != nil {
			rec.Fail(rt, "valid-frame-rejected", doc(), "receive of a valid %d-byte %s frame (bounded=%v bound=%d) failed: %v", size, typeName(m), bounded, bound, err)
		}
		if !proto.Equal(dst.framed, m) {
			rec.Fail(rt, "roundtrip-mismatch", doc(), "sent %v, received %v", m, dst.framed)
		}
		offset += len(frames[i])
		if rd.pos != offset {
			rec.Fail(rt, "consumed-wrong-byte-count", doc(), "receive consumed %d bytes of the stream, the frame is %d bytes", rd.pos-before, len(frames[i]))
		}
		decoded = append(decoded, dst)
	}

	// what follows the last frame is intact for the next reader
	rest, _ := io.ReadAll(rd)
	if !bytes.Equal(rest, trailing) {
		rec.Fail(rt, "trailing-bytes-damaged", map[string]any{"scenario": "roundtrip", "stream": hexHead(stream), "trailing": hexHead(trailing), "rest": hexHead(rest)},
			"after %d frames the reader holds %x, want the trailing bytes %x", n, rest, trailing)
	}

	// the decoded messages must not alias pooled memory: overwrite the pool,
	// push another frame through Send/Receive, compare again.
	var sizes []int
	for _, f := range frames {
		sizes = append(sizes, len(f), len(f)-rpc.LengthSize)
	}
	scribblePool(sizes...)
	other := genFramed().Draw(rt, "other")
	of := frameOf(rt, rec, other)
	od := freshLike(other)
	if err := rpc.Receive(bytes.NewReader(of), od); err != nil || !proto.Equal(od, other) {
		rec.Fail(rt, "roundtrip-mismatch", map[string]any{"scenario": "second-frame", "type": typeName(other), "message": fmt.Sprint(other), "frame": hexHead(of)}, "second frame: err=%v sent %v received %v", err, other, od)
	}
	scribblePool(sizes...)
	for i, d := range decoded {
		if !proto.Equal(d.framed, msgs[i]) {
			rec.Fail(rt, "decoded-message-aliases-pooled-buffer", map[string]any{"scenario": "roundtrip", "type": typeName(msgs[i]), "message": fmt.Sprint(msgs[i]), "frame": hexHead(frames[i])},
				"message %d changed after later pool use: now %v, was sent as %v", i, d.framed, msgs[i])
		}
	}
}

// c38Truncated: a valid frame cut at every kind of offset must be an error.
func c38Truncated(rt *rapid.T, rec *ev.Recorder) {
	m := genFramed().Draw(rt, "msg")
	frame := frameOf(rt, rec, m)
	size := len(frame) - rpc.LengthSize
	var cut int
	switch rapid.IntRange(0, 4).Draw(rt, "cutKind") {
	case 0:
		cut = rapid.IntRange(0, min(rpc.LengthSize, len(frame)-1)).Draw(rt, "cut") // inside / right after the prefix
	case 1:
		cut = len(frame) - 1
	default:
		cut = rapid.IntRange(0, len(frame)-1).Draw(rt, "cut")
	}
	chunks := rapid.SliceOfN(rapid.IntRange(1, 9), 0, 4).Draw(rt, "chunks")
	bounded := rapid.Bool().Draw(rt, "bounded")
	bound := uint32(size + rapid.IntRange(0, 3).Draw(rt, "slack"))
	doc := func() any {
		return map[string]any{"scenario": "truncated", "type": typeName(m), "message": fmt.Sprint(m), "frame": hexHead(frame), "size": size, "cut": cut, "bounded": bounded, "bound": bound, "chunks": chunks}
	}
	labels := []string{"truncated", "type:" + typeName(m)}
	switch {
	case cut == 0:
		labels = append(labels, "cut:empty-stream")
	case cut < rpc.LengthSize:
		labels = append(labels, "cut:inside-prefix")
	case cut == rpc.LengthSize:
		labels = append(labels, "cut:after-prefix")
	default:
		labels = append(labels, "cut:inside-body")
	}
	rec.Case(true, fmt.Sprintf("TR %x|%d|%v|%d|%v", frame, cut, bounded, bound, chunks), doc, labels...)
	dst := &spy{framed: freshLike(m)}
	rd := &chunkReader{data: frame[:cut], chunks: chunks}
	err, pan := guarded(func() error {
		if bounded {
			return rpc.BoundedReceive(rd, dst, bound)
		}
		return rpc.Receive(rd, dst)
	})
	if pan != nil {
		rec.Fail(rt, "receive-panicked", doc(), "receive of a truncated stream panicked: %v", pan)
	}
	if err == nil {
		rec.Fail(rt, "truncated-frame-accepted", doc(), "a %d-byte frame cut to %d bytes was accepted (decoded %v)", len(frame), cut, dst.framed)
	}
}

// c38ShortBody: arbitrary declared length with fewer (arbitrary) bytes behind it.
func c38ShortBody(rt *rapid.T, rec *ev.Recorder) {
	typ := c38Types[rapid.IntRange(0, len(c38Types)-1).Draw(rt, "type")]
	body := rapid.SliceOfN(rapid.Byte(), 0, 64).Draw(rt, "body")
	declared := uint32(len(body)) + uint32(rapid.OneOf(rapid.IntRange(1, 8), rapid.IntRange(9, 1<<20-64)).Draw(rt, "excess"))
	bounded := rapid.Bool().Draw(rt, "bounded")
	bound := declared
	if bounded && rapid.Bool().Draw(rt, "tight") {
		bound = declared - 1
	}
	stream := binary.BigEndian.AppendUint32(nil, declared)
	stream = append(stream, body...)
	doc := func() any {
		return map[string]any{"scenario": "short-body", "type": typ.name, "declared": declared, "body": hexHead(body), "bounded": bounded, "bound": bound}
	}
	rec.Case(true, fmt.Sprintf("SB %s|%x|%v|%d", typ.name, stream, bounded, bound), doc, "short-body", "type:"+typ.name)
	dst := &spy{framed: typ.fresh()}
	err, pan := guarded(func() error {
		if bounded {
			return rpc.BoundedReceive(bytes.NewReader(stream), dst, bound)
		}
		return rpc.Receive(bytes.NewReader(stream), dst)
	})
	if pan != nil {
		rec.Fail(rt, "receive-panicked", doc(), "receive panicked: %v", pan)
	}
	if err == nil {
		rec.Fail(rt, "truncated-frame-accepted", doc(), "declared %d bytes, only %d present, accepted (decoded %v)", declared, len(body), dst.framed)
	}
	if dst.decodes != 0 {
		rec.Fail(rt, "incomplete-frame-decoded", doc(), "declared %d bytes, only %d present, but the destination was decoded into", declared, len(body))
	}
}

// FuzzC38 (thorough tier): arbitrary stream bytes and bound against
// BoundedReceive for every framed type. Oracle inside the target: no panic; a
// declared length above the bound or beyond the data is an error and nothing
// is decoded; on success exactly prefix+declared bytes were consumed and the
// result equals decoding the body directly.
func FuzzC38(f *testing.F) {
	for _, m := range []framed{
		&protocol.Stream{Type: protocol.Stream_RPC, Target: &protocol.Node{Id: 1 << 47, Address: "a:1"}},
		&protocol.TunnelStatus{Status: protocol.TunnelStatusCode_NO_DIRECT, Error: "nope"},
		&protocol.Link{Alpn: protocol.Link_HTTP2, Hostname: "h.example.com", Remote: "1.2.3.4:5"},
		&protocol.TunnelRoute{Hostname: "x"},
		&protocol.Connection{Version: "v"},
	} {
		var b bytes.Buffer
		rpc.Send(&b, m)
		f.Add(append(b.Bytes(), 0xde, 0xad), uint32(b.Len()-rpc.LengthSize))
		f.Add(b.Bytes()[:b.Len()-1], uint32(1024))
	}
	f.Add([]byte{0, 0, 0, 0}, uint32(0))
	f.Add([]byte{0xff, 0xff, 0xff, 0xff, 1, 2, 3}, uint32(16))
	rec := ev.New(f, "C38fuzz")
	f.Fuzz(func(t *testing.T, data []byte, bound uint32) {
		for _, typ := range c38Types {
			dst := &spy{framed: typ.fresh()}
			rd := &chunkReader{data: data}
			err, pan := guarded(func() error { return rpc.BoundedReceive(rd, dst, bound) })
			doc := map[string]any{"scenario": "fuzz", "type": typ.name, "data": fmt.Sprintf("%x", data), "bound": bound}
			rec.Case(len(data) >= rpc.LengthSize, fmt.Sprintf("%s|%x|%d", typ.name, data, bound), nil, "fuzz", "type:"+typ.name)
			if pan != nil {
				rec.Fail(t, "receive-panicked", doc, "BoundedReceive panicked: %v", pan)
			}
			if len(data) < rpc.LengthSize {
				if err == nil {
					rec.Fail(t, "truncated-frame-accepted", doc, "stream of %d bytes accepted", len(data))
				}
				continue
			}
			declared := binary.BigEndian.Uint32(data)
			switch {
			case declared > bound:
				if err == nil {
					rec.Fail(t, "oversized-frame-accepted", doc, "declared %d > bound %d accepted", declared, bound)
				}
				if dst.decodes != 0 {
					rec.Fail(t, "oversized-frame-decoded", doc, "declared %d > bound %d was decoded", declared, bound)
				}
			case uint64(declared) > uint64(len(data)-rpc.LengthSize):
				if err == nil {
					rec.Fail(t, "truncated-frame-accepted", doc, "declared %d, %d present, accepted", declared, len(data)-rpc.LengthSize)
				}
				if dst.decodes != 0 {
					rec.Fail(t, "incomplete-frame-decoded", doc, "declared %d, %d present, decoded", declared, len(data)-rpc.LengthSize)
				}
			default:
				body := data[rpc.LengthSize : rpc.LengthSize+int(declared)]
				ref := typ.fresh()
				refErr := ref.UnmarshalVT(append([]byte(nil), body...))
				if (err == nil) != (refErr == nil) {
					rec.Fail(t, "decode-differs-from-direct-decode", doc, "BoundedReceive err=%v, direct UnmarshalVT err=%v", err, refErr)
				}
				if err == nil {
					if !proto.Equal(dst.framed, ref) {
						rec.Fail(t, "decode-differs-from-direct-decode", doc, "BoundedReceive decoded %v, direct decode %v", dst.framed, ref)
					}
					if rd.pos != rpc.LengthSize+int(declared) {
						rec.Fail(t, "consumed-wrong-byte-count", doc, "consumed %d bytes, frame is %d", rd.pos, rpc.LengthSize+int(declared))
					}
				}
			}
		}
	})
}

// partialWriter accepts `accept` bytes in all and then fails: a stream that is reset, closed or
// runs into its write deadline in the middle of a frame.
type partialWriter struct {
	accept int
	got    []byte
}

func (p *partialWriter) Write(b []byte) (int, error) {
	room := p.accept - len(p.got)
	if room >= len(b) {
		p.got = append(p.got, b...)
		return len(b), nil
	}
	if room < 0 {
		room = 0
	}
	p.got = append(p.got, b[:room]...)
	return room, errors.New("verif: stream reset by peer")
}

// c38SendAfterFailedSend: a Send whose stream takes only part of the frame must report an error,
// and whatever it leaves behind (pooled buffers) must not leak into what later Sends put on other
// streams: each of those carries exactly one frame of its own message.
func c38SendAfterFailedSend(rt *rapid.T, rec *ev.Recorder) {
	first := genFramed().Draw(rt, "failing")
	ref := frameOf(rt, rec, first)
	cut := rapid.IntRange(0, max(len(ref)-1, 0)).Draw(rt, "acceptedBytes")
	if rapid.IntRange(0, 3).Draw(rt, "edge") == 0 {
		cut = rapid.SampledFrom([]int{0, 1, 3, 4, 5, len(ref) - 1}).Draw(rt, "edgeCut")
		cut = min(max(cut, 0), max(len(ref)-1, 0))
	}
	pw := &partialWriter{accept: cut}
	err, pn := guarded(func() error { return rpc.Send(pw, first) })
	doc := map[string]any{"failing_type": typeName(first), "frame_bytes": len(ref), "accepted_bytes": cut}
	rec.Case(true, fmt.Sprintf("failed-send|%x|%d", ref[:min(len(ref), 24)], cut), func() any { return doc }, "send-after-failed-send")
	if pn != nil {
		rec.Fail(rt, "send-panic", doc, "Send panicked on a stream that accepts %d of %d bytes: %v", cut, len(ref), pn)
	}
	if err == nil && len(ref) > cut {
		rec.Fail(rt, "short-send-reported-as-success", doc, "Send returned nil although the stream accepted %d of %d bytes", cut, len(ref))
	}
	n := rapid.IntRange(1, 3).Draw(rt, "later")
	for i := 0; i < n; i++ {
		m := genFramed().Draw(rt, "later-message")
		var healthy bytes.Buffer
		if err := rpc.Send(&healthy, m); err != nil {
			rec.Fail(rt, "send-failed", doc, "Send(%s) into a bytes.Buffer after a failed Send: %v", typeName(m), err)
		}
		got := healthy.Bytes()
		back := freshLike(m)
		rd := bytes.NewReader(got)
		rerr, rpn := guarded(func() error { return rpc.Receive(rd, back) })
		if rpn != nil || rerr != nil || !proto.Equal(back, m) || rd.Len() != 0 || len(got) != rpc.LengthSize+m.SizeVT() {
			doc["later_type"], doc["later_stream_hex"] = typeName(m), hexHead(got)
			rec.Fail(rt, "frame-polluted-by-earlier-failed-send", doc, "after a Send that failed part-way (%d of %d bytes accepted), Send #%d of a %s put %d bytes on a healthy stream (its frame is %d bytes); decoded equal=%v err=%v panic=%v unread=%d",
				cut, len(ref), i+1, typeName(m), len(got), rpc.LengthSize+m.SizeVT(), proto.Equal(back, m), rerr, rpn, rd.Len())
		}
	}
}
