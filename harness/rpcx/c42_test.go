package rpcx

import (
	"context"
	"fmt"
	"math/rand"
	"net"
	"sync"
	"sync/atomic"
	"testing"
	"time"

	"go.miragespace.co/specter/spec/protocol"
	"go.miragespace.co/specter/spec/transport"
	"verifharness/internal/ev"

	"go.uber.org/zap"
	"pgregory.net/rapid"
)

// ---- C42: transport.StreamRouter dispatch --------------------------------------

// fakeTransport only feeds AcceptStream; nothing else is used by the router.
type fakeTransport struct {
	ch chan *transport.StreamDelegate
}

func (f *fakeTransport) Identity() *protocol.Node { return &protocol.Node{Id: 1, Address: "fake"} }
func (f *fakeTransport) DialStream(context.Context, *protocol.Node, protocol.Stream_Type) (net.Conn, error) {
	return nil, fmt.Errorf("not used")
}
func (f *fakeTransport) AcceptStream() <-chan *transport.StreamDelegate      { return f.ch }
func (f *fakeTransport) ListConnected() []transport.ConnectedPeer            { return nil }
func (f *fakeTransport) SupportDatagram() bool                               { return false }
func (f *fakeTransport) ReceiveDatagram() <-chan *transport.DatagramDelegate { return nil }
func (f *fakeTransport) SendDatagram(*protocol.Node, []byte) error           { return nil }

// trackedConn is the stream handed to the router: Close is observable.
type trackedConn struct {
	net.Conn // nil: any other use would be a harness bug
	ev       *streamEvents
}

func (c *trackedConn) Close() error {
	c.ev.record("closed")
	return nil
}

// streamEvents collects what happened to one incoming stream.
type streamEvents struct {
	mu     sync.Mutex
	events []string // "closed" or "handler:<tag>"
	first  chan struct{}
	once   sync.Once
}

func newStreamEvents() *streamEvents { return &streamEvents{first: make(chan struct{})} }

func (s *streamEvents) record(e string) {
	s.mu.Lock()
	s.events = append(s.events, e)
	s.mu.Unlock()
	s.once.Do(func() { close(s.first) })
}

func (s *streamEvents) snapshot() []string {
	s.mu.Lock()
	defer s.mu.Unlock()
	return append([]string(nil), s.events...)
}

type c42Op struct {
	Op      string `json:"op"`   // reg-virtual | reg-physical | reg-tunnel | in-chord | in-tunnel | sync
	Kind    int32  `json:"kind"` // stream type
	ID      uint64 `json:"id"`   // virtual node id (registration target / incoming identity)
	Want    string `json:"want,omitempty"`
	Outcome string `json:"outcome,omitempty"`
}

type c42Case struct {
	Chord  bool    `json:"chord_transport"`
	Tunnel bool    `json:"tunnel_transport"`
	Ops    []c42Op `json:"ops"`
}

var c42IDs = []uint64{0, 1, 2, 3, 1 << 32, 1<<32 + 1, 1<<48 - 1, 1<<63 + 1}
var c42Kinds = []int32{0, 1, 2, 3, 4, 5, -1, 1 << 20}

func genC42Case() *rapid.Generator[c42Case] {
	return rapid.Custom(func(t *rapid.T) c42Case {
		c := c42Case{}
		switch rapid.IntRange(0, 5).Draw(t, "transports") {
		case 0:
			c.Chord = true
		case 1:
			c.Tunnel = true
		default:
			c.Chord, c.Tunnel = true, true
		}
		kinds := rapid.SliceOfNDistinct(rapid.SampledFrom(c42Kinds), 1, 3, rapid.ID[int32]).Draw(t, "kinds")
		ids := rapid.SliceOfNDistinct(rapid.SampledFrom(c42IDs), 1, 4, rapid.ID[uint64]).Draw(t, "ids")
		registered := map[string]bool{}
		n := rapid.IntRange(1, 20).Draw(t, "nops")
		for i := 0; i < n; i++ {
			kind := rapid.SampledFrom(kinds).Draw(t, "kind")
			id := rapid.SampledFrom(ids).Draw(t, "id")
			var op c42Op
			switch x := rapid.IntRange(0, 13).Draw(t, "op"); {
			case x <= 2:
				op = c42Op{Op: "reg-virtual", Kind: kind, ID: id}
			case x <= 4:
				op = c42Op{Op: "reg-physical", Kind: kind}
			case x == 5:
				op = c42Op{Op: "reg-tunnel", Kind: kind}
			case x <= 10:
				op = c42Op{Op: "in-chord", Kind: kind, ID: id}
			case x <= 12:
				op = c42Op{Op: "in-tunnel", Kind: kind, ID: id}
			default:
				op = c42Op{Op: "sync"}
			}
			if op.Op == "in-chord" && !c.Chord || op.Op == "in-tunnel" && !c.Tunnel {
				continue
			}
			if op.Op[:3] == "reg" {
				// each (table, kind, id) is registered at most once: the statement does not say which of two
				// handlers registered for the same key wins
				key := fmt.Sprintf("%s/%d/%d", op.Op, op.Kind, op.ID)
				if registered[key] {
					continue
				}
				registered[key] = true
			}
			c.Ops = append(c.Ops, op)
		}
		return c
	})
}

type c42Pending struct {
	opIdx      int
	ev         *streamEvents
	want       string // "handler:<tag>" or "closed"
	nontrivial bool
	labels     []string
}

// Waiting budgets for "nothing happened to this stream". The first wait only
// triggers a re-run of the same programme on a fresh router; only a silence
// that reproduces under the second, longer budget is reported. Once a silence
// has been confirmed in this process (the build under test demonstrably drops
// streams) the budgets shrink so that rapid can minimise the example quickly.
var (
	c42FirstWait      = 3 * time.Second
	c42SecondWait     = 20 * time.Second
	c42SilenceConfirm bool
)

// c42Run executes the case against a fresh router and returns the index of a
// stream that was neither handled nor closed within `wait` (or -1), and the
// first oracle failure (sig, message).
func c42Run(c *c42Case, wait time.Duration, record func(p *c42Pending)) (unresolved int, sig, msg string) {
	var chordT, tunnelT transport.Transport
	var chordCh, tunnelCh chan *transport.StreamDelegate
	if c.Chord {
		chordCh = make(chan *transport.StreamDelegate, 4)
		chordT = &fakeTransport{ch: chordCh}
	}
	if c.Tunnel {
		tunnelCh = make(chan *transport.StreamDelegate, 4)
		tunnelT = &fakeTransport{ch: tunnelCh}
	}
	router := transport.NewStreamRouter(zap.NewNop(), chordT, tunnelT)
	ctx, cancel := context.WithCancel(context.Background())
	defer cancel()
	router.Accept(ctx)

	virtual := map[string]string{}  // kind/id -> tag
	physical := map[int32]string{}  // kind -> tag
	tunnel := map[int32]string{}    // kind -> tag
	virtualKinds := map[int32]int{} // kind -> number of virtual registrations
	delegateOf := sync.Map{}        // *transport.StreamDelegate -> *streamEvents
	mkHandler := func(tag string) transport.StreamHandler {
		return func(d *transport.StreamDelegate) {
			if e, ok := delegateOf.Load(d); ok {
				e.(*streamEvents).record("handler:" + tag)
			}
		}
	}

	var pending, all []*c42Pending
	unresolved = -1
	settle := func() bool {
		for _, p := range pending {
			select {
			case <-p.ev.first:
			case <-time.After(wait):
				unresolved = p.opIdx
				return false
			}
		}
		return true
	}
	judge := func() (string, string) {
		for _, p := range pending {
			got := p.ev.snapshot()
			c.Ops[p.opIdx].Outcome = fmt.Sprint(got)
			if len(got) == 1 && got[0] == p.want {
				continue
			}
			op := c.Ops[p.opIdx]
			desc := fmt.Sprintf("op %d %s kind=%d id=%d: expected [%s], observed %v", p.opIdx, op.Op, op.Kind, op.ID, p.want, got)
			switch {
			case len(got) > 1:
				return "stream-dispatched-more-than-once", desc
			case p.want == "closed":
				return "unmatched-stream-given-to-a-handler", desc
			case got[0] == "closed":
				return "matching-stream-closed-instead-of-handled", desc
			default:
				return "stream-given-to-the-wrong-handler", desc
			}
		}
		return "", ""
	}

	for i := range c.Ops {
		op := &c.Ops[i]
		switch op.Op {
		case "reg-virtual", "reg-physical", "reg-tunnel", "sync":
			// registrations only take effect for later streams: settle everything in flight first
			if !settle() {
				return unresolved, "", ""
			}
			if s, m := judge(); s != "" {
				return -1, s, m
			}
			pending = pending[:0]
			tag := fmt.Sprintf("%s/%d/%d#%d", op.Op[min(4, len(op.Op)):], op.Kind, op.ID, i)
			switch op.Op {
			case "reg-virtual":
				virtual[fmt.Sprintf("%d/%d", op.Kind, op.ID)] = tag
				virtualKinds[op.Kind]++
				router.HandleChord(protocol.Stream_Type(op.Kind), &protocol.Node{Id: op.ID, Address: "vnode"}, mkHandler(tag))
			case "reg-physical":
				physical[op.Kind] = tag
				router.HandleChord(protocol.Stream_Type(op.Kind), nil, mkHandler(tag))
			case "reg-tunnel":
				tunnel[op.Kind] = tag
				router.HandleTunnel(protocol.Stream_Type(op.Kind), mkHandler(tag))
			}
		case "in-chord", "in-tunnel":
			se := newStreamEvents()
			d := &transport.StreamDelegate{
				Conn:     &trackedConn{ev: se},
				Identity: &protocol.Node{Id: op.ID, Address: "peer"},
				Kind:     protocol.Stream_Type(op.Kind),
			}
			delegateOf.Store(d, se)
			p := &c42Pending{opIdx: i, ev: se}
			vTag, vOK := virtual[fmt.Sprintf("%d/%d", op.Kind, op.ID)]
			pTag, pOK := physical[op.Kind]
			tTag, tOK := tunnel[op.Kind]
			if op.Op == "in-chord" {
				switch {
				case vOK:
					p.want, p.labels = "handler:"+vTag, []string{"chord:virtual-handler"}
					// competing: the physical handler, another vnode of this type or a tunnel handler of this type exists
					p.nontrivial = pOK || tOK || virtualKinds[op.Kind] > 1
				case pOK:
					p.want, p.labels = "handler:"+pTag, []string{"chord:physical-fallback"}
					if virtualKinds[op.Kind] > 0 {
						p.labels = append(p.labels, "chord:fallback-past-other-vnodes")
					}
					p.nontrivial = true
				default:
					p.want, p.labels = "closed", []string{"chord:no-handler"}
					p.nontrivial = tOK || virtualKinds[op.Kind] > 0 || len(virtual)+len(physical) > 0
				}
				op.Want = p.want
				pending = append(pending, p)
				all = append(all, p)
				chordCh <- d
			} else {
				if tOK {
					p.want, p.labels = "handler:"+tTag, []string{"tunnel:handler"}
					p.nontrivial = vOK || pOK || len(tunnel) > 1
				} else {
					p.want, p.labels = "closed", []string{"tunnel:no-handler"}
					p.nontrivial = vOK || pOK || len(tunnel) > 0
				}
				op.Want = p.want
				pending = append(pending, p)
				all = append(all, p)
				tunnelCh <- d
			}
			if record != nil {
				record(p)
			}
		}
	}
	if !settle() {
		return unresolved, "", ""
	}
	if s, m := judge(); s != "" {
		return -1, s, m
	}
	// late double dispatch: give stray goroutines a moment (not an oracle deadline), then look at every stream again
	time.Sleep(time.Millisecond)
	pending = all
	if s, m := judge(); s != "" {
		return -1, s, m
	}
	return -1, "", ""
}

func TestC42(t *testing.T) {
	rec := ev.New(t, "C42")
	rec.Rule("rapid-generated programmes over a fresh StreamRouter (chord transport, tunnel transport or both): registrations of virtual-node handlers (stream type, node id), node-wide chord handlers (type) and tunnel handlers (type) interleaved with incoming chord / tunnel streams (type, target id) fed through fake transports' AcceptStream; types from {0..5,-1,2^20}, ids from {0,1,2,3,2^32,2^32+1,2^48-1,2^63+1}; several streams in flight between registrations. Oracle (reference table kept by the harness): chord stream -> handler of (type,id) if registered, else node-wide handler of type, else Close; tunnel stream -> tunnel handler of type, else Close; exactly one of these happens once. Non-trivial: a competing registration exists for the stream (another handler of the same type in any table / another vnode), or the stream falls back to the node-wide handler, or it is closed although some handlers are registered. Concurrent-registration dimension (class concurrent-registration): 2..5 virtual nodes register their handler for one stream type on a fresh router at the same instant (spin barrier), 4000 (thorough 60000) rounds; afterwards the stream of every node must reach its own handler. Each evaluation is one incoming stream; distinct = distinct (programme prefix, stream).")
	rec.Assume("each (table, type, id) key is registered at most once per programme (the statement does not define which of two handlers for one key wins)",
		"a stream that is neither handled nor closed within 3 s triggers a re-run of the programme on a fresh router with a 20 s budget; only a reproduced silence is reported, otherwise the case is inconclusive")

	c42ConcurrentRegistration(t, rec, ev.Pick(4000, 60000))

	ev.RapidCheck(t, 300, 10000, func(rt *rapid.T) {
		c := genC42Case().Draw(rt, "case")
		prefix := fmt.Sprintf("%v/%v", c.Chord, c.Tunnel)
		var keys []string
		for _, op := range c.Ops {
			prefix += fmt.Sprintf("|%s.%d.%d", op.Op, op.Kind, op.ID)
			keys = append(keys, prefix)
		}
		unresolved, sig, msg := c42Run(&c, c42FirstWait, func(p *c42Pending) {
			op := c.Ops[p.opIdx]
			rec.Case(p.nontrivial, keys[p.opIdx], func() any {
				return map[string]any{"programme": c.Ops[:p.opIdx+1], "chord_transport": c.Chord, "tunnel_transport": c.Tunnel, "expected": p.want}
			}, append(p.labels, "stream:"+op.Op)...)
		})
		if unresolved >= 0 {
			again := c
			again.Ops = append([]c42Op(nil), c.Ops...)
			u2, _, _ := c42Run(&again, c42SecondWait, nil)
			if u2 < 0 {
				rec.Inconclusive("stream unresolved within the first wait but resolved on re-run")
				return
			}
			if !c42SilenceConfirm {
				c42SilenceConfirm = true
				c42FirstWait, c42SecondWait = time.Second, 3*time.Second
			}
			op := c.Ops[unresolved]
			rec.Fail(rt, "stream-neither-handled-nor-closed", c, "op %d %s kind=%d id=%d (expected %s): neither a handler ran nor Close was called (in two runs, the second with a longer wait)", unresolved, op.Op, op.Kind, op.ID, op.Want)
		}
		if sig != "" {
			rec.Fail(rt, sig, c, "%s", msg)
		}
	})
}

// c42ConcurrentRegistration: virtual nodes attach their handlers to a fresh router at the same
// time (spin barrier), for the same stream type; afterwards a stream for every (type, node) must
// reach exactly the handler registered for it.
func c42ConcurrentRegistration(t *testing.T, rec *ev.Recorder, rounds int) {
	rng := rand.New(rand.NewSource(ev.ShardSeed()))
	deadline := time.Now().Add(3 * time.Minute)
	for r := 0; r < rounds && time.Now().Before(deadline); r++ {
		k := 2 + rng.Intn(4)
		kind := c42Kinds[rng.Intn(len(c42Kinds))]
		ids := append([]uint64(nil), c42IDs...)
		rng.Shuffle(len(ids), func(i, j int) { ids[i], ids[j] = ids[j], ids[i] })
		ids = ids[:k]
		ch := make(chan *transport.StreamDelegate, k)
		router := transport.NewStreamRouter(zap.NewNop(), &fakeTransport{ch: ch}, nil)
		ctx, cancel := context.WithCancel(context.Background())
		router.Accept(ctx)
		delegateOf := sync.Map{}
		var ready, wg sync.WaitGroup
		var start atomic.Bool
		ready.Add(k)
		for _, id := range ids {
			wg.Add(1)
			go func(id uint64) {
				defer wg.Done()
				tag := fmt.Sprintf("handler:virtual/%d/%d", kind, id)
				h := func(d *transport.StreamDelegate) {
					if e, ok := delegateOf.Load(d); ok {
						e.(*streamEvents).record(tag)
					}
				}
				ready.Done()
				for !start.Load() {
				}
				router.HandleChord(protocol.Stream_Type(kind), &protocol.Node{Id: id, Address: "vnode"}, h)
			}(id)
		}
		ready.Wait()
		start.Store(true)
		wg.Wait()
		evs := make([]*streamEvents, k)
		for i, id := range ids {
			evs[i] = newStreamEvents()
			d := &transport.StreamDelegate{Conn: &trackedConn{ev: evs[i]}, Identity: &protocol.Node{Id: id, Address: "peer"}, Kind: protocol.Stream_Type(kind)}
			delegateOf.Store(d, evs[i])
			ch <- d
		}
		doc := map[string]any{"round": r, "stream_type": kind, "node_ids_registered_concurrently": ids}
		for i, id := range ids {
			select {
			case <-evs[i].first:
			case <-time.After(20 * time.Second):
				cancel()
				rec.Inconclusive("concurrent-registration: stream unresolved for 20 s")
				return
			}
			got := evs[i].snapshot()
			want := fmt.Sprintf("handler:virtual/%d/%d", kind, id)
			rec.Case(true, fmt.Sprintf("concurrent-reg|%d|%v|%d", kind, ids, id), func() any { return doc }, "concurrent-registration", fmt.Sprintf("registrants:%d", k))
			if len(got) != 1 || got[0] != want {
				cancel()
				sig := "stream-given-to-the-wrong-handler"
				if len(got) == 1 && got[0] == "closed" {
					sig = "matching-stream-closed-instead-of-handled"
				}
				doc["observed"] = got
				rec.Fail(t, sig, doc, "%d virtual nodes registered their handler for stream type %d at the same time; the stream for node %d then saw %v, expected [%s]", k, kind, id, got, want)
			}
		}
		cancel()
	}
}
