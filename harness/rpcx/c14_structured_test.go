package rpcx

import (
	"context"
	"errors"
	"fmt"
	"io"
	"net"
	"net/url"
	"os"
	"syscall"

	"go.miragespace.co/specter/spec/chord"
	"verifharness/internal/ev"

	"github.com/twitchtv/twirp"
	"pgregory.net/rapid"
)

// ---- C14: structured unknown errors ---------------------------------------------
//
// "Unknown" errors that a node can realistically hand to chord.Server are not
// only errors.New strings: transports return net.Error implementations,
// *net.OpError, *url.Error, syscall errnos, os.ErrDeadlineExceeded, forwarded
// twirp errors, and application types with their own Timeout / Is / Unwrap
// methods. Nothing below is assumed about how the origin classifies them: the
// oracle computes ErrorIsRetryable(origin) and errors.Is(origin, E) at the
// origin and demands the same answers at the caller.

// netErr is a custom net.Error implementation.
type netErr struct {
	msg       string
	timeout   bool
	temporary bool
}

func (e *netErr) Error() string   { return e.msg }
func (e *netErr) Timeout() bool   { return e.timeout }
func (e *netErr) Temporary() bool { return e.temporary }

var _ net.Error = (*netErr)(nil)

// timeoutWrap wraps another error and answers Timeout() itself.
type timeoutWrap struct {
	timeout bool
	err     error
}

func (e *timeoutWrap) Error() string { return "transport: " + e.err.Error() }
func (e *timeoutWrap) Timeout() bool { return e.timeout }
func (e *timeoutWrap) Unwrap() error { return e.err }

// isLike claims equality with one sentinel through an Is method only (no
// Unwrap, no As): a legitimate Go pattern for "my error counts as X".
type isLike struct {
	msg string
	as  error
}

func (e *isLike) Error() string        { return e.msg }
func (e *isLike) Is(target error) bool { return target == e.as }

// multiErr has the multi-error Unwrap shape.
type multiErr struct{ errs []error }

func (e *multiErr) Error() string {
	s := "multiple errors:"
	for _, x := range e.errs {
		s += " [" + x.Error() + "]"
	}
	return s
}
func (e *multiErr) Unwrap() []error { return e.errs }

// nilUnwrap has an Unwrap method that yields nothing.
type nilUnwrap struct{ msg string }

func (e *nilUnwrap) Error() string { return e.msg }
func (e *nilUnwrap) Unwrap() error { return nil }

type c14Structured struct {
	name string
	make func() error
	// observeOnly: equivalence with a chord sentinel is claimed through an Is
	// method only; see the Assume text. The outcome is recorded, not asserted.
	observeOnly bool
}

func c14StructuredErrors() []c14Structured {
	stale := chord.ErrKVStaleOwnership.Error()
	return []c14Structured{
		{"net.Error{timeout}", func() error { return &netErr{msg: "i/o timeout", timeout: true, temporary: true} }, false},
		{"net.Error{no-timeout}", func() error { return &netErr{msg: "connection reset by peer", temporary: true} }, false},
		{"net.Error{timeout,deadline-text}", func() error { return &netErr{msg: "context deadline exceeded", timeout: true} }, false},
		{"net.Error{timeout,client-timeout-text}", func() error {
			return &netErr{msg: "net/http: request canceled (Client.Timeout exceeded while awaiting headers)", timeout: true}
		}, false},
		{"OpError{read,os.ErrDeadlineExceeded}", func() error { return &net.OpError{Op: "read", Net: "udp", Err: os.ErrDeadlineExceeded} }, false},
		{"OpError{dial,ECONNREFUSED}", func() error {
			return &net.OpError{Op: "dial", Net: "tcp", Err: os.NewSyscallError("connect", syscall.ECONNREFUSED)}
		}, false},
		{"OpError{dial,ETIMEDOUT}", func() error {
			return &net.OpError{Op: "dial", Net: "tcp", Err: os.NewSyscallError("connect", syscall.ETIMEDOUT)}
		}, false},
		{"OpError{read,chord-message-inside}", func() error { return &net.OpError{Op: "read", Net: "udp", Err: errors.New(stale)} }, false},
		{"DNSError{timeout}", func() error {
			return &net.DNSError{Err: "i/o timeout", Name: "node-7.chord.example", Server: "10.0.0.2:53", IsTimeout: true}
		}, false},
		{"DNSError{notfound}", func() error {
			return &net.DNSError{Err: "no such host", Name: "node-7.chord.example", IsNotFound: true}
		}, false},
		{"url.Error{net timeout}", func() error {
			return &url.Error{Op: "Post", URL: "https://17.10.0.0.3:443/twirp/protocol.KVService/Put", Err: &netErr{msg: "i/o timeout", timeout: true}}
		}, false},
		{"url.Error{context.DeadlineExceeded}", func() error {
			return &url.Error{Op: "Post", URL: "https://17.10.0.0.3:443/twirp/protocol.KVService/Put", Err: context.DeadlineExceeded}
		}, false},
		{"url.Error{EOF}", func() error { return &url.Error{Op: "Post", URL: "https://chord/x", Err: io.EOF} }, false},
		{"os.ErrDeadlineExceeded", func() error { return os.ErrDeadlineExceeded }, false},
		{"Errno{ETIMEDOUT}", func() error { return syscall.ETIMEDOUT }, false},
		{"Errno{EAGAIN}", func() error { return syscall.EAGAIN }, false},
		{"Errno{ECONNRESET}", func() error { return syscall.ECONNRESET }, false},
		{"context.Canceled", func() error { return context.Canceled }, false},
		{"io.EOF", func() error { return io.EOF }, false},
		{"io.ErrUnexpectedEOF", func() error { return io.ErrUnexpectedEOF }, false},
		{"twirp{internal,cause=DeadlineExceeded}", func() error { return twirp.InternalErrorWith(context.DeadlineExceeded) }, false},
		{"twirp{forwarded request timed out}", func() error {
			return twirp.InternalErrorWith(fmt.Errorf("failed to do request: %w",
				&url.Error{Op: "Post", URL: "https://17.10.0.0.3:443/twirp/protocol.VNodeService/FindSuccessor", Err: context.DeadlineExceeded}))
		}, false},
		{"twirp{forwarded transport timeout}", func() error {
			return twirp.InternalErrorWith(fmt.Errorf("failed to do request: %w",
				&url.Error{Op: "Post", URL: "https://17.10.0.0.3:443/twirp/protocol.VNodeService/FindSuccessor", Err: &net.OpError{Op: "read", Net: "udp", Err: os.ErrDeadlineExceeded}}))
		}, false},
		{"twirp{code deadline_exceeded}", func() error { return twirp.NewError(twirp.DeadlineExceeded, "upstream took too long") }, false},
		{"twirp{code failed_precondition}", func() error { return twirp.NewError(twirp.FailedPrecondition, "not now") }, false},
		{"timeoutWrap{true,plain}", func() error { return &timeoutWrap{true, errors.New("stream stalled")} }, false},
		{"timeoutWrap{false,net timeout inside}", func() error { return &timeoutWrap{false, &netErr{msg: "i/o timeout", timeout: true}} }, false},
		{"timeoutWrap{true,chord nonretryable inside}", func() error { return &timeoutWrap{true, chord.ErrKVLeaseConflict} }, false},
		{"timeoutWrap{false,chord retryable inside}", func() error { return &timeoutWrap{false, chord.ErrKVPendingTransfer} }, false},
		{"Is-method{=DeadlineExceeded}", func() error { return &isLike{"quic: idle timeout", context.DeadlineExceeded} }, false},
		{"Is-method{=ErrKVStaleOwnership}", func() error { return &isLike{"ownership moved", chord.ErrKVStaleOwnership} }, true},
		{"Is-method{=ErrKVLeaseConflict}", func() error { return &isLike{"lease busy", chord.ErrKVLeaseConflict} }, true},
		{"multi{net timeout, plain}", func() error {
			return &multiErr{[]error{&netErr{msg: "i/o timeout", timeout: true}, errors.New("cleanup failed")}}
		}, false},
		{"multi{plain, chord retryable}", func() error { return &multiErr{[]error{errors.New("cleanup failed"), chord.ErrJoinInvalidState}} }, false},
		{"multi{net timeout, chord nonretryable}", func() error {
			return &multiErr{[]error{&netErr{msg: "i/o timeout", timeout: true}, chord.ErrNodeGone}}
		}, false},
		{"nil-Unwrap", func() error { return &nilUnwrap{"opaque failure"} }, false},
	}
}

// c14OriginTarget finds the defined chord error the origin error is (at the
// origin, by errors.Is). More than one match is outside the domain.
func c14OriginTarget(defs []c14Def, origin error) (target *c14Def, ambiguous bool) {
	for i := range defs {
		if errors.Is(origin, defs[i].err) {
			if target != nil {
				return nil, true
			}
			target = &defs[i]
		}
	}
	return target, false
}

// c14CheckStructured sends one structured origin error through one call path.
func c14CheckStructured(t c14T, rec *ev.Recorder, rig *c14Rig, defs []c14Def, registered map[string]bool, m c14Method, name, variant string, origin error, observeOnly bool) {
	t.Helper()
	if registered[origin.Error()] {
		return // by design an error IS the chord error whose exact message it carries (see Assume)
	}
	target, ambiguous := c14OriginTarget(defs, origin)
	if ambiguous {
		return
	}
	cell := c14Cell{method: m.name, origin: "structured:" + name, variant: variant, msg: origin.Error()}
	if observeOnly {
		got, _ := rig.run(m, origin)
		same := got != nil && chord.ErrorIsRetryable(got) == chord.ErrorIsRetryable(origin) && (target == nil || errors.Is(got, target.err))
		rec.Case(true, cell.method+"|"+cell.origin+"|"+cell.variant+"|"+cell.msg, func() any { return cell.doc(got) }, "method:"+m.name, "variant:"+variant, "origin:is-method-only(observed)")
		if same {
			rec.Add("observed:is-method-only-equivalence-kept", 1)
		} else {
			rec.Add("observed:is-method-only-equivalence-lost", 1)
		}
		return
	}
	c14Check(t, rec, rig, defs, m, origin, target, cell)
}

// c14StructuredProduct: every structured error x every wrapping x every call path.
func c14StructuredProduct(t c14T, rec *ev.Recorder, rig *c14Rig, defs []c14Def, registered map[string]bool, methods []c14Method) {
	t.Helper()
	structured := c14StructuredErrors()
	rec.Note("structured_unknown_errors", int64(len(structured)))
	for _, m := range methods {
		for _, v := range c14Variants {
			for _, s := range structured {
				c14CheckStructured(t, rec, rig, defs, registered, m, s.name, v.name, v.wrap(s.make()), s.observeOnly)
			}
		}
	}
}

// genStructuredError composes a random error chain out of the wrapper types a
// transport / RPC stack produces, around a random leaf.
func genStructuredError(msgs []string, sentinels []error) *rapid.Generator[error] {
	return rapid.Custom(func(t *rapid.T) error {
		var e error
		switch rapid.IntRange(0, 12).Draw(t, "leaf") {
		case 0:
			e = &netErr{msg: rapid.SampledFrom([]string{"i/o timeout", "timeout: no recent network activity", "handshake did not complete in time", "context deadline exceeded"}).Draw(t, "m"),
				timeout: rapid.Bool().Draw(t, "timeout"), temporary: rapid.Bool().Draw(t, "temp")}
		case 1:
			e = os.ErrDeadlineExceeded
		case 2:
			e = syscall.Errno(rapid.SampledFrom([]int{int(syscall.ETIMEDOUT), int(syscall.EAGAIN), int(syscall.ECONNREFUSED), int(syscall.ECONNRESET), int(syscall.EPIPE), int(syscall.EINTR)}).Draw(t, "errno"))
		case 3:
			e = context.Canceled
		case 4:
			e = rapid.SampledFrom([]error{io.EOF, io.ErrUnexpectedEOF, io.ErrClosedPipe, net.ErrClosed, os.ErrNotExist}).Draw(t, "std")
		case 5:
			e = errors.New(rapid.SampledFrom(msgs).Draw(t, "chordmsg")) // same text as a chord error, different value; always wrapped below
			e = fmt.Errorf("remote said: %w", e)
		case 6:
			e = &net.DNSError{Err: "lookup failed", Name: "n.example", IsTimeout: rapid.Bool().Draw(t, "timeout"), IsTemporary: rapid.Bool().Draw(t, "temp")}
		case 7:
			e = context.DeadlineExceeded // a genuine deadline deep inside: retryable at the origin
		case 8:
			e = &isLike{"idle timeout", context.DeadlineExceeded}
		case 10:
			e = rapid.SampledFrom(sentinels).Draw(t, "sentinel") // a real chord error deep inside
		case 9:
			e = twirp.NewError(rapid.SampledFrom([]twirp.ErrorCode{twirp.DeadlineExceeded, twirp.Unavailable, twirp.FailedPrecondition, twirp.Internal, twirp.Canceled}).Draw(t, "code"), "forwarded failure")
		default:
			e = errors.New(rapid.StringMatching(`[a-z ]{1,20}`).Draw(t, "plain"))
		}
		depth := rapid.IntRange(0, 3).Draw(t, "depth")
		for i := 0; i < depth; i++ {
			switch rapid.IntRange(0, 8).Draw(t, "wrapper") {
			case 0:
				e = &net.OpError{Op: rapid.SampledFrom([]string{"read", "write", "dial"}).Draw(t, "op"), Net: "udp", Err: e}
			case 1:
				e = &url.Error{Op: "Post", URL: "https://chord/twirp/x", Err: e}
			case 2:
				e = os.NewSyscallError("recvmsg", e)
			case 3:
				e = fmt.Errorf("forwarding to successor: %w", e)
			case 4:
				e = &timeoutWrap{rapid.Bool().Draw(t, "tw"), e}
			case 5:
				e = twirp.InternalErrorWith(e)
			case 6:
				e = &multiErr{[]error{errors.New("secondary"), e}}
			case 7:
				e = errors.Join(e, errors.New("while closing"))
			default:
				e = &opError{"rpc", e}
			}
		}
		return e
	})
}
