package rpcx

import (
	"context"
	"errors"
	"fmt"
	"go/ast"
	"go/parser"
	"go/token"
	"net/http"
	"net/http/httptest"
	"os"
	"path/filepath"
	"sort"
	"strconv"
	"strings"
	"testing"
	"time"

	chordimpl "go.miragespace.co/specter/chord"
	"go.miragespace.co/specter/spec/chord"
	"go.miragespace.co/specter/spec/protocol"
	"go.miragespace.co/specter/spec/rpc"
	"verifharness/internal/ev"

	"github.com/go-chi/chi/v5"
	"github.com/go-chi/chi/v5/middleware"
	"github.com/twitchtv/twirp"
	"go.uber.org/zap"
	"pgregory.net/rapid"
)

// ---- C14: chord errors keep identity / retryability across the RPC hop ------
//
// Path under test (all real code except the scripted node and the transport):
//
//   chordimpl.RemoteNode.<Method>            (chord/remote.go, ErrorMapper)
//     -> generated twirp protobuf client     (spec/protocol/*.twirp.go)
//       -> http.Client{Transport: in-process RoundTripper}
//         -> chi router + rpc.ExtractContext (as LocalNode.getRPCHandler mounts it)
//           -> generated twirp server        (error -> JSON body, status code)
//             -> chordimpl.Server            (chord/server_rpc.go, rpc.WrapError[KV])
//               -> scriptedVNode             (returns the generated origin error)

// Signatures of failure classes (stable; listed ones live in /verif/known_findings.d/rpcx.json).
const (
	sigC14Dropped          = "error-dropped-by-rpc"
	sigC14BareIdentity     = "bare-chord-error-not-recognised"
	sigC14WrappedIdentity  = "wrapped-chord-error-not-recognised"
	sigC14WrongIdentity    = "recognised-as-a-different-chord-error"
	sigC14BareRetry        = "bare-chord-error-retryability-changed"
	sigC14WrappedRetryLost = "wrapped-retryable-chord-error-not-retryable"
	sigC14WrappedRetryGain = "wrapped-nonretryable-chord-error-became-retryable"
	sigC14DeadlineRetry    = "deadline-exceeded-not-retryable"
	sigC14UnknownRetry     = "unknown-error-became-retryable"
	sigC14Invented         = "success-turned-into-error"
	sigC14UnknownIdentity  = "unknown-error-recognised-as-chord-error"
)

// scriptedVNode answers every chord.VNode method with the scripted error (or a
// harmless success when err is nil) and counts the calls it received.
type scriptedVNode struct {
	ident *protocol.Node
	err   error
	calls int
}

var _ chord.VNode = (*scriptedVNode)(nil)

func (s *scriptedVNode) hit() error               { s.calls++; return s.err }
func (s *scriptedVNode) ID() uint64               { return s.ident.GetId() }
func (s *scriptedVNode) Identity() *protocol.Node { return s.ident }
func (s *scriptedVNode) Ping() error              { return s.hit() }
func (s *scriptedVNode) Notify(chord.VNode) error { return s.hit() }
func (s *scriptedVNode) FindSuccessor(uint64) (chord.VNode, error) {
	if err := s.hit(); err != nil {
		return nil, err
	}
	return s, nil
}
func (s *scriptedVNode) GetSuccessors() ([]chord.VNode, error) {
	if err := s.hit(); err != nil {
		return nil, err
	}
	return []chord.VNode{s}, nil
}
func (s *scriptedVNode) GetPredecessor() (chord.VNode, error) {
	if err := s.hit(); err != nil {
		return nil, err
	}
	return s, nil
}
func (s *scriptedVNode) RequestToJoin(chord.VNode) (chord.VNode, []chord.VNode, error) {
	if err := s.hit(); err != nil {
		return nil, nil, err
	}
	return s, []chord.VNode{s}, nil
}
func (s *scriptedVNode) FinishJoin(bool, bool) error               { return s.hit() }
func (s *scriptedVNode) RequestToLeave(chord.VNode) error          { return s.hit() }
func (s *scriptedVNode) FinishLeave(bool, bool) error              { return s.hit() }
func (s *scriptedVNode) Put(context.Context, []byte, []byte) error { return s.hit() }
func (s *scriptedVNode) Get(context.Context, []byte) ([]byte, error) {
	return []byte("v"), s.hit()
}
func (s *scriptedVNode) Delete(context.Context, []byte) error               { return s.hit() }
func (s *scriptedVNode) PrefixAppend(context.Context, []byte, []byte) error { return s.hit() }
func (s *scriptedVNode) PrefixList(context.Context, []byte) ([][]byte, error) {
	return nil, s.hit()
}
func (s *scriptedVNode) PrefixContains(context.Context, []byte, []byte) (bool, error) {
	return false, s.hit()
}
func (s *scriptedVNode) PrefixRemove(context.Context, []byte, []byte) error { return s.hit() }
func (s *scriptedVNode) Acquire(context.Context, []byte, time.Duration) (uint64, error) {
	return 1, s.hit()
}
func (s *scriptedVNode) Renew(context.Context, []byte, time.Duration, uint64) (uint64, error) {
	return 2, s.hit()
}
func (s *scriptedVNode) Release(context.Context, []byte, uint64) error { return s.hit() }
func (s *scriptedVNode) Import(context.Context, [][]byte, []*protocol.KVTransfer) error {
	return s.hit()
}
func (s *scriptedVNode) ListKeys(context.Context, []byte) ([]*protocol.KeyComposite, error) {
	return nil, s.hit()
}

// handlerRT delivers the request to the server handler in process.
type handlerRT struct{ h http.Handler }

func (rt handlerRT) RoundTrip(req *http.Request) (*http.Response, error) {
	rec := httptest.NewRecorder()
	rt.h.ServeHTTP(rec, req)
	resp := rec.Result()
	resp.Request = req
	return resp, nil
}

type chordClient struct {
	protocol.VNodeService
	protocol.KVService
}

func (chordClient) RatePer(time.Duration) float64 { return 0 }

// c14Rig is one server (scripted node + scripted factory) and one RemoteNode
// talking to it.
type c14Rig struct {
	node       *scriptedVNode
	factoryErr error
	remote     *chordimpl.RemoteNode
	peer       chord.VNode
}

func newC14Rig(t testing.TB) *c14Rig {
	rig := &c14Rig{node: &scriptedVNode{ident: &protocol.Node{Id: 4242, Address: "127.0.0.1:4242"}}}
	peer := &scriptedVNode{ident: &protocol.Node{Id: 17, Address: "127.0.0.1:17"}}
	rig.peer = peer
	srv := &chordimpl.Server{
		LocalNode: rig.node,
		Factory: func(n *protocol.Node) (chord.VNode, error) {
			if rig.factoryErr != nil {
				rig.node.calls++
				return nil, rig.factoryErr
			}
			return &scriptedVNode{ident: n}, nil
		},
	}
	ns := protocol.NewVNodeServiceServer(srv)
	ks := protocol.NewKVServiceServer(srv)
	h := chi.NewRouter()
	h.Use(middleware.Recoverer)
	h.Mount(ns.PathPrefix(), rpc.ExtractContext(ns))
	h.Mount(ks.PathPrefix(), rpc.ExtractContext(ks))
	hc := &http.Client{Transport: handlerRT{h}}
	cl := chordClient{
		VNodeService: protocol.NewVNodeServiceProtobufClient("https://chord", hc),
		KVService:    protocol.NewKVServiceProtobufClient("https://chord", hc),
	}
	rn, err := chordimpl.NewRemoteNode(context.Background(), zap.NewNop(), cl, rig.node.ident)
	if err != nil {
		t.Fatalf("harness: NewRemoteNode: %v", err)
	}
	rig.remote = rn
	return rig
}

type c14Method struct {
	name    string
	factory bool // the error is produced by Server.Factory instead of the node
	call    func(r *c14Rig) error
}

func c14Methods() []c14Method {
	ctx := context.Background()
	k, v := []byte("key"), []byte("val")
	return []c14Method{
		{"Ping", false, func(r *c14Rig) error { return r.remote.Ping() }},
		{"Notify", false, func(r *c14Rig) error { return r.remote.Notify(r.peer) }},
		{"Notify@factory", true, func(r *c14Rig) error { return r.remote.Notify(r.peer) }},
		{"FindSuccessor", false, func(r *c14Rig) error { _, err := r.remote.FindSuccessor(99); return err }},
		{"GetSuccessors", false, func(r *c14Rig) error { _, err := r.remote.GetSuccessors(); return err }},
		{"GetPredecessor", false, func(r *c14Rig) error { _, err := r.remote.GetPredecessor(); return err }},
		{"RequestToJoin", false, func(r *c14Rig) error { _, _, err := r.remote.RequestToJoin(r.peer); return err }},
		{"RequestToJoin@factory", true, func(r *c14Rig) error { _, _, err := r.remote.RequestToJoin(r.peer); return err }},
		{"FinishJoin", false, func(r *c14Rig) error { return r.remote.FinishJoin(true, false) }},
		{"RequestToLeave", false, func(r *c14Rig) error { return r.remote.RequestToLeave(r.peer) }},
		{"RequestToLeave@factory", true, func(r *c14Rig) error { return r.remote.RequestToLeave(r.peer) }},
		{"FinishLeave", false, func(r *c14Rig) error { return r.remote.FinishLeave(false, true) }},
		{"Put", false, func(r *c14Rig) error { return r.remote.Put(ctx, k, v) }},
		{"Get", false, func(r *c14Rig) error { _, err := r.remote.Get(ctx, k); return err }},
		{"Delete", false, func(r *c14Rig) error { return r.remote.Delete(ctx, k) }},
		{"PrefixAppend", false, func(r *c14Rig) error { return r.remote.PrefixAppend(ctx, k, v) }},
		{"PrefixList", false, func(r *c14Rig) error { _, err := r.remote.PrefixList(ctx, k); return err }},
		{"PrefixContains", false, func(r *c14Rig) error { _, err := r.remote.PrefixContains(ctx, k, v); return err }},
		{"PrefixRemove", false, func(r *c14Rig) error { return r.remote.PrefixRemove(ctx, k, v) }},
		{"Acquire", false, func(r *c14Rig) error { _, err := r.remote.Acquire(ctx, k, time.Second); return err }},
		{"Renew", false, func(r *c14Rig) error { _, err := r.remote.Renew(ctx, k, time.Second, 1); return err }},
		{"Release", false, func(r *c14Rig) error { return r.remote.Release(ctx, k, 1) }},
		{"Import", false, func(r *c14Rig) error {
			return r.remote.Import(ctx, [][]byte{k}, []*protocol.KVTransfer{{SimpleValue: v}})
		}},
		{"ListKeys", false, func(r *c14Rig) error { _, err := r.remote.ListKeys(ctx, k); return err }},
	}
}

func (r *c14Rig) run(m c14Method, origin error) (got error, delivered bool) {
	r.node.calls = 0
	if m.factory {
		r.node.err, r.factoryErr = nil, origin
	} else {
		r.node.err, r.factoryErr = origin, nil
	}
	got = m.call(r)
	return got, r.node.calls > 0
}

// opError is a custom (non fmt) wrapper type.
type opError struct {
	op  string
	err error
}

func (e *opError) Error() string { return e.op + " failed: " + e.err.Error() }
func (e *opError) Unwrap() error { return e.err }

type c14Variant struct {
	name string
	wrap func(error) error
}

var c14Variants = []c14Variant{
	{"bare", func(e error) error { return e }},
	{"wrap-prefix", func(e error) error { return fmt.Errorf("storing KV to successor: %w", e) }},
	{"wrap-suffix", func(e error) error { return fmt.Errorf("%w (node 42)", e) }},
	{"wrap-double", func(e error) error { return fmt.Errorf("outer: %w", fmt.Errorf("inner: %w", e)) }},
	{"wrap-join", func(e error) error { return errors.Join(errors.New("secondary failure"), e) }},
	{"wrap-type", func(e error) error { return &opError{"import", e} }},
}

type c14Def struct {
	name      string
	msg       string
	err       error
	retryable bool // as declared in the source / registry
}

// parseErrorDefNames maps message -> variable name by parsing errors.go; only
// used for labels (the set itself comes from the registry accessor).
func parseErrorDefNames() (map[string]string, map[string]bool, error) {
	repo := os.Getenv("VERIF_REPO")
	if repo == "" {
		repo = "/repo"
	}
	fset := token.NewFileSet()
	f, err := parser.ParseFile(fset, filepath.Join(repo, "spec", "chord", "errors.go"), nil, 0)
	if err != nil {
		return nil, nil, err
	}
	names, retry := map[string]string{}, map[string]bool{}
	ast.Inspect(f, func(n ast.Node) bool {
		vs, ok := n.(*ast.ValueSpec)
		if !ok || len(vs.Names) != 1 || len(vs.Values) != 1 {
			return true
		}
		call, ok := vs.Values[0].(*ast.CallExpr)
		if !ok || len(call.Args) != 2 {
			return true
		}
		if id, ok := call.Fun.(*ast.Ident); !ok || id.Name != "errorDef" {
			return true
		}
		lit, ok := call.Args[0].(*ast.BasicLit)
		if !ok {
			return true
		}
		msg, err := strconv.Unquote(lit.Value)
		if err != nil {
			return true
		}
		names[msg] = vs.Names[0].Name
		if b, ok := call.Args[1].(*ast.Ident); ok {
			retry[msg] = b.Name == "true"
		}
		return true
	})
	return names, retry, nil
}

// c14Table is the compiled-in list of exported sentinels. The registry is the
// primary source (an error added later is enumerated automatically); the table
// makes sure a sentinel that silently dropped out of the registry is still
// sent through the RPC path instead of disappearing from the enumeration.
var c14Table = map[string]error{
	"ErrJoinInvalidState": chord.ErrJoinInvalidState, "ErrJoinTransferFailure": chord.ErrJoinTransferFailure,
	"ErrJoinInvalidSuccessor": chord.ErrJoinInvalidSuccessor, "ErrLeaveInvalidState": chord.ErrLeaveInvalidState,
	"ErrLeaveTransferFailure": chord.ErrLeaveTransferFailure, "ErrKVStaleOwnership": chord.ErrKVStaleOwnership,
	"ErrKVPendingTransfer": chord.ErrKVPendingTransfer, "ErrNodeGone": chord.ErrNodeGone, "ErrNodeNotStarted": chord.ErrNodeNotStarted,
	"ErrNodeNoSuccessor": chord.ErrNodeNoSuccessor, "ErrNodeNil": chord.ErrNodeNil, "ErrDuplicateJoinerID": chord.ErrDuplicateJoinerID,
	"ErrKVSimpleConflict": chord.ErrKVSimpleConflict, "ErrKVPrefixConflict": chord.ErrKVPrefixConflict,
	"ErrKVLeaseConflict": chord.ErrKVLeaseConflict, "ErrKVLeaseExpired": chord.ErrKVLeaseExpired,
	"ErrKVLeaseInvalidTTL": chord.ErrKVLeaseInvalidTTL, "ErrKVHashFnChanged": chord.ErrKVHashFnChanged,
}

func c14Defs(t testing.TB, rec *ev.Recorder) []c14Def {
	reg := chord.VerifErrorDefs()
	names, _, perr := parseErrorDefNames()
	if perr != nil {
		rec.Note("errors_go_parse_error", perr.Error())
	}
	var defs []c14Def
	seen := map[error]bool{}
	for msg, e := range reg {
		name := names[msg]
		if name == "" {
			name = "unnamed:" + msg
		}
		defs = append(defs, c14Def{name: name, msg: msg, err: e, retryable: chord.ErrorIsRetryable(e)})
		seen[e] = true
	}
	var outside int64
	for name, e := range c14Table {
		if !seen[e] {
			outside++
			defs = append(defs, c14Def{name: name, msg: e.Error(), err: e, retryable: chord.ErrorIsRetryable(e)})
		}
	}
	sort.Slice(defs, func(i, j int) bool { return defs[i].name < defs[j].name })
	if len(defs) < len(c14Table) {
		t.Fatalf("harness: only %d chord errors enumerated", len(defs))
	}
	rec.Note("defined_chord_errors", int64(len(defs)))
	rec.Note("sentinels_missing_from_registry", outside)
	rec.Note("errors_go_declarations_parsed", int64(len(names)))
	return defs
}

type c14Cell struct {
	method  string
	origin  string // name of the defined error, "DeadlineExceeded" or "arbitrary"
	variant string
	msg     string
}

func (c c14Cell) doc(got error) map[string]any {
	d := map[string]any{"method": c.method, "origin": c.origin, "variant": c.variant, "origin_message": c.msg}
	if got != nil {
		d["caller_error"] = got.Error()
		d["caller_error_type"] = fmt.Sprintf("%T", got)
		d["caller_retryable"] = chord.ErrorIsRetryable(got)
		if te, ok := got.(twirp.Error); ok {
			d["caller_twirp_code"] = string(te.Code())
			d["caller_twirp_meta"] = te.MetaMap()
		}
	}
	return d
}

type c14T interface {
	Fatalf(string, ...any)
	Helper()
}

// c14Fail fails unless sig is a listed known finding; returns true when the
// assertion was skipped because of the listing.
func c14Fail(t c14T, rec *ev.Recorder, sig string, cell c14Cell, got error, format string, args ...any) {
	t.Helper()
	if ev.Known("C14", sig) {
		rec.Excluded(sig)
		c14Known.add(sig, cell)
		return
	}
	rec.Fail(t, sig, cell.doc(got), format, args...)
}

// c14KnownStats records which cells of the finite product fall into a listed
// known-finding class (reported in the evidence so the extent is measured).
type c14KnownStats struct {
	byVariant, byMethod, byOrigin map[string]map[string]int64
}

func (s *c14KnownStats) add(sig string, c c14Cell) {
	if s.byVariant == nil {
		s.byVariant, s.byMethod, s.byOrigin = map[string]map[string]int64{}, map[string]map[string]int64{}, map[string]map[string]int64{}
	}
	for _, p := range []struct {
		m map[string]map[string]int64
		k string
	}{{s.byVariant, c.variant}, {s.byMethod, c.method}, {s.byOrigin, c.origin}} {
		if p.m[sig] == nil {
			p.m[sig] = map[string]int64{}
		}
		p.m[sig][p.k]++
	}
}

var c14Known c14KnownStats

// c14Check runs one cell and applies the oracle.
//   - target: the defined sentinel the origin error is / wraps (nil for
//     deadline and arbitrary errors)
func c14Check(t c14T, rec *ev.Recorder, rig *c14Rig, defs []c14Def, m c14Method, origin error, target *c14Def, cell c14Cell) {
	t.Helper()
	wantRetry := chord.ErrorIsRetryable(origin)
	wrapped := cell.variant != "bare"
	got, delivered := rig.run(m, origin)

	labels := []string{"method:" + m.name, "variant:" + cell.variant}
	switch {
	case target != nil && wantRetry:
		labels = append(labels, "origin:defined-retryable")
	case target != nil:
		labels = append(labels, "origin:defined-nonretryable")
	case cell.origin == "DeadlineExceeded":
		labels = append(labels, "origin:deadline")
	case strings.HasPrefix(cell.origin, "structured:"):
		labels = append(labels, "origin:structured-unknown")
		if wantRetry {
			labels = append(labels, "origin:structured-retryable-at-origin")
		}
		var te interface{ Timeout() bool }
		if errors.As(origin, &te) && te.Timeout() {
			labels = append(labels, "origin:has-Timeout()-true")
		}
	default:
		labels = append(labels, "origin:arbitrary")
	}
	rec.Case(wrapped || wantRetry, cell.method+"|"+cell.origin+"|"+cell.variant+"|"+cell.msg, func() any { return cell.doc(got) }, labels...)

	if !delivered {
		t.Fatalf("harness: %s never reached the scripted node (got %v)", m.name, got)
	}
	if got == nil {
		c14Fail(t, rec, sigC14Dropped, cell, got, "%s: origin error %q arrived as nil", m.name, origin)
		return
	}
	if target != nil {
		if !errors.Is(got, target.err) {
			sig := sigC14BareIdentity
			if wrapped {
				sig = sigC14WrappedIdentity
			}
			c14Fail(t, rec, sig, cell, got, "%s: origin %s (%s) is not recognised by the caller: errors.Is(%q [%T], %s) = false",
				m.name, target.name, cell.variant, got, got, target.name)
		}
	}
	// the caller must not see an identity the origin error did not have
	for i := range defs {
		if errors.Is(got, defs[i].err) && !errors.Is(origin, defs[i].err) {
			if target != nil {
				c14Fail(t, rec, sigC14WrongIdentity, cell, got, "%s: origin %s arrives as %s", m.name, target.name, defs[i].name)
			} else {
				c14Fail(t, rec, sigC14UnknownIdentity, cell, got, "%s: origin %q [%s] is no chord error but arrives as %s", m.name, origin, cell.origin, defs[i].name)
			}
		}
	}
	if gotRetry := chord.ErrorIsRetryable(got); gotRetry != wantRetry {
		var sig string
		switch {
		case target == nil && wantRetry: // retryable without being a chord error: a deadline
			sig = sigC14DeadlineRetry
		case target == nil:
			sig = sigC14UnknownRetry
		case !wrapped:
			sig = sigC14BareRetry
		case wantRetry:
			sig = sigC14WrappedRetryLost
		default:
			sig = sigC14WrappedRetryGain
		}
		c14Fail(t, rec, sig, cell, got, "%s: origin %s (%s) retryable=%v at the origin but retryable=%v at the caller (caller error %q [%T])",
			m.name, cell.origin, cell.variant, wantRetry, gotRetry, got, got)
	}
}

func TestC14(t *testing.T) {
	rec := ev.New(t, "C14")
	rec.Rule("Complete product {every errorDef-registered chord error (enumerated from the registry at run time) + context.DeadlineExceeded} x {bare, 5 wrappings: %w prefix, %w suffix, double %w, errors.Join, custom Unwrap type} x {24 RemoteNode call paths: 21 methods + 3 Server.Factory error paths}, each sent RemoteNode -> generated twirp client -> in-process RoundTripper -> generated twirp server -> chord.Server -> scripted node; plus, also as a complete product, a table of structured unknown errors (net.Error implementations with Timeout() true/false, *net.OpError, *net.DNSError, *url.Error, syscall.Errno, os.ErrDeadlineExceeded, context.Canceled, io errors, forwarded twirp errors, types with their own Timeout/Is/Unwrap methods, multi-errors, some carrying a chord error or a genuine deadline inside) x the same 6 forms x 24 call paths; plus rapid-generated arbitrary errors on random methods (sampled): random messages (incl. texts containing a chord message) and random chains of those wrapper types around random leaves. For every origin error the classification is COMPUTED at the origin (ErrorIsRetryable(origin), errors.Is(origin,E)). Oracle: errors.Is(got,E) for the chord error E the origin is; errors.Is(got,F) only if errors.Is(origin,F) (no invented identity, also for unknown errors); ErrorIsRetryable(got)==ErrorIsRetryable(origin). Non-trivial: wrapped or retryable at the origin. Distinct = distinct (method, origin error, wrapping, message).")
	rec.Assume("the HTTP wire between twirp client and server is replaced by an in-process RoundTripper (request/response bodies, headers and status codes are the real generated ones)",
		"an arbitrary error is one whose message is not exactly the message of a registered chord error (ErrorMapper identifies errors by message by design)",
		"an origin error is related to a chord sentinel through its Unwrap chain (what %w, errors.Join and wrapper types produce); types that claim equality with a chord sentinel through an Is method only are sent through as well but their outcome is recorded (observed:is-method-only-equivalence-*), not asserted; the same pattern for context.DeadlineExceeded IS asserted")
	rec.Exhaustive(true)

	c14Known = c14KnownStats{}
	rig := newC14Rig(t)
	methods := c14Methods()
	defs := c14Defs(t, rec)
	rec.Note("methods", int64(len(methods)))

	// machinery sanity: every path reaches the scripted node and success stays success
	for _, m := range methods {
		if m.factory {
			continue
		}
		got, delivered := rig.run(m, nil)
		rec.Case(false, m.name+"|ok", nil, "method:"+m.name, "origin:none")
		if !delivered {
			t.Fatalf("harness: %s did not reach the scripted node (err=%v)", m.name, got)
		}
		if got != nil {
			rec.Fail(t, sigC14Invented, map[string]any{"method": m.name, "caller_error": got.Error()}, "%s: node returned success, caller got %v", m.name, got)
		}
	}

	registered := map[string]bool{}
	var msgs []string
	for _, d := range defs {
		registered[d.msg] = true
		msgs = append(msgs, d.msg)
	}
	if ev.Shard() == 0 { // the finite product is identical in every shard: run it once
		c14Product(t, rec, rig, defs, methods)
		c14StructuredProduct(t, rec, rig, defs, registered, methods)
	}
	var sentinels []error
	for _, d := range defs {
		sentinels = append(sentinels, d.err)
	}

	// arbitrary errors (sampled)

	ev.RapidCheck(t, 3000, 60000, func(rt *rapid.T) {
		m := methods[rapid.IntRange(0, len(methods)-1).Draw(rt, "method")]
		if rapid.IntRange(0, 9).Draw(rt, "family") < 4 {
			// structured unknown errors: random chains of transport / RPC wrapper types
			origin := genStructuredError(msgs, sentinels).Draw(rt, "structured")
			v := c14Variants[rapid.IntRange(0, len(c14Variants)-1).Draw(rt, "variant")]
			c14CheckStructured(rt, rec, rig, defs, registered, m, "generated", v.name, v.wrap(origin), false)
			return
		}
		var msg string
		switch rapid.IntRange(0, 7).Draw(rt, "kind") {
		case 0:
			msg = rapid.String().Draw(rt, "msg")
		case 1: // a registered message with extra context, but NOT wrapped with %w
			msg = rapid.StringMatching(`[a-z ]{1,12}: `).Draw(rt, "prefix") + rapid.SampledFrom(msgs).Draw(rt, "base")
		case 2:
			msg = rapid.SampledFrom(msgs).Draw(rt, "base") + rapid.StringMatching(`[ :.][a-z0-9 ]{0,12}`).Draw(rt, "suffix")
		case 3:
			msg = strings.ToUpper(rapid.SampledFrom(msgs).Draw(rt, "base"))
		case 4: // same text as the deadline error without being it
			msg = rapid.SampledFrom([]string{"context deadline exceeded", "context canceled", "EOF", "", " ", "chord: ", "chord/kv: "}).Draw(rt, "fixed")
		case 5: // truncated registered message
			b := rapid.SampledFrom(msgs).Draw(rt, "base")
			msg = b[:rapid.IntRange(0, len(b)-1).Draw(rt, "cut")]
		case 6:
			msg = rapid.StringMatching(`[a-zA-Z0-9 _/:.\-"\\{}]{1,60}`).Draw(rt, "msg")
		default:
			msg = "twirp error internal: " + rapid.SampledFrom(msgs).Draw(rt, "base")
		}
		if registered[msg] {
			rt.Skip("message equals a registered chord error")
		}
		var origin error
		variant := "bare"
		switch rapid.IntRange(0, 3).Draw(rt, "shape") {
		case 0:
			origin = errors.New(msg)
		case 1:
			origin = fmt.Errorf("ctx: %w", errors.New(msg))
			variant = "wrap-prefix"
		case 2:
			origin = twirp.NewError(twirp.Unavailable, msg)
		default:
			origin = &opError{"op", errors.New(msg)}
			variant = "wrap-type"
		}
		if registered[origin.Error()] {
			rt.Skip("message equals a registered chord error")
		}
		c14Check(rt, rec, rig, defs, m, origin, nil, c14Cell{method: m.name, origin: "arbitrary", variant: variant, msg: origin.Error()})
	})
}

// c14Product runs the witnesses of the listed known findings and the complete
// finite product.
func c14Product(t *testing.T, rec *ev.Recorder, rig *c14Rig, defs []c14Def, methods []c14Method) {
	putM, getM := methods[12], methods[13]
	if putM.name != "Put" || getM.name != "Get" {
		t.Fatalf("harness: method table order changed")
	}
	var stale *c14Def
	for i := range defs {
		if defs[i].err == chord.ErrKVStaleOwnership {
			stale = &defs[i]
		}
	}
	if stale == nil {
		t.Fatalf("harness: ErrKVStaleOwnership not in the registry")
	}

	// deterministic witnesses of the listed known findings
	if ev.Known("C14", sigC14WrappedIdentity) || ev.Known("C14", sigC14WrappedRetryLost) {
		origin := fmt.Errorf("storing KV to successor: %w", chord.ErrKVStaleOwnership)
		got, _ := rig.run(putM, origin)
		if ev.Known("C14", sigC14WrappedIdentity) {
			rec.Witnessed(sigC14WrappedIdentity, got != nil && !errors.Is(got, chord.ErrKVStaleOwnership))
		}
		if ev.Known("C14", sigC14WrappedRetryLost) {
			rec.Witnessed(sigC14WrappedRetryLost, got != nil && chord.ErrorIsRetryable(origin) && !chord.ErrorIsRetryable(got))
		}
	}
	if ev.Known("C14", sigC14DeadlineRetry) {
		got, _ := rig.run(getM, context.DeadlineExceeded)
		rec.Witnessed(sigC14DeadlineRetry, got != nil && chord.ErrorIsRetryable(context.DeadlineExceeded) && !chord.ErrorIsRetryable(got))
	}

	// the complete product
	for _, m := range methods {
		for _, v := range c14Variants {
			for i := range defs {
				d := &defs[i]
				c14Check(t, rec, rig, defs, m, v.wrap(d.err), d, c14Cell{method: m.name, origin: d.name, variant: v.name, msg: d.msg})
			}
			c14Check(t, rec, rig, defs, m, v.wrap(context.DeadlineExceeded), nil,
				c14Cell{method: m.name, origin: "DeadlineExceeded", variant: v.name, msg: context.DeadlineExceeded.Error()})
		}
	}

	if c14Known.byVariant != nil {
		rec.Note("known_finding_cells_by_variant", c14Known.byVariant)
		rec.Note("known_finding_cells_by_method", c14Known.byMethod)
		rec.Note("known_finding_cells_by_origin", c14Known.byOrigin)
	}

}
