package rpcx

import (
	"bytes"
	"context"
	"encoding/binary"
	"errors"
	"fmt"
	"math/rand"
	"sync"
	"testing"
	"time"

	"go.miragespace.co/specter/spec/chord"
	"go.miragespace.co/specter/spec/protocol"
	"verifharness/internal/ev"
)

// ---- C15, concurrency dimension -------------------------------------------------
//
// One wrapper (chord.WrapRetryKV) is shared by G goroutines, as the single
// wrapped root node is shared by every request handler in cmd/server. Each
// goroutine issues K calls back to back after a common barrier; every call has
// its own context (live: background / cancellable / far deadline; dead:
// already cancelled / already expired) and its own outcome script, looked up
// by the key argument. The per-call oracle is the sequential one and applies
// to every call whose OWN context is live: such a call must issue exactly the
// reference number of underlying calls and return the first success / last
// error of its own script, whatever the other callers' contexts are.

const (
	c15CtxBackground = iota
	c15CtxCancellable
	c15CtxFarDeadline
	c15CtxCancelled
	c15CtxExpired
)

var c15CtxNames = []string{"live:background", "live:cancellable", "live:far-deadline", "dead:cancelled", "dead:expired"}

var (
	c15ConcVal = []byte("the-value")
	c15ConcTTL = 7 * time.Second
	c15ConcTok = uint64(77)
)

type c15ConcCall struct {
	method  int
	ctxKind int
	script  []c15Step
	// written by the inner node (only ever from the calling goroutine, because
	// retry-go runs the function synchronously)
	seen []string
	// result
	val      any
	err      error
	panicked any
}

type c15SharedNode struct {
	chord.VNode
	calls [][]*c15ConcCall // [goroutine][iteration]
}

func c15ConcKey(g, i int) []byte {
	k := make([]byte, 8)
	binary.BigEndian.PutUint32(k, uint32(g))
	binary.BigEndian.PutUint32(k[4:], uint32(i))
	return k
}

func (n *c15SharedNode) next(key []byte, argsOK bool) (int, error) {
	if len(key) != 8 {
		return 0, errors.New("harness: foreign key")
	}
	g, i := int(binary.BigEndian.Uint32(key)), int(binary.BigEndian.Uint32(key[4:]))
	if g >= len(n.calls) || i >= len(n.calls[g]) {
		return 0, errors.New("harness: key out of range")
	}
	st := n.calls[g][i]
	idx := len(st.seen)
	if argsOK {
		st.seen = append(st.seen, "ok")
	} else {
		st.seen = append(st.seen, "different arguments")
	}
	if idx >= len(st.script) {
		return idx, errors.New("harness: script exhausted")
	}
	return idx, st.script[idx].err
}

func (n *c15SharedNode) Put(_ context.Context, k, v []byte) error {
	_, err := n.next(k, bytes.Equal(v, c15ConcVal))
	return err
}
func (n *c15SharedNode) Get(_ context.Context, k []byte) ([]byte, error) {
	i, err := n.next(k, true)
	if err != nil {
		return nil, err
	}
	return c15Bytes(i), nil
}
func (n *c15SharedNode) Delete(_ context.Context, k []byte) error {
	_, err := n.next(k, true)
	return err
}
func (n *c15SharedNode) PrefixAppend(_ context.Context, p, c []byte) error {
	_, err := n.next(p, bytes.Equal(c, c15ConcVal))
	return err
}
func (n *c15SharedNode) PrefixList(_ context.Context, p []byte) ([][]byte, error) {
	i, err := n.next(p, true)
	if err != nil {
		return nil, err
	}
	return c15List(i), nil
}
func (n *c15SharedNode) PrefixContains(_ context.Context, p, c []byte) (bool, error) {
	i, err := n.next(p, bytes.Equal(c, c15ConcVal))
	if err != nil {
		return false, err
	}
	return c15Bool(i), nil
}
func (n *c15SharedNode) PrefixRemove(_ context.Context, p, c []byte) error {
	_, err := n.next(p, bytes.Equal(c, c15ConcVal))
	return err
}
func (n *c15SharedNode) Acquire(_ context.Context, l []byte, ttl time.Duration) (uint64, error) {
	i, err := n.next(l, ttl == c15ConcTTL)
	if err != nil {
		return 0, err
	}
	return c15Token(i), nil
}
func (n *c15SharedNode) Renew(_ context.Context, l []byte, ttl time.Duration, prev uint64) (uint64, error) {
	i, err := n.next(l, ttl == c15ConcTTL && prev == c15ConcTok)
	if err != nil {
		return 0, err
	}
	return c15Token(i), nil
}
func (n *c15SharedNode) Release(_ context.Context, l []byte, tok uint64) error {
	_, err := n.next(l, tok == c15ConcTok)
	return err
}
func (n *c15SharedNode) ListKeys(_ context.Context, p []byte) ([]*protocol.KeyComposite, error) {
	i, err := n.next(p, true)
	if err != nil {
		return nil, err
	}
	return c15Keys(i), nil
}

type c15ConcMethod struct {
	name  string
	call  func(w chord.VNode, ctx context.Context, key []byte) (any, error)
	value func(i int) any
}

func c15ConcMethods() []c15ConcMethod {
	v, ttl, tok := c15ConcVal, c15ConcTTL, c15ConcTok
	return []c15ConcMethod{
		{"Put", func(w chord.VNode, ctx context.Context, k []byte) (any, error) { return nil, w.Put(ctx, k, v) }, nil},
		{"Get", func(w chord.VNode, ctx context.Context, k []byte) (any, error) { return w.Get(ctx, k) }, func(i int) any { return c15Bytes(i) }},
		{"Delete", func(w chord.VNode, ctx context.Context, k []byte) (any, error) { return nil, w.Delete(ctx, k) }, nil},
		{"PrefixAppend", func(w chord.VNode, ctx context.Context, k []byte) (any, error) { return nil, w.PrefixAppend(ctx, k, v) }, nil},
		{"PrefixList", func(w chord.VNode, ctx context.Context, k []byte) (any, error) { return w.PrefixList(ctx, k) }, func(i int) any { return c15List(i) }},
		{"PrefixContains", func(w chord.VNode, ctx context.Context, k []byte) (any, error) { return w.PrefixContains(ctx, k, v) }, func(i int) any { return c15Bool(i) }},
		{"PrefixRemove", func(w chord.VNode, ctx context.Context, k []byte) (any, error) { return nil, w.PrefixRemove(ctx, k, v) }, nil},
		{"Acquire", func(w chord.VNode, ctx context.Context, k []byte) (any, error) { return w.Acquire(ctx, k, ttl) }, func(i int) any { return c15Token(i) }},
		{"Renew", func(w chord.VNode, ctx context.Context, k []byte) (any, error) { return w.Renew(ctx, k, ttl, tok) }, func(i int) any { return c15Token(i) }},
		{"Release", func(w chord.VNode, ctx context.Context, k []byte) (any, error) { return nil, w.Release(ctx, k, tok) }, nil},
		{"ListKeys", func(w chord.VNode, ctx context.Context, k []byte) (any, error) { return w.ListKeys(ctx, k) }, func(i int) any { return c15Keys(i) }},
	}
}

type c15CtxKey struct{}

// c15Concurrent runs `groups` shared-wrapper groups; returns on the first
// oracle failure (reported through rec.Fail).
func c15Concurrent(t *testing.T, rec *ev.Recorder, retryable, fatal []error, groups, callsPerGoroutine int) {
	methods := c15ConcMethods()
	for grp := 0; grp < groups; grp++ {
		rng := rand.New(rand.NewSource(ev.ShardSeed()*131 + int64(grp)))
		G := 4 + rng.Intn(13) // 4..16 goroutines on one wrapper
		attempts := uint(1 + rng.Intn(5))
		pDead := []float64{0.1, 0.3, 0.5}[rng.Intn(3)]
		node := &c15SharedNode{calls: make([][]*c15ConcCall, G)}
		for g := range node.calls {
			node.calls[g] = make([]*c15ConcCall, callsPerGoroutine)
			for i := range node.calls[g] {
				c := &c15ConcCall{method: rng.Intn(len(methods)), script: make([]c15Step, attempts+1)}
				if rng.Float64() < pDead {
					c.ctxKind = c15CtxCancelled + rng.Intn(2)
				} else {
					c.ctxKind = rng.Intn(3)
				}
				for s := range c.script {
					var st c15Step
					x := rng.Float64()
					// re-issues sleep up to 100 ms each (library jitter): keep them rare so that the
					// goroutines spend their time overlapping inside the wrapper
					pRetry := 0.004
					if s > 0 {
						pRetry = 0.4
					}
					switch {
					case x < pRetry:
						st.Kind, st.err = c15Retryable, retryable[rng.Intn(len(retryable))]
					case x < pRetry+(1-pRetry)*0.6:
						st.Kind = c15OK
					default:
						st.Kind, st.err = c15Fatal, fatal[rng.Intn(len(fatal))]
					}
					if st.err != nil && rng.Intn(2) == 0 {
						st.err = fmt.Errorf("call %d: %w", s, st.err)
					}
					if st.err != nil {
						st.Err = st.err.Error()
					}
					c.script[s] = st
				}
				node.calls[g][i] = c
			}
		}
		w := chord.WrapRetryKV(node, time.Microsecond, attempts)

		start := make(chan struct{})
		var wg sync.WaitGroup
		for g := 0; g < G; g++ {
			wg.Add(1)
			go func(g int) {
				defer wg.Done()
				// this goroutine's own contexts
				bases := make([]context.Context, 5)
				bases[c15CtxBackground] = context.Background()
				var cancels []context.CancelFunc
				c1, cf1 := context.WithCancel(context.Background())
				bases[c15CtxCancellable] = c1
				c2, cf2 := context.WithTimeout(context.Background(), time.Hour)
				bases[c15CtxFarDeadline] = c2
				c3, cf3 := context.WithCancel(context.Background())
				cf3()
				bases[c15CtxCancelled] = c3
				c4, cf4 := context.WithDeadline(context.Background(), time.Now().Add(-time.Hour))
				bases[c15CtxExpired] = c4
				cancels = append(cancels, cf1, cf2, cf4)
				defer func() {
					for _, c := range cancels {
						c()
					}
				}()
				<-start
				for i, c := range node.calls[g] {
					ctx := context.WithValue(bases[c.ctxKind], c15CtxKey{}, i) // a distinct context value per call
					key := c15ConcKey(g, i)
					func() {
						defer func() { c.panicked = recover() }()
						c.val, c.err = methods[c.method].call(w, ctx, key)
					}()
				}
			}(g)
		}
		close(start)
		wg.Wait()

		for g := range node.calls {
			for i, c := range node.calls[g] {
				m := methods[c.method]
				cc := c15Case{Method: m.name, Attempts: attempts, Script: c.script}
				live := c.ctxKind <= c15CtxFarDeadline
				doc := func() any {
					return map[string]any{"mode": "shared-wrapper", "goroutines": G, "goroutine": g, "iteration": i, "context": c15CtxNames[c.ctxKind], "case": cc,
						"underlying_calls": len(c.seen), "returned_error": fmt.Sprint(c.err), "returned_value": fmt.Sprint(c.val), "share_of_dead_contexts": pDead}
				}
				labels := []string{"shared-wrapper", "method:" + m.name, "ctx:" + c15CtxNames[c.ctxKind], fmt.Sprintf("attempts:%d", attempts)}
				if len(c.seen) > 1 {
					labels = append(labels, "shared-wrapper:re-issued")
				}
				rec.Case(live, "CONC|"+c15CtxNames[c.ctxKind]+"|"+cc.key(), doc, labels...)
				if !live {
					// the statement says nothing about a call whose own context is already dead
					if c.panicked != nil {
						rec.Fail(t, "wrapper-panicked", doc(), "panic: %v", c.panicked)
					}
					continue
				}
				if c.panicked == nil && len(c.seen) == 0 {
					rec.Fail(t, "live-context-call-never-issued", doc(), "%s by goroutine %d/%d (own context %s) on a shared wrapper returned (%v, %v) without calling the node at all",
						m.name, g, G, c15CtxNames[c.ctxKind], c.val, c.err)
				}
				res := c15Result{val: c.val, err: c.err, calls: c.seen, panicked: c.panicked}
				if sig, msg := c15Judge(c15Method{name: m.name, rendered: "ok", value: m.value}, cc, res); sig != "" {
					rec.Fail(t, sig, doc(), "shared wrapper, goroutine %d/%d, own context %s: %s attempts=%d script=%s: %s", g, G, c15CtxNames[c.ctxKind], m.name, attempts, cc.key(), msg)
				}
			}
		}
	}
}
