package tuns

import (
	"context"
	"fmt"
	"testing"

	"go.miragespace.co/specter/kv/memory"
	"go.miragespace.co/specter/spec/chord"
	"go.miragespace.co/specter/spec/protocol"
	"go.miragespace.co/specter/spec/tun"
	"verifharness/internal/ev"

	"pgregory.net/rapid"
)

// ---- C51: GetNodes ---------------------------------------------------------------------

// succNode is a successor-list entry: identity only (GetNodes must not call
// anything else on it; the embedded nil interface would panic).
type succNode struct {
	chord.VNode
	ident *protocol.Node
}

func (n *succNode) ID() uint64               { return n.ident.GetId() }
func (n *succNode) Identity() *protocol.Node { return n.ident }

type c51Entry struct {
	Nil  bool   `json:"nil,omitempty"`
	ID   uint64 `json:"id,omitempty"`
	Addr string `json:"addr,omitempty"`
}

func TestC51(t *testing.T) {
	rec := ev.New(t, "C51")
	rec.Rule("rapid-generated successor lists (0..8 entries) over physical addresses {self, a, b, c, d} with distinct virtual-node ids, nil entries and repeats; for every address the destination record is present, missing or undecodable (generated); real GetNodes handler over a real kv/memory store. Oracle: candidates = self followed by the first occurrence of each further address in successor order, cut at three; answer = the tunnel node stored in each candidate's record, in that order; error iff a candidate's record is missing/undecodable. Non-trivial: a nil or a repeated address is met before the cut, or a candidate's record is missing. Distinct = (successor list, record states).")
	rec.Assume("physical nodes are told apart by address (virtual nodes of one host share it)")

	selfT := &protocol.Node{Id: 11, Address: "tun-self:443"}
	selfC := &protocol.Node{Id: 12, Address: "chord-self:443"}
	fx := newFixture(selfT, selfC)
	defer fx.close()
	caller := newClientV1("A", 7001, "tok-c51")
	addrs := []string{selfC.GetAddress(), "chord-a:443", "chord-b:443", "chord-c:443", "chord-d:443"}
	tunnelOf := func(addr string) *protocol.Node {
		for i, a := range addrs {
			if a == addr {
				return &protocol.Node{Id: uint64(1000 + i), Address: "tun-" + addr}
			}
		}
		return nil
	}

	ev.RapidCheck(t, 5000, 200000, func(t *rapid.T) {
		fx.kv.MemoryKV = memory.WithHashFn(chord.Hash)
		recState := map[string]string{}
		for _, a := range addrs {
			st := rapid.SampledFrom([]string{"present", "present", "present", "present", "missing", "undecodable"}).Draw(t, "record:"+a)
			recState[a] = st
			key := []byte(tun.DestinationByChordKey(&protocol.Node{Address: a}))
			switch st {
			case "present":
				d := &protocol.TunnelDestination{Chord: &protocol.Node{Id: 1, Address: a}, Tunnel: tunnelOf(a)}
				b, _ := d.MarshalVT()
				fx.kv.MemoryKV.Put(context.Background(), key, b)
			case "undecodable":
				fx.kv.MemoryKV.Put(context.Background(), key, []byte{0x0a, 0xff, 0xff, 0xff, 0xff, 0xff, 0xff, 0xff, 0xff, 0xff, 0xff, 0x01})
			}
		}
		n := rapid.IntRange(0, 8).Draw(t, "len")
		entries := make([]c51Entry, n)
		list := make([]chord.VNode, n)
		for i := range entries {
			if rapid.IntRange(0, 5).Draw(t, fmt.Sprintf("nil%d", i)) == 0 {
				entries[i] = c51Entry{Nil: true}
				continue
			}
			a := rapid.SampledFrom(addrs).Draw(t, fmt.Sprintf("addr%d", i))
			entries[i] = c51Entry{ID: uint64(100 + i), Addr: a}
			list[i] = &succNode{ident: &protocol.Node{Id: uint64(100 + i), Address: a}}
		}
		fx.kv.mu.Lock()
		fx.kv.succFn = func() ([]chord.VNode, error) { return list, nil }
		fx.kv.mu.Unlock()

		// reference
		cands := []string{selfC.GetAddress()}
		seen := map[string]bool{selfC.GetAddress(): true}
		nt := false
		for _, e := range entries {
			if len(cands) >= 3 {
				break
			}
			if e.Nil || seen[e.Addr] {
				nt = true
				continue
			}
			seen[e.Addr] = true
			cands = append(cands, e.Addr)
		}
		wantErr := false
		var want []*protocol.Node
		for _, a := range cands {
			if recState[a] != "present" {
				wantErr = true
				nt = true
			}
			want = append(want, tunnelOf(a))
		}

		var resp *protocol.GetNodesResponse
		var err error
		var panicked any
		func() {
			defer func() { panicked = recover() }()
			resp, err = fx.srv.GetNodes(caller.delegationCtx(context.Background(), nil), &protocol.GetNodesRequest{})
		}()
		var got []string
		for _, g := range resp.GetNodes() {
			got = append(got, nodeStr(g))
		}
		doc := map[string]any{"successors": entries, "records": recState, "candidates": cands, "got": got, "error": fmt.Sprint(err)}
		labels := []string{fmt.Sprintf("candidates:%d", len(cands))}
		if wantErr {
			labels = append(labels, "record-missing")
		}
		rec.Case(nt, fmt.Sprintf("%v|%v", entries, recState), func() any { return doc }, labels...)

		if panicked != nil {
			rec.Fail(t, "get-nodes-panics", doc, "GetNodes panicked: %v", panicked)
		}
		if len(resp.GetNodes()) > 3 {
			rec.Fail(t, "more-than-three-endpoints", doc, "GetNodes returned %d endpoints", len(resp.GetNodes()))
		}
		if wantErr {
			if err == nil {
				rec.Fail(t, "missing-record-not-an-error", doc, "GetNodes succeeded with %v although the record of a candidate in %v is missing", got, cands)
			}
			return
		}
		if err != nil {
			rec.Fail(t, "get-nodes-failed-with-all-records-present", doc, "GetNodes failed: %v (candidates %v all have records)", err, cands)
		}
		if len(got) == 0 || !nodeEq(resp.GetNodes()[0], want[0]) {
			rec.Fail(t, "first-endpoint-not-self", doc, "first endpoint %v, want own tunnel endpoint %s", got, nodeStr(want[0]))
		}
		dup := map[string]bool{}
		for _, g := range resp.GetNodes() {
			if dup[g.GetAddress()] {
				rec.Fail(t, "duplicate-physical-endpoint", doc, "endpoint %s offered twice: %v", g.GetAddress(), got)
			}
			dup[g.GetAddress()] = true
		}
		if len(got) != len(want) {
			rec.Fail(t, "endpoints-differ-from-reference", doc, "got %v want %d endpoints for candidates %v", got, len(want), cands)
		}
		for i := range want {
			if !nodeEq(resp.GetNodes()[i], want[i]) {
				rec.Fail(t, "endpoints-differ-from-reference", doc, "endpoint %d = %s, want %s (record of %s)", i, got[i], nodeStr(want[i]), cands[i])
			}
		}
	})
}
