package tuns

import (
	"context"
	"crypto/sha256"
	"encoding/hex"
	"errors"
	"fmt"
	"strings"
	"testing"
	"time"

	"go.miragespace.co/specter/kv/memory"
	"go.miragespace.co/specter/spec/acme"
	"go.miragespace.co/specter/spec/chord"
	"go.miragespace.co/specter/spec/protocol"
	"verifharness/internal/ev"

	"pgregory.net/rapid"
)

// ---- C29: custom hostname binding ------------------------------------------------------

type c29Host struct {
	Raw   string // as sent in the request
	Class string // plain | exotic | bare | apex | acme | contains-apex | unnormalizable
}

// plain hostnames must be accepted when the conditions hold; exotic ones may be
// refused by normalization, but if accepted the same conditions apply; the rest
// must always be refused.
var c29Hosts = []c29Host{
	{"app.cust1.example.org", "plain"},
	{"www.cust1.example.org", "plain"},
	{"app.cust2.example.net", "plain"},
	{"a.b.c.d.example.net", "plain"},
	{"xn--bcher-kva.shop.example.org", "plain"},
	{" app.cust1.example.org ", "exotic"}, // same as the first after normalization
	{"app.\tcust2.example.net", "exotic"}, // same as the third
	{"bücher.shop.example.org", "exotic"}, // same as the fifth
	{"App.Cust1.Example.org", "exotic"},
	{"app.cust1.example.org.", "exotic"},
	{"example.org", "bare"},
	{"cust1.org", "bare"},
	{" cust1 .org", "bare"},
	{"localhost", "bare"},
	{testApex, "apex"},
	{"tunnel." + testApex, "apex"},
	{"a.b." + testApex, "apex"},
	{" a.b.hello.com", "apex"},
	{"shop." + strings.ToUpper(testApex[:1]) + testApex[1:], "apex"}, // reserved zones are reserved in any spelling
	{"a.b." + strings.ToUpper(testApex), "apex"},
	{testAcme, "acme"},
	{"x.y." + testAcme, "acme"},
	{"x." + strings.ToUpper(testAcme[:4]) + testAcme[4:], "acme"},
	{"a.b." + testApex + ".evil.org", "contains-apex"},
	{"x." + testAcme + ".evil.org", "contains-apex"},
	{"*.cust1.example.org", "unnormalizable"},
	{"a_b.cust1.example.org", "unnormalizable"},
	{"", "unnormalizable"},
}

// independent computation of the challenge record (sha224 of the token)
func c29Record(normalized string, token string) (name, content string) {
	h := sha256.Sum224([]byte(token))
	return "_acme-challenge." + normalized + ".", hex.EncodeToString(h[:]) + "." + testAcme + "."
}

type c29Step struct {
	Op     string `json:"op"`
	Client string `json:"client"`
	Host   string `json:"host"`
	Class  string `json:"class"`
	Proof  string `json:"proof"`
	Answer string `json:"answer,omitempty"`
	Bound  string `json:"bound_before,omitempty"`
	Result string `json:"result,omitempty"`
}

func TestC29(t *testing.T) {
	rec := ev.New(t, "C29")
	rec.Rule("rapid state machine over 2 clients (tokens where one extends the other) and a pool of hostnames (plain 3+ label names, the same names with whitespace / IDN / upper case / trailing dot, bare domains, apex and its subdomains, the ACME zone and its subdomains, names merely containing the apex, unnormalizable names) plus freshly generated plain names; steps AcmeValidate / AcmeInstruction / ReleaseTunnel with a resolver answer drawn from {caller's target, other client's target, target without trailing dot, target in upper case, the challenge name itself, unrelated, lookup error, NXDOMAIN} and a proof drawn from {valid, missing, empty, wrong subject, wrong key, tampered, re-signed wrong counter, expired, far future, low difficulty}; real handlers over a real kv/memory store; proofs solved with pow.GenerateSolution at production difficulty. Oracle: reference model of bindings and registrations, whole-store comparison after every step. Non-trivial sequence: a client targets a hostname bound to the other client, or the CNAME answer is the other client's target. Distinct = symbolic step list.")
	rec.Assume("for plain hostnames the binding must also succeed when the conditions hold (DESIGN: ⇔); for exotic spellings refusal is always allowed",
		"'valid proof' is a set-up precondition that depends on wall-clock expiry: a step whose proof did not stay valid until the call returned is discarded (inconclusive)",
		"acme.Normalize (C33) is used to find the key under which a binding is stored")

	selfT := &protocol.Node{Id: 11, Address: "tun-self:443"}
	selfC := &protocol.Node{Id: 12, Address: "chord-self:443"}
	fx := newFixture(selfT, selfC)
	defer fx.close()
	clients := []*client{newClientV1("A", 8001, "tok29"), newClientV1("B", 8002, "tok29b")}
	pool := newProofPool()
	{
		seen := map[string]bool{}
		var subjects []string
		for _, h := range c29Hosts {
			if n, err := acme.Normalize(h.Raw); err == nil && !seen[n] {
				seen[n] = true
				subjects = append(subjects, n)
			}
		}
		pool.presolve(subjects, 8)
	}
	freshNo := 0

	ev.RapidCheck(t, 300, 9600, func(t *rapid.T) {
		fx.kv.MemoryKV = memory.WithHashFn(chord.Hash)
		model := &c26Model{reg: map[string]map[string]bool{}, routes: map[string]*[3]*c26Route{}, custom: map[string]*c26Binding{}, fixed: map[string]string{}}
		bound := map[string]*client{}
		var steps []c29Step
		var symbolic []string
		nt := false
		var caseHosts []c29Host
		caseHosts = append(caseHosts, c29Hosts...)

		nSteps := rapid.IntRange(3, 10).Draw(t, "steps")
		for si := 0; si < nSteps; si++ {
			c := clients[rapid.IntRange(0, 1).Draw(t, "client")]
			other := clients[0]
			if c == clients[0] {
				other = clients[1]
			}
			// hostname: biased to plain names and to names already bound
			var h c29Host
			switch w := rapid.IntRange(0, 19).Draw(t, "hostmode"); {
			case w < 9:
				h = caseHosts[rapid.IntRange(0, 4).Draw(t, "plain")]
			case w < 11 && len(bound) > 0:
				var bs []string
				for _, x := range caseHosts {
					if n, err := acme.Normalize(x.Raw); err == nil && bound[n] != nil {
						bs = append(bs, x.Raw)
					}
				}
				if len(bs) == 0 {
					h = caseHosts[0]
					break
				}
				raw := rapid.SampledFrom(bs).Draw(t, "bound-host")
				for _, x := range caseHosts {
					if x.Raw == raw {
						h = x
					}
				}
			case w == 11 && rapid.IntRange(0, 4).Draw(t, "fresh?") == 0:
				freshNo++
				h = c29Host{fmt.Sprintf("h%d.fresh%d.example.org", freshNo, rapid.IntRange(0, 99).Draw(t, "fresh")), "plain"}
				caseHosts = append(caseHosts, h)
			default:
				h = caseHosts[rapid.IntRange(0, len(caseHosts)-1).Draw(t, "host")]
			}
			normalized, nerr := acme.Normalize(h.Raw)
			ctx := c.delegationCtx(context.Background(), nil)
			step := c29Step{Client: c.Name, Host: h.Raw, Class: h.Class}
			if b := bound[normalized]; nerr == nil && b != nil {
				step.Bound = b.Name
			}
			fail := func(sig, format string, args ...any) {
				step.Result = "VIOLATION"
				steps = append(steps, step)
				rec.Fail(t, sig, map[string]any{"steps": steps}, format, args...)
			}
			opw := rapid.IntRange(0, 9).Draw(t, "op")
			if opw == 9 { // release
				step.Op = "release"
				step.Proof = "-"
				wantOK := nerr == nil && model.reg[c.Token][h.Raw] // ReleaseTunnel takes the hostname literally
				_, err := fx.srv.ReleaseTunnel(ctx, &protocol.ReleaseTunnelRequest{Hostname: h.Raw})
				step.Result = "ok"
				if err != nil {
					step.Result = "refused"
				}
				if (err == nil) != wantOK {
					fail("release-outcome-differs-from-model", "ReleaseTunnel(%s, %q): err=%v, model ok=%v", c.Name, h.Raw, err, wantOK)
				}
				if wantOK {
					delete(model.reg[c.Token], h.Raw)
					delete(model.custom, h.Raw)
					delete(bound, h.Raw)
				}
			} else {
				// proof
				proofKind := "valid"
				if rapid.IntRange(0, 3).Draw(t, "proofmode") == 0 {
					proofKind = rapid.SampledFrom(invalidProofKinds).Draw(t, "proofkind")
				}
				step.Proof = proofKind
				subject := normalized
				if nerr != nil {
					subject = "unnormalizable.example.org"
				}
				var proof *protocol.ProofOfWork
				var proofExp time.Time
				if proofKind == "valid" {
					e := pool.validFor(subject, 6*time.Second)
					proof, proofExp = e.proof, e.expires
				} else {
					proof = pool.invalid(proofKind, subject)
				}
				acceptable := nerr == nil && (h.Class == "plain" || h.Class == "exotic" || h.Class == "contains-apex")
				mayRefuse := h.Class != "plain"
				cur := bound[normalized]
				name, content := c29Record(normalized, c.Token)
				_, otherContent := c29Record(normalized, other.Token)

				if opw < 7 {
					step.Op = "validate"
					answerKind := rapid.SampledFrom([]string{"own-target", "own-target", "own-target", "other-target", "own-no-trailing-dot", "own-upper", "challenge-name", "unrelated", "lookup-error", "nxdomain"}).Draw(t, "answer")
					step.Answer = answerKind
					var ans string
					var aerr error
					switch answerKind {
					case "own-target":
						ans = content
					case "other-target":
						ans = otherContent
					case "own-no-trailing-dot":
						ans = strings.TrimSuffix(content, ".")
					case "own-upper":
						ans = strings.ToUpper(content)
					case "challenge-name":
						ans = name
					case "unrelated":
						ans = "cdn.example.net."
					case "lookup-error":
						aerr = errors.New("SERVFAIL (generated)")
					}
					res := &fakeResolver{}
					if nerr == nil {
						res.set(name, ans, aerr)
					}
					fx.srv.Resolver = res
					if cur == other || (answerKind == "other-target" && acceptable) {
						nt = true
					}
					wantOK := proofKind == "valid" && acceptable && (cur == c || (cur == nil && answerKind == "own-target"))
					mustRefuse := !wantOK
					resp, err := fx.srv.AcmeValidate(ctx, &protocol.ValidateRequest{Hostname: h.Raw, Proof: proof})
					if proofKind == "valid" && !time.Now().Before(proofExp.Add(-500*time.Millisecond)) {
						rec.Inconclusive("valid proof expired during the call (busy machine)")
						t.Skip("proof expired")
					}
					step.Result = "ok"
					if err != nil {
						step.Result = "refused"
					}
					switch {
					case err == nil && mustRefuse:
						why := fmt.Sprintf("proof=%s class=%s bound=%q answer=%s", proofKind, h.Class, step.Bound, answerKind)
						sig := "validate-accepted-without-dns-proof"
						switch {
						case proofKind != "valid":
							sig = "validate-accepted-with-invalid-proof-of-work"
						case !acceptable:
							sig = "validate-accepted-forbidden-hostname"
						case cur == other:
							sig = "validate-rebinds-hostname-of-other-client"
						}
						fail(sig, "AcmeValidate(%s, %q) succeeded although it must be refused (%s)", c.Name, h.Raw, why)
					case err != nil && wantOK && !mayRefuse:
						fail("validate-refused-although-conditions-hold", "AcmeValidate(%s, %q) refused with %v although proof, hostname and CNAME are in order (bound=%q)", c.Name, h.Raw, err, step.Bound)
					}
					if err == nil {
						if resp.GetApex() != testApex {
							fail("validate-response-apex", "AcmeValidate returned apex %q", resp.GetApex())
						}
						bound[normalized] = c
						model.custom[normalized] = &c26Binding{Token: c.Token, Ident: c.identity()}
						if model.reg[c.Token] == nil {
							model.reg[c.Token] = map[string]bool{}
						}
						model.reg[c.Token][normalized] = true
						if cur == nil {
							if len(res.calls) != 1 || res.calls[0] != name {
								fail("validate-looked-up-wrong-name", "AcmeValidate resolved %v, want exactly [%s]", res.calls, name)
							}
						}
					}
				} else {
					step.Op = "instruction"
					wantOK := proofKind == "valid" && acceptable && (cur == nil || cur == c)
					resp, err := fx.srv.AcmeInstruction(ctx, &protocol.InstructionRequest{Hostname: h.Raw, Proof: proof})
					if proofKind == "valid" && !time.Now().Before(proofExp.Add(-500*time.Millisecond)) {
						rec.Inconclusive("valid proof expired during the call (busy machine)")
						t.Skip("proof expired")
					}
					step.Result = "ok"
					if err != nil {
						step.Result = "refused"
					}
					if cur == other {
						nt = true
					}
					switch {
					case err == nil && !wantOK:
						fail("instruction-given-although-refusal-required", "AcmeInstruction(%s, %q) succeeded (proof=%s class=%s bound=%q)", c.Name, h.Raw, proofKind, h.Class, step.Bound)
					case err != nil && wantOK && !mayRefuse:
						fail("instruction-refused-although-conditions-hold", "AcmeInstruction(%s, %q) refused: %v", c.Name, h.Raw, err)
					}
					if err == nil && (resp.GetName() != name || resp.GetContent() != content) {
						fail("instruction-names-wrong-record", "AcmeInstruction(%s, %q) = (%q, %q), want (%q, %q)", c.Name, h.Raw, resp.GetName(), resp.GetContent(), name, content)
					}
				}
			}
			got := renderKV(fx.kv.snapshotMap(), fx.kv)
			if d := diffMaps(model.expected(), got); d != "" {
				fail("kv-content-differs-from-model:"+step.Op+":"+step.Result, "after %s by %s (%s) the DHT content differs from the model:\n%s", step.Op, c.Name, step.Result, d)
			}
			steps = append(steps, step)
			hostSym := h.Raw
			if strings.Contains(h.Raw, ".fresh") {
				hostSym = "fresh"
			}
			symbolic = append(symbolic, fmt.Sprintf("%s:%s:%s:%s:%s", step.Op, step.Client, hostSym, step.Proof, step.Answer))
			rec.Add("steps", 1)
			rec.Add("step:"+step.Op+":"+step.Class+":"+step.Result, 1)
		}
		rec.Case(nt, strings.Join(symbolic, ";"), func() any { return map[string]any{"steps": steps} })
	})
	rec.Note("proofs_solved", pool.solved)
}
