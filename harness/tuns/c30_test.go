package tuns

import (
	"context"
	"crypto"
	"crypto/ecdsa"
	"crypto/ed25519"
	"crypto/elliptic"
	"crypto/rand"
	"crypto/rsa"
	"crypto/tls"
	"crypto/x509"
	"crypto/x509/pkix"
	"errors"
	"fmt"
	"math/big"
	mrand "math/rand"
	"strings"
	"sync"
	"testing"
	"time"

	"go.miragespace.co/specter/spec/acme"
	"go.miragespace.co/specter/spec/protocol"
	"go.miragespace.co/specter/spec/rpc"
	"go.miragespace.co/specter/spec/transport"
	"go.miragespace.co/specter/spec/tun"
	"go.miragespace.co/specter/tun/server"
	"verifharness/internal/ev"

	"pgregory.net/rapid"
)

// ---- C30: keyless TLS ---------------------------------------------------------------------

func selfSigned(t tb, host string, key crypto.Signer, notAfter time.Time) *tls.Certificate {
	tmpl := &x509.Certificate{
		SerialNumber: big.NewInt(time.Now().UnixNano()),
		Subject:      pkix.Name{CommonName: host},
		DNSNames:     []string{host},
		NotBefore:    notAfter.Add(-48 * time.Hour),
		NotAfter:     notAfter,
		KeyUsage:     x509.KeyUsageDigitalSignature,
		ExtKeyUsage:  []x509.ExtKeyUsage{x509.ExtKeyUsageServerAuth},
	}
	der, err := x509.CreateCertificate(rand.Reader, tmpl, tmpl, key.Public(), key)
	if err != nil {
		t.Fatalf("harness: create certificate: %v", err)
	}
	leaf, err := x509.ParseCertificate(der)
	if err != nil {
		t.Fatalf("harness: parse certificate: %v", err)
	}
	return &tls.Certificate{Certificate: [][]byte{der}, PrivateKey: key, Leaf: leaf}
}

func verifySig(pub crypto.PublicKey, h crypto.Hash, digest, sig []byte) error {
	switch k := pub.(type) {
	case *rsa.PublicKey:
		return rsa.VerifyPKCS1v15(k, h, digest, sig)
	case *ecdsa.PublicKey:
		if !ecdsa.VerifyASN1(k, digest, sig) {
			return errors.New("ecdsa signature does not verify")
		}
		return nil
	}
	return fmt.Errorf("unexpected key type %T", pub)
}

type c30Call struct {
	Caller    string `json:"caller"`
	Host      string `json:"host"`
	BoundTo   string `json:"bound_to,omitempty"`
	Proof     string `json:"proof"`
	Method    string `json:"method"`
	Algo      int32  `json:"algo,omitempty"`
	DigestLen int    `json:"digest_len,omitempty"`
	Result    string `json:"result,omitempty"`
}

func TestC30(t *testing.T) {
	rec := ev.New(t, "C30")
	rec.Rule("three parts. (rpc) rapid-generated sequences of 1..4 GetCertificate/Sign calls on a fresh Server: caller {client bound to the hostname, the other client, no certificate}, hostname {bound to A, bound to B, the same with whitespace, unbound, under the apex, bare}, proof {valid at production difficulty, nine invalid kinds}, algo {0..3 and out-of-enum}, digest length 0..70 biased to hash sizes ±1, RSA-2048 / ECDSA P-256 / P-384 certificates, provider ok / error / empty. (ttl) computeKeylessTTL on certificates whose NotAfter lies -1h..+1h around now, biased to the skew and 5 min boundaries, as Leaf, as DER only, undecodable, empty, nil. (loader) the real keylessCertLoader with such certificates. (slow-provider) the real loader behind a certificate provider that takes a generated 150-400 ms, certificates whose expiry minus skew is 2 s..4 min away, run in parallel; the TTL must not exceed what was left when the provider returned (one-sided: the loader reads its clock after that instant), 25 ms tolerance. Non-trivial: rpc - caller is not the bound client or the digest length is wrong; ttl/loader - expiry minus skew is less than 5 min away. Distinct = generated tuple.")
	rec.Assume("safety skew = the package constant (must be positive); an already (nearly) expired certificate may be kept for at most one second (DESIGN: ttl <= max(1s, NotAfter - skew - now))",
		"for plainly spelled bound hostnames, a valid request from the bound client must succeed (⇔, DESIGN); 'valid proof' is subject to wall-clock expiry and discarded (inconclusive) when it did not outlive the call")

	selfT := &protocol.Node{Id: 11, Address: "tun-self:443"}
	selfC := &protocol.Node{Id: 12, Address: "chord-self:443"}
	A := newClientV1("A", 9001, "tok30")
	B := newClientV1("B", 9002, "tok30b")

	rsaKey, err := rsa.GenerateKey(rand.Reader, 2048)
	if err != nil {
		t.Fatalf("harness: %v", err)
	}
	p256, _ := ecdsa.GenerateKey(elliptic.P256(), rand.Reader)
	p384, _ := ecdsa.GenerateKey(elliptic.P384(), rand.Reader)
	keys := []struct {
		name string
		key  crypto.Signer
	}{{"rsa2048", rsaKey}, {"p256", p256}, {"p384", p384}}

	const (
		hostA     = "app.cust1.example.org"
		hostB     = "app.cust2.example.net"
		hostFree  = "free.cust3.example.org"
		hostApex  = "a.b." + testApex
		hostBare  = "example.org"
		hostAWsp  = " app.cust1.example.org\t"
		hostUpper = "App.Cust1.Example.org"
	)
	hostPool := []string{hostA, hostA, hostA, hostB, hostFree, hostApex, hostBare, hostAWsp, hostUpper}
	pool := newProofPool()
	pool.presolve([]string{hostA, hostB, hostFree, hostApex, hostBare}, 5)
	farFuture := time.Now().Add(24 * time.Hour)
	certsByKey := map[string]map[string]*tls.Certificate{}
	for _, k := range keys {
		certsByKey[k.name] = map[string]*tls.Certificate{}
		for _, h := range []string{hostA, hostB, hostFree, hostApex, hostBare} {
			certsByKey[k.name][h] = selfSigned(t, h, k.key, farFuture)
		}
	}
	hashes := map[int32]crypto.Hash{1: crypto.SHA256, 2: crypto.SHA384, 3: crypto.SHA512}

	// a rapid fail file (--replay) belongs to one part: its name carries the sub-test name
	runPart := func(name string) bool {
		p := ev.ReplayPath()
		if !strings.HasSuffix(p, ".fail") {
			return true
		}
		for _, n := range []string{"rpc", "ttl", "loader", "slow-provider"} {
			if strings.Contains(p, "TestC30_"+n) || strings.Contains(p, "TestC30/"+n) {
				return n == name
			}
		}
		return true
	}

	// ---------------- part 1: RPCs
	t.Run("rpc", func(t *testing.T) {
		if !runPart("rpc") {
			return
		}
		ev.RapidCheck(t, 600, 16000, func(t *rapid.T) {
			fx := newFixture(selfT, selfC)
			defer fx.close()
			ctx0 := context.Background()
			bind := func(h string, c *client) {
				tun.SaveCustomHostname(ctx0, fx.kv.MemoryKV, h, &protocol.CustomHostname{ClientIdentity: c.identity(), ClientToken: c.token()})
				fx.kv.MemoryKV.PrefixAppend(ctx0, []byte(tun.ClientHostnamesPrefix(c.token())), []byte(h))
			}
			bind(hostA, A)
			bind(hostB, B)
			boundTo := map[string]*client{hostA: A, hostB: B}
			kn := keys[rapid.IntRange(0, len(keys)-1).Draw(t, "key")]
			providerMode := rapid.SampledFrom([]string{"ok", "ok", "ok", "ok", "ok", "error", "empty-chain"}).Draw(t, "provider")
			switch providerMode {
			case "ok":
				fx.certs.certs = certsByKey[kn.name]
			case "error":
				fx.certs.err = errors.New("acme: no certificate available (generated)")
			case "empty-chain":
				fx.certs.certs = map[string]*tls.Certificate{}
				for h := range certsByKey[kn.name] {
					fx.certs.certs[h] = &tls.Certificate{}
				}
			}
			before := fx.kv.snapshot()

			var calls []c30Call
			nCalls := rapid.IntRange(1, 4).Draw(t, "calls")
			nt := false
			for ci := 0; ci < nCalls; ci++ {
				callerKind := rapid.SampledFrom([]string{"A", "A", "A", "B", "B", "no-cert"}).Draw(t, "caller")
				hostRaw := rapid.SampledFrom(hostPool).Draw(t, "host")
				proofKind := "valid"
				if rapid.IntRange(0, 4).Draw(t, "proofmode") == 0 {
					proofKind = rapid.SampledFrom(invalidProofKinds).Draw(t, "proofkind")
				}
				method := rapid.SampledFrom([]string{"GetCertificate", "Sign", "Sign", "Sign"}).Draw(t, "method")
				algo := int32(rapid.SampledFrom([]int{0, 1, 1, 2, 2, 3, 3, 4, 7, -1}).Draw(t, "algo"))
				dlen := rapid.OneOf(rapid.SampledFrom([]int{0, 20, 31, 32, 33, 47, 48, 49, 63, 64, 65}), rapid.IntRange(0, 70)).Draw(t, "digestlen")
				if method == "Sign" && rapid.IntRange(0, 1).Draw(t, "fit") == 0 {
					if h, ok := hashes[algo]; ok {
						dlen = h.Size()
					}
				}
				normalized, nerr := acme.Normalize(hostRaw)
				var caller *client
				var ctx context.Context
				switch callerKind {
				case "A":
					caller = A
				case "B":
					caller = B
				}
				if caller != nil {
					ctx = caller.delegationCtx(ctx0, nil)
				} else {
					a, _ := pipePair()
					ctx = rpc.WithDelegation(ctx0, &transport.StreamDelegate{Conn: a, Identity: &protocol.Node{Id: 1}, Kind: protocol.Stream_RPC})
				}
				subject := normalized
				if nerr != nil {
					subject = hostFree
				}
				var proof *protocol.ProofOfWork
				var proofExp time.Time
				if proofKind == "valid" {
					e := pool.validFor(subject, 6*time.Second)
					proof, proofExp = e.proof, e.expires
				} else {
					proof = pool.invalid(proofKind, subject)
				}
				call := c30Call{Caller: callerKind, Host: hostRaw, Proof: proofKind, Method: method}
				if b := boundTo[normalized]; nerr == nil && b != nil {
					call.BoundTo = b.Name
				}
				authorized := caller != nil && nerr == nil && proofKind == "valid" && boundTo[normalized] == caller
				plain := hostRaw == normalized
				digest := make([]byte, dlen)
				rand.Read(digest)

				var gotErr error
				var chain [][]byte
				var sig []byte
				var panicked any
				func() {
					defer func() { panicked = recover() }()
					if method == "GetCertificate" {
						var resp *protocol.KeylessGetCertificateResponse
						resp, gotErr = fx.srv.GetCertificate(ctx, &protocol.KeylessGetCertificateRequest{Proof: proof, Hostname: hostRaw})
						chain = resp.GetCertificates()
					} else {
						call.Algo, call.DigestLen = algo, dlen
						var resp *protocol.KeylessSignResponse
						resp, gotErr = fx.srv.Sign(ctx, &protocol.KeylessSignRequest{Proof: proof, Hostname: hostRaw, Digest: digest, Algo: protocol.KeylessSignRequest_HashAlgorithm(algo)})
						sig = resp.GetSignature()
					}
				}()
				if proofKind == "valid" && !time.Now().Before(proofExp.Add(-500*time.Millisecond)) {
					rec.Inconclusive("valid proof expired during the call (busy machine)")
					t.Skip("proof expired")
				}
				call.Result = "ok"
				if gotErr != nil {
					call.Result = "refused"
				}
				calls = append(calls, call)
				doc := map[string]any{"calls": calls, "key": kn.name, "provider": providerMode}
				hsz, algoOK := 0, false
				if h, ok := hashes[algo]; ok {
					hsz, algoOK = h.Size(), true
				}
				if !authorized || (method == "Sign" && algoOK && dlen != hsz) {
					nt = true
				}
				if panicked != nil {
					rec.Fail(t, "keyless-rpc-panics", doc, "%s panicked: %v", method, panicked)
				}
				if gotErr == nil && !authorized {
					sig := "keyless-served-to-unbound-caller"
					if proofKind != "valid" && boundTo[normalized] == caller && caller != nil {
						sig = "keyless-served-without-valid-proof-of-work"
					}
					rec.Fail(t, sig, doc, "%s(%q) by %s answered although caller is not the bound client with a valid proof (bound to %q, proof %s)", method, hostRaw, callerKind, call.BoundTo, proofKind)
				}
				if method == "Sign" && gotErr == nil && (!algoOK || dlen != hsz) {
					rec.Fail(t, "sign-accepts-bad-hash-or-digest-length", doc, "Sign(algo=%d, %d-byte digest) returned a signature", algo, dlen)
				}
				wantOK := authorized && providerMode == "ok" && (method == "GetCertificate" || (algoOK && dlen == hsz))
				if gotErr != nil && wantOK && plain {
					rec.Fail(t, "keyless-refuses-bound-client", doc, "%s(%q) by bound client %s with a valid proof failed: %v", method, hostRaw, callerKind, gotErr)
				}
				if gotErr == nil && providerMode != "ok" {
					rec.Fail(t, "keyless-answer-without-certificate", doc, "%s succeeded although the certificate provider has no certificate (%s)", method, providerMode)
				}
				if gotErr == nil {
					want := certsByKey[kn.name][normalized]
					if method == "GetCertificate" {
						if len(chain) != len(want.Certificate) || string(chain[0]) != string(want.Certificate[0]) {
							rec.Fail(t, "wrong-certificate-chain", doc, "GetCertificate(%q) returned a chain that is not the provider's certificate for that hostname", hostRaw)
						}
					} else if verr := verifySig(want.Leaf.PublicKey, hashes[algo], digest, sig); verr != nil {
						rec.Fail(t, "signature-does-not-verify", doc, "Sign(%q, algo=%d): signature does not verify under the hostname's leaf key: %v", hostRaw, algo, verr)
					}
				}
				rec.Add("rpc_calls", 1)
				rec.Add(fmt.Sprintf("rpc:%s:%s", method, call.Result), 1)
			}
			if after := fx.kv.snapshot(); after != before {
				rec.Fail(t, "keyless-rpc-changed-kv", map[string]any{"calls": calls}, "keyless RPCs changed the DHT content:\n--- before\n%s--- after\n%s", before, after)
			}
			var key []string
			for _, c := range calls {
				key = append(key, fmt.Sprintf("%s|%s|%s|%s|%d|%d", c.Caller, c.Host, c.Proof, c.Method, c.Algo, c.DigestLen))
			}
			rec.Case(nt, "rpc:"+kn.name+":"+providerMode+":"+strings.Join(key, ";"), func() any {
				return map[string]any{"part": "rpc", "calls": calls, "key": kn.name, "provider": providerMode}
			}, "part:rpc", "provider:"+providerMode)
		})
	})
	rec.Note("proofs_solved", pool.solved)

	// ---------------- part 2: computeKeylessTTL
	skew := server.VerifKeylessExpirySkew
	maxTTL := 5 * time.Minute
	if skew <= 0 {
		rec.Fail(t, "no-safety-skew", map[string]any{"skew": skew.String()}, "keyless expiry skew is %v", skew)
	}
	_, edKey, _ := ed25519.GenerateKey(rand.Reader)
	genOffset := rapid.OneOf(
		rapid.Int64Range(int64(-time.Hour), int64(time.Hour)),
		rapid.Int64Range(int64(skew-3*time.Second), int64(skew+3*time.Second)),
		rapid.Int64Range(int64(skew+maxTTL-3*time.Second), int64(skew+maxTTL+3*time.Second)),
		rapid.Int64Range(int64(-3*time.Second), int64(3*time.Second)),
		rapid.SampledFrom([]int64{0, int64(skew), int64(skew) - 1, int64(skew) + 1, int64(skew + maxTTL), int64(skew+maxTTL) - 1, int64(skew+maxTTL) + 1, int64(skew + time.Second), int64(skew + time.Second - 1)}),
	)
	checkTTL := func(t tb, part, form string, ttl time.Duration, leafKnown bool, notAfter, now time.Time, doc map[string]any) {
		if ttl <= 0 {
			rec.Fail(t, "non-positive-keyless-ttl", doc, "%s: ttl %v", part, ttl)
		}
		if ttl > maxTTL {
			rec.Fail(t, "keyless-ttl-above-five-minutes", doc, "%s: ttl %v", part, ttl)
		}
		if leafKnown {
			bound := notAfter.Add(-skew).Sub(now)
			if bound < time.Second {
				bound = time.Second
			}
			if ttl > bound {
				rec.Fail(t, "certificate-cached-past-expiry-minus-skew", doc, "%s (%s): ttl %v but expiry - skew is only %v away", part, form, ttl, notAfter.Add(-skew).Sub(now))
			}
		}
	}
	base := time.Date(2031, 5, 17, 12, 0, 0, 0, time.UTC)
	t.Run("ttl", func(t *testing.T) {
		if !runPart("ttl") {
			return
		}
		ev.RapidCheck(t, 10000, 400000, func(t *rapid.T) {
			off := time.Duration(genOffset.Draw(t, "offset"))
			now := base.Add(time.Duration(rapid.Int64Range(0, int64(time.Second)).Draw(t, "now-frac")))
			notAfter := now.Add(off)
			form := rapid.SampledFrom([]string{"leaf", "leaf", "leaf", "der-only", "leaf-and-der", "undecodable-der", "empty-chain", "nil"}).Draw(t, "form")
			var cert *tls.Certificate
			leafKnown := false
			effNotAfter := notAfter
			switch form {
			case "leaf":
				cert = &tls.Certificate{Leaf: &x509.Certificate{NotAfter: notAfter}}
				leafKnown = true
			case "der-only", "leaf-and-der":
				c := selfSigned(t, "ttl.example.org", edKey, notAfter)
				effNotAfter = c.Leaf.NotAfter // DER stores whole seconds
				if form == "der-only" {
					c.Leaf = nil
				}
				cert = c
				leafKnown = true
			case "undecodable-der":
				cert = &tls.Certificate{Certificate: [][]byte{{0x30, 0x03, 0x01, 0x02}}}
			case "empty-chain":
				cert = &tls.Certificate{}
			}
			ttl := server.VerifComputeKeylessTTL(cert, now)
			doc := map[string]any{"part": "ttl", "form": form, "not_after_minus_now": effNotAfter.Sub(now).String(), "ttl": ttl.String()}
			nt := leafKnown && effNotAfter.Add(-skew).Sub(now) < maxTTL
			rec.Case(nt, fmt.Sprintf("ttl:%s:%d", form, int64(effNotAfter.Sub(now))), func() any { return doc }, "part:ttl", "form:"+form)
			checkTTL(t, "computeKeylessTTL", form, ttl, leafKnown, effNotAfter, now, doc)
		})

	})

	// ---------------- part 3: the loader itself (reads the clock on its own)
	t.Run("loader", func(t *testing.T) {
		if !runPart("loader") {
			return
		}
		ev.RapidCheck(t, 300, 8000, func(t *rapid.T) {
			fx := newFixture(selfT, selfC)
			defer fx.close()
			off := time.Duration(genOffset.Draw(t, "offset"))
			form := rapid.SampledFrom([]string{"leaf-and-der", "der-only"}).Draw(t, "form")
			t0 := time.Now()
			c := selfSigned(t, hostA, edKey, t0.Add(off))
			notAfter := c.Leaf.NotAfter
			if form == "der-only" {
				c.Leaf = nil
			}
			fx.certs.certs[hostA] = c
			res := fx.srv.VerifKeylessCertLoader(A.delegationCtx(context.Background(), nil), hostA)
			doc := map[string]any{"part": "loader", "form": form, "not_after_minus_t0": notAfter.Sub(t0).String(), "ttl": res.TTL.String(), "error": fmt.Sprint(res.Err)}
			nt := notAfter.Add(-skew).Sub(t0) < maxTTL
			rec.Case(nt, fmt.Sprintf("loader:%s:%d", form, int64(off)), func() any { return doc }, "part:loader", "form:"+form)
			if res.LoadErr != nil || res.Err != nil || res.Cert == nil {
				rec.Fail(t, "keyless-loader-failed", doc, "loader failed: %v / %v", res.LoadErr, res.Err)
			}
			// the loader's own clock reading is >= t0, so its bound is at most the one computed from t0
			checkTTL(t, "keylessCertLoader", form, res.TTL, true, notAfter, t0, doc)
		})
	})
	// ---------------- part 4: the loader behind a slow certificate provider.
	// The TTL handed to the cache counts from the moment the loader returns, so
	// it must be computed from a clock reading taken after the provider answered.
	t.Run("slow-provider", func(t *testing.T) {
		if !runPart("slow-provider") {
			return
		}
		const tolerance = 25 * time.Millisecond
		n := ev.N(16, 256)
		rng := mrand.New(mrand.NewSource(ev.ShardSeed()))
		type slowCase struct {
			delay  time.Duration
			off    time.Duration // NotAfter - t0
			form   string
			hostNo int
			// results
			ttl        time.Duration
			notAfter   time.Time
			returnedAt time.Time
			err        string
		}
		cases := make([]*slowCase, n)
		for i := range cases {
			c := &slowCase{delay: 150*time.Millisecond + time.Duration(rng.Int63n(int64(250*time.Millisecond))), form: []string{"leaf-and-der", "der-only"}[rng.Intn(2)], hostNo: i}
			// remaining validity near the skew: expiry-minus-skew 2 s .. 4 min away (below the 5 min base TTL, above the 1 s floor)
			switch rng.Intn(3) {
			case 0:
				c.off = skew + 3*time.Second + time.Duration(rng.Int63n(int64(8*time.Second)))
			case 1:
				c.off = skew + 10*time.Second + time.Duration(rng.Int63n(int64(50*time.Second)))
			default:
				c.off = skew + time.Minute + time.Duration(rng.Int63n(int64(3*time.Minute)))
			}
			cases[i] = c
		}
		var wg sync.WaitGroup
		sem := make(chan struct{}, 16)
		for _, c := range cases {
			wg.Add(1)
			sem <- struct{}{}
			go func(c *slowCase) {
				defer wg.Done()
				defer func() { <-sem }()
				fx := newFixture(selfT, selfC)
				defer fx.close()
				cert := selfSigned(t, hostA, edKey, time.Now().Add(c.off))
				c.notAfter = cert.Leaf.NotAfter
				if c.form == "der-only" {
					cert.Leaf = nil
				}
				fx.certs.certs[hostA] = cert
				fx.certs.delay = c.delay
				res := fx.srv.VerifKeylessCertLoader(A.delegationCtx(context.Background(), nil), hostA)
				fx.certs.mu.Lock()
				c.returnedAt = fx.certs.returnedAt
				fx.certs.mu.Unlock()
				c.ttl = res.TTL
				if res.LoadErr != nil || res.Err != nil || res.Cert == nil {
					c.err = fmt.Sprintf("%v / %v", res.LoadErr, res.Err)
				}
			}(c)
		}
		wg.Wait()
		for _, c := range cases {
			bound := c.notAfter.Add(-skew).Sub(c.returnedAt) // what is left when the provider answered
			doc := map[string]any{"part": "slow-provider", "form": c.form, "provider_delay": c.delay.String(), "ttl": c.ttl.String(),
				"expiry_minus_skew_when_provider_returned": bound.String(), "kept_past_expiry_minus_skew_by": (c.ttl - bound).String(), "error": c.err}
			rec.Case(bound < maxTTL, fmt.Sprintf("slow:%s:%d:%d", c.form, int64(c.delay), int64(c.off)), func() any { return doc }, "part:slow-provider", "form:"+c.form)
			if c.err != "" {
				rec.Fail(t, "keyless-loader-failed", doc, "loader failed behind a slow provider: %s", c.err)
			}
			if bound < time.Second {
				bound = time.Second
			}
			if bound > maxTTL {
				bound = maxTTL
			}
			if c.ttl > bound+tolerance {
				rec.Fail(t, "certificate-cached-past-expiry-minus-skew", doc, "provider took %v; the loader's ttl %v exceeds what was left until expiry - skew when the provider returned (%v) by %v", c.delay, c.ttl, bound, c.ttl-bound)
			}
		}
	})
}
