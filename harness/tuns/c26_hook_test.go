package tuns

import (
	"context"
	"fmt"
	"testing"

	"go.miragespace.co/specter/kv/memory"
	"go.miragespace.co/specter/spec/chord"
	"go.miragespace.co/specter/spec/protocol"
	"go.miragespace.co/specter/spec/tun"
	"verifharness/internal/ev"

	"github.com/twitchtv/twirp/ctxsetters"
	"google.golang.org/protobuf/proto"
	"pgregory.net/rapid"
)

// c26ThroughRouterHook drives publishes the way the RPC router does: the RequestRouted hook
// (verifyClientIdentity) runs first and the handler receives the context the hook returned.
// The record stored under the caller's token need not be the caller's own certificate identity:
// two certificates can carry the same v1 token with different client ids (re-issued
// certificate), and records written before PKI have no address at all. Whatever the record
// says, a successful publish stores routes naming the identity of the certificate the request
// arrived with.
func c26ThroughRouterHook(t *testing.T, rec *ev.Recorder, fx *fixture, servers []*c26Server) {
	a1 := newClientV1("A", 5001, "tokA")
	a2 := newClientV1("A'", 5009, "tokA") // same token, other client id
	b := newClientV2("C", 5003, []byte("client-c-public-key-hash-0123456"))
	callers := []*client{a1, a2, b}
	bg := context.Background()

	routed := func(c *client, method string) (context.Context, error) {
		ctx := ctxsetters.WithMethodName(ctxsetters.WithServiceName(c.delegationCtx(bg, nil), "TunnelService"), method)
		return fx.srv.VerifVerifyClientIdentity(ctx)
	}
	putRecord := func(c *client, n *protocol.Node) {
		val, _ := n.MarshalVT()
		fx.kv.MemoryKV.Put(bg, []byte(tun.ClientTokenKey(c.token())), val)
	}

	ev.RapidCheck(t, 150, 6000, func(rt *rapid.T) {
		fx.kv.MemoryKV = memory.WithHashFn(chord.Hash)
		for _, s := range servers[:3] {
			putDestination(fx.kv.MemoryKV, s.Chord, s.Tunnel)
		}
		// who the token records name
		recKind := rapid.SampledFrom([]string{"own", "other-certificate-same-token", "pre-pki-record"}).Draw(rt, "tokenRecord")
		switch recKind {
		case "own":
			putRecord(a1, a1.identity())
		case "other-certificate-same-token":
			putRecord(a1, a2.identity())
		case "pre-pki-record":
			putRecord(a1, &protocol.Node{Id: a1.ID})
		}
		putRecord(b, b.identity())

		var steps []string
		hosts := map[string][]string{} // token -> generated hostnames
		n := rapid.IntRange(2, 8).Draw(rt, "steps")
		for i := 0; i < n; i++ {
			c := callers[rapid.IntRange(0, len(callers)-1).Draw(rt, "caller")]
			if len(hosts[c.Token]) == 0 || rapid.IntRange(0, 3).Draw(rt, "op") == 0 {
				ctx, err := routed(c, "GenerateHostname")
				if err != nil {
					rec.Fail(rt, "registered-client-refused-by-router-hook", map[string]any{"steps": steps, "tokenRecord": recKind}, "hook refused GenerateHostname of %s (id %d): %v", c.Name, c.ID, err)
				}
				resp, err := fx.srv.GenerateHostname(ctx, &protocol.GenerateHostnameRequest{})
				if err != nil {
					rt.Fatalf("harness: GenerateHostname: %v", err)
				}
				hosts[c.Token] = append(hosts[c.Token], resp.GetHostname())
				steps = append(steps, fmt.Sprintf("%s(id %d): GenerateHostname -> h%d", c.Name, c.ID, len(hosts[c.Token])-1))
				continue
			}
			hi := rapid.IntRange(0, len(hosts[c.Token])-1).Draw(rt, "host")
			h := hosts[c.Token][hi]
			ns := rapid.IntRange(1, 3).Draw(rt, "servers")
			var req []*protocol.Node
			for _, s := range servers[:ns] {
				req = append(req, s.Tunnel)
			}
			ctx, err := routed(c, "PublishTunnel")
			if err != nil {
				rec.Fail(rt, "registered-client-refused-by-router-hook", map[string]any{"steps": steps, "tokenRecord": recKind}, "hook refused PublishTunnel of %s (id %d): %v", c.Name, c.ID, err)
			}
			resp, err := fx.srv.PublishTunnel(ctx, &protocol.PublishTunnelRequest{Hostname: h, Servers: req})
			steps = append(steps, fmt.Sprintf("%s(id %d): PublishTunnel(h%d, %d servers) -> %d published, err=%v", c.Name, c.ID, hi, ns, len(resp.GetPublished()), err))
			if err != nil {
				rec.Fail(rt, "publish-of-own-hostname-refused", map[string]any{"steps": steps, "tokenRecord": recKind}, "PublishTunnel(%s, own hostname, %d known servers) failed: %v", c.Name, ns, err)
			}
			for k := 1; k <= len(resp.GetPublished()); k++ {
				val, _ := fx.kv.MemoryKV.Get(bg, []byte(tun.RoutingKey(h, k)))
				var r protocol.TunnelRoute
				if len(val) == 0 || r.UnmarshalVT(val) != nil {
					rec.Fail(rt, "published-route-missing", map[string]any{"steps": steps, "tokenRecord": recKind}, "route %d of %q missing after a publish reporting %d routes", k, h, len(resp.GetPublished()))
				}
				if !proto.Equal(r.GetClientDestination(), c.identity()) {
					rec.Fail(rt, "route-names-other-identity-than-the-verified-caller", map[string]any{"steps": steps, "tokenRecord": recKind, "route_client": r.GetClientDestination().String(), "caller": c.identity().String()},
						"route %d of %q names client %v, but the request came with the certificate of %v (token record: %s)", k, h, r.GetClientDestination(), c.identity(), recKind)
				}
			}
		}
		rec.Case(recKind != "own", fmt.Sprintf("hook|%s|%v", recKind, steps), func() any {
			return map[string]any{"tokenRecord": recKind, "steps": steps}
		}, "through-router-hook", "token-record:"+recKind)
	})
}
