package tuns

import (
	"context"
	"errors"
	"fmt"
	"io"
	"net"
	"strings"
	"sync"
	"testing"
	"time"

	"go.miragespace.co/specter/spec/protocol"
	"go.miragespace.co/specter/spec/rpc"
	"go.miragespace.co/specter/spec/transport"
	"go.miragespace.co/specter/spec/tun"
	"verifharness/internal/ev"

	"go.uber.org/zap"
	"pgregory.net/rapid"
)

// ---- C27: gateway connections reach only a published client ---------------------

const (
	catOK       = "ok"
	catNoDirect = "no-direct"
	catError    = "error"
)

// outcome name -> category
var c27Local = map[string]string{
	"ok":                   catOK,
	"no-direct":            catNoDirect,
	"no-direct-wrapped":    catNoDirect,
	"client-not-connected": catNoDirect,
	"dial-error":           catError,
	"closed-conn":          catError,
}
var c27LocalNames = []string{"ok", "no-direct", "no-direct-wrapped", "client-not-connected", "dial-error", "closed-conn"}

var c27Remote = map[string]string{
	"dial-error":            catError,
	"dial-no-direct":        catNoDirect,
	"status-ok":             catOK,
	"status-no-direct":      catNoDirect,
	"status-unknown-error":  catError,
	"status-unknown-code":   catError,
	"status-garbage":        catError,
	"status-eof":            catError,
	"peer-client-ok":        catOK,
	"peer-client-no-direct": catNoDirect,
	"peer-client-error":     catError,
	"peer-wrong-server":     catError,
}
var c27RemoteNames = []string{"dial-error", "dial-no-direct", "status-ok", "status-no-direct", "status-unknown-error", "status-unknown-code", "status-garbage", "status-eof", "peer-client-ok", "peer-client-no-direct", "peer-client-error", "peer-wrong-server"}

type c27Slot struct {
	State   string `json:"state"` // empty | kv-error | route
	Local   bool   `json:"local,omitempty"`
	Outcome string `json:"outcome,omitempty"`
}

// c27Case is the mutable per-case state shared with the fake transports.
type c27Case struct {
	mu      sync.Mutex
	dialLog []string
	// harness ends
	ends    map[int]*c27End // by client id
	byChord map[string]int  // scripted remote: chord address -> client id
	conns   []net.Conn
	outcome map[int]string // by client id
}

type c27End struct {
	clientID  int
	dialConn  net.Conn // what the server's DialStream returned
	harness   net.Conn // our end
	link      chan *protocol.Link
	route     chan *protocol.TunnelRoute
	echoDone  chan error
	viaPeerID bool
}

func (c *c27Case) log(s string) {
	c.mu.Lock()
	c.dialLog = append(c.dialLog, s)
	c.mu.Unlock()
}

func (c *c27Case) track(conns ...net.Conn) {
	c.mu.Lock()
	c.conns = append(c.conns, conns...)
	c.mu.Unlock()
}

func (c *c27Case) closeAll() {
	c.mu.Lock()
	cs := c.conns
	c.conns = nil
	c.mu.Unlock()
	for _, x := range cs {
		x.Close()
	}
}

// clientEnd plays the tunnel client behind a DIRECT stream: it expects the
// Link frame, then echoes three bytes upper-cased.
func clientEnd(e *c27End) {
	l := &protocol.Link{}
	if err := rpc.BoundedReceive(e.harness, l, 2048); err != nil {
		e.echoDone <- fmt.Errorf("client end: receiving link: %w", err)
		return
	}
	e.link <- l
	buf := make([]byte, 3)
	if _, err := io.ReadFull(e.harness, buf); err != nil {
		e.echoDone <- err
		return
	}
	_, err := e.harness.Write([]byte(strings.ToUpper(string(buf))))
	e.echoDone <- err
}

func newEnd(id int) *c27End {
	return &c27End{clientID: id, link: make(chan *protocol.Link, 1), route: make(chan *protocol.TunnelRoute, 1), echoDone: make(chan error, 2)}
}

// dialClientStream is the behaviour of a tunnel transport towards client id.
func (c *c27Case) dialClientStream(id int, outcome string) (net.Conn, error) {
	switch outcome {
	case "ok", "peer-client-ok":
		a, b := pipePair()
		e := newEnd(id)
		e.dialConn, e.harness = b, a
		c.mu.Lock()
		c.ends[id] = e
		c.mu.Unlock()
		c.track(a, b)
		go clientEnd(e)
		return b, nil
	case "no-direct", "peer-client-no-direct":
		return nil, transport.ErrNoDirect
	case "no-direct-wrapped":
		return nil, fmt.Errorf("dialing client: %w", transport.ErrNoDirect)
	case "client-not-connected":
		return nil, tun.ErrTunnelClientNotConnected
	case "closed-conn":
		a, b := pipePair()
		a.Close()
		c.track(b)
		return b, nil
	default:
		return nil, errors.New("connection refused (generated)")
	}
}

func TestC27(t *testing.T) {
	rec := ev.New(t, "C27")
	rec.Rule("rapid-generated route tables for a hostname H: each of the 3 slots is empty, a KV error, or a route through the local node (client dial outcome: ok, no-direct [plain, wrapped, client-not-connected], dial error, connection closed before the link frame) or through a remote node (chord dial error / no-direct; scripted status OK, NO_DIRECT, UNKNOWN_ERROR, unknown code, garbage, EOF; or a second real Server whose handleProxyConn dials the client with outcome ok / no-direct / error, or which is not the route's tunnel destination); a decoy hostname with its own client is always present (in one case in four it differs from H only in letter case); fresh Server per case, on which 1..3 requests for H are made with generated contexts: live, cancelled before the call, or cancelled while the route lookup is in flight (the KV fake holds the lookup until the request is abandoned, then answers according to the context it was given); every live request is judged against the hostname's routes, whatever earlier abandoned requests did. Non-trivial: at least two routes with different outcomes. Distinct = (slot table, request contexts so far).")
	rec.Assume("order among several local (or several remote) routes is unspecified; the oracle only demands all local attempts before any remote attempt",
		"routes exist but none is reachable: not-connected is demanded when at least one attempt ended in no-direct (DESIGN §3 C27); when every attempt failed with another error either not-connected or not-found is accepted (class all-generic-errors, reported)",
		"waiting for the link frame on the harness end uses a 60 s budget; expiry is counted inconclusive")

	selfT := &protocol.Node{Id: 11, Address: "tun-self:443"}
	selfC := &protocol.Node{Id: 12, Address: "chord-self:443"}
	peerT := &protocol.Node{Id: 41, Address: "tun-peer:443"}
	peerC := &protocol.Node{Id: 42, Address: "chord-peer:443"}

	// the second real server (remote node), shared by all cases
	var cur *c27Case
	var curMu sync.Mutex
	getCur := func() *c27Case { curMu.Lock(); defer curMu.Unlock(); return cur }
	peer := newFixture(peerT, peerC)
	defer peer.close()
	peer.tunT.dialFn = func(ctx context.Context, p *protocol.Node, kind protocol.Stream_Type) (net.Conn, error) {
		c := getCur()
		c.log(fmt.Sprintf("peer-direct:%d:%s", p.GetId(), kind))
		c.mu.Lock()
		o := c.outcome[int(p.GetId())]
		c.mu.Unlock()
		return c.dialClientStream(int(p.GetId()), o)
	}
	peerRouter := transport.NewStreamRouter(zap.NewNop(), peer.chordT, nil)
	peerRouter.Accept(peer.ctx)
	peer.srv.AttachRouter(peer.ctx, peerRouter)

	caseNo := 0
	ev.RapidCheck(t, 1500, 40000, func(t *rapid.T) {
		caseNo++
		host := fmt.Sprintf("c27-%d.example", caseNo)
		decoyHost := "decoy.example"
		if rapid.IntRange(0, 3).Draw(t, "decoyDiffersOnlyInCase") == 0 {
			// routing keys are exact strings: a hostname that differs from a published one only in
			// letter case is another hostname
			host = fmt.Sprintf("C27-%d.Example", caseNo)
			decoyHost = strings.ToLower(host)
		}
		cs := &c27Case{ends: map[int]*c27End{}, byChord: map[string]int{}, outcome: map[int]string{}}
		curMu.Lock()
		cur = cs
		curMu.Unlock()
		defer cs.closeAll()

		fx := newFixture(selfT, selfC)
		defer fx.close()

		// decoy: another hostname with a reachable local client that must never be dialled
		decoy := &protocol.TunnelRoute{ClientDestination: &protocol.Node{Id: 900, Address: "decoy-client", Rendezvous: true}, ChordDestination: selfC, TunnelDestination: selfT, Hostname: decoyHost}
		db, _ := decoy.MarshalVT()
		fx.kv.MemoryKV.Put(context.Background(), []byte(tun.RoutingKey(decoyHost, 1)), db)
		cs.outcome[900] = "ok"

		slots := make([]c27Slot, 3)
		kvErr := map[string]bool{}
		type rt struct {
			slot    int
			id      int
			local   bool
			outcome string
			cat     string
			route   *protocol.TunnelRoute
		}
		var routes []*rt
		for i := range slots {
			switch w := rapid.IntRange(0, 9).Draw(t, fmt.Sprintf("slot%d", i+1)); {
			case w < 2:
				slots[i].State = "empty"
			case w == 2:
				slots[i].State = "kv-error"
				kvErr[tun.RoutingKey(host, i+1)] = true
			default:
				slots[i].State = "route"
				id := 100 + i
				r := &rt{slot: i + 1, id: id, local: rapid.Bool().Draw(t, fmt.Sprintf("local%d", i+1))}
				cli := &protocol.Node{Id: uint64(id), Address: fmt.Sprintf("client-token-%d", id), Rendezvous: true}
				if r.local {
					r.outcome = rapid.SampledFrom(c27LocalNames).Draw(t, fmt.Sprintf("outcome%d", i+1))
					r.cat = c27Local[r.outcome]
					r.route = &protocol.TunnelRoute{ClientDestination: cli, ChordDestination: selfC, TunnelDestination: selfT, Hostname: host}
				} else {
					r.outcome = rapid.SampledFrom(c27RemoteNames).Draw(t, fmt.Sprintf("outcome%d", i+1))
					r.cat = c27Remote[r.outcome]
					switch {
					case r.outcome == "peer-wrong-server":
						r.route = &protocol.TunnelRoute{ClientDestination: cli, ChordDestination: peerC, TunnelDestination: &protocol.Node{Id: 77, Address: "tun-elsewhere:443"}, Hostname: host}
					case strings.HasPrefix(r.outcome, "peer-"):
						r.route = &protocol.TunnelRoute{ClientDestination: cli, ChordDestination: peerC, TunnelDestination: peerT, Hostname: host}
					default:
						ch := &protocol.Node{Id: uint64(200 + i), Address: fmt.Sprintf("chord-r%d:443", i+1)}
						r.route = &protocol.TunnelRoute{ClientDestination: cli, ChordDestination: ch, TunnelDestination: &protocol.Node{Id: uint64(300 + i), Address: fmt.Sprintf("tun-r%d:443", i+1)}, Hostname: host}
						cs.byChord[ch.GetAddress()] = id
					}
				}
				slots[i].Local, slots[i].Outcome = r.local, r.outcome
				cs.outcome[id] = r.outcome
				buf, _ := r.route.MarshalVT()
				fx.kv.MemoryKV.Put(context.Background(), []byte(tun.RoutingKey(host, i+1)), buf)
				routes = append(routes, r)
			}
		}
		fx.kv.setGet(func(key []byte) ([]byte, error, bool) {
			if kvErr[string(key)] {
				return nil, errors.New("kv lookup failed (generated)"), true
			}
			return nil, nil, false
		})

		// local node's transports
		fx.tunT.dialFn = func(ctx context.Context, p *protocol.Node, kind protocol.Stream_Type) (net.Conn, error) {
			cs.log(fmt.Sprintf("direct:%d:%s", p.GetId(), kind))
			cs.mu.Lock()
			o, ok := cs.outcome[int(p.GetId())]
			cs.mu.Unlock()
			if !ok {
				return nil, errors.New("unknown client")
			}
			return cs.dialClientStream(int(p.GetId()), o)
		}
		fx.chordT.dialFn = func(ctx context.Context, p *protocol.Node, kind protocol.Stream_Type) (net.Conn, error) {
			cs.log(fmt.Sprintf("proxy:%s:%s", p.GetAddress(), kind))
			if p.GetAddress() == peerC.GetAddress() {
				a, b := pipePair()
				cs.track(a, b)
				peer.chordT.accept <- &transport.StreamDelegate{Conn: a, Identity: p, Kind: kind}
				return b, nil
			}
			id, ok := cs.byChord[p.GetAddress()]
			if !ok {
				return nil, errors.New("unknown chord node")
			}
			o := cs.outcome[id]
			switch o {
			case "dial-error":
				return nil, errors.New("connection refused (generated)")
			case "dial-no-direct":
				return nil, transport.ErrNoDirect
			}
			a, b := pipePair()
			cs.track(a, b)
			e := newEnd(id)
			e.dialConn, e.harness = b, a
			cs.mu.Lock()
			cs.ends[id] = e
			cs.mu.Unlock()
			go func() { // the scripted remote node
				r := &protocol.TunnelRoute{}
				if err := rpc.BoundedReceive(a, r, 2048); err != nil {
					e.echoDone <- err
					return
				}
				e.route <- r
				switch o {
				case "status-ok":
					rpc.Send(a, &protocol.TunnelStatus{Status: protocol.TunnelStatusCode_STATUS_OK})
					clientEnd(e)
				case "status-no-direct":
					rpc.Send(a, &protocol.TunnelStatus{Status: protocol.TunnelStatusCode_NO_DIRECT, Error: "no direct"})
					a.Close()
				case "status-unknown-error":
					rpc.Send(a, &protocol.TunnelStatus{Status: protocol.TunnelStatusCode_UNKNOWN_ERROR, Error: tun.ErrTunnelClientNotConnected.Error()})
					a.Close()
				case "status-unknown-code":
					rpc.Send(a, &protocol.TunnelStatus{Status: protocol.TunnelStatusCode(7), Error: "?"})
					a.Close()
				case "status-garbage":
					a.Write([]byte{0, 0, 0, 5, 0xff, 0xff, 0xff, 0xff, 0xff})
					a.Close()
				default: // status-eof
					a.Close()
				}
			}()
			return b, nil
		}

		link := &protocol.Link{Alpn: protocol.Link_HTTP, Hostname: host, Remote: fmt.Sprintf("203.0.113.%d:5555", caseNo%250)}
		// ---- dial sequence on this one Server: live requests are judged, abandoned
		// requests (context cancelled before the call, or while the route lookup is
		// in flight) only happen
		nDials := rapid.IntRange(1, 3).Draw(t, "dials")
		modes := make([]string, nDials)
		for i := range modes {
			modes[i] = rapid.SampledFrom([]string{"live", "live", "cancelled-before", "cancelled-during-lookup"}).Draw(t, fmt.Sprintf("ctx%d", i+1))
		}
		modes[nDials-1] = "live"
		type lookupGate struct {
			entered, proceed chan struct{}
			once             sync.Once
		}
		var gateMu sync.Mutex
		var gate *lookupGate
		var lookupTooSlow bool
		fx.kv.setGetCtx(func(ctx context.Context, key []byte) ([]byte, error, bool) {
			if ctx.Err() != nil { // a lookup RPC with a dead context fails
				return nil, ctx.Err(), true
			}
			gateMu.Lock()
			g := gate
			gateMu.Unlock()
			if g != nil && strings.HasPrefix(string(key), "/tunnel/bundle/"+host+"/") {
				g.once.Do(func() { close(g.entered) })
				<-g.proceed
				if err := ctx.Err(); err != nil {
					if errors.Is(err, context.DeadlineExceeded) {
						// the loader's own 3 s lookup budget ran out while the harness was
						// descheduled: says nothing about the property
						gateMu.Lock()
						lookupTooSlow = true
						gateMu.Unlock()
					}
					return nil, err, true
				}
			}
			return nil, nil, false
		})
		abandoned := func(mode string) bool {
			reqCtx, cancel := context.WithCancel(context.Background())
			defer cancel()
			var g *lookupGate
			if mode == "cancelled-before" {
				cancel()
			} else {
				g = &lookupGate{entered: make(chan struct{}), proceed: make(chan struct{})}
				gateMu.Lock()
				gate = g
				gateMu.Unlock()
			}
			done := make(chan struct{})
			go func() {
				defer close(done)
				defer func() { recover() }()
				if c, _ := fx.srv.DialClient(reqCtx, link); c != nil {
					c.Close()
				}
			}()
			ok := true
			if g != nil {
				select {
				case <-g.entered: // the route lookup is in flight: abandon the request now
				case <-done: // answered from the cache, no lookup
				case <-time.After(60 * time.Second):
					ok = false
				}
				cancel()
				close(g.proceed)
				gateMu.Lock()
				gate = nil
				gateMu.Unlock()
			}
			select {
			case <-done:
			case <-time.After(60 * time.Second):
				ok = false
			}
			return ok
		}
		judgeLive := func(di int) {
			cs.mu.Lock()
			cs.dialLog = nil
			cs.ends = map[int]*c27End{}
			cs.mu.Unlock()
			conn, err := fx.srv.DialClient(context.Background(), link)
			cs.mu.Lock()
			dialLog := append([]string{}, cs.dialLog...)
			cs.mu.Unlock()

			// ---- oracle
			doc := map[string]any{"slots": slots, "dial_log": dialLog, "error": fmt.Sprint(err), "got_conn": conn != nil, "request_contexts": modes[:di+1]}
			cats := map[string]bool{}
			outs := map[string]bool{}
			var localOK, remoteOK, anyNoDirect bool
			nLocal, nRemote := 0, 0
			for _, r := range routes {
				cats[r.cat] = true
				outs[fmt.Sprintf("%v/%s", r.local, r.outcome)] = true
				if r.local {
					nLocal++
				} else {
					nRemote++
				}
				if r.cat == catOK && r.local {
					localOK = true
				}
				if r.cat == catOK && !r.local {
					remoteOK = true
				}
				if r.cat == catNoDirect {
					anyNoDirect = true
				}
			}
			nEmpty, nKVErr := 0, 0
			for _, s := range slots {
				if s.State == "empty" {
					nEmpty++
				}
				if s.State == "kv-error" {
					nKVErr++
				}
			}
			expect := ""
			switch {
			case localOK:
				expect = "conn-local"
			case remoteOK:
				expect = "conn-remote"
			case len(routes) == 0 && nEmpty == 3:
				expect = "not-found"
			case len(routes) == 0:
				expect = "lookup-error"
			case anyNoDirect:
				expect = "not-connected"
			default:
				expect = "all-generic-errors"
			}
			doc["expect"] = expect
			key := fmt.Sprintf("%v|%v", slots, modes[:di+1])
			earlier := "first-request"
			for _, m := range modes[:di] {
				if m != "live" {
					earlier = "after-abandoned-request"
				}
			}
			if earlier == "first-request" && di > 0 {
				earlier = "after-live-request"
			}
			rec.Case(len(outs) >= 2, key, func() any { return doc }, "expect:"+expect, "history:"+earlier, fmt.Sprintf("routes:%d", len(routes)), fmt.Sprintf("local:%d/remote:%d", nLocal, nRemote))
			fail := func(sig, format string, args ...any) {
				rec.Fail(t, sig, doc, format, args...)
			}

			// whatever happened: only H's routes may have been dialled, locals before remotes
			allowedDirect, allowedProxy := map[string]bool{}, map[string]bool{}
			for _, r := range routes {
				if r.local {
					allowedDirect[fmt.Sprintf("direct:%d:%s", r.id, protocol.Stream_DIRECT)] = true
				} else {
					allowedProxy[fmt.Sprintf("proxy:%s:%s", r.route.GetChordDestination().GetAddress(), protocol.Stream_PROXY)] = true
					if r.outcome == "peer-client-ok" || r.outcome == "peer-client-no-direct" || r.outcome == "peer-client-error" {
						allowedDirect[fmt.Sprintf("peer-direct:%d:%s", r.id, protocol.Stream_DIRECT)] = true
					}
				}
			}
			seenProxy := false
			for _, d := range dialLog {
				switch {
				case strings.HasPrefix(d, "direct:"):
					if !allowedDirect[d] {
						fail("dialled-client-not-in-routes", "DialClient(%s) dialled %s which is not a local route of the hostname", host, d)
					}
					if seenProxy {
						fail("remote-route-tried-before-local", "DialClient(%s) tried a remote route before local route %s: %v", host, d, dialLog)
					}
				case strings.HasPrefix(d, "proxy:"):
					seenProxy = true
					if !allowedProxy[d] {
						fail("dialled-node-not-in-routes", "DialClient(%s) opened %s which is not a remote route of the hostname", host, d)
					}
				case strings.HasPrefix(d, "peer-direct:"):
					if !allowedDirect[d] {
						fail("remote-node-dialled-client-for-foreign-route", "the remote node dialled %s although it is not the tunnel destination of a route naming that client", d)
					}
				}
			}

			switch expect {
			case "conn-local", "conn-remote":
				if err != nil || conn == nil {
					fail("reachable-client-not-connected", "DialClient(%s) failed with %v although a route is reachable (%s)", host, err, expect)
				}
				var hit *rt
				cs.mu.Lock()
				for _, r := range routes {
					if e := cs.ends[r.id]; e != nil && !strings.HasPrefix(r.outcome, "peer-") && e.dialConn == conn {
						hit = r
					}
				}
				cs.mu.Unlock()
				if hit == nil && expect == "conn-remote" {
					// through the real peer the returned conn is the proxy stream; the
					// client end that received the link identifies the route
					for _, r := range routes {
						cs.mu.Lock()
						e := cs.ends[r.id]
						cs.mu.Unlock()
						if e != nil && strings.HasPrefix(r.outcome, "peer-") {
							hit = r
						}
					}
				}
				if hit == nil {
					fail("returned-conn-not-to-a-route-client", "DialClient(%s) returned a connection that does not belong to any reachable route of the hostname", host)
				}
				if hit.cat != catOK {
					fail("returned-conn-not-to-a-route-client", "DialClient(%s) returned the connection of route %d whose outcome is %s", host, hit.slot, hit.outcome)
				}
				if expect == "conn-local" && !hit.local {
					fail("remote-route-used-although-local-reachable", "DialClient(%s) used remote route %d although a local route is reachable", host, hit.slot)
				}
				if expect == "conn-remote" {
					for _, r := range routes {
						if !r.local {
							continue
						}
						want := fmt.Sprintf("direct:%d:%s", r.id, protocol.Stream_DIRECT)
						found := false
						for _, d := range dialLog {
							found = found || d == want
						}
						if !found {
							fail("remote-route-tried-before-local", "DialClient(%s) used a remote route without trying local route %d: %v", host, r.slot, dialLog)
						}
					}
				}
				if expect == "conn-local" && seenProxy {
					fail("remote-route-tried-before-local", "DialClient(%s) opened a proxy stream although a local route is reachable: %v", host, dialLog)
				}
				cs.mu.Lock()
				e := cs.ends[hit.id]
				cs.mu.Unlock()
				select {
				case got := <-e.link:
					if got.GetHostname() != host || got.GetAlpn() != link.GetAlpn() || got.GetRemote() != link.GetRemote() {
						fail("link-not-carried-to-client", "client of route %d received link %v, want %v", hit.slot, got, link)
					}
				case e2 := <-e.echoDone:
					fail("link-not-carried-to-client", "client of route %d did not receive the link frame: %v", hit.slot, e2)
				case <-time.After(60 * time.Second):
					rec.Inconclusive("link frame not seen within 60s")
					return
				}
				if !hit.local && !strings.HasPrefix(hit.outcome, "peer-") {
					select {
					case r := <-e.route:
						if r.GetHostname() != host || !nodeEq(r.GetClientDestination(), hit.route.GetClientDestination()) || !nodeEq(r.GetTunnelDestination(), hit.route.GetTunnelDestination()) {
							fail("proxy-negotiation-names-other-route", "remote node received route %v, want %v", r, hit.route)
						}
					default:
						fail("proxy-negotiation-names-other-route", "remote node never received the route frame")
					}
				}
				// data flows both ways on the returned connection
				conn.SetDeadline(time.Now().Add(60 * time.Second))
				if _, werr := conn.Write([]byte("abc")); werr != nil {
					fail("returned-conn-unusable", "write on returned connection: %v", werr)
				}
				buf := make([]byte, 3)
				if _, rerr := io.ReadFull(conn, buf); rerr != nil {
					if errors.Is(rerr, context.DeadlineExceeded) || strings.Contains(rerr.Error(), "timeout") {
						rec.Inconclusive("echo not seen within 60s")
						return
					}
					fail("returned-conn-unusable", "read on returned connection: %v", rerr)
				}
				if string(buf) != "ABC" {
					fail("returned-conn-unusable", "echo through returned connection = %q", buf)
				}
				// no further attempt after success
				cs.mu.Lock()
				n2 := len(cs.dialLog)
				cs.mu.Unlock()
				if n2 != len(dialLog) {
					fail("dial-after-success", "more dial attempts after DialClient returned a connection")
				}
			default:
				if err == nil || conn != nil {
					fail("connection-without-reachable-route", "DialClient(%s) returned a connection although no route is reachable (%s)", host, expect)
				}
				switch expect {
				case "not-found":
					if !errors.Is(err, tun.ErrDestinationNotFound) {
						fail("no-routes-not-reported-not-found", "hostname without routes: got %v, want %v", err, tun.ErrDestinationNotFound)
					}
					if len(dialLog) != 0 {
						fail("dialled-client-not-in-routes", "dial attempts for a hostname without routes: %v", dialLog)
					}
				case "lookup-error":
					if len(dialLog) != 0 {
						fail("dialled-client-not-in-routes", "dial attempts for a hostname without decodable routes: %v", dialLog)
					}
				case "not-connected":
					if !errors.Is(err, tun.ErrTunnelClientNotConnected) {
						fail("unreachable-clients-not-reported-not-connected", "routes exist, none reachable, at least one no-direct: got %v, want %v", err, tun.ErrTunnelClientNotConnected)
					}
				case "all-generic-errors":
					if !errors.Is(err, tun.ErrTunnelClientNotConnected) && !errors.Is(err, tun.ErrDestinationNotFound) {
						fail("unreachable-clients-unclassified-error", "routes exist, none reachable: got %v", err)
					}
					if errors.Is(err, tun.ErrDestinationNotFound) {
						rec.Add("all_generic_errors_reported_not_found", 1)
					}
				}
				if expect == "not-connected" || expect == "all-generic-errors" {
					// every route must have been attempted
					for _, r := range routes {
						want := fmt.Sprintf("direct:%d:%s", r.id, protocol.Stream_DIRECT)
						if !r.local {
							want = fmt.Sprintf("proxy:%s:%s", r.route.GetChordDestination().GetAddress(), protocol.Stream_PROXY)
						}
						found := false
						for _, d := range dialLog {
							found = found || d == want
						}
						if !found {
							fail("route-not-attempted", "route %d (%s) was never attempted before giving up: %v", r.slot, r.outcome, dialLog)
						}
					}
				}
			}
		}
		for di, mode := range modes {
			if mode != "live" {
				if !abandoned(mode) {
					rec.Inconclusive("abandoned request did not finish within 60s")
					return
				}
				gateMu.Lock()
				slow := lookupTooSlow
				gateMu.Unlock()
				if slow {
					rec.Inconclusive("route lookup budget (3s) expired while the harness was descheduled")
					return
				}
				rec.Add("abandoned_dials:"+mode, 1)
				continue
			}
			judgeLive(di)
		}
	})
}
