package tuns

import (
	"crypto/ed25519"
	"crypto/rand"
	"fmt"
	"strings"
	"sync"
	"time"

	"go.miragespace.co/specter/spec/acme"
	"go.miragespace.co/specter/spec/pow"
	"go.miragespace.co/specter/spec/protocol"
	"go.miragespace.co/specter/util/hashcash"
)

// proofs are solved with the repo's own generator at production difficulty
// (≈ 0.1 s each) and reused while they are comfortably inside their validity
// window (a proof is bound to subject = normalized hostname, any key).

const proofLifetime = 18 * time.Second // VerifySolution accepts |now-exp| <= 20 s and exp >= now

type proofEntry struct {
	proof   *protocol.ProofOfWork
	expires time.Time
}

type proofPool struct {
	mu     sync.Mutex
	valid  map[string]*proofEntry
	static map[string]*protocol.ProofOfWork // kind|subject -> never-valid proofs
	key    ed25519.PrivateKey
	other  ed25519.PrivateKey
	solved int
}

func newProofPool() *proofPool {
	_, k, _ := ed25519.GenerateKey(rand.Reader)
	_, o, _ := ed25519.GenerateKey(rand.Reader)
	return &proofPool{valid: map[string]*proofEntry{}, static: map[string]*protocol.ProofOfWork{}, key: k, other: o}
}

func solve(key ed25519.PrivateKey, subject string, difficulty int, expires time.Duration) *protocol.ProofOfWork {
	p, err := pow.GenerateSolution(key, pow.Parameters{
		Difficulty: difficulty,
		Expires:    expires,
		GetSubject: func(ed25519.PublicKey) string { return subject },
	})
	if err != nil {
		panic(err)
	}
	return p
}

func proofExpiry(p *protocol.ProofOfWork) time.Time {
	hc, err := hashcash.Parse(p.GetSolution())
	if err != nil {
		panic(err)
	}
	return hc.ExpiresAt
}

// validFor returns a proof for subject that stays valid for at least `need`.
func (pp *proofPool) validFor(subject string, need time.Duration) *proofEntry {
	pp.mu.Lock()
	defer pp.mu.Unlock()
	if e, ok := pp.valid[subject]; ok && time.Until(e.expires) > need {
		return e
	}
	p := solve(pp.key, subject, acme.HashcashDifficulty, proofLifetime)
	pp.solved++
	e := &proofEntry{proof: p, expires: proofExpiry(p)}
	pp.valid[subject] = e
	return e
}

// presolve solves proofs for the given subjects in parallel.
func (pp *proofPool) presolve(subjects []string, workers int) {
	ch := make(chan string)
	var wg sync.WaitGroup
	for i := 0; i < workers; i++ {
		wg.Add(1)
		go func() {
			defer wg.Done()
			for s := range ch {
				p := solve(pp.key, s, acme.HashcashDifficulty, proofLifetime)
				pp.mu.Lock()
				pp.solved++
				pp.valid[s] = &proofEntry{proof: p, expires: proofExpiry(p)}
				pp.mu.Unlock()
			}
		}()
	}
	for _, s := range subjects {
		ch <- s
	}
	close(ch)
	wg.Wait()
}

var invalidProofKinds = []string{"missing", "wrong-subject", "wrong-key", "tampered-solution", "resigned-other-nonce", "expired", "far-future", "low-difficulty", "empty-fields"}

// invalid returns a proof of the given kind that must never verify for subject.
func (pp *proofPool) invalid(kind, subject string) *protocol.ProofOfWork {
	switch kind {
	case "missing":
		return nil
	case "empty-fields":
		return &protocol.ProofOfWork{}
	case "wrong-subject":
		return pp.validFor("other-"+strings.TrimPrefix(subject, "other-"), 6*time.Second).proof
	case "wrong-key":
		v := pp.validFor(subject, 6*time.Second).proof
		return &protocol.ProofOfWork{PubKey: pp.other.Public().(ed25519.PublicKey), Signature: v.GetSignature(), Solution: v.GetSolution()}
	case "tampered-solution":
		v := pp.validFor(subject, 6*time.Second).proof
		s := v.GetSolution()
		last := s[len(s)-1]
		repl := byte('A')
		if last == 'A' {
			repl = 'B'
		}
		return &protocol.ProofOfWork{PubKey: v.GetPubKey(), Signature: v.GetSignature(), Solution: s[:len(s)-1] + string(repl)}
	case "resigned-other-nonce":
		// a correctly signed stamp whose counter was changed: the hash no longer
		// has the required zero bits (except with probability 2^-18)
		v := pp.validFor(subject, 6*time.Second).proof
		s := v.GetSolution() + "x"
		return &protocol.ProofOfWork{PubKey: pp.key.Public().(ed25519.PublicKey), Signature: ed25519.Sign(pp.key, []byte(s)), Solution: s}
	}
	pp.mu.Lock()
	p, ok := pp.static[kind+"|"+subject]
	pp.mu.Unlock()
	if ok {
		return p
	}
	switch kind {
	case "expired":
		p = solve(pp.key, subject, acme.HashcashDifficulty, -5*time.Second)
	case "far-future":
		p = solve(pp.key, subject, acme.HashcashDifficulty, 2*time.Hour)
	case "low-difficulty":
		p = solve(pp.key, subject, acme.HashcashDifficulty-6, proofLifetime)
	default:
		panic(fmt.Sprintf("unknown proof kind %q", kind))
	}
	pp.mu.Lock()
	pp.solved++
	pp.static[kind+"|"+subject] = p
	pp.mu.Unlock()
	return p
}
