// Package tuns holds the checks for the tunnel server (tun/server):
// C25–C30 and C51. Everything here talks to the real server.Server through
// its public interfaces; the KV is a real kv/memory store behind a counting
// chord.VNode, transports / resolver / cert provider are small fakes with
// real behaviour (DESIGN §2 M6).
package tuns

import (
	"context"
	"crypto/ed25519"
	"crypto/rand"
	"crypto/tls"
	"crypto/x509"
	"crypto/x509/pkix"
	"errors"
	"fmt"
	"math/big"
	"net"
	"sort"
	"strings"
	"sync"
	"sync/atomic"
	"time"

	"go.miragespace.co/specter/kv/memory"
	"go.miragespace.co/specter/spec/chord"
	"go.miragespace.co/specter/spec/cipher"
	"go.miragespace.co/specter/spec/pki"
	"go.miragespace.co/specter/spec/protocol"
	"go.miragespace.co/specter/spec/rpc"
	"go.miragespace.co/specter/spec/transport"
	"go.miragespace.co/specter/spec/tun"
	"go.miragespace.co/specter/tun/server"

	"go.uber.org/zap"
)

const (
	testApex = "hello.com"
	testAcme = "acme.example.com"
)

// ---- counting VNode over a real memory KV -----------------------------------

type getOverride func(key []byte) (val []byte, err error, handled bool)

type fakeNode struct {
	*memory.MemoryKV
	ident *protocol.Node

	mutations atomic.Int64
	reads     atomic.Int64

	mu     sync.Mutex
	mutLog []string
	getFn  getOverride
	// getCtxFn is asked first and sees the context the caller passed
	getCtxFn func(ctx context.Context, key []byte) (val []byte, err error, handled bool)
	// faultFn, if set, is asked before every KV operation; a non-nil error is
	// returned to the caller instead of performing the operation
	faultFn func(op string, key []byte) error
	succFn  func() ([]chord.VNode, error)
}

var _ chord.VNode = (*fakeNode)(nil)

func newFakeNode(ident *protocol.Node) *fakeNode {
	return &fakeNode{MemoryKV: memory.WithHashFn(chord.Hash), ident: ident}
}

func (n *fakeNode) mut(op string, key []byte) {
	n.mutations.Add(1)
	n.mu.Lock()
	if len(n.mutLog) < 64 {
		n.mutLog = append(n.mutLog, op+" "+string(key))
	}
	n.mu.Unlock()
}

func (n *fakeNode) takeMutLog() []string {
	n.mu.Lock()
	defer n.mu.Unlock()
	l := n.mutLog
	n.mutLog = nil
	return l
}

func (n *fakeNode) setGet(f getOverride) { n.mu.Lock(); n.getFn = f; n.mu.Unlock() }

func (n *fakeNode) setGetCtx(f func(ctx context.Context, key []byte) ([]byte, error, bool)) {
	n.mu.Lock()
	n.getCtxFn = f
	n.mu.Unlock()
}

func (n *fakeNode) setFault(f func(op string, key []byte) error) {
	n.mu.Lock()
	n.faultFn = f
	n.mu.Unlock()
}

func (n *fakeNode) fault(op string, key []byte) error {
	n.mu.Lock()
	f := n.faultFn
	n.mu.Unlock()
	if f == nil {
		return nil
	}
	return f(op, key)
}

func (n *fakeNode) PrefixList(ctx context.Context, prefix []byte) ([][]byte, error) {
	n.reads.Add(1)
	if err := n.fault("PrefixList", prefix); err != nil {
		return nil, err
	}
	return n.MemoryKV.PrefixList(ctx, prefix)
}

func (n *fakeNode) PrefixContains(ctx context.Context, prefix, child []byte) (bool, error) {
	n.reads.Add(1)
	if err := n.fault("PrefixContains", prefix); err != nil {
		return false, err
	}
	return n.MemoryKV.PrefixContains(ctx, prefix, child)
}

func (n *fakeNode) Put(ctx context.Context, key, value []byte) error {
	if err := n.fault("Put", key); err != nil {
		return err
	}
	n.mut("Put", key)
	return n.MemoryKV.Put(ctx, key, value)
}
func (n *fakeNode) Get(ctx context.Context, key []byte) ([]byte, error) {
	n.reads.Add(1)
	if err := n.fault("Get", key); err != nil {
		return nil, err
	}
	n.mu.Lock()
	f := n.getFn
	fc := n.getCtxFn
	n.mu.Unlock()
	if fc != nil {
		if v, err, ok := fc(ctx, key); ok {
			return v, err
		}
	}
	if f != nil {
		if v, err, ok := f(key); ok {
			return v, err
		}
	}
	return n.MemoryKV.Get(ctx, key)
}
func (n *fakeNode) Delete(ctx context.Context, key []byte) error {
	if err := n.fault("Delete", key); err != nil {
		return err
	}
	n.mut("Delete", key)
	return n.MemoryKV.Delete(ctx, key)
}
func (n *fakeNode) PrefixAppend(ctx context.Context, prefix, child []byte) error {
	if err := n.fault("PrefixAppend", prefix); err != nil {
		return err
	}
	n.mut("PrefixAppend", prefix)
	return n.MemoryKV.PrefixAppend(ctx, prefix, child)
}
func (n *fakeNode) PrefixRemove(ctx context.Context, prefix, child []byte) error {
	if err := n.fault("PrefixRemove", prefix); err != nil {
		return err
	}
	n.mut("PrefixRemove", prefix)
	return n.MemoryKV.PrefixRemove(ctx, prefix, child)
}
func (n *fakeNode) Acquire(ctx context.Context, lease []byte, ttl time.Duration) (uint64, error) {
	if err := n.fault("Acquire", lease); err != nil {
		return 0, err
	}
	n.mut("Acquire", lease)
	return n.MemoryKV.Acquire(ctx, lease, ttl)
}
func (n *fakeNode) Renew(ctx context.Context, lease []byte, ttl time.Duration, prev uint64) (uint64, error) {
	if err := n.fault("Renew", lease); err != nil {
		return 0, err
	}
	n.mut("Renew", lease)
	return n.MemoryKV.Renew(ctx, lease, ttl, prev)
}
func (n *fakeNode) Release(ctx context.Context, lease []byte, token uint64) error {
	if err := n.fault("Release", lease); err != nil {
		return err
	}
	n.mut("Release", lease)
	return n.MemoryKV.Release(ctx, lease, token)
}
func (n *fakeNode) Import(ctx context.Context, keys [][]byte, values []*protocol.KVTransfer) error {
	n.mut("Import", nil)
	return n.MemoryKV.Import(ctx, keys, values)
}

func (n *fakeNode) ID() uint64               { return n.ident.GetId() }
func (n *fakeNode) Identity() *protocol.Node { return n.ident }
func (n *fakeNode) Ping() error              { return nil }
func (n *fakeNode) Notify(chord.VNode) error { return errors.New("fake: not a ring member") }
func (n *fakeNode) FindSuccessor(uint64) (chord.VNode, error) {
	return n, nil
}
func (n *fakeNode) GetSuccessors() ([]chord.VNode, error) {
	n.mu.Lock()
	f := n.succFn
	n.mu.Unlock()
	if f != nil {
		return f()
	}
	return nil, nil
}
func (n *fakeNode) GetPredecessor() (chord.VNode, error) { return nil, nil }
func (n *fakeNode) RequestToJoin(chord.VNode) (chord.VNode, []chord.VNode, error) {
	return nil, nil, errors.New("fake: no membership")
}
func (n *fakeNode) FinishJoin(bool, bool) error      { return errors.New("fake: no membership") }
func (n *fakeNode) RequestToLeave(chord.VNode) error { return errors.New("fake: no membership") }
func (n *fakeNode) FinishLeave(bool, bool) error     { return errors.New("fake: no membership") }

// snapshot renders the complete observable KV content (simple values, prefix
// children, held leases) in a canonical form.
func (n *fakeNode) snapshot() string {
	m := n.snapshotMap()
	keys := make([]string, 0, len(m))
	for k := range m {
		keys = append(keys, k)
	}
	sort.Strings(keys)
	var b strings.Builder
	for _, k := range keys {
		fmt.Fprintf(&b, "%s=%s\n", k, m[k])
	}
	return b.String()
}

func (n *fakeNode) snapshotMap() map[string]string {
	ctx := context.Background()
	comps, _ := n.MemoryKV.ListKeys(ctx, nil)
	out := map[string]string{}
	for _, c := range comps {
		switch c.GetType() {
		case protocol.KeyComposite_SIMPLE:
			v, _ := n.MemoryKV.Get(ctx, c.GetKey())
			out["S "+string(c.GetKey())] = fmt.Sprintf("%x", v)
		case protocol.KeyComposite_PREFIX:
			ch, _ := n.MemoryKV.PrefixList(ctx, c.GetKey())
			ss := make([]string, len(ch))
			for i := range ch {
				ss[i] = fmt.Sprintf("%q", ch[i])
			}
			sort.Strings(ss)
			out["P "+string(c.GetKey())] = strings.Join(ss, ",")
		case protocol.KeyComposite_LEASE:
			out["L "+string(c.GetKey())] = "held"
		}
	}
	return out
}

// ---- in-memory connections with harness-chosen addresses ---------------------

type strAddr string

func (a strAddr) Network() string { return "verif" }
func (a strAddr) String() string  { return string(a) }

type addrConn struct {
	net.Conn
	remote, local net.Addr
}

func (c *addrConn) RemoteAddr() net.Addr { return c.remote }
func (c *addrConn) LocalAddr() net.Addr  { return c.local }

var addrCounter atomic.Uint64

// nextAddr returns a fresh "ip:port" so that the RPC router's per-IP rate
// limiter (httprate.KeyByIP on http.Request.RemoteAddr) never sees the same
// key twice.
func nextAddr() string {
	v := addrCounter.Add(1)
	return fmt.Sprintf("10.%d.%d.%d:%d", (v>>16)&0xff, (v>>8)&0xff, v&0xff, 1024+(v>>24)&0x7fff)
}

// pipePair returns two connected in-memory conns; a is what the accepting side
// sees (its RemoteAddr is unique), b what the dialer gets.
func pipePair() (a, b net.Conn) {
	x, y := net.Pipe()
	ra, rb := nextAddr(), nextAddr()
	return &addrConn{Conn: x, remote: strAddr(rb), local: strAddr(ra)}, &addrConn{Conn: y, remote: strAddr(ra), local: strAddr(rb)}
}

// ---- fake transport ------------------------------------------------------------

type fakeTransport struct {
	ident   *protocol.Node
	accept  chan *transport.StreamDelegate
	dialFn  func(ctx context.Context, peer *protocol.Node, kind protocol.Stream_Type) (net.Conn, error)
	dgramFn func(peer *protocol.Node, b []byte) error
	dials   atomic.Int64
}

var _ transport.Transport = (*fakeTransport)(nil)

func newFakeTransport(ident *protocol.Node) *fakeTransport {
	return &fakeTransport{ident: ident, accept: make(chan *transport.StreamDelegate, 16)}
}

func (t *fakeTransport) Identity() *protocol.Node { return t.ident }
func (t *fakeTransport) DialStream(ctx context.Context, peer *protocol.Node, kind protocol.Stream_Type) (net.Conn, error) {
	t.dials.Add(1)
	if t.dialFn == nil {
		return nil, errors.New("fake transport: dial not configured")
	}
	return t.dialFn(ctx, peer, kind)
}
func (t *fakeTransport) AcceptStream() <-chan *transport.StreamDelegate { return t.accept }
func (t *fakeTransport) ListConnected() []transport.ConnectedPeer       { return nil }
func (t *fakeTransport) SupportDatagram() bool                          { return true }
func (t *fakeTransport) ReceiveDatagram() <-chan *transport.DatagramDelegate {
	return make(chan *transport.DatagramDelegate)
}
func (t *fakeTransport) SendDatagram(p *protocol.Node, b []byte) error {
	if t.dgramFn != nil {
		return t.dgramFn(p, b)
	}
	return nil
}

// ---- fake resolver / cert provider ------------------------------------------------

type fakeResolver struct {
	mu      sync.Mutex
	answers map[string]string
	errs    map[string]error
	calls   []string
}

func (r *fakeResolver) LookupCNAME(ctx context.Context, host string) (string, error) {
	r.mu.Lock()
	defer r.mu.Unlock()
	r.calls = append(r.calls, host)
	if e, ok := r.errs[host]; ok {
		return "", e
	}
	if a, ok := r.answers[host]; ok {
		return a, nil
	}
	return "", &net.DNSError{Err: "no such host", Name: host, IsNotFound: true}
}

func (r *fakeResolver) set(name, answer string, err error) {
	r.mu.Lock()
	defer r.mu.Unlock()
	if r.answers == nil {
		r.answers, r.errs = map[string]string{}, map[string]error{}
	}
	delete(r.answers, name)
	delete(r.errs, name)
	if err != nil {
		r.errs[name] = err
	} else if answer != "" {
		r.answers[name] = answer
	}
}

type fakeCertProvider struct {
	mu    sync.Mutex
	certs map[string]*tls.Certificate
	err   error
	calls int
	// delay makes the provider slow (on-demand issuance / storage round trip);
	// returnedAt is the instant just before it handed the certificate back
	delay      time.Duration
	returnedAt time.Time
}

func (p *fakeCertProvider) Initialize(context.Context) error { return nil }
func (p *fakeCertProvider) GetCertificate(chi *tls.ClientHelloInfo) (*tls.Certificate, error) {
	return p.GetCertificateWithContext(context.Background(), chi)
}
func (p *fakeCertProvider) GetCertificateWithContext(ctx context.Context, chi *tls.ClientHelloInfo) (*tls.Certificate, error) {
	p.mu.Lock()
	d := p.delay
	p.mu.Unlock()
	if d > 0 {
		time.Sleep(d)
	}
	p.mu.Lock()
	defer p.mu.Unlock()
	p.calls++
	if p.err != nil {
		return nil, p.err
	}
	c, ok := p.certs[chi.ServerName]
	if !ok {
		return nil, fmt.Errorf("fake cert provider: no certificate for %q", chi.ServerName)
	}
	p.returnedAt = time.Now()
	return c, nil
}
func (p *fakeCertProvider) OnHandshake(cipher.OnHandshakeFunc) {}

var _ cipher.CertProvider = (*fakeCertProvider)(nil)

// ---- client identities and certificates ---------------------------------------------

var (
	caOnce sync.Once
	caCert tls.Certificate
)

func throwawayCA() tls.Certificate {
	caOnce.Do(func() {
		pub, priv, err := ed25519.GenerateKey(rand.Reader)
		if err != nil {
			panic(err)
		}
		tmpl := x509.Certificate{
			SerialNumber:          big.NewInt(1),
			Subject:               pkix.Name{Organization: []string{"verif"}},
			NotBefore:             time.Now().Add(-time.Hour),
			NotAfter:              time.Now().Add(24 * time.Hour),
			KeyUsage:              x509.KeyUsageCertSign | x509.KeyUsageDigitalSignature,
			BasicConstraintsValid: true,
			IsCA:                  true,
		}
		der, err := x509.CreateCertificate(rand.Reader, &tmpl, &tmpl, pub, priv)
		if err != nil {
			panic(err)
		}
		caCert = tls.Certificate{Certificate: [][]byte{der}, PrivateKey: priv}
	})
	return caCert
}

var (
	certMu    sync.Mutex
	certCache = map[string]*x509.Certificate{}
)

// certWithCN issues (and caches) a client certificate with the given subject
// common name from the throw-away CA, through the repo's own pki package.
func certWithCN(cn string) *x509.Certificate {
	certMu.Lock()
	defer certMu.Unlock()
	if c, ok := certCache[cn]; ok {
		return c
	}
	pub, _, err := ed25519.GenerateKey(rand.Reader)
	if err != nil {
		panic(err)
	}
	der, err := pki.GenerateCertificate(zap.NewNop(), throwawayCA(), pki.IdentityRequest{
		Subject:   pkix.Name{CommonName: cn},
		PublicKey: pub,
	})
	var c *x509.Certificate
	if err == nil {
		c, err = x509.ParseCertificate(der)
	}
	if err != nil {
		// a common name the x509 encoder refuses: the server only ever reads the
		// parsed subject, so hand it a bare parsed form
		c = &x509.Certificate{Subject: pkix.Name{CommonName: cn}}
	}
	certCache[cn] = c
	return c
}

// client is one tunnel client as the server sees it after mTLS.
type client struct {
	Name  string
	ID    uint64
	Token string // the token the server derives from the certificate
	CN    string
	cert  *x509.Certificate
}

func newClientV1(name string, id uint64, token string) *client {
	cn := pki.MakeSubjectV1(id, token).CommonName
	return &client{Name: name, ID: id, Token: token, CN: cn, cert: certWithCN(cn)}
}

func newClientV2(name string, id uint64, hash []byte) *client {
	cn := pki.MakeSubjectV2(id, hash).CommonName
	return &client{Name: name, ID: id, Token: cn, CN: cn, cert: certWithCN(cn)}
}

func (c *client) token() *protocol.ClientToken { return &protocol.ClientToken{Token: []byte(c.Token)} }

// identity is what pki.Identity.NodeIdentity() yields for the certificate.
func (c *client) identity() *protocol.Node {
	return &protocol.Node{Id: c.ID, Address: c.Token, Rendezvous: true}
}

// delegationCtx is the context a handler sees for an RPC arriving on a stream
// whose verified peer certificate is c's; claimed is the identity the peer
// claims in the stream header (not trusted by the server).
func (c *client) delegationCtx(ctx context.Context, claimed *protocol.Node) context.Context {
	a, _ := pipePair()
	if claimed == nil {
		claimed = c.identity()
	}
	return rpc.WithDelegation(ctx, &transport.StreamDelegate{Conn: a, Certificate: c.cert, Identity: claimed, Kind: protocol.Stream_RPC})
}

// ---- server fixture --------------------------------------------------------------------

type fixture struct {
	kv       *fakeNode
	tunT     *fakeTransport
	chordT   *fakeTransport
	resolver *fakeResolver
	certs    *fakeCertProvider
	srv      *server.Server
	ctx      context.Context
	cancel   context.CancelFunc
}

func newFixture(selfTunnel, selfChord *protocol.Node) *fixture {
	ctx, cancel := context.WithCancel(context.Background())
	f := &fixture{
		kv:       newFakeNode(selfChord),
		tunT:     newFakeTransport(selfTunnel),
		chordT:   newFakeTransport(selfChord),
		resolver: &fakeResolver{},
		certs:    &fakeCertProvider{certs: map[string]*tls.Certificate{}},
		ctx:      ctx,
		cancel:   cancel,
	}
	f.srv = server.New(server.Config{
		Logger:          zap.NewNop(),
		ParentContext:   ctx,
		Chord:           f.kv,
		TunnelTransport: f.tunT,
		ChordTransport:  f.chordT,
		Resolver:        f.resolver,
		CertProvider:    f.certs,
		Apex:            testApex,
		Acme:            testAcme,
	})
	return f
}

func (f *fixture) close() {
	f.cancel()
	f.srv.Stop()
}

// putDestination stores the destination record of a (chord, tunnel) node pair
// exactly as publishDestinations does.
func putDestination(kv chord.KV, chordN, tunnelN *protocol.Node) {
	d := &protocol.TunnelDestination{Chord: chordN, Tunnel: tunnelN}
	buf, err := d.MarshalVT()
	if err != nil {
		panic(err)
	}
	ctx := context.Background()
	if chordN != nil {
		kv.Put(ctx, []byte(tun.DestinationByChordKey(chordN)), buf)
	}
	if tunnelN != nil {
		kv.Put(ctx, []byte(tun.DestinationByTunnelKey(tunnelN)), buf)
	}
}

func nodeStr(n *protocol.Node) string {
	if n == nil {
		return "<nil>"
	}
	return fmt.Sprintf("%d/%s/u=%v/r=%v", n.GetId(), n.GetAddress(), n.GetUnknown(), n.GetRendezvous())
}

func nodeEq(a, b *protocol.Node) bool {
	if a == nil || b == nil {
		return a == nil && b == nil
	}
	return a.GetId() == b.GetId() && a.GetAddress() == b.GetAddress() && a.GetUnknown() == b.GetUnknown() && a.GetRendezvous() == b.GetRendezvous()
}

type tb interface {
	Fatalf(string, ...any)
	Helper()
}

// ---- storage faults ----------------------------------------------------------------------

// kvFault makes selected operations of the fake KV fail during one step.
type kvFault struct {
	Ops       string          // an operation name, or any-mutation | any-read | any
	KeyPrefix string          // only keys with this prefix ("" = all)
	Nth       int             // 0 = every matching call, n = only the n-th matching call
	Err       string          // see kvFaultErrs
	Skip      map[string]bool // operations never failed
}

var (
	kvFaultErrs = map[string]error{
		"plain":           errors.New("kv storage fault (generated)"),
		"chord-retryable": chord.ErrKVStaleOwnership,
		"chord-node-gone": chord.ErrNodeGone,
		"deadline":        context.DeadlineExceeded,
	}
	kvFaultErrNames = []string{"plain", "chord-retryable", "chord-node-gone", "deadline"}
	kvMutatingOps   = map[string]bool{"Put": true, "Delete": true, "PrefixAppend": true, "PrefixRemove": true, "Acquire": true, "Renew": true, "Release": true}
)

func (f *kvFault) String() string {
	if f == nil {
		return "none"
	}
	n := "every"
	if f.Nth > 0 {
		n = fmt.Sprintf("call#%d", f.Nth)
	}
	s := f.Ops + "/" + n + "/" + f.Err
	if f.KeyPrefix != "" {
		s += "/" + f.KeyPrefix
	}
	return s
}

// install arms the fault and returns a func listing the calls it made fail.
func (f *kvFault) install(kv *fakeNode) func() []string {
	if f == nil {
		kv.setFault(nil)
		return func() []string { return nil }
	}
	var mu sync.Mutex
	var fired []string
	matched := 0
	e := kvFaultErrs[f.Err]
	kv.setFault(func(op string, key []byte) error {
		if f.Skip[op] {
			return nil
		}
		switch f.Ops {
		case "any":
		case "any-mutation":
			if !kvMutatingOps[op] {
				return nil
			}
		case "any-read":
			if kvMutatingOps[op] {
				return nil
			}
		default:
			if op != f.Ops {
				return nil
			}
		}
		if f.KeyPrefix != "" && !strings.HasPrefix(string(key), f.KeyPrefix) {
			return nil
		}
		mu.Lock()
		defer mu.Unlock()
		matched++
		if f.Nth > 0 && matched != f.Nth {
			return nil
		}
		fired = append(fired, op+" "+string(key))
		return e
	})
	return func() []string { mu.Lock(); defer mu.Unlock(); return append([]string{}, fired...) }
}
