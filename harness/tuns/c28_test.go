package tuns

import (
	"context"
	"errors"
	"fmt"
	"sort"
	"strings"
	"testing"
	"time"

	"go.miragespace.co/specter/spec/chord"
	"go.miragespace.co/specter/spec/protocol"
	"go.miragespace.co/specter/spec/tun"
	"verifharness/internal/ev"
)

// ---- C28: route lookups classified and cached ----------------------------------------

// per-slot outcomes
const (
	soLocal       = "local"
	soRemote      = "remote"
	soEmptyNil    = "empty"
	soEmptyZero   = "empty-zero-length"
	soError       = "error"
	soUndecodable = "undecodable"
)

var c28Outcomes = []string{soLocal, soRemote, soEmptyNil, soEmptyZero, soError, soUndecodable}

func TestC28(t *testing.T) {
	rec := ev.New(t, "C28")
	rec.Exhaustive(true)
	rec.Rule("exhaustive: every assignment of {route through the local node, route through a remote node, empty (nil), empty (zero-length), lookup error, undecodable value} to the three route slots (6^3), combinations containing an error repeated for three error kinds (plain, retryable chord error, context.DeadlineExceeded); routeCacheLoader called through the overlay accessor on a real Server whose KV answers each slot as assigned. Non-trivial: the three slots do not all have the same outcome. Distinct = (slot outcomes, error kind if any slot errors).")
	rec.Assume("an undecodable stored value counts as an errored slot (DESIGN §3 C28); a mix of empty and errored slots with no decodable route falls under the statement's 'otherwise' clause (zero routes, no error) - counted under class mixed-empty-error-zero-routes, its TTL is reported but not judged")

	selfT := &protocol.Node{Id: 11, Address: "tun-self:443"}
	selfC := &protocol.Node{Id: 12, Address: "chord-self:443"}
	fx := newFixture(selfT, selfC)
	defer fx.close()

	const host = "c28.example"
	undecodable := []byte{0x0a, 0xff, 0xff, 0xff, 0xff, 0xff, 0xff, 0xff, 0xff, 0xff, 0xff, 0x01}
	if (&protocol.TunnelRoute{}).UnmarshalVT(undecodable) == nil {
		t.Fatalf("harness: the 'undecodable' value decodes")
	}
	errKinds := []struct {
		name string
		err  error
	}{
		{"plain", errors.New("kv exploded")},
		{"retryable-chord", chord.ErrKVStaleOwnership},
		{"deadline", context.DeadlineExceeded},
	}

	mkRoute := func(slot int, local bool) *protocol.TunnelRoute {
		r := &protocol.TunnelRoute{
			ClientDestination: &protocol.Node{Id: uint64(100 + slot), Address: fmt.Sprintf("client-token-%d", slot), Rendezvous: true},
			Hostname:          host,
		}
		if local {
			r.ChordDestination, r.TunnelDestination = selfC, selfT
		} else {
			r.ChordDestination = &protocol.Node{Id: uint64(200 + slot), Address: fmt.Sprintf("chord-remote-%d:443", slot)}
			r.TunnelDestination = &protocol.Node{Id: uint64(300 + slot), Address: fmt.Sprintf("tun-remote-%d:443", slot)}
		}
		return r
	}
	routeKey := func(r *protocol.TunnelRoute) string {
		return fmt.Sprintf("%s|%s|%s|%s", nodeStr(r.GetClientDestination()), nodeStr(r.GetChordDestination()), nodeStr(r.GetTunnelDestination()), r.GetHostname())
	}

	type ttlObs struct {
		ttl  time.Duration
		desc string
	}
	var negTTL, failTTL, posTTL, mixedZeroTTL []ttlObs
	var failed bool
	var firstSig, firstReplay string
	note := func(sig, path string) {
		if !failed {
			firstSig, firstReplay = sig, path
		}
		failed = true
	}

	n := len(c28Outcomes)
	for a := 0; a < n; a++ {
		for b := 0; b < n; b++ {
			for c := 0; c < n; c++ {
				combo := []string{c28Outcomes[a], c28Outcomes[b], c28Outcomes[c]}
				hasErr := a == 4 || b == 4 || c == 4
				kinds := errKinds[:1]
				if hasErr {
					kinds = errKinds
				}
				for _, ek := range kinds {
					var decoded []*protocol.TunnelRoute
					values := map[string][]byte{}
					errs := map[string]error{}
					nEmpty, nErr := 0, 0
					for i, o := range combo {
						key := tun.RoutingKey(host, i+1)
						switch o {
						case soLocal, soRemote:
							r := mkRoute(i+1, o == soLocal)
							buf, _ := r.MarshalVT()
							values[key] = buf
							decoded = append(decoded, r)
						case soEmptyNil:
							values[key] = nil
							nEmpty++
						case soEmptyZero:
							values[key] = []byte{}
							nEmpty++
						case soError:
							errs[key] = ek.err
							nErr++
						case soUndecodable:
							values[key] = undecodable
							nErr++
						}
					}
					fx.kv.setGet(func(key []byte) ([]byte, error, bool) {
						k := string(key)
						if e, ok := errs[k]; ok {
							return nil, e, true
						}
						if v, ok := values[k]; ok {
							return v, nil, true
						}
						return nil, fmt.Errorf("harness: unexpected key %q", k), true
					})
					res := fx.srv.VerifRouteCacheLoader(context.Background(), host)
					fx.kv.setGet(nil)

					desc := strings.Join(combo, ",")
					keyStr := desc
					if hasErr {
						keyStr += "|" + ek.name
					}
					doc := map[string]any{"slots": combo, "error_kind": ek.name, "ttl": res.TTL.String(), "cost": res.Cost, "result_error": fmt.Sprint(res.Err), "routes": len(res.Routes)}
					nt := !(a == b && b == c)
					class := "some-routes"
					switch {
					case nEmpty == 3:
						class = "all-empty"
					case nErr == 3:
						class = "all-errored"
					case len(decoded) == 0:
						class = "mixed-empty-error-zero-routes"
					}
					rec.Case(nt, keyStr, func() any { return doc }, "class:"+class, fmt.Sprintf("decoded:%d", len(decoded)))
					report := func(sig, format string, args ...any) {
						note(sig, rec.Report(sig, doc, format, args...))
					}

					if res.LoadErr != nil {
						report("loader-returned-error", "slots %s: loader returned error %v", desc, res.LoadErr)
						continue
					}
					if res.TTL <= 0 {
						report("non-positive-ttl", "slots %s: ttl %v", desc, res.TTL)
					}
					switch class {
					case "all-empty":
						if !errors.Is(res.Err, tun.ErrDestinationNotFound) || len(res.Routes) != 0 {
							report("all-empty-not-reported-not-found", "slots %s: got err=%v routes=%d, want not-found", desc, res.Err, len(res.Routes))
						}
						negTTL = append(negTTL, ttlObs{res.TTL, desc})
					case "all-errored":
						if !errors.Is(res.Err, tun.ErrLookupFailed) || len(res.Routes) != 0 {
							report("all-errored-not-reported-lookup-failed", "slots %s (%s): got err=%v routes=%d, want lookup-failed", desc, ek.name, res.Err, len(res.Routes))
						}
						failTTL = append(failTTL, ttlObs{res.TTL, desc})
					default:
						if res.Err != nil {
							report("partial-result-reported-as-error", "slots %s (%s): %d decodable routes but result error %v", desc, ek.name, len(decoded), res.Err)
							break
						}
						var want, got []string
						for _, r := range decoded {
							want = append(want, routeKey(r))
						}
						seenRemote := false
						orderOK := true
						for _, r := range res.Routes {
							if r == nil {
								got = append(got, "<nil>")
								continue
							}
							got = append(got, routeKey(r))
							local := r.GetTunnelDestination().GetAddress() == selfT.GetAddress()
							if local && seenRemote {
								orderOK = false
							}
							if !local {
								seenRemote = true
							}
						}
						doc["got_routes"] = got
						sw, sg := append([]string{}, want...), append([]string{}, got...)
						sort.Strings(sw)
						sort.Strings(sg)
						if fmt.Sprint(sw) != fmt.Sprint(sg) {
							report("routes-not-the-decoded-set", "slots %s: routes %v, decoded slots %v", desc, got, want)
						} else if !orderOK {
							report("remote-route-before-local", "slots %s: order %v puts a remote route before a local one", desc, got)
						}
						if len(decoded) > 0 {
							posTTL = append(posTTL, ttlObs{res.TTL, desc})
						} else {
							mixedZeroTTL = append(mixedZeroTTL, ttlObs{res.TTL, desc})
						}
					}
				}
			}
		}
	}

	minOf := func(o []ttlObs) ttlObs {
		m := o[0]
		for _, x := range o {
			if x.ttl < m.ttl {
				m = x
			}
		}
		return m
	}
	maxOf := func(o []ttlObs) ttlObs {
		m := o[0]
		for _, x := range o {
			if x.ttl > m.ttl {
				m = x
			}
		}
		return m
	}
	if len(negTTL) == 0 || len(failTTL) == 0 || len(posTTL) == 0 {
		t.Fatalf("harness: enumeration did not reach all three result classes")
	}
	rec.Note("ttl_positive_min", minOf(posTTL).ttl.String())
	rec.Note("ttl_negative_max", maxOf(negTTL).ttl.String())
	rec.Note("ttl_failed_max", maxOf(failTTL).ttl.String())
	if len(mixedZeroTTL) > 0 {
		rec.Note("ttl_mixed_empty_error_zero_routes", fmt.Sprintf("%s..%s over %d combinations (result: no error, zero routes)", minOf(mixedZeroTTL).ttl, maxOf(mixedZeroTTL).ttl, len(mixedZeroTTL)))
	}
	if p, ng := minOf(posTTL), maxOf(negTTL); !(ng.ttl < p.ttl) {
		note("negative-ttl-not-shorter-than-positive", rec.Report("negative-ttl-not-shorter-than-positive", map[string]any{"negative": ng.desc, "negative_ttl": ng.ttl.String(), "positive": p.desc, "positive_ttl": p.ttl.String()},
			"not-found result (%s) cached for %v, positive result (%s) for %v", ng.desc, ng.ttl, p.desc, p.ttl))
	}
	if p, f := minOf(posTTL), maxOf(failTTL); !(f.ttl < p.ttl) {
		note("failed-ttl-not-shorter-than-positive", rec.Report("failed-ttl-not-shorter-than-positive", map[string]any{"failed": f.desc, "failed_ttl": f.ttl.String(), "positive": p.desc, "positive_ttl": p.ttl.String()},
			"lookup-failed result (%s) cached for %v, positive result (%s) for %v", f.desc, f.ttl, p.desc, p.ttl))
	}
	if failed {
		t.Fatalf("VIOLATION-SIG[%s] replay=%s :: one or more slot combinations violate C28 (first shown; see the VERIF-VIOLATION lines)", firstSig, firstReplay)
	}
}
