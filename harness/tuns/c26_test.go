package tuns

import (
	"context"
	"fmt"
	"sort"
	"strings"
	"testing"
	"time"

	"go.miragespace.co/specter/kv/memory"
	"go.miragespace.co/specter/spec/chord"
	"go.miragespace.co/specter/spec/protocol"
	"go.miragespace.co/specter/spec/tun"
	"verifharness/internal/ev"

	"pgregory.net/rapid"
)

// ---- C26: publish / unpublish / release -------------------------------------------

type c26Server struct {
	Name   string
	Chord  *protocol.Node
	Tunnel *protocol.Node
	Known  bool // destination record present in the DHT
}

type c26Route struct {
	Client *protocol.Node
	Chord  *protocol.Node
	Tunnel *protocol.Node
	Host   string
}

func (r *c26Route) String() string {
	return fmt.Sprintf("route{client=%s chord=%s tunnel=%s host=%q}", nodeStr(r.Client), nodeStr(r.Chord), nodeStr(r.Tunnel), r.Host)
}

type c26Binding struct {
	Token string
	Ident *protocol.Node
}

// c26Model is the reference state of the DHT keys the tunnel RPCs own.
type c26Model struct {
	reg    map[string]map[string]bool // token -> registered hostnames
	routes map[string]*[3]*c26Route   // hostname -> slots 1..3
	custom map[string]*c26Binding     // hostname -> binding
	fixed  map[string]string          // everything else (destination records), rendered
}

// renderKV maps a raw snapshot to a semantic rendering (decoded routes and
// bindings) so that model and store can be compared key by key.
func renderKV(raw map[string]string, kv *fakeNode) map[string]string {
	out := map[string]string{}
	ctx := context.Background()
	for k, v := range raw {
		switch {
		case strings.HasPrefix(k, "S /tunnel/bundle/"):
			val, _ := kv.MemoryKV.Get(ctx, []byte(k[2:]))
			r := &protocol.TunnelRoute{}
			if err := r.UnmarshalVT(val); err != nil {
				out[k] = "undecodable:" + v
			} else {
				out[k] = (&c26Route{Client: r.GetClientDestination(), Chord: r.GetChordDestination(), Tunnel: r.GetTunnelDestination(), Host: r.GetHostname()}).String()
			}
		case strings.HasPrefix(k, "S /tunnel/client/custom/"):
			val, _ := kv.MemoryKV.Get(ctx, []byte(k[2:]))
			b := &protocol.CustomHostname{}
			if err := b.UnmarshalVT(val); err != nil {
				out[k] = "undecodable:" + v
			} else {
				out[k] = fmt.Sprintf("binding{token=%q ident=%s}", b.GetClientToken().GetToken(), nodeStr(b.GetClientIdentity()))
			}
		default:
			out[k] = v
		}
	}
	return out
}

func (m *c26Model) register(token, host string) {
	if m.reg[token] == nil {
		m.reg[token] = map[string]bool{}
	}
	m.reg[token][host] = true
}

func (m *c26Model) clone() *c26Model {
	o := &c26Model{reg: map[string]map[string]bool{}, routes: map[string]*[3]*c26Route{}, custom: map[string]*c26Binding{}, fixed: m.fixed}
	for t, hs := range m.reg {
		o.reg[t] = map[string]bool{}
		for h := range hs {
			o.reg[t][h] = true
		}
	}
	for h, s := range m.routes {
		c := *s
		o.routes[h] = &c
	}
	for h, b := range m.custom {
		o.custom[h] = b
	}
	return o
}

// resync makes m the state the store is in after a request that a storage
// fault interrupted: per key either pre's or post's value (diffEither has
// already established that it is one of the two).
func (m *c26Model) resync(pre, post *c26Model, got map[string]string) {
	wantPost := post.expected()
	pick := func(key string) *c26Model {
		if v, ok := got[key]; ok && v == wantPost[key] {
			return post
		}
		if _, ok := got[key]; !ok {
			if _, inPost := wantPost[key]; !inPost {
				return post
			}
		}
		return pre
	}
	n := pre.clone()
	hostsSeen := map[string]bool{}
	for h := range pre.routes {
		hostsSeen[h] = true
	}
	for h := range post.routes {
		hostsSeen[h] = true
	}
	for h := range hostsSeen {
		var slots [3]*c26Route
		any := false
		for i := 0; i < 3; i++ {
			src := pick("S " + tun.RoutingKey(h, i+1))
			if s := src.routes[h]; s != nil && s[i] != nil {
				slots[i] = s[i]
				any = true
			}
		}
		if any {
			n.routes[h] = &slots
		} else {
			delete(n.routes, h)
		}
	}
	toks := map[string]bool{}
	for t := range pre.reg {
		toks[t] = true
	}
	for t := range post.reg {
		toks[t] = true
	}
	for t := range toks {
		src := pick("P " + tun.ClientHostnamesPrefix(&protocol.ClientToken{Token: []byte(t)}))
		n.reg[t] = map[string]bool{}
		for h := range src.reg[t] {
			n.reg[t][h] = true
		}
	}
	cs := map[string]bool{}
	for h := range pre.custom {
		cs[h] = true
	}
	for h := range post.custom {
		cs[h] = true
	}
	for h := range cs {
		src := pick("S " + tun.CustomHostnameKey(h))
		if b := src.custom[h]; b != nil {
			n.custom[h] = b
		} else {
			delete(n.custom, h)
		}
	}
	m.reg, m.routes, m.custom = n.reg, n.routes, n.custom
}

// diffEither reports keys of got that are in neither of the two states.
func diffEither(a, b, got map[string]string) string {
	var d []string
	keys := map[string]bool{}
	for k := range a {
		keys[k] = true
	}
	for k := range b {
		keys[k] = true
	}
	for k := range got {
		keys[k] = true
	}
	for k := range keys {
		g, gok := got[k]
		av, aok := a[k]
		bv, bok := b[k]
		if (gok == aok && g == av) || (gok == bok && g == bv) {
			continue
		}
		d = append(d, fmt.Sprintf("%s: got %q (present=%v), old %q (present=%v), new %q (present=%v)", k, g, gok, av, aok, bv, bok))
	}
	sort.Strings(d)
	return strings.Join(d, "\n")
}

func (m *c26Model) expected() map[string]string {
	out := map[string]string{}
	for k, v := range m.fixed {
		out[k] = v
	}
	for tok, hs := range m.reg {
		if len(hs) == 0 {
			continue
		}
		ss := make([]string, 0, len(hs))
		for h := range hs {
			ss = append(ss, fmt.Sprintf("%q", h))
		}
		sort.Strings(ss)
		out["P "+tun.ClientHostnamesPrefix(&protocol.ClientToken{Token: []byte(tok)})] = strings.Join(ss, ",")
	}
	for h, slots := range m.routes {
		for i, r := range slots {
			if r != nil {
				out["S "+tun.RoutingKey(h, i+1)] = r.String()
			}
		}
	}
	for h, b := range m.custom {
		out["S "+tun.CustomHostnameKey(h)] = fmt.Sprintf("binding{token=%q ident=%s}", b.Token, nodeStr(b.Ident))
	}
	return out
}

func diffMaps(want, got map[string]string) string {
	var d []string
	for k, v := range want {
		if g, ok := got[k]; !ok {
			d = append(d, fmt.Sprintf("missing %s (want %s)", k, v))
		} else if g != v {
			d = append(d, fmt.Sprintf("differs %s: got %s want %s", k, g, v))
		}
	}
	for k, v := range got {
		if _, ok := want[k]; !ok {
			d = append(d, fmt.Sprintf("unexpected %s = %s", k, v))
		}
	}
	sort.Strings(d)
	return strings.Join(d, "\n")
}

type c26Step struct {
	Op      string   `json:"op"`
	Client  string   `json:"client"`
	Host    string   `json:"host,omitempty"`    // symbolic: h<i> (owner), or a literal class
	Servers []string `json:"servers,omitempty"` // symbolic server names
	Claimed string   `json:"claimed,omitempty"`
	Result  string   `json:"result,omitempty"`
	// storage fault armed for the step and the KV calls it made fail
	Fault      string   `json:"fault,omitempty"`
	FaultFired []string `json:"fault_fired,omitempty"`
}

var c26FaultOps = []string{"Put", "Delete", "Delete", "PrefixAppend", "PrefixRemove", "Acquire", "Get", "PrefixContains", "PrefixList", "any-mutation", "any-read", "any"}

func TestC26(t *testing.T) {
	rec := ev.New(t, "C26")
	rec.Rule("rapid state machine: 2..3 clients with their own certificates (one token extends another, one is a v2 token), 6..18 steps of generate / registered-hostnames / publish / unpublish / release / custom-bind, one step in four under a storage fault (Put, Delete, PrefixAppend, PrefixRemove, Acquire, Get, PrefixContains, PrefixList, any mutation, any read or any operation failing - every matching call or only the n-th (n<=5), on any key or only on route / custom-binding / registration / lease / destination keys - with a plain, retryable-chord, node-gone or deadline error; lease Release is never failed), hostnames chosen among own, another client's, released, never-registered, empty and key-shaped strings; server lists over 4 known servers, 2 unknown ones, an empty node, with duplicates (exact and same-address-other-id) and 0..5 entries; the identity claimed in the stream header is generated independently of the certificate. Direct handler calls with a delegation context against a real kv/memory store. Oracle: reference model of registrations, route slots and custom bindings; after every step the complete KV content must equal the model. Under a storage fault: a request that reports success must have its complete effect (publish: the routes it lists as published), a request that fails leaves every key it would change in its old or its new state and nothing else touched. Router-hook dimension (class through-router-hook): generate/publish sequences of three certificates, two of which carry the same v1 token with different client ids, pass through the RequestRouted hook first, with the token record naming the caller, the other certificate or a pre-PKI identity; every stored route must name the identity of the certificate the request came with. Non-trivial sequence: contains a cross-client attempt (publish/unpublish/release of a hostname registered to another client) and a publish with a duplicate server. Distinct = the symbolic step list.")
	rec.Assume("a failed lease Release is a lease-expiry matter (C19) and is not injected; PublishTunnel by design succeeds when at least one of its route Puts succeeded and lists the published ones",
		"requested servers are distinct when their addresses differ (destination records are keyed by address); route slots above k are left as they were (the statement speaks of slots 1..k only)",
		"custom bindings are created by the harness exactly as AcmeValidate stores them (SaveCustomHostname + PrefixAppend); AcmeValidate itself is C29")

	selfT := &protocol.Node{Id: 11, Address: "tun-self:443"}
	selfC := &protocol.Node{Id: 12, Address: "chord-self:443"}
	fx := newFixture(selfT, selfC)
	defer fx.close()

	servers := []*c26Server{
		{Name: "S0", Chord: selfC, Tunnel: selfT, Known: true},
		{Name: "S1", Chord: &protocol.Node{Id: 21, Address: "chord-1:443"}, Tunnel: &protocol.Node{Id: 31, Address: "tun-1:443"}, Known: true},
		{Name: "S2", Chord: &protocol.Node{Id: 22, Address: "chord-2:443"}, Tunnel: &protocol.Node{Id: 32, Address: "tun-2:443"}, Known: true},
		{Name: "S3", Chord: &protocol.Node{Id: 23, Address: "chord-3:443"}, Tunnel: &protocol.Node{Id: 33, Address: "tun-3:443"}, Known: true},
		{Name: "X0", Chord: &protocol.Node{Id: 24, Address: "chord-x0:443"}, Tunnel: &protocol.Node{Id: 34, Address: "tun-x0:443"}},
		{Name: "X1", Chord: &protocol.Node{Id: 25, Address: "chord-x1:443"}, Tunnel: &protocol.Node{Id: 35, Address: "tun-1:4433"}},
		{Name: "E", Chord: &protocol.Node{}, Tunnel: &protocol.Node{}},
	}
	serverByName := map[string]*c26Server{}
	for _, s := range servers {
		serverByName[s.Name] = s
	}
	allClients := []*client{
		newClientV1("A", 5001, "tokA"),
		newClientV1("B", 5002, "tokA2"), // extends A's token
		newClientV2("C", 5003, []byte("client-c-public-key-hash-0123456")),
	}

	// witness of the listed known finding (if it is listed): a release whose
	// delete of the custom-hostname binding fails still reports success
	{
		const sig = "release-reports-success-but-custom-binding-remains-after-storage-fault"
		fx.kv.MemoryKV = memory.WithHashFn(chord.Hash)
		c, h := allClients[0], "witness.custom.example.org"
		ctx0 := context.Background()
		tun.SaveCustomHostname(ctx0, fx.kv.MemoryKV, h, &protocol.CustomHostname{ClientIdentity: c.identity(), ClientToken: c.token()})
		fx.kv.MemoryKV.PrefixAppend(ctx0, []byte(tun.ClientHostnamesPrefix(c.token())), []byte(h))
		f := &kvFault{Ops: "Delete", KeyPrefix: "/tunnel/client/custom/", Err: "plain"}
		f.install(fx.kv)
		_, err := fx.srv.ReleaseTunnel(c.delegationCtx(ctx0, nil), &protocol.ReleaseTunnelRequest{Hostname: h})
		fx.kv.setFault(nil)
		left, _ := fx.kv.MemoryKV.Get(ctx0, []byte(tun.CustomHostnameKey(h)))
		stillReg, _ := fx.kv.MemoryKV.PrefixContains(ctx0, []byte(tun.ClientHostnamesPrefix(c.token())), []byte(h))
		reproduced := err == nil && len(left) > 0 && !stillReg
		rec.Note("witness_release_with_failed_binding_delete", fmt.Sprintf("err=%v binding_left=%v registration_left=%v", err, len(left) > 0, stillReg))
		if ev.Known("C26", sig) {
			rec.Witnessed(sig, reproduced)
		}
	}

	// scenario: a publish that takes long (slow DHT: each phase stays below its own time limit,
	// the whole request takes about 3.5 s) overlaps a release of the same hostname by the same
	// client, which is retried until it goes through. The two requests are serialised by the
	// per-client lease; whichever order they take effect in, a route for the hostname may only
	// remain if the hostname is still registered to the client.
	{
		fx.kv.MemoryKV = memory.WithHashFn(chord.Hash)
		for _, s := range servers[:2] {
			putDestination(fx.kv.MemoryKV, s.Chord, s.Tunnel)
		}
		c := allClients[0]
		bg0 := context.Background()
		ctx := c.delegationCtx(bg0, nil)
		gen, gerr := fx.srv.GenerateHostname(ctx, &protocol.GenerateHostnameRequest{})
		if gerr != nil {
			t.Fatalf("set-up: GenerateHostname: %v", gerr)
		}
		host := gen.GetHostname()
		fx.kv.setFault(func(op string, key []byte) error {
			switch {
			case op == "Get" && strings.HasPrefix(string(key), "/destination/"):
				time.Sleep(1100 * time.Millisecond)
			case op == "Put" && strings.HasPrefix(string(key), "/tunnel/bundle/"):
				time.Sleep(2300 * time.Millisecond)
			}
			return nil
		})
		t0 := time.Now()
		pubDone := make(chan error, 1)
		go func() {
			_, err := fx.srv.PublishTunnel(ctx, &protocol.PublishTunnelRequest{Hostname: host, Servers: []*protocol.Node{servers[0].Tunnel, servers[1].Tunnel}})
			pubDone <- err
		}()
		time.Sleep(200 * time.Millisecond)
		var relErr error
		relAt, attempts := time.Duration(0), 0
		for time.Since(t0) < 12*time.Second {
			attempts++
			if _, relErr = fx.srv.ReleaseTunnel(ctx, &protocol.ReleaseTunnelRequest{Hostname: host}); relErr == nil {
				relAt = time.Since(t0)
				break
			}
			time.Sleep(150 * time.Millisecond)
		}
		pubErr := <-pubDone
		pubAt := time.Since(t0)
		fx.kv.setFault(nil)
		registered, _ := fx.kv.MemoryKV.PrefixContains(bg0, []byte(tun.ClientHostnamesPrefix(c.token())), []byte(host))
		var left []string
		for i := 1; i <= tun.NumRedundantLinks; i++ {
			if v, _ := fx.kv.MemoryKV.Get(bg0, []byte(tun.RoutingKey(host, i))); len(v) > 0 {
				left = append(left, tun.RoutingKey(host, i))
			}
		}
		doc := map[string]any{"schedule": "client A owns a hostname; the DHT answers destination lookups after 1.1 s and route Puts after 2.3 s; PublishTunnel(A, hostname, 2 servers) starts at 0; ReleaseTunnel(A, hostname) is tried from 0.2 s on every 150 ms until it succeeds",
			"publish_error": fmt.Sprint(pubErr), "publish_returned_after_ms": pubAt.Milliseconds(), "release_error": fmt.Sprint(relErr), "release_succeeded_after_ms": relAt.Milliseconds(), "release_attempts": attempts,
			"registered_afterwards": registered, "routes_left": left}
		switch {
		case relErr != nil:
			rec.Inconclusive("overlap-scenario-release-never-went-through")
		case len(left) > 0 && !registered:
			rec.Fail(t, "route-left-for-released-hostname-after-publish-overlapping-release", doc,
				"ReleaseTunnel succeeded after %d ms (attempt %d) while a PublishTunnel of the same client and hostname was still running (it returned %v after %d ms): the hostname is no longer registered but routes %v remain", relAt.Milliseconds(), attempts, pubErr, pubAt.Milliseconds(), left)
		default:
			rec.Case(true, "scenario:publish-overlaps-release", func() any { return doc }, "scenario:publish-overlaps-release")
		}
	}

	c26ThroughRouterHook(t, rec, fx, servers)

	ev.RapidCheck(t, 2000, 100000, func(t *rapid.T) {
		// fresh store per sequence
		fx.kv.MemoryKV = memory.WithHashFn(chord.Hash)
		for _, s := range servers {
			if s.Known {
				putDestination(fx.kv.MemoryKV, s.Chord, s.Tunnel)
			}
		}
		model := &c26Model{reg: map[string]map[string]bool{}, routes: map[string]*[3]*c26Route{}, custom: map[string]*c26Binding{}}
		model.fixed = fx.kv.snapshotMap()

		nClients := rapid.IntRange(2, 3).Draw(t, "clients")
		clients := allClients[:nClients]
		type hostInfo struct {
			name  string
			owner *client // nil once released
			first *client
		}
		var hosts []*hostInfo
		var steps []c26Step
		var symbolic []string
		crossClient, dupPublish := false, false
		nCustom := 0

		owned := func(c *client, h string) bool { return model.reg[c.Token][h] }
		// pickHost returns the literal hostname, its symbolic name, and whether it
		// is currently registered to a client other than c
		pickHost := func(c *client, label string) (string, string, bool) {
			mode := rapid.IntRange(0, 9).Draw(t, label+"-mode")
			if len(hosts) > 0 && mode <= 6 {
				// prefer own for modes 0..3, any for 4..6
				cands := hosts
				if mode <= 3 {
					var own []*hostInfo
					for _, h := range hosts {
						if h.owner == c {
							own = append(own, h)
						}
					}
					if len(own) > 0 {
						cands = own
					}
				}
				idx := rapid.IntRange(0, len(cands)-1).Draw(t, label+"-idx")
				h := cands[idx]
				pos := 0
				for i := range hosts {
					if hosts[i] == h {
						pos = i
					}
				}
				own := "released"
				if h.owner != nil {
					own = h.owner.Name
				}
				return h.name, fmt.Sprintf("h%d(%s)", pos, own), h.owner != nil && h.owner != c
			}
			lit := rapid.SampledFrom([]string{"never-registered", "", "a/1", "never/registered/2", c.Token, "tokA"}).Draw(t, label+"-lit")
			return lit, fmt.Sprintf("lit:%q", lit), false
		}

		nSteps := rapid.IntRange(6, 18).Draw(t, "steps")
		for si := 0; si < nSteps; si++ {
			c := clients[rapid.IntRange(0, len(clients)-1).Draw(t, "client")]
			// the claimed identity in the stream header: own, someone else's, or junk
			var claimed *protocol.Node
			claimedName := "own"
			switch rapid.IntRange(0, 3).Draw(t, "claimed") {
			case 1:
				o := clients[rapid.IntRange(0, len(clients)-1).Draw(t, "claimed-other")]
				claimed, claimedName = o.identity(), "identity-of-"+o.Name
			case 2:
				claimed, claimedName = &protocol.Node{Id: 424242, Address: "spoofed"}, "junk"
			}
			ctx := c.delegationCtx(context.Background(), claimed)
			opw := rapid.IntRange(0, 19).Draw(t, "op")
			if len(hosts) == 0 && opw >= 3 && opw < 17 {
				opw = 0
			}
			step := c26Step{Client: c.Name, Claimed: claimedName}
			// storage fault for this step (none for 3 of 4 steps)
			var fault *kvFault
			if rapid.IntRange(0, 3).Draw(t, "fault?") == 0 {
				fault = &kvFault{
					Ops:       rapid.SampledFrom(c26FaultOps).Draw(t, "fault-op"),
					Nth:       rapid.IntRange(0, 5).Draw(t, "fault-nth"),
					KeyPrefix: rapid.SampledFrom([]string{"", "", "", "/tunnel/bundle/", "/tunnel/client/custom/", "/tunnel/client/hostnames/", "/tunnel/client/lease/", "/destination/"}).Draw(t, "fault-keys"),
					Err:       rapid.SampledFrom(kvFaultErrNames).Draw(t, "fault-err"),
					Skip:      map[string]bool{"Release": true},
				}
				step.Fault = fault.String()
			}
			fail := func(sig string, format string, args ...any) {
				fx.kv.setFault(nil)
				step.Result = "VIOLATION"
				steps = append(steps, step)
				diffDoc := map[string]any{"clients": nClients, "steps": steps}
				rec.Fail(t, sig, diffDoc, format, args...)
			}
			pre := model.clone()
			// what the step does: filled in by the op
			var (
				opErr     error
				wantOK    bool            // the model accepts the request (healthy storage)
				apply     func(*c26Model) // the state change of a successful request
				partialOK bool            // success may cover only part of the change (publish tolerates failed Puts)
				published []*protocol.Node
				wantPub   []*c26Server
				opHost    string
				sigBase   string
				descr     string
				skipJudge bool
			)
			fired := fault.install(fx.kv)
			switch {
			case opw < 3: // generate
				step.Op = "generate"
				sigBase, descr = "generate", fmt.Sprintf("GenerateHostname(%s)", c.Name)
				resp, err := fx.srv.GenerateHostname(ctx, &protocol.GenerateHostnameRequest{})
				opErr, wantOK = err, true
				if err == nil {
					h := resp.GetHostname()
					if h == "" {
						fail("generate-hostname-empty", "GenerateHostname returned an empty hostname")
					}
					for _, o := range hosts {
						if o.name == h {
							// diceware collision (2^-60): treat as unmet precondition
							fx.kv.setFault(nil)
							rec.Inconclusive("generated hostname collided")
							t.Skip("collision")
						}
					}
					hosts = append(hosts, &hostInfo{name: h, owner: c, first: c})
					step.Host = fmt.Sprintf("h%d", len(hosts)-1)
					apply = func(m *c26Model) { m.register(c.Token, h) }
				}
			case opw < 4: // list
				step.Op = "registered-hostnames"
				sigBase, descr = "registered-hostnames", fmt.Sprintf("RegisteredHostnames(%s)", c.Name)
				resp, err := fx.srv.RegisteredHostnames(ctx, &protocol.RegisteredHostnamesRequest{})
				opErr, wantOK = err, true
				if err == nil {
					got := append([]string{}, resp.GetHostnames()...)
					sort.Strings(got)
					var want []string
					for h := range model.reg[c.Token] {
						want = append(want, h)
					}
					sort.Strings(want)
					if fmt.Sprint(got) != fmt.Sprint(want) {
						fail("registered-hostnames-mismatch", "RegisteredHostnames(%s) = %v, model %v", c.Name, got, want)
					}
				}
			case opw < 11: // publish
				step.Op = "publish"
				h, sym, foreign := pickHost(c, "publish-host")
				step.Host = sym
				opHost = h
				n := rapid.IntRange(0, 5).Draw(t, "nservers")
				var reqServers []*protocol.Node
				var distinct []*c26Server
				seenAddr := map[string]bool{}
				dup := false
				for j := 0; j < n; j++ {
					var s *c26Server
					sameAddrOtherID := false
					if j > 0 && rapid.IntRange(0, 3).Draw(t, "dup") == 0 {
						// duplicate of an earlier entry
						s = serverByName[strings.TrimSuffix(step.Servers[rapid.IntRange(0, j-1).Draw(t, "dup-of")], "'")]
						sameAddrOtherID = rapid.Bool().Draw(t, "dup-other-id")
					} else {
						w := rapid.IntRange(0, 11).Draw(t, "server")
						switch {
						case w < 8:
							s = servers[w%4]
						case w < 10:
							s = servers[4+w%2]
						case w == 10:
							s = servers[6]
						default:
							s = servers[rapid.IntRange(0, 3).Draw(t, "server-any")]
						}
					}
					node := s.Tunnel
					name := s.Name
					if sameAddrOtherID {
						node = &protocol.Node{Id: s.Tunnel.GetId() + 1000, Address: s.Tunnel.GetAddress()}
						name += "'"
					}
					reqServers = append(reqServers, node)
					step.Servers = append(step.Servers, name)
					if seenAddr[node.GetAddress()] {
						dup = true
						continue
					}
					seenAddr[node.GetAddress()] = true
					distinct = append(distinct, s)
				}
				allKnown := true
				for _, s := range distinct {
					allKnown = allKnown && s.Known
				}
				wantOK = owned(c, h) && len(distinct) >= 1 && len(distinct) <= tun.NumRedundantLinks && allKnown
				if foreign {
					crossClient = true
				}
				if dup && owned(c, h) {
					dupPublish = true
				}
				sigBase = "publish"
				descr = fmt.Sprintf("PublishTunnel(%s, %s, %v) [owned=%v distinct=%d allKnown=%v]", c.Name, sym, step.Servers, owned(c, h), len(distinct), allKnown)
				resp, err := fx.srv.PublishTunnel(ctx, &protocol.PublishTunnelRequest{Hostname: h, Servers: reqServers})
				opErr, partialOK, published, wantPub = err, true, resp.GetPublished(), distinct
				apply = func(m *c26Model) {
					slots := m.routes[h]
					if slots == nil {
						slots = &[3]*c26Route{}
						m.routes[h] = slots
					}
					for i, s := range distinct {
						slots[i] = &c26Route{Client: c.identity(), Chord: s.Chord, Tunnel: s.Tunnel, Host: h}
					}
				}
			case opw < 14: // unpublish
				step.Op = "unpublish"
				h, sym, foreign := pickHost(c, "unpublish-host")
				step.Host = sym
				opHost = h
				if foreign {
					crossClient = true
				}
				wantOK = owned(c, h)
				sigBase, descr = "unpublish", fmt.Sprintf("UnpublishTunnel(%s, %s)", c.Name, sym)
				_, err := fx.srv.UnpublishTunnel(ctx, &protocol.UnpublishTunnelRequest{Hostname: h})
				opErr = err
				apply = func(m *c26Model) { delete(m.routes, h) }
			case opw < 17: // release
				step.Op = "release"
				h, sym, foreign := pickHost(c, "release-host")
				step.Host = sym
				opHost = h
				if foreign {
					crossClient = true
				}
				wantOK = owned(c, h)
				sigBase, descr = "release", fmt.Sprintf("ReleaseTunnel(%s, %s)", c.Name, sym)
				_, err := fx.srv.ReleaseTunnel(ctx, &protocol.ReleaseTunnelRequest{Hostname: h})
				opErr = err
				apply = func(m *c26Model) {
					delete(m.routes, h)
					delete(m.reg[c.Token], h)
					delete(m.custom, h)
				}
			default: // custom-bind (harness writes what AcmeValidate writes)
				step.Op = "custom-bind"
				skipJudge = true
				h := fmt.Sprintf("c%d.custom.example.org", nCustom)
				nCustom++
				if err := tun.SaveCustomHostname(context.Background(), fx.kv.MemoryKV, h, &protocol.CustomHostname{ClientIdentity: c.identity(), ClientToken: c.token()}); err != nil {
					t.Fatalf("harness: %v", err)
				}
				fx.kv.MemoryKV.PrefixAppend(context.Background(), []byte(tun.ClientHostnamesPrefix(c.token())), []byte(h))
				hosts = append(hosts, &hostInfo{name: h, owner: c, first: c})
				model.register(c.Token, h)
				model.custom[h] = &c26Binding{Token: c.Token, Ident: c.identity()}
				step.Host = fmt.Sprintf("h%d", len(hosts)-1)
				step.Result = "ok"
			}
			fx.kv.setFault(nil)
			firedCalls := fired()
			faulted := len(firedCalls) > 0
			step.FaultFired = firedCalls
			got := renderKV(fx.kv.snapshotMap(), fx.kv)
			if !skipJudge {
				step.Result = "ok"
				if opErr != nil {
					step.Result = "refused"
				}
				switch {
				case opErr == nil && !wantOK:
					fail(sigBase+"-succeeded-unexpectedly", "%s succeeded but the model refuses it", descr)
				case opErr != nil && wantOK && !faulted:
					fail(sigBase+"-refused-unexpectedly", "%s failed with %v but the model accepts it", descr, opErr)
				case opErr != nil && !wantOK:
					// refused as it must be: nothing may change (compared below)
				case opErr == nil && (!faulted || !partialOK):
					// reported success: the complete post-state must hold, storage fault or not
					if apply != nil {
						apply(model)
					}
					if partialOK {
						if len(published) != len(wantPub) {
							fail("publish-response-mismatch", "%s published %d endpoints, want %d", descr, len(published), len(wantPub))
						}
						for i, s := range wantPub {
							if !nodeEq(published[i], s.Tunnel) {
								fail("publish-response-mismatch", "published[%d] = %s want %s", i, nodeStr(published[i]), nodeStr(s.Tunnel))
							}
						}
					}
					if faulted && step.Op == "release" && pre.custom[opHost] != nil && got["S "+tun.CustomHostnameKey(opHost)] != "" {
						// the binding survived a release that reported success
						const sig = "release-reports-success-but-custom-binding-remains-after-storage-fault"
						if ev.Known("C26", sig) {
							rec.Excluded(sig)
							model.custom[opHost] = pre.custom[opHost]
						} else {
							fail(sig, "%s reported success although deleting the custom-hostname binding failed (%v); the binding is still stored while the registration is gone", descr, firedCalls)
						}
					}
				default:
					// a storage fault hit an acceptable request that then failed, or a
					// publish that succeeded for part of its servers: every key the
					// request would change is in its old or its new state, nothing else moved
					post := model.clone()
					if apply != nil {
						apply(post)
					}
					want0, want1 := pre.expected(), post.expected()
					if d := diffEither(want0, want1, got); d != "" {
						fail("kv-content-neither-old-nor-new-after-storage-fault:"+step.Op+":"+step.Result, "%s under storage fault %s (%s, failed calls %v): the DHT content is neither the old nor the new state for some key, or an unrelated key changed:\n%s", descr, fault, step.Result, firedCalls, d)
					}
					if opErr == nil { // partial publish: what the response lists must be stored
						for _, pn := range published {
							idx := -1
							for i, s := range wantPub {
								if nodeEq(pn, s.Tunnel) {
									idx = i
								}
							}
							if idx < 0 {
								fail("publish-response-mismatch", "%s lists %s which was not requested", descr, nodeStr(pn))
							}
							k := "S " + tun.RoutingKey(opHost, idx+1)
							if got[k] != want1[k] {
								fail("publish-response-lists-route-that-is-not-stored", "%s lists %s as published but slot %d holds %q", descr, nodeStr(pn), idx+1, got[k])
							}
						}
						if len(published) == 0 {
							fail("publish-response-mismatch", "%s succeeded without publishing anything", descr)
						}
					}
					model.resync(pre, post, got)
				}
				// ownership as the model now has it
				for _, hi := range hosts {
					hi.owner = nil
					for _, cl := range clients {
						if model.reg[cl.Token][hi.name] {
							hi.owner = cl
						}
					}
				}
			}
			// the whole store must equal the model after every step
			if d := diffMaps(model.expected(), got); d != "" {
				fail("kv-content-differs-from-model:"+step.Op+":"+step.Result, "after %s (%s, storage fault %s, failed calls %v) the DHT content differs from the model:\n%s", descr, step.Result, fault, firedCalls, d)
			}
			steps = append(steps, step)
			symbolic = append(symbolic, fmt.Sprintf("%s:%s:%s:%v:%s:%s", step.Op, step.Client, step.Host, step.Servers, step.Claimed, step.Fault))
			rec.Add("steps", 1)
			rec.Add("step:"+step.Op+":"+step.Result, 1)
			if faulted {
				rec.Add("steps_with_storage_fault_fired", 1)
				rec.Add("faulted:"+step.Op+":"+step.Result, 1)
			}
		}
		nt := crossClient && dupPublish
		labels := []string{fmt.Sprintf("clients:%d", nClients)}
		if crossClient {
			labels = append(labels, "has-cross-client-attempt")
		}
		if dupPublish {
			labels = append(labels, "has-duplicate-server-publish")
		}
		rec.Case(nt, strings.Join(symbolic, ";"), func() any { return map[string]any{"clients": nClients, "steps": steps} }, labels...)
	})
}
