package tuns

import (
	"context"
	"fmt"
	"sort"
	"strings"
	"testing"

	"go.miragespace.co/specter/kv/memory"
	"go.miragespace.co/specter/spec/chord"
	"go.miragespace.co/specter/spec/protocol"
	"go.miragespace.co/specter/spec/tun"
	"verifharness/internal/ev"

	"pgregory.net/rapid"
)

// ---- C26: publish / unpublish / release -------------------------------------------

type c26Server struct {
	Name   string
	Chord  *protocol.Node
	Tunnel *protocol.Node
	Known  bool // destination record present in the DHT
}

type c26Route struct {
	Client *protocol.Node
	Chord  *protocol.Node
	Tunnel *protocol.Node
	Host   string
}

func (r *c26Route) String() string {
	return fmt.Sprintf("route{client=%s chord=%s tunnel=%s host=%q}", nodeStr(r.Client), nodeStr(r.Chord), nodeStr(r.Tunnel), r.Host)
}

type c26Binding struct {
	Token string
	Ident *protocol.Node
}

// c26Model is the reference state of the DHT keys the tunnel RPCs own.
type c26Model struct {
	reg    map[string]map[string]bool // token -> registered hostnames
	routes map[string]*[3]*c26Route   // hostname -> slots 1..3
	custom map[string]*c26Binding     // hostname -> binding
	fixed  map[string]string          // everything else (destination records), rendered
}

// renderKV maps a raw snapshot to a semantic rendering (decoded routes and
// bindings) so that model and store can be compared key by key.
func renderKV(raw map[string]string, kv *fakeNode) map[string]string {
	out := map[string]string{}
	ctx := context.Background()
	for k, v := range raw {
		switch {
		case strings.HasPrefix(k, "S /tunnel/bundle/"):
			val, _ := kv.MemoryKV.Get(ctx, []byte(k[2:]))
			r := &protocol.TunnelRoute{}
			if err := r.UnmarshalVT(val); err != nil {
				out[k] = "undecodable:" + v
			} else {
				out[k] = (&c26Route{Client: r.GetClientDestination(), Chord: r.GetChordDestination(), Tunnel: r.GetTunnelDestination(), Host: r.GetHostname()}).String()
			}
		case strings.HasPrefix(k, "S /tunnel/client/custom/"):
			val, _ := kv.MemoryKV.Get(ctx, []byte(k[2:]))
			b := &protocol.CustomHostname{}
			if err := b.UnmarshalVT(val); err != nil {
				out[k] = "undecodable:" + v
			} else {
				out[k] = fmt.Sprintf("binding{token=%q ident=%s}", b.GetClientToken().GetToken(), nodeStr(b.GetClientIdentity()))
			}
		default:
			out[k] = v
		}
	}
	return out
}

func (m *c26Model) expected() map[string]string {
	out := map[string]string{}
	for k, v := range m.fixed {
		out[k] = v
	}
	for tok, hs := range m.reg {
		if len(hs) == 0 {
			continue
		}
		ss := make([]string, 0, len(hs))
		for h := range hs {
			ss = append(ss, fmt.Sprintf("%q", h))
		}
		sort.Strings(ss)
		out["P "+tun.ClientHostnamesPrefix(&protocol.ClientToken{Token: []byte(tok)})] = strings.Join(ss, ",")
	}
	for h, slots := range m.routes {
		for i, r := range slots {
			if r != nil {
				out["S "+tun.RoutingKey(h, i+1)] = r.String()
			}
		}
	}
	for h, b := range m.custom {
		out["S "+tun.CustomHostnameKey(h)] = fmt.Sprintf("binding{token=%q ident=%s}", b.Token, nodeStr(b.Ident))
	}
	return out
}

func diffMaps(want, got map[string]string) string {
	var d []string
	for k, v := range want {
		if g, ok := got[k]; !ok {
			d = append(d, fmt.Sprintf("missing %s (want %s)", k, v))
		} else if g != v {
			d = append(d, fmt.Sprintf("differs %s: got %s want %s", k, g, v))
		}
	}
	for k, v := range got {
		if _, ok := want[k]; !ok {
			d = append(d, fmt.Sprintf("unexpected %s = %s", k, v))
		}
	}
	sort.Strings(d)
	return strings.Join(d, "\n")
}

type c26Step struct {
	Op      string   `json:"op"`
	Client  string   `json:"client"`
	Host    string   `json:"host,omitempty"`    // symbolic: h<i> (owner), or a literal class
	Servers []string `json:"servers,omitempty"` // symbolic server names
	Claimed string   `json:"claimed,omitempty"`
	Result  string   `json:"result,omitempty"`
}

func TestC26(t *testing.T) {
	rec := ev.New(t, "C26")
	rec.Rule("rapid state machine: 2..3 clients with their own certificates (one token extends another, one is a v2 token), 6..18 steps of generate / registered-hostnames / publish / unpublish / release / custom-bind, hostnames chosen among own, another client's, released, never-registered, empty and key-shaped strings; server lists over 4 known servers, 2 unknown ones, an empty node, with duplicates (exact and same-address-other-id) and 0..5 entries; the identity claimed in the stream header is generated independently of the certificate. Direct handler calls with a delegation context against a real kv/memory store. Oracle: reference model of registrations, route slots and custom bindings; after every step the complete KV content must equal the model. Non-trivial sequence: contains a cross-client attempt (publish/unpublish/release of a hostname registered to another client) and a publish with a duplicate server. Distinct = the symbolic step list.")
	rec.Assume("requested servers are distinct when their addresses differ (destination records are keyed by address); route slots above k are left as they were (the statement speaks of slots 1..k only)",
		"custom bindings are created by the harness exactly as AcmeValidate stores them (SaveCustomHostname + PrefixAppend); AcmeValidate itself is C29")

	selfT := &protocol.Node{Id: 11, Address: "tun-self:443"}
	selfC := &protocol.Node{Id: 12, Address: "chord-self:443"}
	fx := newFixture(selfT, selfC)
	defer fx.close()

	servers := []*c26Server{
		{Name: "S0", Chord: selfC, Tunnel: selfT, Known: true},
		{Name: "S1", Chord: &protocol.Node{Id: 21, Address: "chord-1:443"}, Tunnel: &protocol.Node{Id: 31, Address: "tun-1:443"}, Known: true},
		{Name: "S2", Chord: &protocol.Node{Id: 22, Address: "chord-2:443"}, Tunnel: &protocol.Node{Id: 32, Address: "tun-2:443"}, Known: true},
		{Name: "S3", Chord: &protocol.Node{Id: 23, Address: "chord-3:443"}, Tunnel: &protocol.Node{Id: 33, Address: "tun-3:443"}, Known: true},
		{Name: "X0", Chord: &protocol.Node{Id: 24, Address: "chord-x0:443"}, Tunnel: &protocol.Node{Id: 34, Address: "tun-x0:443"}},
		{Name: "X1", Chord: &protocol.Node{Id: 25, Address: "chord-x1:443"}, Tunnel: &protocol.Node{Id: 35, Address: "tun-1:4433"}},
		{Name: "E", Chord: &protocol.Node{}, Tunnel: &protocol.Node{}},
	}
	serverByName := map[string]*c26Server{}
	for _, s := range servers {
		serverByName[s.Name] = s
	}
	allClients := []*client{
		newClientV1("A", 5001, "tokA"),
		newClientV1("B", 5002, "tokA2"), // extends A's token
		newClientV2("C", 5003, []byte("client-c-public-key-hash-0123456")),
	}

	ev.RapidCheck(t, 2000, 100000, func(t *rapid.T) {
		// fresh store per sequence
		fx.kv.MemoryKV = memory.WithHashFn(chord.Hash)
		for _, s := range servers {
			if s.Known {
				putDestination(fx.kv.MemoryKV, s.Chord, s.Tunnel)
			}
		}
		model := &c26Model{reg: map[string]map[string]bool{}, routes: map[string]*[3]*c26Route{}, custom: map[string]*c26Binding{}}
		model.fixed = fx.kv.snapshotMap()

		nClients := rapid.IntRange(2, 3).Draw(t, "clients")
		clients := allClients[:nClients]
		type hostInfo struct {
			name  string
			owner *client // nil once released
			first *client
		}
		var hosts []*hostInfo
		var steps []c26Step
		var symbolic []string
		crossClient, dupPublish := false, false
		nCustom := 0

		owned := func(c *client, h string) bool { return model.reg[c.Token][h] }
		registerHost := func(c *client, h string) {
			if model.reg[c.Token] == nil {
				model.reg[c.Token] = map[string]bool{}
			}
			model.reg[c.Token][h] = true
		}
		// pickHost returns the literal hostname, its symbolic name, and whether it
		// is currently registered to a client other than c
		pickHost := func(c *client, label string) (string, string, bool) {
			mode := rapid.IntRange(0, 9).Draw(t, label+"-mode")
			if len(hosts) > 0 && mode <= 6 {
				// prefer own for modes 0..3, any for 4..6
				cands := hosts
				if mode <= 3 {
					var own []*hostInfo
					for _, h := range hosts {
						if h.owner == c {
							own = append(own, h)
						}
					}
					if len(own) > 0 {
						cands = own
					}
				}
				idx := rapid.IntRange(0, len(cands)-1).Draw(t, label+"-idx")
				h := cands[idx]
				pos := 0
				for i := range hosts {
					if hosts[i] == h {
						pos = i
					}
				}
				own := "released"
				if h.owner != nil {
					own = h.owner.Name
				}
				return h.name, fmt.Sprintf("h%d(%s)", pos, own), h.owner != nil && h.owner != c
			}
			lit := rapid.SampledFrom([]string{"never-registered", "", "a/1", "never/registered/2", c.Token, "tokA"}).Draw(t, label+"-lit")
			return lit, fmt.Sprintf("lit:%q", lit), false
		}

		nSteps := rapid.IntRange(6, 18).Draw(t, "steps")
		for si := 0; si < nSteps; si++ {
			c := clients[rapid.IntRange(0, len(clients)-1).Draw(t, "client")]
			// the claimed identity in the stream header: own, someone else's, or junk
			var claimed *protocol.Node
			claimedName := "own"
			switch rapid.IntRange(0, 3).Draw(t, "claimed") {
			case 1:
				o := clients[rapid.IntRange(0, len(clients)-1).Draw(t, "claimed-other")]
				claimed, claimedName = o.identity(), "identity-of-"+o.Name
			case 2:
				claimed, claimedName = &protocol.Node{Id: 424242, Address: "spoofed"}, "junk"
			}
			ctx := c.delegationCtx(context.Background(), claimed)
			opw := rapid.IntRange(0, 19).Draw(t, "op")
			if len(hosts) == 0 && opw >= 3 && opw < 17 {
				opw = 0
			}
			step := c26Step{Client: c.Name, Claimed: claimedName}
			mut0 := fx.kv.mutations.Load()
			_ = mut0
			fail := func(sig string, format string, args ...any) {
				step.Result = "VIOLATION"
				steps = append(steps, step)
				diffDoc := map[string]any{"clients": nClients, "steps": steps}
				rec.Fail(t, sig, diffDoc, format, args...)
			}
			switch {
			case opw < 3: // generate
				step.Op = "generate"
				resp, err := fx.srv.GenerateHostname(ctx, &protocol.GenerateHostnameRequest{})
				if err != nil {
					fail("generate-hostname-failed", "GenerateHostname for registered client %s: %v", c.Name, err)
				}
				h := resp.GetHostname()
				if h == "" {
					fail("generate-hostname-empty", "GenerateHostname returned an empty hostname")
				}
				for _, o := range hosts {
					if o.name == h {
						// diceware collision (2^-60): treat as unmet precondition
						rec.Inconclusive("generated hostname collided")
						t.Skip("collision")
					}
				}
				hosts = append(hosts, &hostInfo{name: h, owner: c, first: c})
				registerHost(c, h)
				step.Host = fmt.Sprintf("h%d", len(hosts)-1)
				step.Result = "ok"
			case opw < 4: // list
				step.Op = "registered-hostnames"
				resp, err := fx.srv.RegisteredHostnames(ctx, &protocol.RegisteredHostnamesRequest{})
				if err != nil {
					fail("registered-hostnames-failed", "RegisteredHostnames(%s): %v", c.Name, err)
				}
				got := append([]string{}, resp.GetHostnames()...)
				sort.Strings(got)
				var want []string
				for h := range model.reg[c.Token] {
					want = append(want, h)
				}
				sort.Strings(want)
				if fmt.Sprint(got) != fmt.Sprint(want) {
					fail("registered-hostnames-mismatch", "RegisteredHostnames(%s) = %v, model %v", c.Name, got, want)
				}
				step.Result = "ok"
			case opw < 11: // publish
				step.Op = "publish"
				h, sym, foreign := pickHost(c, "publish-host")
				step.Host = sym
				n := rapid.IntRange(0, 5).Draw(t, "nservers")
				var reqServers []*protocol.Node
				var distinct []*c26Server
				seenAddr := map[string]bool{}
				dup := false
				for j := 0; j < n; j++ {
					var s *c26Server
					sameAddrOtherID := false
					if j > 0 && rapid.IntRange(0, 3).Draw(t, "dup") == 0 {
						// duplicate of an earlier entry
						s = serverByName[strings.TrimSuffix(step.Servers[rapid.IntRange(0, j-1).Draw(t, "dup-of")], "'")]
						sameAddrOtherID = rapid.Bool().Draw(t, "dup-other-id")
					} else {
						w := rapid.IntRange(0, 11).Draw(t, "server")
						switch {
						case w < 8:
							s = servers[w%4]
						case w < 10:
							s = servers[4+w%2]
						case w == 10:
							s = servers[6]
						default:
							s = servers[rapid.IntRange(0, 3).Draw(t, "server-any")]
						}
					}
					node := s.Tunnel
					name := s.Name
					if sameAddrOtherID {
						node = &protocol.Node{Id: s.Tunnel.GetId() + 1000, Address: s.Tunnel.GetAddress()}
						name += "'"
					}
					reqServers = append(reqServers, node)
					step.Servers = append(step.Servers, name)
					if seenAddr[node.GetAddress()] {
						dup = true
						continue
					}
					seenAddr[node.GetAddress()] = true
					distinct = append(distinct, s)
				}
				allKnown := true
				for _, s := range distinct {
					allKnown = allKnown && s.Known
				}
				wantOK := owned(c, h) && len(distinct) >= 1 && len(distinct) <= tun.NumRedundantLinks && allKnown
				if foreign {
					crossClient = true
				}
				if dup && owned(c, h) {
					dupPublish = true
				}
				resp, err := fx.srv.PublishTunnel(ctx, &protocol.PublishTunnelRequest{Hostname: h, Servers: reqServers})
				step.Result = "ok"
				if err != nil {
					step.Result = "refused"
				}
				if (err == nil) != wantOK {
					why := fmt.Sprintf("owned=%v distinct=%d allKnown=%v", owned(c, h), len(distinct), allKnown)
					if err == nil {
						fail("publish-succeeded-unexpectedly", "PublishTunnel(%s, %s, %v) succeeded but the model refuses it (%s)", c.Name, sym, step.Servers, why)
					}
					fail("publish-refused-unexpectedly", "PublishTunnel(%s, %s, %v) failed with %v but the model accepts it (%s)", c.Name, sym, step.Servers, err, why)
				}
				if wantOK {
					slots := model.routes[h]
					if slots == nil {
						slots = &[3]*c26Route{}
						model.routes[h] = slots
					}
					for i, s := range distinct {
						slots[i] = &c26Route{Client: c.identity(), Chord: s.Chord, Tunnel: s.Tunnel, Host: h}
					}
					pub := resp.GetPublished()
					if len(pub) != len(distinct) {
						fail("publish-response-mismatch", "PublishTunnel published %d endpoints, want %d", len(pub), len(distinct))
					}
					for i, s := range distinct {
						if !nodeEq(pub[i], s.Tunnel) {
							fail("publish-response-mismatch", "published[%d] = %s want %s", i, nodeStr(pub[i]), nodeStr(s.Tunnel))
						}
					}
				}
			case opw < 14: // unpublish
				step.Op = "unpublish"
				h, sym, foreign := pickHost(c, "unpublish-host")
				step.Host = sym
				if foreign {
					crossClient = true
				}
				wantOK := owned(c, h)
				_, err := fx.srv.UnpublishTunnel(ctx, &protocol.UnpublishTunnelRequest{Hostname: h})
				step.Result = "ok"
				if err != nil {
					step.Result = "refused"
				}
				if (err == nil) != wantOK {
					if err == nil {
						fail("unpublish-succeeded-unexpectedly", "UnpublishTunnel(%s, %s) succeeded for a hostname not registered to the caller", c.Name, sym)
					}
					fail("unpublish-refused-unexpectedly", "UnpublishTunnel(%s, %s) of an own hostname failed: %v", c.Name, sym, err)
				}
				if wantOK {
					delete(model.routes, h)
				}
			case opw < 17: // release
				step.Op = "release"
				h, sym, foreign := pickHost(c, "release-host")
				step.Host = sym
				if foreign {
					crossClient = true
				}
				wantOK := owned(c, h)
				_, err := fx.srv.ReleaseTunnel(ctx, &protocol.ReleaseTunnelRequest{Hostname: h})
				step.Result = "ok"
				if err != nil {
					step.Result = "refused"
				}
				if (err == nil) != wantOK {
					if err == nil {
						fail("release-succeeded-unexpectedly", "ReleaseTunnel(%s, %s) succeeded for a hostname not registered to the caller", c.Name, sym)
					}
					fail("release-refused-unexpectedly", "ReleaseTunnel(%s, %s) of an own hostname failed: %v", c.Name, sym, err)
				}
				if wantOK {
					delete(model.routes, h)
					delete(model.reg[c.Token], h)
					delete(model.custom, h)
					for _, hi := range hosts {
						if hi.name == h {
							hi.owner = nil
						}
					}
				}
			default: // custom-bind (harness writes what AcmeValidate writes)
				step.Op = "custom-bind"
				h := fmt.Sprintf("c%d.custom.example.org", nCustom)
				nCustom++
				if err := tun.SaveCustomHostname(context.Background(), fx.kv.MemoryKV, h, &protocol.CustomHostname{ClientIdentity: c.identity(), ClientToken: c.token()}); err != nil {
					t.Fatalf("harness: %v", err)
				}
				fx.kv.MemoryKV.PrefixAppend(context.Background(), []byte(tun.ClientHostnamesPrefix(c.token())), []byte(h))
				hosts = append(hosts, &hostInfo{name: h, owner: c, first: c})
				registerHost(c, h)
				model.custom[h] = &c26Binding{Token: c.Token, Ident: c.identity()}
				step.Host = fmt.Sprintf("h%d", len(hosts)-1)
				step.Result = "ok"
			}
			// the whole store must equal the model after every step
			got := renderKV(fx.kv.snapshotMap(), fx.kv)
			if d := diffMaps(model.expected(), got); d != "" {
				fail("kv-content-differs-from-model:"+step.Op+":"+step.Result, "after %s by %s (%s) the DHT content differs from the model:\n%s", step.Op, c.Name, step.Result, d)
			}
			steps = append(steps, step)
			symbolic = append(symbolic, fmt.Sprintf("%s:%s:%s:%v:%s", step.Op, step.Client, step.Host, step.Servers, step.Claimed))
			rec.Add("steps", 1)
			rec.Add("step:"+step.Op+":"+step.Result, 1)
		}
		nt := crossClient && dupPublish
		labels := []string{fmt.Sprintf("clients:%d", nClients)}
		if crossClient {
			labels = append(labels, "has-cross-client-attempt")
		}
		if dupPublish {
			labels = append(labels, "has-duplicate-server-publish")
		}
		rec.Case(nt, strings.Join(symbolic, ";"), func() any { return map[string]any{"clients": nClients, "steps": steps} }, labels...)
	})
}
