package tuns

import (
	"context"
	"fmt"
	"strings"
	"sync"
	"testing"
	"time"

	"go.miragespace.co/specter/kv/memory"
	"go.miragespace.co/specter/spec/chord"
	"go.miragespace.co/specter/spec/protocol"
	"go.miragespace.co/specter/spec/tun"
	"verifharness/internal/ev"

	"github.com/twitchtv/twirp/ctxsetters"
	"pgregory.net/rapid"
)

// c25OverlappingVerifications: the request of a certificate holder whose token was never
// registered reaches the router hook while the verification of a registered client is still
// waiting for the DHT (its token record has been asked for, the answer is held back). The two
// callers may share the numeric client id (ids are chosen by the client in v1 subjects), the
// token prefix, or nothing. The never-registered caller must be refused and nothing may be
// written for it, whatever else is in flight.
func c25OverlappingVerifications(t *testing.T, rec *ev.Recorder) {
	selfT := &protocol.Node{Id: 11, Address: "tun-self:443"}
	selfC := &protocol.Node{Id: 12, Address: "chord-self:443"}
	fx := newFixture(selfT, selfC)
	defer fx.close()
	bg := context.Background()
	gated := []string{"GenerateHostname", "RegisteredHostnames", "PublishTunnel", "UnpublishTunnel", "ReleaseTunnel", "GetNodes", "AcmeInstruction", "AcmeValidate"}

	caseNo := 0
	gaveUp := false
	ev.RapidCheck(t, 120, 4000, func(rt *rapid.T) {
		if gaveUp {
			return
		}
		fx.kv.setFault(nil)
		fx.kv.MemoryKV = memory.WithHashFn(chord.Hash)
		// a token of its own for every case: nothing a server may remember about earlier callers
		// can stand in for the lookup
		caseNo++
		reg := newClientV1("R", 7001, fmt.Sprintf("tok-inflight-registered-%d", caseNo))
		recKind := rapid.SampledFrom([]string{"pki-record", "pre-pki-record"}).Draw(rt, "registeredRecord")
		{
			n := reg.identity()
			if recKind == "pre-pki-record" {
				n = &protocol.Node{Id: reg.ID}
			}
			b, _ := n.MarshalVT()
			fx.kv.MemoryKV.Put(bg, []byte(tun.ClientTokenKey(reg.token())), b)
		}
		var unreg *client
		uKind := rapid.SampledFrom([]string{"same-id-other-token", "same-id-other-token", "same-id-token-extension", "same-id-token-prefix", "same-id-v2", "other-id-other-token"}).Draw(rt, "unregistered")
		switch uKind {
		case "same-id-other-token":
			unreg = newClientV1("U", reg.ID, "tok-never-registered-"+rapid.StringMatching("[a-z]{1,6}").Draw(rt, "salt"))
		case "same-id-token-extension":
			unreg = newClientV1("U", reg.ID, reg.Token+"x")
		case "same-id-token-prefix":
			unreg = newClientV1("U", reg.ID, reg.Token[:len(reg.Token)-1])
		case "same-id-v2":
			unreg = newClientV2("U", reg.ID, []byte("never-registered-key-hash-000000"))
		default:
			unreg = newClientV1("U", reg.ID+1, "tok-never-registered")
		}
		mReg := rapid.SampledFrom(gated).Draw(rt, "registeredCallerMethod")
		mUn := rapid.SampledFrom(gated).Draw(rt, "unregisteredCallerMethod")
		service := func(m string) string {
			if strings.HasPrefix(m, "Acme") || m == "GetNodes" || strings.HasSuffix(m, "Tunnel") || strings.HasSuffix(m, "Hostname") || strings.HasSuffix(m, "Hostnames") {
				return "TunnelService"
			}
			return "KeylessService"
		}
		hook := func(c *client, m string) error {
			ctx := ctxsetters.WithMethodName(ctxsetters.WithServiceName(c.delegationCtx(bg, nil), service(m)), m)
			_, err := fx.srv.VerifVerifyClientIdentity(ctx)
			return err
		}

		// hold back the answer to the first read of the registered token's record
		var once sync.Once
		asked, release := make(chan struct{}), make(chan struct{})
		regKey := tun.ClientTokenKey(reg.token())
		fx.kv.setFault(func(op string, key []byte) error {
			if op == "Get" && string(key) == regKey {
				held := false
				once.Do(func() { held = true })
				if held {
					close(asked)
					<-release
				}
			}
			return nil
		})
		regDone := make(chan error, 1)
		go func() { regDone <- hook(reg, mReg) }()
		select {
		case <-asked:
		case <-time.After(10 * time.Second):
			close(release)
			rec.Inconclusive("registered-caller-never-asked-the-dht")
			gaveUp = true // the schedule cannot be set up on this build: do not spend 10 s per case
			return
		}
		fx.kv.takeMutLog()
		unDone := make(chan error, 1)
		go func() { unDone <- hook(unreg, mUn) }()
		var unErr error
		waited := false
		select {
		case unErr = <-unDone:
			close(release)
		case <-time.After(300 * time.Millisecond):
			waited = true
			close(release)
			unErr = <-unDone
		}
		regErr := <-regDone
		fx.kv.setFault(nil)
		doc := map[string]any{"registered": fmt.Sprintf("id %d token %q (%s), calls %s; the DHT's answer to its token lookup is held back", reg.ID, reg.Token, recKind, mReg),
			"unregistered": fmt.Sprintf("id %d token %q (%s), calls %s while that lookup is outstanding", unreg.ID, unreg.Token, uKind, mUn),
			"unregistered_waited_for_the_other_lookup": waited, "unregistered_result": fmt.Sprint(unErr), "registered_result": fmt.Sprint(regErr)}
		rec.Case(true, fmt.Sprintf("overlap|%s|%s|%s|%s|%s", recKind, uKind, unreg.Token, mReg, mUn), func() any { return doc }, "overlapping-verifications", "unregistered:"+uKind)
		if unErr == nil {
			rec.Fail(rt, "unregistered-token-passed-the-router-hook", doc, "%s by a certificate with the never-registered token %q (client id %d) passed the identity hook while the verification of the registered token %q (client id %d) was in flight", mUn, unreg.Token, unreg.ID, reg.Token, reg.ID)
		}
		if v, _ := fx.kv.MemoryKV.Get(bg, []byte(tun.ClientTokenKey(unreg.token()))); len(v) > 0 {
			rec.Fail(rt, "record-written-for-unregistered-token", doc, "a token record exists for the never-registered token %q afterwards", unreg.Token)
		}
	})
}
