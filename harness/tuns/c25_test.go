package tuns

import (
	"context"
	"errors"
	"fmt"
	"net"
	"reflect"
	"sort"
	"strconv"
	"strings"
	"sync"
	"testing"
	"time"
	"unicode"

	"go.miragespace.co/specter/spec/chord"
	"go.miragespace.co/specter/spec/protocol"
	"go.miragespace.co/specter/spec/rpc"
	"go.miragespace.co/specter/spec/transport"
	"verifharness/internal/ev"

	"github.com/twitchtv/twirp"
	"github.com/twitchtv/twirp/ctxsetters"
	"go.uber.org/zap"
	"google.golang.org/protobuf/proto"
	"google.golang.org/protobuf/reflect/protoreflect"
	"pgregory.net/rapid"
)

// ---- C25: control RPCs need a verified, registered client ---------------------

// rpcMethod is one method of TunnelService / KeylessService found by reflection.
type rpcMethod struct {
	Service string
	Name    string
	reqType reflect.Type // pointer type
}

func enumerateRPCMethods() []rpcMethod {
	var out []rpcMethod
	for _, s := range []struct {
		name string
		typ  reflect.Type
	}{
		{"TunnelService", reflect.TypeOf((*protocol.TunnelService)(nil)).Elem()},
		{"KeylessService", reflect.TypeOf((*protocol.KeylessService)(nil)).Elem()},
	} {
		for i := 0; i < s.typ.NumMethod(); i++ {
			m := s.typ.Method(i)
			if m.Type.NumIn() != 2 || m.Type.NumOut() != 2 {
				continue
			}
			out = append(out, rpcMethod{Service: s.name, Name: m.Name, reqType: m.Type.In(1)})
		}
	}
	sort.Slice(out, func(i, j int) bool { return out[i].Service+out[i].Name < out[j].Service+out[j].Name })
	return out
}

func (m rpcMethod) newRequest() proto.Message {
	return reflect.New(m.reqType.Elem()).Interface().(proto.Message)
}

// the statement's allow-list
func c25AllowListed(name string) bool { return name == "Ping" || name == "RegisterIdentity" }

// fillMessage fills m with generated field values (generic protoreflect
// filler). dict holds strings that mean something to the server (registered
// hostnames, node addresses); sizes are bounded so that a request stays far
// below the router's 1 KiB body limit.
func fillMessage(t *rapid.T, m protoreflect.Message, depth int, dict []string, label string) {
	fields := m.Descriptor().Fields()
	for i := 0; i < fields.Len(); i++ {
		fd := fields.Get(i)
		l := label + "." + string(fd.Name())
		if rapid.IntRange(0, 4).Draw(t, l+"?") == 0 {
			continue
		}
		if fd.IsList() {
			n := rapid.IntRange(0, 3).Draw(t, l+"#")
			lst := m.Mutable(fd).List()
			for j := 0; j < n; j++ {
				if fd.Kind() == protoreflect.MessageKind {
					e := lst.NewElement()
					if depth < 2 {
						fillMessage(t, e.Message(), depth+1, dict, fmt.Sprintf("%s[%d]", l, j))
					}
					lst.Append(e)
				} else {
					lst.Append(scalarValue(t, fd, dict, fmt.Sprintf("%s[%d]", l, j)))
				}
			}
			continue
		}
		if fd.IsMap() {
			continue
		}
		if fd.Kind() == protoreflect.MessageKind || fd.Kind() == protoreflect.GroupKind {
			if depth < 2 {
				fillMessage(t, m.Mutable(fd).Message(), depth+1, dict, l)
			}
			continue
		}
		m.Set(fd, scalarValue(t, fd, dict, l))
	}
}

func scalarValue(t *rapid.T, fd protoreflect.FieldDescriptor, dict []string, l string) protoreflect.Value {
	switch fd.Kind() {
	case protoreflect.BoolKind:
		return protoreflect.ValueOfBool(rapid.Bool().Draw(t, l))
	case protoreflect.EnumKind:
		vals := fd.Enum().Values()
		n := rapid.IntRange(0, vals.Len()).Draw(t, l)
		if n == vals.Len() {
			return protoreflect.ValueOfEnum(protoreflect.EnumNumber(rapid.Int32Range(-2, 40).Draw(t, l+"!")))
		}
		return protoreflect.ValueOfEnum(vals.Get(n).Number())
	case protoreflect.Int32Kind, protoreflect.Sint32Kind, protoreflect.Sfixed32Kind:
		return protoreflect.ValueOfInt32(rapid.Int32().Draw(t, l))
	case protoreflect.Int64Kind, protoreflect.Sint64Kind, protoreflect.Sfixed64Kind:
		return protoreflect.ValueOfInt64(rapid.Int64().Draw(t, l))
	case protoreflect.Uint32Kind, protoreflect.Fixed32Kind:
		return protoreflect.ValueOfUint32(rapid.Uint32().Draw(t, l))
	case protoreflect.Uint64Kind, protoreflect.Fixed64Kind:
		return protoreflect.ValueOfUint64(rapid.Uint64().Draw(t, l))
	case protoreflect.FloatKind:
		return protoreflect.ValueOfFloat32(rapid.Float32().Draw(t, l))
	case protoreflect.DoubleKind:
		return protoreflect.ValueOfFloat64(rapid.Float64().Draw(t, l))
	case protoreflect.StringKind:
		if len(dict) > 0 && rapid.IntRange(0, 2).Draw(t, l+"d") > 0 {
			return protoreflect.ValueOfString(rapid.SampledFrom(dict).Draw(t, l))
		}
		return protoreflect.ValueOfString(rapid.StringOfN(rapid.RuneFrom([]rune("abcXYZ019-._:/ é")), 0, 24, 48).Draw(t, l))
	case protoreflect.BytesKind:
		return protoreflect.ValueOfBytes(rapid.SliceOfN(rapid.Byte(), 0, 48).Draw(t, l))
	}
	panic("unhandled kind " + fd.Kind().String())
}

type c25Env struct {
	fx      *fixture
	cliT    *fakeTransport
	cRPC    rpc.TunnelClient
	methods []rpcMethod
	dict    []string
	// the certificate handed to the server for the next connection (nil = none)
	curCert *client
	noCert  bool
}

func (e *c25Env) dial(ctx context.Context, peer *protocol.Node, kind protocol.Stream_Type) (net.Conn, error) {
	a, b := pipePair()
	d := &transport.StreamDelegate{Conn: a, Identity: peer, Kind: kind}
	if !e.noCert && e.curCert != nil {
		d.Certificate = e.curCert.cert
	}
	select {
	case e.fx.tunT.accept <- d:
	case <-ctx.Done():
		return nil, ctx.Err()
	}
	return b, nil
}

// callThrough performs one RPC through DynamicTunnelClient -> fake transport ->
// StreamRouter -> http.Server -> chi (recoverer, rate limit, body limit) ->
// twirp server with the verifyClientIdentity hook -> handler.
func (e *c25Env) callThrough(m rpcMethod, req proto.Message) (proto.Message, error) {
	ctx, cancel := context.WithTimeout(rpc.WithNode(e.fx.ctx, e.fx.tunT.ident), 60*time.Second)
	defer cancel()
	fn := reflect.ValueOf(e.cRPC).MethodByName(m.Name)
	out := fn.Call([]reflect.Value{reflect.ValueOf(ctx), reflect.ValueOf(req)})
	var err error
	if !out[1].IsNil() {
		err = out[1].Interface().(error)
	}
	if out[0].IsNil() {
		return nil, err
	}
	return out[0].Interface().(proto.Message), err
}

func (e *c25Env) callDirect(ctx context.Context, m rpcMethod, req proto.Message) (resp proto.Message, err error, panicked any) {
	defer func() {
		if r := recover(); r != nil {
			panicked = r
		}
	}()
	fn := reflect.ValueOf(e.fx.srv).MethodByName(m.Name)
	out := fn.Call([]reflect.Value{reflect.ValueOf(ctx), reflect.ValueOf(req)})
	if !out[1].IsNil() {
		err = out[1].Interface().(error)
	}
	if !out[0].IsNil() {
		resp = out[0].Interface().(proto.Message)
	}
	return
}

// machineryError reports errors that say nothing about the property: the rate
// limiter or body limit hit, or the in-memory transport failed.
func machineryError(err error) string {
	var te twirp.Error
	if !errors.As(err, &te) {
		return "non-twirp error: " + err.Error()
	}
	if te.Meta("http_error_from_intermediary") == "true" {
		if te.Meta("status_code") == "429" {
			return "rate limited (429)"
		}
	}
	if te.Code() == twirp.Internal && strings.Contains(te.Msg(), "failed to do request") {
		return "transport: " + te.Error()
	}
	if te.Code() == twirp.DeadlineExceeded || te.Code() == twirp.Canceled {
		return "budget: " + te.Error()
	}
	return ""
}

const (
	clNoDelegation = "no-delegation"
	clNoCert       = "no-certificate"
	clUnregistered = "unregistered-token"
	clBadCN        = "certificate-without-identity"
	clRegistered   = "registered"
)

var c25Classes = []string{clNoDelegation, clNoCert, clUnregistered, clBadCN, clRegistered}

// c25Fault is a storage fault active during one call: which KV operations
// fail, for which keys, how often, and with which error.
type c25Fault struct {
	Ops   string `json:"ops"`   // get | reads | all
	Keys  string `json:"keys"`  // token-key | any
	Count string `json:"count"` // first | every
	Err   string `json:"err"`   // plain | chord-retryable | chord-node-gone | deadline
}

func (f *c25Fault) String() string {
	if f == nil {
		return "none"
	}
	return f.Ops + "/" + f.Keys + "/" + f.Count + "/" + f.Err
}

var (
	c25FaultOps   = []string{"get", "reads", "all"}
	c25FaultKeys  = []string{"token-key", "any"}
	c25FaultCount = []string{"first", "every"}
	c25FaultErrs  = map[string]error{
		"plain":           errors.New("kv storage fault (generated)"),
		"chord-retryable": chord.ErrKVStaleOwnership,
		"chord-node-gone": chord.ErrNodeGone,
		"deadline":        context.DeadlineExceeded,
	}
	c25FaultErrNames = []string{"plain", "chord-retryable", "chord-node-gone", "deadline"}
)

// install arms the fault on kv and returns a func reporting how often it fired.
func (f *c25Fault) install(kv *fakeNode) func() int {
	if f == nil {
		kv.setFault(nil)
		return func() int { return 0 }
	}
	var mu sync.Mutex
	fired := 0
	e := c25FaultErrs[f.Err]
	kv.setFault(func(op string, key []byte) error {
		switch f.Ops {
		case "get":
			if op != "Get" {
				return nil
			}
		case "reads":
			if op != "Get" && op != "PrefixContains" && op != "PrefixList" {
				return nil
			}
		}
		if f.Keys == "token-key" && !strings.HasPrefix(string(key), "/tunnel/client/token/") {
			return nil
		}
		mu.Lock()
		defer mu.Unlock()
		if f.Count == "first" && fired > 0 {
			return nil
		}
		fired++
		return e
	})
	return func() int { mu.Lock(); defer mu.Unlock(); return fired }
}

func TestC25(t *testing.T) {
	rec := ev.New(t, "C25")
	rec.Rule("every method of TunnelService and KeylessService (enumerated by reflection) x caller class {no delegation (direct handler + hook call), no certificate, certificate whose token was never registered (fresh / extension / prefix of a registered token / v2 form / near-collisions of five registered tokens [plain, legacy base64 with slashes, non-ASCII, pre-PKI, v2] under 34 transformations: path-unclean forms, case, whitespace, truncation/extension, padding, percent-encoding, unicode decomposition and look-alikes, alphabet swaps), certificate without a usable identity, registered (v1, v2, pre-PKI record)} x storage fault {none; Get / all reads / all operations failing, for the token key only or any key, first call or every call, with a plain, retryable-chord, node-gone or deadline error} x request body from a generic protoreflect filler (biased to registered hostnames and known node addresses), through the real path DynamicTunnelClient -> transport -> StreamRouter -> http.Server/chi (recoverer, limiter, 1 KiB body limit) -> twirp hook -> handler. First a deterministic sweep of all method x class pairs with an empty body, then two-step histories (a fresh certificate holder's RegisterIdentity fails because every DHT operation on token records fails - four error kinds - and leaves no record; the same caller then calls every gated method on healthy storage and must be refused like any never-registered caller), then rapid-generated cases (one in twelve of them such a two-step history with a generated body). Overlap dimension (class overlapping-verifications): the identity hook is called for a registered client and the DHT's answer to its token lookup is held back; meanwhile a certificate with a never-registered token (same client id and another token / an extension / a prefix / a v2 form, or another id) calls a gated method and must be refused, with no record written for it. Non-trivial: a method outside the {Ping, RegisterIdentity} allow-list whose body is non-empty (or whose request type has no fields at all). Distinct = (method, class, caller variant, body bytes).")
	rec.Assume("a refusal by the authentication gate is observable as a twirp `unauthenticated` error on the wire (as the hook and extractAuthenticated produce), and as any error for a handler/hook invoked without a delegation",
		"under an injected storage fault any refusal code is accepted for callers that must be refused; a registered caller may then be refused too, and a call the gate refuses (unauthenticated) must still change nothing",
		"the transport has verified the certificate chain; the server sees only the parsed certificate",
		"KV = real kv/memory store behind a VNode that counts every mutating call (Put, Delete, PrefixAppend, PrefixRemove, Acquire, Renew, Release, Import); 'changes nothing' = zero mutating calls and identical full KV snapshot")

	selfT := &protocol.Node{Id: 11, Address: "tun-self:443"}
	selfC := &protocol.Node{Id: 12, Address: "chord-self:443"}
	c25OverlappingVerifications(t, rec)

	fx := newFixture(selfT, selfC)
	defer fx.close()
	putDestination(fx.kv, selfC, selfT)

	env := &c25Env{fx: fx, methods: enumerateRPCMethods()}
	env.cliT = newFakeTransport(&protocol.Node{Id: 99, Address: "client-side"})
	env.cliT.dialFn = env.dial
	router := transport.NewStreamRouter(zap.NewNop(), nil, fx.tunT)
	router.Accept(fx.ctx)
	fx.srv.AttachRouter(fx.ctx, router)
	env.cRPC = rpc.DynamicTunnelClient(rpc.DisablePooling(fx.ctx), env.cliT)

	if len(env.methods) < 12 {
		t.Fatalf("reflection found only %d RPC methods", len(env.methods))
	}
	rec.Note("methods", func() []string {
		var s []string
		for _, m := range env.methods {
			s = append(s, m.Service+"."+m.Name)
		}
		return s
	}())

	// registered callers, registered through the real RegisterIdentity RPC
	regV1 := newClientV1("R1", 1001, "tok-registered-one")
	regV2 := newClientV2("R2", 1002, []byte("0123456789abcdef0123456789abcdef"))
	regOld := newClientV1("R3", 1003, "tok-registered-old-format")
	regSlash := newClientV1("R4", 1004, "ab/cd+EF/gh==") // legacy standard-base64 token
	regUni := newClientV1("R5", 1005, "tök-Régistered élan")
	methodByName := map[string]rpcMethod{}
	for _, m := range env.methods {
		methodByName[m.Name] = m
	}
	for _, c := range []*client{regV1, regV2, regSlash, regUni} {
		env.curCert, env.noCert = c, false
		if _, err := env.callThrough(methodByName["RegisterIdentity"], &protocol.RegisterIdentityRequest{}); err != nil {
			t.Fatalf("set-up: RegisterIdentity(%s): %v", c.Name, err)
		}
	}
	// a record written before PKI: no address / rendezvous flag (the hook upgrades it)
	{
		old := &protocol.Node{Id: regOld.ID}
		b, _ := old.MarshalVT()
		fx.kv.MemoryKV.Put(context.Background(), []byte("/tunnel/client/token/"+regOld.Token), b)
	}
	registered := []*client{regV1, regV2, regOld, regSlash, regUni}
	// give the registered clients hostnames, so that bodies can name real things
	for _, c := range []*client{regV1, regV2} {
		for i := 0; i < 2; i++ {
			env.curCert = c
			resp, err := env.callThrough(methodByName["GenerateHostname"], &protocol.GenerateHostnameRequest{})
			if err != nil {
				t.Fatalf("set-up: GenerateHostname(%s): %v", c.Name, err)
			}
			env.dict = append(env.dict, resp.(*protocol.GenerateHostnameResponse).GetHostname())
		}
	}
	env.dict = append(env.dict, selfT.GetAddress(), selfC.GetAddress(), "custom.example.org", "a.b.example.org", regV1.Token)

	// tokens that became registered during the run (RegisterIdentity is open to
	// any certificate holder); the caller class is decided against this model
	registeredTokens := map[string]bool{regV1.Token: true, regV2.Token: true, regOld.Token: true, regSlash.Token: true, regUni.Token: true}
	// near-collisions: never-registered tokens derived from a registered one by a
	// transformation that some key-building or comparison routine might undo
	nearBases := []*client{regV1, regSlash, regUni, regOld, regV2}
	type tokenTransform struct {
		name string
		fn   func(string) string
	}
	swapCase := func(s string) string {
		return strings.Map(func(r rune) rune {
			switch {
			case unicode.IsUpper(r):
				return unicode.ToLower(r)
			case unicode.IsLower(r):
				return unicode.ToUpper(r)
			}
			return r
		}, s)
	}
	firstSep := func(s string) int { return strings.IndexAny(s, "/-:") }
	nearTransforms := []tokenTransform{
		{"double-slash", func(s string) string { return strings.Replace(s, "/", "//", 1) }},
		{"all-double-slash", func(s string) string { return strings.ReplaceAll(s, "/", "//") }},
		{"trailing-slash", func(s string) string { return s + "/" }},
		{"trailing-slash-dot", func(s string) string { return s + "/." }},
		{"leading-dot-slash", func(s string) string { return "./" + s }},
		{"leading-slash", func(s string) string { return "/" + s }},
		{"dot-segment", func(s string) string {
			if i := strings.Index(s, "/"); i >= 0 {
				return s[:i] + "/./" + s[i+1:]
			}
			return s + "/./"
		}},
		{"dotdot-segment", func(s string) string { return "x/../" + s }},
		{"inner-dotdot-segment", func(s string) string {
			if i := strings.Index(s, "/"); i >= 0 {
				return s[:i] + "/y/../" + s[i+1:]
			}
			return s + "/y/.."
		}},
		{"backslash", func(s string) string { return strings.ReplaceAll(s, "/", "\\") }},
		{"percent-encoded-slash", func(s string) string { return strings.ReplaceAll(s, "/", "%2F") }},
		{"percent-encoded-char", func(s string) string { return fmt.Sprintf("%%%02X", s[0]) + s[1:] }},
		{"upper-case", strings.ToUpper},
		{"lower-case", strings.ToLower},
		{"swap-case", swapCase},
		{"leading-space", func(s string) string { return " " + s }},
		{"trailing-space", func(s string) string { return s + " " }},
		{"trailing-tab", func(s string) string { return s + "\t" }},
		{"trailing-newline", func(s string) string { return s + "\n" }},
		{"inner-space", func(s string) string {
			if i := firstSep(s); i >= 0 {
				return s[:i] + " " + s[i:]
			}
			return s[:1] + " " + s[1:]
		}},
		{"drop-last", func(s string) string { return s[:len(s)-1] }},
		{"drop-first", func(s string) string { return s[1:] }},
		{"append-char", func(s string) string { return s + "x" }},
		{"append-padding", func(s string) string { return s + "=" }},
		{"strip-padding", func(s string) string { return strings.TrimRight(s, "=") }},
		{"nfd-decomposed", func(s string) string {
			return strings.NewReplacer("é", "e\u0301", "ö", "o\u0308", "É", "E\u0301").Replace(s)
		}},
		{"ascii-folded", func(s string) string { return strings.NewReplacer("é", "e", "ö", "o", "É", "E").Replace(s) }},
		{"fullwidth-first", func(s string) string {
			r := []rune(s)
			if r[0] > 0x20 && r[0] < 0x7f {
				r[0] += 0xfee0
			}
			return string(r)
		}},
		{"cyrillic-lookalike", func(s string) string {
			return strings.NewReplacer("a", "а", "e", "е", "o", "о", "c", "с").Replace(s)
		}},
		{"zero-width-space", func(s string) string { return s + "\u200b" }},
		{"trailing-nul", func(s string) string { return s + "\x00" }},
		{"plus-for-space", func(s string) string { return strings.ReplaceAll(s, " ", "+") }},
		{"space-for-plus", func(s string) string { return strings.ReplaceAll(s, "+", " ") }},
		{"base64url-alphabet", func(s string) string { return strings.NewReplacer("/", "_", "+", "-").Replace(s) }},
	}
	const baseVariants = 5
	nNear := len(nearBases) * len(nearTransforms)
	// ri = the call is RegisterIdentity itself: it uses a disjoint token family so
	// that the tokens of the "never registered" class stay unregistered
	unregisteredVariant := func(v int, salt string, ri bool) (*client, string) {
		fam := ""
		if ri {
			fam = "-ri"
		}
		if v >= baseVariants {
			k := (v - baseVariants) % nNear
			base, tr := nearBases[k%len(nearBases)], nearTransforms[k/len(nearBases)]
			tok := tr.fn(base.Token)
			label := "near-collision:" + tr.name + ":" + base.Name
			var c *client
			if base == regV2 {
				// v2: the token is the whole common name; keep it parseable as v2
				cn := tr.fn(base.CN) + fam
				if !strings.HasPrefix(cn, "v2:"+strconv.FormatUint(base.ID, 10)+":") {
					cn = "v2:" + strconv.FormatUint(base.ID, 10) + ":" + tr.fn(strings.SplitN(base.CN, ":", 3)[2]) + fam
				}
				c = &client{Name: "U", ID: base.ID, Token: cn, CN: cn, cert: certWithCN(cn)}
			} else {
				c = newClientV1("U", base.ID, tok+fam)
			}
			if !registeredTokens[c.Token] || ri {
				return c, label
			}
			// the transformation is the identity on this token (or produced another
			// registered token): not a never-registered caller, fall back
			v = 0
		}
		switch v {
		case 0:
			return newClientV1("U", 2000, "tok-never-registered-"+salt+fam), "fresh"
		case 1:
			return newClientV1("U", regV1.ID, regV1.Token+salt+"x"+fam), "extension-of-registered"
		case 2:
			cut := 1
			if ri {
				cut = 2
			}
			return newClientV1("U", regV1.ID, regV1.Token[:len(regV1.Token)-cut]), "prefix-of-registered"
		case 3:
			return newClientV2("U", 2003, []byte("never-registered-key-hash-"+salt+fam)), "v2-fresh"
		default:
			// v2 CN that embeds a registered v1 token: token is the whole CN, still unknown
			cn := "v2:2004:" + regV1.Token + fam
			return &client{Name: "U", ID: 2004, Token: cn, CN: cn, cert: certWithCN(cn)}, "v2-embedding-registered"
		}
	}
	badCNs := []string{"v9:1:" + regV1.Token, "v1:" + regV1.Token, regV1.Token, "", "v3:5:x"}

	hookOnly := func(m rpcMethod) error {
		ctx := ctxsetters.WithMethodName(ctxsetters.WithServiceName(context.Background(), m.Service), m.Name)
		_, err := fx.srv.VerifVerifyClientIdentity(ctx)
		return err
	}

	comboSeen := map[string]int{}
	// forceUnreg: the never-registered caller of the next checkOne call (a client whose
	// registration attempt has just failed), instead of one derived from (variant, salt)
	var forceUnreg *client

	checkOne := func(t tb, m rpcMethod, class string, variant int, salt string, req proto.Message, fault *c25Fault) {
		body, _ := proto.Marshal(req)
		if len(body) > 900 {
			t.Fatalf("harness: generated body of %d bytes would hit the 1 KiB limit", len(body))
		}
		allow := c25AllowListed(m.Name)
		hasFields := req.ProtoReflect().Descriptor().Fields().Len() > 0
		nt := !allow && (len(body) > 0 || !hasFields)
		vlabel := ""
		doc := map[string]any{"service": m.Service, "method": m.Name, "class": class, "body_hex": fmt.Sprintf("%x", body), "body": fmt.Sprint(req), "kv_fault": fault.String()}

		var (
			resp     proto.Message
			err      error
			panicked any
			hookErr  error
		)
		before := fx.kv.snapshot()
		fx.kv.takeMutLog()
		mut0 := fx.kv.mutations.Load()
		faultFired := fault.install(fx.kv)

		switch class {
		case clNoDelegation:
			vlabel = "direct"
			hookErr = hookOnly(m)
			resp, err, panicked = env.callDirect(context.Background(), m, req)
		case clNoCert:
			env.curCert, env.noCert = nil, true
			vlabel = "nil-certificate"
		case clUnregistered:
			env.curCert, vlabel = unregisteredVariant(variant%(baseVariants+nNear), salt, m.Name == "RegisterIdentity")
			if forceUnreg != nil {
				env.curCert, vlabel = forceUnreg, "registration-failed-just-before"
			}
			env.noCert = false
			if registeredTokens[env.curCert.Token] && !c25AllowListed(m.Name) {
				t.Fatalf("harness: token %q of the never-registered class is registered", env.curCert.Token)
			}
		case clBadCN:
			cn := badCNs[variant%len(badCNs)]
			vlabel = fmt.Sprintf("cn=%q", cn)
			env.curCert, env.noCert = &client{Name: "B", CN: cn, cert: certWithCN(cn)}, false
		case clRegistered:
			env.curCert, env.noCert = registered[variant%len(registered)], false
			vlabel = env.curCert.Name
		}
		if class != clNoDelegation {
			for attempt := 0; ; attempt++ {
				resp, err = env.callThrough(m, req)
				if err == nil {
					break
				}
				if why := machineryError(err); why != "" {
					if attempt < 2 && strings.HasPrefix(why, "transport") {
						rec.Inconclusive("in-memory transport error, retried")
						continue
					}
					t.Fatalf("harness machinery: %s", why)
				}
				break
			}
		}
		fx.kv.setFault(nil)
		muts := fx.kv.mutations.Load() - mut0
		mutLog := fx.kv.takeMutLog()
		after := fx.kv.snapshot()
		doc["kv_fault_fired"] = faultFired()
		doc["variant"] = vlabel
		doc["mutating_kv_calls"] = mutLog
		code := "ok"
		if err != nil {
			code = "error"
			var te twirp.Error
			if errors.As(err, &te) {
				code = string(te.Code())
			}
			doc["error"] = err.Error()
		}
		doc["outcome"] = code
		comboSeen[m.Name+"|"+class]++
		flabel := "fault:none"
		if fault != nil {
			flabel = "fault:" + fault.Ops + "/" + fault.Count
			if faultFired() > 0 {
				rec.Add("cases_with_kv_fault_fired", 1)
			}
		}
		rec.Case(nt, fmt.Sprintf("%s|%s|%s|%x|%s", m.Name, class, vlabel, body, fault), func() any { return doc },
			"method:"+m.Name, "class:"+class, "outcome:"+class+":"+code, flabel)

		if panicked != nil && !allow {
			rec.Fail(t, "handler-panics-without-delegation", doc, "%s.%s called without a delegation panicked: %v", m.Service, m.Name, panicked)
		}
		if allow {
			if m.Name == "RegisterIdentity" && err == nil && env.curCert != nil && class != clNoDelegation {
				registeredTokens[env.curCert.Token] = true
			}
			return // the statement exempts Ping and RegisterIdentity
		}
		switch class {
		case clRegistered:
			var te twirp.Error
			gateRefused := err != nil && errors.As(err, &te) && te.Code() == twirp.Unauthenticated
			if fault == nil {
				// healthy storage: must not be refused by the gate
				if gateRefused {
					rec.Fail(t, "registered-caller-refused", doc, "%s by registered caller %s refused: %v", m.Name, vlabel, err)
				}
				return
			}
			// storage fault: the gate may refuse, but a call it refuses changes nothing
			if !gateRefused {
				return
			}
		case clNoDelegation:
			if hookErr == nil {
				rec.Fail(t, "hook-admits-call-without-delegation", doc, "routing hook admitted %s without a delegation", m.Name)
			}
			if err == nil {
				rec.Fail(t, "unauthenticated-call-not-refused", doc, "%s without delegation answered %v", m.Name, resp)
			}
		default:
			if err == nil {
				rec.Fail(t, "unauthenticated-call-not-refused", doc, "%s by %s caller (%s) succeeded: %v", m.Name, class, vlabel, resp)
			}
			var te twirp.Error
			// with healthy storage the refusal must come from the gate; under a
			// storage fault any refusal will do
			if fault == nil && (!errors.As(err, &te) || te.Code() != twirp.Unauthenticated) {
				rec.Fail(t, "refusal-not-by-authentication-gate", doc, "%s by %s caller (%s): want twirp unauthenticated, got %v", m.Name, class, vlabel, err)
			}
		}
		if muts != 0 {
			rec.Fail(t, "refused-call-mutated-kv", doc, "refused %s by %s caller made %d mutating KV calls: %v", m.Name, class, muts, mutLog)
		}
		if before != after {
			rec.Fail(t, "refused-call-changed-kv-content", doc, "refused %s by %s caller changed the KV:\n--- before\n%s--- after\n%s", m.Name, class, before, after)
		}
	}

	sweepFaults := []*c25Fault{
		nil,
		{Ops: "get", Keys: "token-key", Count: "first", Err: "plain"},
		{Ops: "get", Keys: "any", Count: "every", Err: "chord-retryable"},
		{Ops: "reads", Keys: "any", Count: "every", Err: "deadline"},
		{Ops: "all", Keys: "any", Count: "first", Err: "chord-node-gone"},
	}
	// deterministic sweep: every method x every class (all variants) x storage fault, empty body
	for _, m := range env.methods {
		for _, class := range c25Classes {
			nv := 1
			switch class {
			case clUnregistered:
				nv = baseVariants + nNear
			case clBadCN:
				nv = len(badCNs)
			case clRegistered:
				nv = len(registered)
			}
			for v := 0; v < nv; v++ {
				for fi, f := range sweepFaults {
					if class == clUnregistered && v >= baseVariants && fi > 0 {
						break // near-collision tokens: healthy storage only in the sweep
					}
					checkOne(t, m, class, v, "sweep", m.newRequest(), f)
				}
			}
		}
	}

	// two-step histories: a certificate holder tries to register while the DHT refuses every
	// operation on token records, so the registration fails and no record is stored; the same
	// caller then calls a method behind the gate on healthy storage. It is a never-registered
	// caller: refused by the gate, nothing changes.
	failedSeq := 0
	failedRegistrationThenCall := func(t tb, m rpcMethod, req proto.Message, errName string) {
		failedSeq++
		c := newClientV1("F", 3000+uint64(failedSeq), fmt.Sprintf("tok-registration-failed-%d", failedSeq))
		env.curCert, env.noCert = c, false
		fired := (&c25Fault{Ops: "all", Keys: "token-key", Count: "every", Err: errName}).install(fx.kv)
		_, rerr := env.callThrough(methodByName["RegisterIdentity"], &protocol.RegisterIdentityRequest{})
		fx.kv.setFault(nil)
		stored, _ := fx.kv.MemoryKV.Get(context.Background(), []byte("/tunnel/client/token/"+c.Token))
		if rerr == nil || len(stored) > 0 {
			// the registration got through after all: a registered caller from now on
			registeredTokens[c.Token] = true
			rec.Add("failed_registration_histories_where_registration_succeeded", 1)
			return
		}
		if why := machineryError(rerr); why != "" {
			rec.Inconclusive("in-memory transport error during a registration")
			return
		}
		rec.Add("failed_registration_histories", 1)
		if fired() > 0 {
			rec.Add("failed_registration_histories_fault_fired", 1)
		}
		forceUnreg = c
		defer func() { forceUnreg = nil }()
		checkOne(t, m, clUnregistered, 0, "after-failed-registration", req, nil)
	}
	for _, m := range env.methods {
		if c25AllowListed(m.Name) {
			continue
		}
		for _, en := range c25FaultErrNames {
			failedRegistrationThenCall(t, m, m.newRequest(), en)
		}
	}

	ev.RapidCheck(t, 2500, 60000, func(t *rapid.T) {
		m := env.methods[rapid.IntRange(0, len(env.methods)-1).Draw(t, "method")]
		if !c25AllowListed(m.Name) && rapid.IntRange(0, 11).Draw(t, "afterFailedRegistration") == 0 {
			req := m.newRequest()
			fillMessage(t, req.ProtoReflect(), 0, env.dict, m.Name)
			failedRegistrationThenCall(t, m, req, rapid.SampledFrom(c25FaultErrNames).Draw(t, "fault-err"))
			return
		}
		class := c25Classes[rapid.IntRange(0, len(c25Classes)-1).Draw(t, "class")]
		variant := rapid.IntRange(0, 4*(baseVariants+nNear)-1).Draw(t, "variant")
		salt := rapid.StringOfN(rapid.RuneFrom([]rune("abc012")), 0, 3, 3).Draw(t, "salt")
		req := m.newRequest()
		fillMessage(t, req.ProtoReflect(), 0, env.dict, m.Name)
		var fault *c25Fault
		if rapid.IntRange(0, 9).Draw(t, "fault?") < 4 {
			fault = &c25Fault{
				Ops:   rapid.SampledFrom(c25FaultOps).Draw(t, "fault-ops"),
				Keys:  rapid.SampledFrom(c25FaultKeys).Draw(t, "fault-keys"),
				Count: rapid.SampledFrom(c25FaultCount).Draw(t, "fault-count"),
				Err:   rapid.SampledFrom(c25FaultErrNames).Draw(t, "fault-err"),
			}
		}
		checkOne(t, m, class, variant, salt, req, fault)
	})

	missing := 0
	for _, m := range env.methods {
		for _, c := range c25Classes {
			if comboSeen[m.Name+"|"+c] == 0 {
				missing++
			}
		}
	}
	rec.Note("method_class_pairs", len(env.methods)*len(c25Classes))
	rec.Note("method_class_pairs_missing", missing)
}
